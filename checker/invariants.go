package main

// Struct-field invariants inferred from "who writes the field" (E4 support):
//   nonNeg(f)      every store to f is a constant >= 0, f+k (k >= 0) or a copy of a nonNeg field
//   le(f,g)        every store to f is 0 or a copy of g, and g only ever grows          ⇒ f <= g
//   leLen(g,h)     g starts at 0, every later store is g+1 at a point where g < len(h) is proven,
//                  and h is never stored after construction                              ⇒ g <= len(h)
// They are re-derived on every run from all stores in the module; nothing is assumed.

import (
	"fmt"
	"go/token"
	"go/types"
	"sort"
	"strings"

	"golang.org/x/tools/go/ssa"
)

type storeClass struct {
	kind  string // const | inc | copy | other
	c     int64
	field string // for copy
	in    *ssa.Store
	inLit bool // store initialises a freshly allocated struct
}

type Invariants struct {
	p       *Prog
	stores  map[string][]storeClass // "Type.field" → stores
	nonNeg  map[string]bool
	le      map[string][]string // f → fields g with f <= g
	leLen   map[string][]string // g → slice fields h with g <= len(h)
	Explain []string
}

func structKey(t types.Type, field int) (string, string) {
	t = derefT(t)
	name := typeStr(t)
	for i := 0; i < 3; i++ {
		o, ok := embeddedOwner[name]
		if !ok {
			break
		}
		name = o
	}
	return name, fieldName(t, field)
}

func BuildInvariants(p *Prog) *Invariants {
	inv := &Invariants{p: p, stores: map[string][]storeClass{}, nonNeg: map[string]bool{}, le: map[string][]string{}, leLen: map[string][]string{}}
	intField := map[string]bool{}
	for _, fn := range p.ModuleFuncs() {
		instrsOf(fn, func(in ssa.Instruction) {
			st, ok := in.(*ssa.Store)
			if !ok {
				return
			}
			fa, ok := st.Addr.(*ssa.FieldAddr)
			if !ok {
				return
			}
			tn, f := structKey(fa.X.Type(), fa.Field)
			key := tn + "." + f
			sc := storeClass{kind: "other", in: st}
			if al, ok := embRoot(fa.X).(*ssa.Alloc); ok {
				_ = al
				sc.inLit = true
			}
			if isIntegerT(st.Val.Type()) {
				intField[key] = true
				if c, ok := constInt(st.Val); ok {
					sc.kind, sc.c = "const", c
				} else if bo, ok := st.Val.(*ssa.BinOp); ok && (bo.Op == token.ADD || bo.Op == token.SUB) {
					if k, ok := constInt(bo.Y); ok {
						if ld := fieldLoad(bo.X); ld != nil && ld.Field == fa.Field && sameEmbBase(ld.X, fa.X) {
							sc.kind = "inc"
							sc.c = k
							if bo.Op == token.SUB {
								sc.c = -k
							}
						}
					}
				} else if ld := fieldLoad(st.Val); ld != nil && sameEmbBase(ld.X, fa.X) {
					sc.kind = "copy"
					_, sc.field = structKey(ld.X.Type(), ld.Field)
				}
			}
			inv.stores[key] = append(inv.stores[key], sc)
		})
	}
	// nonNeg fixpoint
	for changed := true; changed; {
		changed = false
		for key, ss := range inv.stores {
			if inv.nonNeg[key] || !intField[key] {
				continue
			}
			tn := key[:strings.LastIndex(key, ".")]
			ok := true
			for _, s := range ss {
				switch s.kind {
				case "const":
					ok = ok && s.c >= 0
				case "inc":
					ok = ok && s.c >= 0
				case "copy":
					ok = ok && inv.nonNeg[tn+"."+s.field]
				default:
					ok = false
				}
			}
			if ok {
				inv.nonNeg[key] = true
				changed = true
			}
		}
	}
	// integer fields never stored explicitly are zero forever
	// le(f,g)
	for key, ss := range inv.stores {
		if !intField[key] {
			continue
		}
		tn := key[:strings.LastIndex(key, ".")]
		cands := map[string]bool{}
		ok := true
		for _, s := range ss {
			switch s.kind {
			case "const":
				ok = ok && s.c == 0
			case "copy":
				cands[s.field] = true
			default:
				ok = false
			}
		}
		if !ok || len(cands) != 1 {
			continue
		}
		for g := range cands {
			gk := tn + "." + g
			mono := inv.nonNeg[gk]
			for _, s := range inv.stores[gk] {
				if !(s.kind == "inc" && s.c >= 0) && !(s.kind == "const" && s.inLit && s.c >= 0) {
					mono = false
				}
			}
			if mono {
				inv.le[key] = append(inv.le[key], gk)
			}
		}
	}
	return inv
}

// embRoot strips the steps into structs embedded by value: &s.position stands for s.
func embRoot(v ssa.Value) ssa.Value {
	for {
		fa, ok := v.(*ssa.FieldAddr)
		if !ok || !promotedThrough(fa.X.Type(), fa.Field) {
			return v
		}
		v = fa.X
	}
}

// sameEmbBase: do a and b address the same struct (possibly through the same embedded parts)?
func sameEmbBase(a, b ssa.Value) bool {
	if a == b {
		return true
	}
	fa, ok1 := a.(*ssa.FieldAddr)
	fb, ok2 := b.(*ssa.FieldAddr)
	if ok1 && ok2 && fa.Field == fb.Field && promotedThrough(fa.X.Type(), fa.Field) && types.Identical(fa.X.Type(), fb.X.Type()) {
		return sameEmbBase(fa.X, fb.X)
	}
	return false
}

// indexedJustAfter: the increment g = g+1 is followed, in its own block and before any other store to g, by an index
// h[g-1] on the same struct: control leaves the block normally only with g-1 < len(h), i.e. g <= len(h) — the step
// written "advance, then read the rune stepped over" (that the read cannot fail is the index site's own obligation).
func indexedJustAfter(st *ssa.Store, fa *ssa.FieldAddr, hname string) bool {
	b := st.Block()
	after := false
	for _, in := range b.Instrs {
		if in == ssa.Instruction(st) {
			after = true
			continue
		}
		if !after {
			continue
		}
		if s2, ok := in.(*ssa.Store); ok {
			if f2, ok := s2.Addr.(*ssa.FieldAddr); ok && f2.Field == fa.Field && sameEmbBase(f2.X, fa.X) {
				return false
			}
		}
		ia, ok := in.(*ssa.IndexAddr)
		if !ok {
			continue
		}
		hl := fieldLoad(ia.X)
		if hl == nil || !sameEmbBase(embRoot(hl.X), embRoot(fa.X)) || fieldName(hl.X.Type(), hl.Field) != hname {
			continue
		}
		bo, ok := ia.Index.(*ssa.BinOp)
		if !ok || bo.Op != token.SUB {
			continue
		}
		if k, ok := constInt(bo.Y); !ok || k != 1 {
			continue
		}
		if gl := fieldLoad(bo.X); gl != nil && gl.Field == fa.Field && sameEmbBase(gl.X, fa.X) {
			return true
		}
	}
	return false
}

func fieldLoad(v ssa.Value) *ssa.FieldAddr {
	u, ok := v.(*ssa.UnOp)
	if !ok || u.Op != token.MUL {
		return nil
	}
	fa, _ := u.X.(*ssa.FieldAddr)
	return fa
}

// deriveLeLen establishes g <= len(h) invariants; it needs the fact engine (for the guards at each store).
func (inv *Invariants) deriveLeLen(f *Facts) {
	for key, ss := range inv.stores {
		if !inv.nonNeg[key] {
			continue
		}
		tn := key[:strings.LastIndex(key, ".")]
		// candidate slice fields h of the same struct that are only stored in literals
		for hk, hs := range inv.stores {
			if !strings.HasPrefix(hk, tn+".") || hk == key {
				continue
			}
			immutable := true
			var isSlice bool
			for _, s := range hs {
				if !s.inLit {
					immutable = false
				}
				if _, ok := s.in.Val.Type().Underlying().(*types.Slice); ok {
					isSlice = true
				}
			}
			if !immutable || !isSlice {
				continue
			}
			hname := hk[strings.LastIndex(hk, ".")+1:]
			gname := key[strings.LastIndex(key, ".")+1:]
			ok := true
			n := 0
			for _, s := range ss {
				switch {
				case s.kind == "const" && s.c == 0 && s.inLit:
				case s.kind == "inc" && s.c == 1:
					n++
					fa := s.in.Addr.(*ssa.FieldAddr)
					cn := &Canon{p: inv.p}
					base := linStr(cn.expr(fa.X))
					d, _ := f.factsAt(s.in)
					g := lin{base + "." + gname, 0}
					ln := lin{"len(" + base + "." + hname + ")", 0}
					f.addImplicit(d, []string{g.base, ln.base})
					d.close()
					if !d.proves(g, token.LSS, ln) && !indexedJustAfter(s.in, fa, hname) {
						ok = false
					}
				default:
					ok = false
				}
			}
			if ok && n > 0 {
				inv.leLen[key] = append(inv.leLen[key], hk)
				inv.Explain = append(inv.Explain, fmt.Sprintf("%s <= len(%s): starts at 0, each of its %d increments happens where %s < len(%s) is established, %s is never reassigned", key, hk, n, gname, hname, hname))
			}
		}
	}
	sort.Strings(inv.Explain)
}

// implicit adds the invariants that mention base (a canonical expression such as "p:s.current").
func (inv *Invariants) implicit(d *DBM, base string) {
	i := strings.LastIndex(base, ".")
	if i < 0 {
		return
	}
	obj, fld := base[:i], base[i+1:]
	for key := range inv.nonNeg {
		if strings.HasSuffix(key, "."+fld) && inv.nonNeg[key] {
			d.add("", base, 0, "invariant "+key+" >= 0 (all writers store 0, f+k or another such field)")
		}
	}
	for key, gs := range inv.le {
		if strings.HasSuffix(key, "."+fld) {
			for _, g := range gs {
				gn := g[strings.LastIndex(g, ".")+1:]
				d.add(base, obj+"."+gn, 0, "invariant "+key+" <= "+g+" (f is only ever set to g's current value; g only grows)")
			}
		}
	}
	for key, hs := range inv.leLen {
		if strings.HasSuffix(key, "."+fld) {
			for _, h := range hs {
				hn := h[strings.LastIndex(h, ".")+1:]
				d.add(base, "len("+obj+"."+hn+")", 0, "invariant "+key+" <= len("+h+")")
			}
		}
	}
}

// ---- index / slice obligations -------------------------------------------------------------

type BoundsProver struct {
	p   *Prog
	f   *Facts
	inv *Invariants
}

func NewBoundsProver(p *Prog) *BoundsProver {
	inv := BuildInvariants(p)
	f := &Facts{p: p, inv: inv}
	inv.deriveLeLen(f)
	return &BoundsProver{p: p, f: f, inv: inv}
}

func (bp *BoundsProver) dbmFor(at ssa.Instruction, exprs ...lin) *DBM {
	return bp.dbmForC(nil, at, exprs...)
}

func (bp *BoundsProver) dbmForC(cn *Canon, at ssa.Instruction, exprs ...lin) *DBM {
	d, _ := bp.f.factsAt(at)
	if cn != nil {
		for b, lo := range cn.lower {
			d.add("", b, -lo, "counter φ: every incoming value is a constant >= "+fmt.Sprint(lo)+" or the counter plus a non-negative step")
		}
		for b, hi := range cn.upper {
			if hi.base != b {
				d.addRel(lin{b, 0}, token.LEQ, hi, "down-counter φ: starts at "+linStr(hi)+" and every other incoming value is the counter minus a non-negative step")
			}
		}
	}
	var bases []string
	for _, e := range exprs {
		if e.base != "" {
			bases = append(bases, e.base)
			// nested len(...) bases inside
		}
	}
	// also every base already mentioned by a guard
	for a, m := range d.bound {
		bases = append(bases, a)
		for b := range m {
			bases = append(bases, b)
		}
	}
	bp.f.addImplicit(d, bases)
	// second round: invariants may have introduced new bases (e.g. len(s.source))
	var more []string
	for a, m := range d.bound {
		more = append(more, a)
		for b := range m {
			more = append(more, b)
		}
	}
	bp.f.addImplicit(d, more)
	d.close()
	if cn != nil && len(cn.sums) > 0 {
		// a sum of two terms that are both known to be non-negative is non-negative (no wrap-around for the sizes at
		// hand: cursor positions and small constant offsets)
		added := false
		for b, ts := range cn.sums {
			var tb []string
			for _, t := range ts {
				if t.base != "" {
					tb = append(tb, t.base)
				}
			}
			bp.f.addImplicit(d, tb)
			for _, t := range ts {
				if lo, ok := cn.lower[t.base]; ok {
					d.add("", t.base, -lo, "counter/parameter lower bound")
				}
			}
			d.close()
			if d.proves(lin{"", 0}, token.LEQ, ts[0]) && d.proves(lin{"", 0}, token.LEQ, ts[1]) {
				d.add("", b, 0, "sum of two non-negative terms ("+linStr(ts[0])+" + "+linStr(ts[1])+")")
				added = true
			}
		}
		if added {
			d.close()
		}
	}
	return d
}

// ProveIndex: 0 <= idx < len(s) at instruction `at`.
func (bp *BoundsProver) ProveIndex(at ssa.Instruction, s, idx ssa.Value) (bool, string) {
	cn := &Canon{p: bp.p}
	li := cn.expr(idx)
	ls := lin{"len(" + linStr(cn.expr(s)) + ")", 0}
	if mk, ok := s.(*ssa.MakeSlice); ok {
		ls = cn.expr(mk.Len) // the length of a slice just made is its length argument
	}
	if isUnsignedT(idx.Type()) {
		// lower bound trivial
	}
	d := bp.dbmForC(cn, at, li, ls)
	lower := isUnsignedT(idx.Type()) || d.proves(lin{"", 0}, token.LEQ, li)
	upper := d.proves(li, token.LSS, ls)
	if lower && upper {
		return true, fmt.Sprintf("0 <= %s < %s from: %s", linStr(li), linStr(ls), strings.Join(relevant(d, li, ls), "; "))
	}
	miss := []string{}
	if !lower {
		miss = append(miss, "no dominating fact gives 0 <= "+linStr(li))
	}
	if !upper {
		miss = append(miss, "no dominating fact gives "+linStr(li)+" < "+linStr(ls))
	}
	return false, strings.Join(miss, " and ")
}

// ProveSlice: 0 <= lo <= hi <= len(s) (cap for slices of slices is >= len, so len is sufficient).
func (bp *BoundsProver) ProveSlice(at *ssa.Slice) (bool, string) {
	cn := &Canon{p: bp.p}
	sBase := linStr(cn.expr(at.X))
	ls := lin{"len(" + sBase + ")", 0}
	lo, hi := lin{"", 0}, ls
	if at.Low != nil {
		lo = cn.expr(at.Low)
	}
	if at.High != nil {
		hi = cn.expr(at.High)
	}
	d := bp.dbmForC(cn, at, lo, hi, ls)
	var miss []string
	if at.Low != nil && !isUnsignedT(at.Low.Type()) && !d.proves(lin{"", 0}, token.LEQ, lo) {
		miss = append(miss, "0 <= "+linStr(lo))
	}
	if !d.proves(lo, token.LEQ, hi) {
		miss = append(miss, linStr(lo)+" <= "+linStr(hi))
	}
	if at.High != nil && !d.proves(hi, token.LEQ, ls) {
		miss = append(miss, linStr(hi)+" <= "+linStr(ls))
	}
	if len(miss) == 0 {
		return true, fmt.Sprintf("0 <= %s <= %s <= %s from: %s", linStr(lo), linStr(hi), linStr(ls), strings.Join(relevant(d, lo, hi, ls), "; "))
	}
	return false, "not established: " + strings.Join(miss, ", ")
}

// ProveNonNeg / ProveNonZero for shift counts and divisors.
func (bp *BoundsProver) ProveNonNeg(at ssa.Instruction, v ssa.Value) (bool, string) {
	if isUnsignedT(v.Type()) {
		return true, "unsigned"
	}
	cn := &Canon{p: bp.p}
	l := cn.expr(v)
	d := bp.dbmForC(cn, at, l)
	if d.proves(lin{"", 0}, token.LEQ, l) {
		return true, "0 <= " + linStr(l) + " from: " + strings.Join(relevant(d, l), "; ")
	}
	ok, why := nonNegPathwise(at, v)
	if ok {
		return true, "0 <= " + linStr(l) + ": " + why
	}
	return false, "no dominating fact gives 0 <= " + linStr(l) + " (path-wise: " + why + ")"
}

func (bp *BoundsProver) ProveNonZero(at ssa.Instruction, v ssa.Value) (bool, string) {
	cn := &Canon{p: bp.p}
	l := cn.expr(v)
	if l.base == "" {
		return l.off != 0, "constant divisor"
	}
	d := bp.dbmFor(at, l)
	if d.proves(lin{"", 1}, token.LEQ, l) || d.proves(l, token.LEQ, lin{"", -1}) {
		return true, "divisor bounded away from zero"
	}
	for _, ne := range d.ne {
		if (ne[0].base == l.base && ne[1].base == "" && ne[1].off-ne[0].off == -l.off+0) || (ne[1].base == l.base && ne[0].base == "") {
			return true, "guarded by != 0"
		}
	}
	if ok, why := nonZeroPathwise(at, v); ok {
		return true, "divisor non-zero: " + why
	}
	return false, "no dominating fact excludes zero for " + linStr(l)
}

func isUnsignedT(t types.Type) bool {
	b, ok := t.Underlying().(*types.Basic)
	return ok && b.Info()&types.IsUnsigned != 0
}

func relevant(d *DBM, es ...lin) []string {
	var out []string
	for _, w := range d.why {
		for _, e := range es {
			if e.base != "" && strings.Contains(w, e.base) {
				out = append(out, w)
				break
			}
		}
	}
	if len(out) > 6 {
		out = out[:6]
	}
	return out
}
