package main

// E1 — obligation ledger, evidence writer, known-findings matcher, replay files.

import (
	"encoding/json"
	"fmt"
	"os"
	"path/filepath"
	"sort"
	"strings"
	"time"
)

type Status string

const (
	Discharged Status = "discharged"
	Violated   Status = "violated"
	Undecided  Status = "undecided"
	Known      Status = "known"
)

type Obligation struct {
	Rule       string      `json:"rule"`
	Construct  string      `json:"construct"`
	Status     Status      `json:"status"`
	Why        string      `json:"why"`
	Pos        string      `json:"pos,omitempty"`
	Nontrivial bool        `json:"nontrivial,omitempty"`
	Detail     interface{} `json:"detail,omitempty"`
}

type KnownFinding struct {
	Property  string `json:"property"`
	Rule      string `json:"rule"`
	Construct string `json:"construct"`
	What      string `json:"what"`
	Input     string `json:"input,omitempty"`
	Status    string `json:"status"` // "known" | "fixed"
	Commit    string `json:"commit,omitempty"`
}

type Ledger struct {
	Property  string
	Tier      string
	Seed      int
	VerifDir  string
	Obls      []*Obligation
	Notes     []string
	Explain   string
	RuleText  string
	Trusted   []string
	Assume    []string
	Extra     map[string]interface{}
	Funcs     map[string]bool
	CallSites int
	Paths     int
	States    int
	start     time.Time
	index     map[string]*Obligation
	frames    []renameFrame // rule-name rewritings in force while rules shared with another property run (innermost last)
}

type renameFrame struct {
	m    map[string]string
	only bool
	keep func(o *Obligation) bool // with only: a further restriction on the obligations taken over
}

// As runs f with rule names rewritten: a rule owned by one property is a necessary condition of another one too, and
// is then reported under that property's own rule name.  Calls nest: the innermost rewriting is applied first.
func (l *Ledger) As(rename map[string]string, f func()) {
	l.frames = append(l.frames, renameFrame{rename, false, nil})
	defer func() { l.frames = l.frames[:len(l.frames)-1] }()
	f()
}

// AsOnly is As restricted to the listed rules: whatever else f reports is dropped (f is another property's whole check,
// of which only some rules are necessary conditions of this property).
func (l *Ledger) AsOnly(rename map[string]string, f func()) {
	l.frames = append(l.frames, renameFrame{rename, true, nil})
	defer func() { l.frames = l.frames[:len(l.frames)-1] }()
	f()
}

// AsOnlyWhere is AsOnly further restricted to the obligations keep accepts (the part of a program-wide rule that
// concerns this property's components).
func (l *Ledger) AsOnlyWhere(rename map[string]string, keep func(o *Obligation) bool, f func()) {
	l.frames = append(l.frames, renameFrame{rename, true, keep})
	defer func() { l.frames = l.frames[:len(l.frames)-1] }()
	f()
}

func NewLedger(prop, tier string, seed int, verifDir string) *Ledger {
	return &Ledger{Property: prop, Tier: tier, Seed: seed, VerifDir: verifDir, start: time.Now(),
		Extra: map[string]interface{}{}, Funcs: map[string]bool{}, index: map[string]*Obligation{}}
}

func (l *Ledger) add(o *Obligation) *Obligation {
	for i := len(l.frames) - 1; i >= 0; i-- {
		fr := l.frames[i]
		matched := false
		for from, to := range fr.m {
			if strings.HasPrefix(o.Rule, from) {
				o.Rule = to + strings.TrimPrefix(o.Rule, from)
				matched = true
				break
			}
		}
		if fr.only && !matched && !strings.HasPrefix(o.Rule, "infrastructure") {
			return o
		}
		if fr.only && matched && fr.keep != nil && !fr.keep(o) {
			return o
		}
	}
	k := o.Rule + "\x00" + o.Construct
	if old, ok := l.index[k]; ok {
		// keep the worst status for a (rule, construct) pair; merge reasons
		rank := map[Status]int{Discharged: 0, Known: 1, Undecided: 2, Violated: 3}
		if rank[o.Status] > rank[old.Status] {
			old.Status, old.Why, old.Pos, old.Detail = o.Status, o.Why, o.Pos, o.Detail
		} else if rank[o.Status] == rank[old.Status] && o.Status != Discharged && !strings.Contains(old.Why, o.Why) && len(old.Why) < 1500 {
			old.Why += " | " + o.Why
		}
		old.Nontrivial = old.Nontrivial || o.Nontrivial
		return old
	}
	l.index[k] = o
	l.Obls = append(l.Obls, o)
	return o
}

func (l *Ledger) Discharge(rule, construct, pos, why string, nontrivial bool) {
	l.add(&Obligation{Rule: rule, Construct: construct, Status: Discharged, Why: why, Pos: pos, Nontrivial: nontrivial})
}

func (l *Ledger) Violate(rule, construct, pos, why string, detail ...interface{}) {
	o := &Obligation{Rule: rule, Construct: construct, Status: Violated, Why: why, Pos: pos, Nontrivial: true}
	if len(detail) > 0 {
		o.Detail = detail[0]
	}
	l.add(o)
}

func (l *Ledger) Undecide(rule, construct, pos, why string, detail ...interface{}) {
	o := &Obligation{Rule: rule, Construct: construct, Status: Undecided, Why: why, Pos: pos, Nontrivial: true}
	if len(detail) > 0 {
		o.Detail = detail[0]
	}
	l.add(o)
}

func (l *Ledger) Note(format string, a ...interface{}) {
	l.Notes = append(l.Notes, fmt.Sprintf(format, a...))
}

// RequireMin fails the rule as vacuous when fewer than min instances were matched.
func (l *Ledger) RequireMin(rule string, min int, found []string, what string) {
	if len(found) < min {
		sort.Strings(found)
		l.Violate(rule+"/vacuity", what, "", fmt.Sprintf("rule matched %d < %d sites (%s); found: %s", len(found), min, what, strings.Join(found, ", ")))
	} else {
		l.Discharge(rule+"/vacuity", what, "", fmt.Sprintf("%d instances >= floor %d", len(found), min), false)
	}
}

func loadKnown(verifDir string) ([]KnownFinding, error) {
	b, err := os.ReadFile(filepath.Join(verifDir, "known_findings.json"))
	if err != nil {
		if os.IsNotExist(err) {
			return nil, nil
		}
		return nil, err
	}
	var doc struct {
		Findings []KnownFinding `json:"findings"`
	}
	if err := json.Unmarshal(b, &doc); err != nil {
		return nil, err
	}
	return doc.Findings, nil
}

// Finish matches violations against the known-findings file, writes replay files and the
// evidence file, prints the interface lines and returns the process exit code.
func (l *Ledger) Finish(checkerCmd string) int {
	known, err := loadKnown(l.VerifDir)
	if err != nil {
		fmt.Printf("ERROR reading known_findings.json: %v\n", err)
		l.Undecide("infrastructure", "known_findings.json", "", err.Error())
	}
	nViol := 0
	var knownLines []string
	replayDir := filepath.Join(l.VerifDir, "replay")
	os.MkdirAll(replayDir, 0o755)
	// remove stale replay files of this property
	if old, _ := filepath.Glob(filepath.Join(replayDir, l.Property+"-*.json")); old != nil {
		for _, f := range old {
			os.Remove(f)
		}
	}
	sort.SliceStable(l.Obls, func(i, j int) bool {
		if l.Obls[i].Rule != l.Obls[j].Rule {
			return l.Obls[i].Rule < l.Obls[j].Rule
		}
		return l.Obls[i].Construct < l.Obls[j].Construct
	})
	for _, o := range l.Obls {
		if o.Status != Violated {
			continue
		}
		for _, k := range known {
			if k.Status == "known" && k.Property == l.Property && k.Rule == o.Rule && k.Construct == o.Construct {
				o.Status = Known
				knownLines = append(knownLines, fmt.Sprintf("KNOWN-FINDING: property=%s %s [%s @ %s]", l.Property, k.What, o.Rule, o.Construct))
				break
			}
		}
	}
	counts := map[Status]int{}
	nontrivial := 0
	for _, o := range l.Obls {
		counts[o.Status]++
		if o.Nontrivial {
			nontrivial++
		}
	}
	for _, kl := range knownLines {
		fmt.Println(kl)
	}
	n := 0
	for _, o := range l.Obls {
		if o.Status != Violated && o.Status != Undecided {
			continue
		}
		n++
		nViol++
		path := filepath.Join(replayDir, fmt.Sprintf("%s-%d.json", l.Property, n))
		b, _ := json.MarshalIndent(map[string]interface{}{
			"property": l.Property, "obligation": o, "tier": l.Tier,
			"how_to_replay": checkerCmd,
		}, "", " ")
		os.WriteFile(path, b, 0o644)
		fmt.Printf("%s: %s — %s @ %s (%s): %s\n", strings.ToUpper(string(o.Status)), l.Property, o.Rule, o.Construct, o.Pos, o.Why)
		fmt.Printf("VIOLATION property=%s replay=%s\n", l.Property, path)
	}
	l.writeEvidence(checkerCmd, counts, nontrivial, nViol)
	fmt.Printf("%s tier=%s obligations=%d discharged=%d known=%d violated=%d undecided=%d wall=%.1fs\n",
		l.Property, l.Tier, len(l.Obls), counts[Discharged], counts[Known], counts[Violated], counts[Undecided], time.Since(l.start).Seconds())
	if nViol > 0 {
		return 1
	}
	return 0
}

func (l *Ledger) writeEvidence(checkerCmd string, counts map[Status]int, nontrivial, nViol int) {
	var samples []interface{}
	// samples: prefer non-trivial discharged obligations, then known, spread over rules
	seenRule := map[string]int{}
	for _, o := range l.Obls {
		if len(samples) >= 40 {
			break
		}
		if seenRule[o.Rule] >= 3 {
			continue
		}
		if !o.Nontrivial && o.Status == Discharged {
			continue
		}
		seenRule[o.Rule]++
		samples = append(samples, o)
	}
	if len(samples) == 0 {
		for i, o := range l.Obls {
			if i >= 10 {
				break
			}
			samples = append(samples, o)
		}
	}
	var knownList []interface{}
	for _, o := range l.Obls {
		if o.Status == Known {
			knownList = append(knownList, map[string]string{"rule": o.Rule, "construct": o.Construct, "why": o.Why})
		}
	}
	var funcs []string
	for f := range l.Funcs {
		funcs = append(funcs, f)
	}
	sort.Strings(funcs)
	perRule := map[string]map[string]int{}
	for _, o := range l.Obls {
		if perRule[o.Rule] == nil {
			perRule[o.Rule] = map[string]int{}
		}
		perRule[o.Rule][string(o.Status)]++
	}
	cov := map[string]interface{}{
		"explanation":         l.Explain,
		"obligations":         len(l.Obls),
		"discharged":          counts[Discharged],
		"known_findings":      knownList,
		"violated":            counts[Violated],
		"undecided":           counts[Undecided],
		"evaluations":         len(l.Obls),
		"distinct_nontrivial": nontrivial,
		"rule":                l.RuleText,
		"samples":             samples,
		"per_rule":            perRule,
		"functions_analysed":  funcs,
		"call_sites":          l.CallSites,
		"paths_explored":      l.Paths,
		"abstract_states":     l.States,
		"checker_cmd":         checkerCmd,
		"trusted_base":        l.Trusted,
		"notes":               l.Notes,
		"exhaustive":          false,
	}
	for k, v := range l.Extra {
		cov[k] = v
	}
	if l.Assume == nil {
		l.Assume = []string{}
	}
	if l.Trusted == nil {
		l.Trusted = []string{}
	}
	cov["trusted_base"] = l.Trusted
	if l.Notes == nil {
		cov["notes"] = []string{}
	}
	ev := map[string]interface{}{
		"property_id": l.Property,
		"tier":        l.Tier,
		"seed":        l.Seed,
		"level":       "other",
		"coverage":    cov,
		"assumptions": l.Assume,
		"wall_s":      time.Since(l.start).Seconds(),
		"violations":  nViol,
	}
	b, _ := json.MarshalIndent(ev, "", " ")
	dir := filepath.Join(l.VerifDir, "evidence")
	os.MkdirAll(dir, 0o755)
	if err := os.WriteFile(filepath.Join(dir, l.Property+".json"), b, 0o644); err != nil {
		fmt.Printf("ERROR writing evidence: %v\n", err)
	}
}
