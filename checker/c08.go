package main

import (
	"fmt"
	"go/token"
	"go/types"
	"regexp"
	"sort"
	"strings"

	"golang.org/x/tools/go/ssa"
)

func init() {
	register("C08", &Checker{
		Run: checkC08,
		Explain: "Decided: every parse function is explored with the token-cursor primitives abstracted (their bodies are matched against reference words). " +
			"S1 progress ⇒ termination: the set of consuming parse functions is computed as a least fixpoint; every cycle of every parse function's event graph passes through a consumption; no left recursion (the graph of calls made before any consumption is acyclic); advance never moves past EOF; the scanner side: every cycle of the scanner consumes a rune (cursor model). " +
			"S2 no abnormal termination of the front end: lemma d (tokens[current] / tokens[current-1]) and lemma b/c (scanner), see C07. " +
			"S3 accept ⇔ grammar, production by production: for each of the recursion anchors (program, declaration, statement, expression, assignment, unary) the automaton of the code — success paths only, lenient consumes counted as mandatory, non-anchor parse functions inlined bottom-up as minimised DFAs — is compared for regular-language equivalence with the automaton of the grammar production of grammer.txt (বাংলা section; documented reading rules r1 call-suffix chain, r2 assignment, r4 print keyword, and the out-of-domain trailing comma in object literals applied as named rewrites); a shortest distinguishing token/nonterminal word is reported. Lookahead tests may not restrict a following nonterminal's FIRST set except `{` at statement (r3). The semantic filters (reserved names, 255 parameters, assignment target, the `ধরি` line rule) must be exactly the documented set. " +
			"S4 rejected ⇔ flagged ⇔ not run: every error value of the parser originates from (*Parser).error, which reports through utils (flag set); lexical error paths call GlobalError; Interpret is dominated by a false HadError test after both phases (C19/S1-pipeline). " +
			"S5 diagnostic position: syntax errors are reported at the current lookahead token; the filters at their documented token. " +
			"Not decided: Unicode classification per code point; first diagnostic when the text also has lexical errors.",
		Rule:    "obligation = (rule, parse function / production / call site); non-trivial: language-equivalence, progress, lookahead and filter obligations",
		Trusted: []string{"grammer.txt (বাংলা section) as oracle with the named reading rules", "abstract machine + parser model", "subset construction / DFA equivalence"},
	})
}

func checkC08(p *Prog, l *Ledger) {
	pi := getParser(p)
	l.States += pi.States
	for _, pr := range pi.Probs {
		l.Undecide("infrastructure/explorer", "parser:"+pr, "", pr)
	}
	for _, n := range pi.Names {
		l.Funcs["parser.(*Parser)."+n] = true
	}
	checkParserPrimitives(p, l, "C08/S0-cursor-primitives")
	checkProgress(p, l, pi)
	checkGrammarEquivalence(p, l, pi, "C08/S3-grammar")
	// the terminals of that grammar: which runes may stand in a name is decided for every code point (C09's rule) — a
	// symbol taken for a letter turns a text that must be rejected into an accepted one
	checkWordCharacters(p, l, "C08/S3-grammar/word-characters")
	checkLookaheadRestrictions(p, l, pi)
	checkSemanticFilters(p, l, pi)
	checkParserMemory(p, l, "C08/S3-filters/parser-memory")
	checkTargetTransparency(p, l, pi)
	checkErrorOrigin(p, l, pi)
	checkRunPipeline(p, l, "C08/S4-not-run")
	checkFlagWriters(p, l, "C08/S4-flag-writers") // nobody but the reporter raises — and nobody at all clears — the syntax-error flag between the phases
	// lexer totality (progress): every cycle of the scanner graph contains a consumption
	if run := exploreScanToken(p); run != nil {
		if cyc := nonConsumingCycle(run.m.G, func(e *Event) bool { return e.Op == "consume" }); cyc != "" {
			l.Violate("C08/S1-progress", "lexer.scanToken#loop", cyc, "a loop of the scanner can iterate without consuming a rune: scanning may not terminate")
		} else {
			l.Discharge("C08/S1-progress", "lexer.scanToken#loops", "", "every cycle of the scanner's event graph passes through advance()/match()", true)
		}
		for _, e := range run.m.G.Events("consume") {
			if e.KV["unsafe"] != "" {
				l.Violate("C08/S2-no-crash", "lexer#"+e.Site, e.Pos, "advance() reachable where "+e.KV["unsafe"])
			}
		}
		// what is a comment or a string (and therefore not program text) is part of "accepted iff derivable"
		checkExtents(p, l, run.m.G, "C08/S7-lexical-extents")
		// the line a diagnostic names is the line its token carries: tokens are created only by AddToken with the
		// scanner's own line, and every consumed newline is counted exactly once (rules of C09)
		l.AsOnly(map[string]string{"C09/S0-": "C08/S5-position/token-lines/", "C09/S1-": "C08/S5-position/token-lines/", "C09/S4-": "C08/S5-position/token-lines/"}, func() { checkC09(p, l) })
	}
	// "without abnormal termination": the panic-site rules of C07 (unchecked type assertion, index, nil map, division,
	// shift, nil dereference …) for every function of the front end
	l.AsOnlyWhere(map[string]string{"C07/P": "C08/S2-no-crash/P"}, func(o *Obligation) bool {
		for _, d := range []string{"lexer/", "parser/", "token/", "ast/"} {
			if strings.HasPrefix(o.Pos, d) {
				return true
			}
		}
		return false
	}, func() { checkC07(p, l) })
	if ok, why := parserCursorLemma(p); ok {
		l.Discharge("C08/S2-no-crash", "parser#cursor", "", why, true)
	} else {
		l.Violate("C08/S2-no-crash", "parser#cursor", "", why)
	}
}

// ---- primitives -------------------------------------------------------------------------------------

func checkParserPrimitives(p *Prog, l *Ledger, rule string) bool {
	// reference behaviour, stated on what a primitive tests, stores, reports and returns — with every helper of the parser
	// package inlined and the places of the token list and of the position written TOKS and POS (wherever they are kept)
	q := regexp.QuoteMeta
	eof := `\(TOKS\[POS\]\.Type == \d+\)`
	specs := map[string]map[string]string{
		"peek":     {"cur": q("return(TOKS[POS])")},
		"previous": {"prev": q("return(TOKS[(POS - 1)])")},
		"isAtEnd":  {"eof": `return\(` + eof + `\)`},
		"advance": {"move": `test\(` + eof + `\)→false ; ` + q("fieldstore(POS, (POS + 1)) ; return(TOKS[POS])"),
			"stay": `test\(` + eof + `\)→true ; ` + q("return(TOKS[(POS - 1)])")},
		"check": {"end": `test\(` + eof + `\)→true ; return\(false\)`,
			"cmp": `test\(` + eof + `\)→false ; ` + q("return((a1 == TOKS[POS].Type))")},
		"consume": {"ok": `test\(` + eof + `\)→false ; ` + q("test((a1 == TOKS[POS].Type))→true ; fieldstore(POS, (POS + 1)) ; return(TOKS[POS], nil)"),
			"err": `test\(` + eof + `\)→(true|false ; ` + q("test((a1 == TOKS[POS].Type))→false") + `) ; ` + `call\(parser\.\(\*Parser\)\.error, (p, )?` + q("TOKS[POS], a2) ; return(") + `(obj\S*|\?), error\((p,)?` + q("TOKS[POS],a2))")},
		// (as a method: token a1, message a2; as a plain function the same two are its first and second parameter)
		"error": {"report": `(` + q("call(utils.GlobalErrorToken, a1, a2) ; return(Errorf(a2))") + `|` + q("call(utils.GlobalErrorToken, p, a1) ; return(Errorf(a1))") + `)`},
	}
	okAll := true
	if parserCursor(p) == nil {
		l.Undecide(rule, "Parser#cursor", "", "cannot tell where the parser keeps its token list and position (one []token.Token and one int field, in Parser or in one struct it holds)")
		return false
	}
	var names []string
	for n := range specs {
		names = append(names, n)
	}
	sort.Strings(names)
	for _, n := range names {
		fn := p.Func("parser.(*Parser)." + n)
		if fn == nil {
			l.Undecide(rule, "Parser."+n, "", "primitive not found")
			okAll = false
			continue
		}
		words := parserPrimitiveWords(p, fn)
		if words == nil {
			l.Undecide(rule, "Parser."+n, p.Pos(fn.Pos()), "paths not enumerable")
			okAll = false
			continue
		}
		matchWordSet(l, rule, "Parser."+n, p.Pos(fn.Pos()), words, specs[n])
		if o := l.index[rule+"\x00Parser."+n]; o != nil && o.Status != Discharged {
			okAll = false
		}
	}
	// match (and a match that hands back the token): a range over the given types; on the first type the lookahead has,
	// advance and answer true (with the token consumed); false when none matches
	cp := parserCursor(p)
	norm := func(s string) string {
		s = normName(s)
		s = strings.ReplaceAll(s, "p"+cp.path+"."+cp.toksField, "TOKS")
		return strings.ReplaceAll(s, "p"+cp.path+"."+cp.posField, "POS")
	}
	reEOF := regexp.MustCompile(`^test\(` + eof + `\)$`)
	var matchers []*ssa.Function
	for fn, role := range parserPrimitives(p) {
		if role == "match" || role == "take" {
			matchers = append(matchers, fn)
		}
	}
	sort.Slice(matchers, func(i, j int) bool { return p.FuncKey(matchers[i]) < p.FuncKey(matchers[j]) })
	if len(matchers) == 0 {
		l.Undecide(rule, "Parser.match", "", "not found")
		return false
	}
	for _, fn := range matchers {
		take := isTakeShaped(fn)
		m := NewInterpModel(p, "Parser."+fnName(fn))
		m.EmitTests = true
		m.KeepAsEvent = func(c *ssa.Function) bool { return fnPkgName(c) != "parser" || fnName(c) == "error" }
		m.Explore(fn, []AV{Sym("p"), Sym("a1")}, nil)
		// state: phase|what the path knows about "at the end of input" (a test decided by an earlier one leaves no event)
		mon := Monitor{Init: "loop|?", Step: func(st string, ev *Event) string {
			es := norm(ev.String())
			ps := strings.SplitN(st, "|", 2)
			s, eofK := ps[0], ps[1]
			if s == "elem" && eofK == "F" {
				s = "live"
			}
			if s == "elem" && eofK == "T" {
				s = "miss"
			}
			switch ev.Op {
			case "next":
				if s != "loop" {
					return "!the candidate loop is advanced in state " + s
				}
				if ev.Out == "true" {
					return "elem|" + eofK
				}
				return "done|" + eofK
			case "test":
				head := es[:strings.LastIndex(es, "→")]
				if s == "loop" {
					// guards in front of the loop that answer false where the loop would: no candidate types, or the end
					// of input (no type fits there)
					switch {
					case head == "test((len(a1) < 1))" || head == "test((len(a1) == 0))":
						if ev.Out == "true" {
							return "done|" + eofK
						}
						return st
					case reEOF.MatchString(head):
						if ev.Out == "true" {
							return "done|T"
						}
						return "loop|F"
					}
				}
				switch {
				case reEOF.MatchString(head):
					if s == "elem" || s == "live" || s == "miss" {
						if ev.Out == "true" {
							return "miss|T"
						}
						return "live|F"
					}
					if s == "hit" {
						return st // advance re-testing the end of input it cannot be at
					}
				case head == "test((a1[range] == TOKS[POS].Type))" || head == "test((TOKS[POS].Type == a1[range]))":
					if s != "live" {
						return "!the lookahead is compared before the end-of-input test (state " + s + ")"
					}
					if ev.Out == "true" {
						return "hit|" + eofK
					}
					return "miss|" + eofK
				}
				return "!match tests " + es
			case "fieldstore":
				if s == "hit" && es == "fieldstore(POS, (POS + 1))" {
					return "advanced|" + eofK
				}
				return "!match stores " + es + " in state " + s
			case "backedge":
				if s != "miss" {
					return "!match continues the loop in state " + s
				}
				return "loop|" + eofK
			case "return":
				r0 := norm(ev.KV["r0"])
				switch {
				case !take && s == "advanced" && r0 == "true", !take && s == "done" && r0 == "false":
					return ""
				case take && s == "advanced" && r0 == "TOKS[POS]" && ev.KV["r1"] == "true", take && s == "done" && ev.KV["r1"] == "false":
					return ""
				}
				return "!match returns " + ev.KV["r0"] + " " + ev.KV["r1"] + " in state " + s
			case "call":
				return "!unexpected call in match: " + ev.Args[0]
			}
			return st
		}}
		before := len(l.Obls)
		runMon(l, rule, "Parser."+fnName(fn), m, mon, "for each candidate type: not at the end and the lookahead has that type → advance and true (with the token) on the first hit; false when none matches")
		for _, o := range l.Obls[before:] {
			if o.Status != Discharged {
				okAll = false
			}
		}
	}
	return okAll
}

// ---- S1 progress ---------------------------------------------------------------------------------------

// nonConsumingCycle: position of a loop back-edge that lies on a cycle avoiding all consuming events ("" if none).
func nonConsumingCycle(g *Graph, consuming func(*Event) bool) string {
	for n, es := range g.Out {
		for _, e := range es {
			if e.Ev == nil || e.Ev.Op != "backedge" || e.Ev.KV["kind"] == "range" {
				continue
			}
			// can we return from e.To to n without a consuming event?
			seen := map[int]bool{}
			st := []int{e.To}
			for len(st) > 0 {
				x := st[len(st)-1]
				st = st[:len(st)-1]
				if x == n {
					return e.Ev.Pos
				}
				if seen[x] {
					continue
				}
				seen[x] = true
				for _, e2 := range g.Out[x] {
					if e2.Ev != nil && consuming(e2.Ev) {
						continue
					}
					st = append(st, e2.To)
				}
			}
		}
	}
	return ""
}

func checkProgress(p *Prog, l *Ledger, pi *parserInfo) {
	rule := "C08/S1-progress"
	consEvent := func(e *Event) bool {
		switch e.Op {
		case "match":
			return e.Out == "true"
		case "consume":
			return e.Out == "ok"
		case "advance":
			return true
		case "call":
			return e.Out == "ok" && pi.Consuming[e.Args[0]]
		}
		return false
	}
	var cons []string
	nLoops := 0
	for _, name := range pi.Names {
		g := pi.Models[name].G
		if pi.Consuming[name] {
			cons = append(cons, name)
		}
		hasLoop := false
		for _, e := range g.Events("backedge") {
			if e.KV["kind"] != "range" {
				hasLoop = true
			}
		}
		if !hasLoop {
			continue
		}
		nLoops++
		if pos := nonConsumingCycle(g, consEvent); pos != "" {
			l.Violate(rule, "parser."+name+"#loop", pos, "this loop can complete an iteration without consuming a token (no successful match/consume and no successful call of a consuming parse function on the way round): the parser may not terminate")
		} else {
			l.Discharge(rule, "parser."+name+"#loop", "", "every iteration consumes at least one token", true)
		}
	}
	l.Extra["consuming_parse_functions"] = cons
	// left recursion: calls made before any consumption
	edges := map[string]map[string]string{}
	for _, name := range pi.Names {
		for _, e := range pi.Models[name].G.Events("call") {
			if e.KV["cons"] == "" || (e.KV["cons"] != "P" && !anyConsuming(pi, e.KV["cons"])) {
				if edges[name] == nil {
					edges[name] = map[string]string{}
				}
				edges[name][e.Args[0]] = e.Pos
			}
		}
	}
	var cyc []string
	state := map[string]int{}
	var dfs func(n string, path []string) bool
	dfs = func(n string, path []string) bool {
		state[n] = 1
		for c := range edges[n] {
			if state[c] == 1 {
				cyc = append(path, n, c)
				return true
			}
			if state[c] == 0 && dfs(c, append(path, n)) {
				return true
			}
		}
		state[n] = 2
		return false
	}
	found := false
	for _, n := range pi.Names {
		if state[n] == 0 && dfs(n, nil) {
			found = true
			break
		}
	}
	if found {
		l.Violate(rule, "parser#left-recursion", "", "parse functions call each other in a cycle before consuming any token ("+strings.Join(cyc, " → ")+"): unbounded recursion on some input")
	} else {
		l.Discharge(rule, "parser#left-recursion", "", fmt.Sprintf("the call-before-consumption graph over %d parse functions is acyclic", len(pi.Names)), true)
	}
	if nLoops < 15 {
		l.Violate(rule+"/vacuity", "parse loops", "", fmt.Sprintf("only %d parse functions with loops found (19 expected: Parse, varDeclaration, parameters, block, 11 ladder levels, call, finishCall, objectLiteral, arrayLiteral)", nLoops))
	}
	if len(cons) < 25 {
		l.Violate(rule+"/vacuity", "consuming functions", "", fmt.Sprintf("only %d consuming parse functions computed: %v", len(cons), cons))
	}
}

func anyConsuming(pi *parserInfo, set string) bool {
	for _, c := range strings.Split(set, ",") {
		if c != "" && pi.Consuming[c] {
			return true
		}
	}
	return false
}

// ---- S3 grammar equivalence ------------------------------------------------------------------------------

func checkGrammarEquivalence(p *Prog, l *Ledger, pi *parserInfo, rule string) {
	g, err := LoadGrammar(p.RepoDir, "বাংলা")
	if err != nil {
		l.Undecide(rule, "grammer.txt", "", "cannot read the grammar oracle: "+err.Error())
		return
	}
	l.Extra["grammar_productions"] = len(g.Prods)
	pairs := [][2]string{{"program", "Parse"}}
	var nts []string
	for nt := range parseAnchors {
		nts = append(nts, nt)
	}
	sort.Strings(nts)
	for _, nt := range nts {
		pairs = append(pairs, [2]string{nt, parseAnchors[nt]})
	}
	for _, pr := range pairs {
		nt, fn := pr[0], pr[1]
		key := nt + "≡" + fn
		gd, _, err := pi.GrammarDFA(g, nt)
		if err != nil {
			l.Undecide(rule, key, "", "grammar side: "+err.Error())
			continue
		}
		cd, err := pi.CodeDFA(fn)
		if err != nil {
			l.Undecide(rule, key, "", "code side: "+err.Error())
			continue
		}
		// direct right recursion ≡ iteration (both sides brought to the same normal form)
		cd, gd = ardenNormalize(cd, "N:"+fn), ardenNormalize(gd, "N:"+fn)
		word, inCode, differ := dfaDiff(cd, gd)
		if !differ {
			l.Discharge(rule, key, "", fmt.Sprintf("L(code)=L(grammar) over tokens and anchor nonterminals (code DFA %d states, grammar DFA %d states)", len(cd.acc), len(gd.acc)), true)
			continue
		}
		w := strings.Join(word, " ")
		if w == "" {
			w = "ε"
		}
		if inCode {
			l.Violate(rule, key, "", "the parser accepts, as a "+nt+", the sequence  "+w+"  which the published grammar does not derive")
		} else {
			l.Violate(rule, key, "", "the published grammar derives, as a "+nt+", the sequence  "+w+"  which the parser does not accept")
		}
	}
}

// ---- lookahead restrictions (r3) ---------------------------------------------------------------------------

func checkLookaheadRestrictions(p *Prog, l *Ledger, pi *parserInfo) {
	rule := "C08/S3-lookahead"
	anchorFirst, err := pi.FirstTokens()
	if err != nil {
		l.Undecide(rule, "FIRST sets", "", err.Error())
		return
	}
	n := 0
	for _, name := range pi.Names {
		for _, e := range pi.Models[name].G.Events("call") {
			if e.Out != "ok" || e.KV["notla"] == "" {
				continue
			}
			n++
			first, err := pi.FirstOf(e.Args[0], anchorFirst)
			if err != nil {
				l.Undecide(rule, name+"→"+e.Args[0], e.Pos, err.Error())
				continue
			}
			var cut []string
			for _, t := range strings.Split(e.KV["notla"], ",") {
				if first[t] {
					cut = append(cut, t)
				}
			}
			key := name + "→" + e.Args[0]
			if len(cut) == 0 {
				l.Discharge(rule, key, e.Pos, "the lookahead tests before this call exclude only tokens that cannot start "+e.Args[0], true)
				continue
			}
			sort.Strings(cut)
			if name == "statement" && e.Args[0] == "expressionStatement" && strings.Join(cut, ",") == "LEFT_BRACE" {
				l.Discharge(rule, key, e.Pos, "documented reading rule r3: `{` at the start of a statement opens a block, not an object-literal expression statement", true)
				continue
			}
			l.Violate(rule, key, e.Pos, name+" calls "+e.Args[0]+" only when the next token is not "+strings.Join(cut, "/")+", although "+e.Args[0]+" can start with it: valid programs are rejected (or parsed differently) here")
		}
	}
	if n < 4 {
		l.Violate(rule+"/vacuity", "guarded calls", "", fmt.Sprintf("only %d lookahead-guarded calls found", n))
	}
}

// checkParserMemory: between two constructs the parser remembers nothing but where it stands.  The structs that live as
// long as the parser (Parser and what its fields hold) are written, after construction, only at the cursor position; no
// table reachable from them is updated.  A parser that remembers names, nodes or counts from one construct to the next
// accepts or builds a construct differently depending on code that stands elsewhere in the text — code that may never
// run.
func checkParserMemory(p *Prog, l *Ledger, rule string) {
	cp := parserCursor(p)
	pk := p.Pkg("parser")
	if cp == nil || pk == nil {
		l.Undecide(rule, "Parser#state", "", "cannot tell where the parser keeps its position")
		return
	}
	persistent := map[string]bool{"parser.Parser": true}
	var grow func(t types.Type, depth int)
	grow = func(t types.Type, depth int) {
		st, ok := derefT(t).Underlying().(*types.Struct)
		if !ok || depth > 3 {
			return
		}
		for i := 0; i < st.NumFields(); i++ {
			ft := derefT(st.Field(i).Type())
			if n, ok := ft.(*types.Named); ok && n.Obj().Pkg() != nil && n.Obj().Pkg().Name() == "parser" {
				if _, isStruct := n.Underlying().(*types.Struct); isStruct && !persistent[typeStr(n)] {
					persistent[typeStr(n)] = true
					grow(n, depth+1)
				}
			}
		}
	}
	if pt, _ := pk.Members["Parser"].(*ssa.Type); pt != nil {
		grow(pt.Type(), 0)
	}
	var fromPersistent func(v ssa.Value, depth int) string
	fromPersistent = func(v ssa.Value, depth int) string {
		if depth > 6 {
			return ""
		}
		switch x := v.(type) {
		case *ssa.UnOp:
			return fromPersistent(x.X, depth+1)
		case *ssa.IndexAddr:
			return fromPersistent(x.X, depth+1)
		case *ssa.Index:
			return fromPersistent(x.X, depth+1)
		case *ssa.Lookup:
			return fromPersistent(x.X, depth+1)
		case *ssa.Slice:
			return fromPersistent(x.X, depth+1)
		case *ssa.Extract:
			return fromPersistent(x.Tuple, depth+1)
		case *ssa.FieldAddr:
			if tn, f := structKey(x.X.Type(), x.Field); persistent[tn] {
				return tn + "." + f
			}
			return fromPersistent(x.X, depth+1)
		case *ssa.Field:
			if tn, f := structKey(x.X.Type(), x.Field); persistent[tn] {
				return tn + "." + f
			}
		}
		return ""
	}
	n := 0
	bad := map[string]string{}
	for _, fn := range p.ModuleFuncs() {
		if fnPkgName(fn) != "parser" {
			continue
		}
		fk := p.FuncKey(fn)
		instrsOf(fn, func(in ssa.Instruction) {
			switch x := in.(type) {
			case *ssa.Store:
				fa, ok := x.Addr.(*ssa.FieldAddr)
				if !ok {
					return
				}
				tn, f := structKey(fa.X.Type(), fa.Field)
				if !persistent[tn] {
					return
				}
				n++
				var root ssa.Value = fa.X
				for {
					inner, isFA := root.(*ssa.FieldAddr)
					if !isFA {
						break
					}
					root = inner.X
				}
				if _, fresh := root.(*ssa.Alloc); fresh {
					return // the literal of a constructor (nested struct literals included)
				}
				if tn == cp.posType && f == cp.posField {
					return
				}
				bad[fk+"#store("+tn+"."+f+")"] = p.InstrPos(in)
			case *ssa.MapUpdate:
				if src := fromPersistent(x.Map, 0); src != "" {
					n++
					bad[fk+"#update("+src+")"] = p.InstrPos(in)
				}
			}
		})
	}
	var keys []string
	for k := range bad {
		keys = append(keys, k)
	}
	sort.Strings(keys)
	for _, k := range keys {
		l.Violate(rule, k, bad[k], "the parser changes state of its own other than its position while parsing: what it does with one construct comes to depend on the constructs parsed before it (names, nodes or counts remembered across the text — including text that never runs)")
	}
	if len(bad) == 0 {
		l.Discharge(rule, "Parser#state", "", fmt.Sprintf("after construction the parser writes nothing but its position (%d writes to parser-lifetime structs looked at: %s)", n, strings.Join(sortedKeysOf(persistentSet(persistent)), ", ")), true)
	}
	if n < 2 {
		l.Violate(rule+"/vacuity", "Parser#state", "", fmt.Sprintf("only %d writes to parser state found", n))
	}
}

func persistentSet(m map[string]bool) map[string]bool { return m }

// ---- semantic filters -----------------------------------------------------------------------------------------

func checkSemanticFilters(p *Prog, l *Ledger, pi *parserInfo) {
	rule := "C08/S3-filters"
	type filt struct{ fn, what, tokPrefix string }
	documented := []filt{
		{"primary", "no alternative of primary matches (not a filter: the grammar-level error)", "peek@"},
		{"varDeclaration", "a built-in name used as a variable name", "tok@"},
		{"varDeclaration", "the undocumented line-break rule of ধরি declarations (out of domain)", "peek@"},
		{"function", "a built-in name used as a function name", "tok@"},
		{"function", "more than 255 parameters", "peek@"},
		{"assignment", "assignment to a non-assignable left side, reported at the = token", "prev(match)@"},
	}
	seen := map[string][]*Event{}
	for _, name := range pi.Names {
		for _, e := range pi.Models[name].G.Events("error") {
			seen[name] = append(seen[name], e)
		}
	}
	want := map[string]int{}
	for _, d := range documented {
		want[d.fn]++
	}
	var fns []string
	for f := range seen {
		fns = append(fns, f)
	}
	for f := range want {
		if _, ok := seen[f]; !ok {
			fns = append(fns, f)
		}
	}
	sort.Strings(fns)
	for _, f := range fns {
		es := seen[f]
		sites := map[string]*Event{}
		for _, e := range es {
			sites[e.Site] = e
		}
		if len(sites) != want[f] {
			var msgs []string
			for _, e := range sites {
				msgs = append(msgs, e.Args[len(e.Args)-1]+" @"+e.Pos)
			}
			sort.Strings(msgs)
			if len(sites) > want[f] {
				l.Violate(rule, "parser."+f+"#filters", "", fmt.Sprintf("%s rejects input with %d rules of its own, %d are documented: %s — an extra rule rejects programs the grammar derives", f, len(sites), want[f], strings.Join(msgs, "; ")))
			} else {
				l.Violate(rule, "parser."+f+"#filters", "", fmt.Sprintf("%s has %d rejection rules, %d are documented (reserved names / 255 parameters / assignment target): a missing rule accepts programs that must be rejected; present: %s", f, len(sites), want[f], strings.Join(msgs, "; ")))
			}
			continue
		}
		// S5: the token reported
		var prefixes []string
		for _, d := range documented {
			if d.fn == f {
				prefixes = append(prefixes, d.tokPrefix)
			}
		}
		okTok := true
		for _, e := range sites {
			match := false
			for _, pf := range prefixes {
				if strings.HasPrefix(e.Args[0], pf) {
					match = true
				}
			}
			if !match {
				okTok = false
				l.Violate("C08/S5-position", "parser."+f+"#"+e.Args[len(e.Args)-1], e.Pos, "the diagnostic is attached to token "+e.Args[0]+" instead of the documented one (lookahead for syntax errors, the offending name, the = of an invalid assignment)")
			}
		}
		if okTok {
			l.Discharge(rule, "parser."+f+"#filters", "", fmt.Sprintf("%d documented rejection rule(s), reported at the documented token", len(sites)), true)
		}
	}
	// reserved table = registered built-ins
	reg, _ := registeredBuiltins(p)
	res := reservedNames(p)
	for n := range reg {
		if !res[n] {
			l.Violate(rule, "reserved:"+n, "", "built-in "+n+" is not in the parser's reserved table")
		}
	}
	if len(res) >= len(reg) && len(reg) > 0 {
		l.Discharge(rule, "reserved-table", "", fmt.Sprintf("%d reserved names ⊇ %d registered built-ins", len(res), len(reg)), true)
	}
	// every name token that becomes the name of a declared variable or function has been looked up in the reserved
	// table, and found absent, on the path that stores it (a check made for the first declarator only, or for a
	// different token, leaves a way to declare a built-in name)
	for _, f := range []string{"varDeclaration", "function"} {
		m := pi.Models[f]
		if m == nil {
			continue
		}
		stored := 0
		mon := Monitor{Init: "|", Step: func(st string, ev *Event) string {
			checked := strings.Split(st, "|")
			has := func(x string) bool {
				for _, c := range checked {
					if c == x {
						return true
					}
				}
				return false
			}
			drop := func(x string) string {
				var out []string
				for _, c := range checked {
					if c != x && c != "" {
						out = append(out, c)
					}
				}
				return "|" + strings.Join(out, "|")
			}
			switch {
			case ev.Op == "consume" && ev.Out == "ok":
				return drop(ev.KV["res"]) // a token consumed anew at this site has not been checked yet
			case ev.Op == "test" && strings.Contains(ev.Args[0], "reservedIdentifiers[") && ev.Out == "false":
				if i := strings.Index(ev.Args[0], "reservedIdentifiers["); i >= 0 {
					x := strings.TrimSuffix(strings.TrimSuffix(ev.Args[0][i+len("reservedIdentifiers["):], "]"), ".Lexeme")
					if !has(x) {
						return st + "|" + x
					}
				}
			case ev.Op == "field" && (ev.Args[0] == "VarStmt" || ev.Args[0] == "FunctionStmt") && ev.Args[1] == "Name":
				stored++
				if !has(ev.Args[2]) {
					return "!" + ev.Args[0] + ".Name is set from " + ev.Args[2] + ", a name token that was not looked up in the reserved table (and found absent) on this path: a built-in name can be declared"
				}
			}
			return st
		}}
		ws := m.G.Run(mon)
		for _, w := range ws {
			l.Violate(rule, "parser."+f+"#reserved-lookup", posOf(w), w.Msg, witnessDetail(w))
		}
		if len(ws) == 0 && stored > 0 {
			l.Discharge(rule, "parser."+f+"#reserved-lookup", "", "every declared name's lexeme is looked up in the reserved table before it is stored in the node", true)
		} else if stored == 0 {
			l.Violate(rule, "parser."+f+"#reserved-lookup", "", "no store of a declared name found in "+f)
		}
	}
}

// ---- S4 error origin ----------------------------------------------------------------------------------------------

func checkErrorOrigin(p *Prog, l *Ledger, pi *parserInfo) {
	rule := "C08/S4-flagged"
	// every error value created in package parser comes from (*Parser).error
	n := 0
	for _, fn := range p.ModuleFuncs() {
		if fnPkgName(fn) != "parser" {
			continue
		}
		fk := p.FuncKey(fn)
		instrsOf(fn, func(in ssa.Instruction) {
			switch x := in.(type) {
			case *ssa.Call:
				if c := x.Call.StaticCallee(); c != nil {
					name := extName(c)
					if (name == "fmt.Errorf" || name == "errors.New") && fk != "parser.(*Parser).error" {
						n++
						l.Violate(rule, fk+"#"+name, p.InstrPos(in), "an error value is created without going through (*Parser).error: the text is rejected by the returned error but no diagnostic is written and the error flag stays clear, so main would run it")
					}
				}
			case *ssa.MakeInterface:
				if typeStr(x.Type()) == "error" && fk != "parser.(*Parser).error" {
					n++
					l.Violate(rule, fk+"#error-value("+typeStr(x.X.Type())+")", p.InstrPos(in), "an error value of type "+typeStr(x.X.Type())+" is created outside (*Parser).error (no diagnostic, flag not set)")
				}
			}
		})
	}
	if n == 0 {
		l.Discharge(rule, "parser#error-values", "", "every error value of the parser is produced by (*Parser).error, which reports through utils.GlobalErrorToken", true)
	}
	// report sets the flag on its only path; GlobalError/GlobalErrorToken always reach report
	for _, name := range []string{"utils.report", "utils.GlobalError", "utils.GlobalErrorToken"} {
		fn := p.Func(name)
		if fn == nil {
			l.Undecide(rule, name, "", "not found")
			continue
		}
		m := NewInterpModel(p, name)
		m.MainMode = true
		var params []AV
		for _, prm := range fn.Params {
			params = append(params, Sym(prm.Name()))
		}
		m.Explore(fn, params, nil)
		ws, ok := m.G.Words(50)
		good := ok && len(ws) > 0
		for _, w := range ws {
			if name == "utils.report" {
				stderr := hasOp(w, "fprint", func(e *Event) bool {
					return strings.Contains(e.KV["dest"], "os.Stderr") && strings.Contains(strings.Join(e.Args, " "), "[line %d]")
				})
				flag := hasOp(w, "globalstore", func(e *Event) bool { return e.Args[0] == "HadError" && e.Args[1] == "true" })
				if !stderr || !flag {
					good = false
				}
			} else if !hasOp(w, "call", func(e *Event) bool { return e.Args[0] == "utils.report" }) {
				good = false
			}
		}
		if good {
			l.Discharge(rule, name, p.Pos(fn.Pos()), "on every path: diagnostic with [line N] on stderr and HadError := true", true)
		} else {
			l.Violate(rule, name, p.Pos(fn.Pos()), "not every path of "+name+" writes the diagnostic to stderr and raises HadError")
		}
	}
	// lexical error paths: every scanToken path without a token and not a documented skip reports (C09/S2); here: lexerror events exist
	if run := exploreScanToken(p); run != nil {
		if len(run.m.G.Events("lexerror")) >= 3 {
			l.Discharge(rule, "lexer#diagnostics", "", "unexpected character, unterminated string, unterminated comment and invalid number all call GlobalError (see C09/S2 for the path-level argument)", true)
		} else {
			l.Violate(rule, "lexer#diagnostics", "", "fewer than 3 lexical diagnostic sites reach GlobalError")
		}
	}
}

// ---- lemma d -------------------------------------------------------------------------------------------------------

func parserCursorLemma(p *Prog) (bool, string) {
	var why []string
	scratch := NewLedger("lemma", "quick", 0, "")
	if !checkParserPrimitives(p, scratch, "prim") {
		for _, o := range scratch.Obls {
			if o.Status != Discharged {
				why = append(why, o.Construct+": "+o.Why)
			}
		}
	}
	// current is written only by advance; tokens only by NewParser
	for _, fn := range p.ModuleFuncs() {
		fk := p.FuncKey(fn)
		instrsOf(fn, func(in ssa.Instruction) {
			st, ok := in.(*ssa.Store)
			if !ok {
				return
			}
			fa, ok := st.Addr.(*ssa.FieldAddr)
			if !ok {
				return
			}
			tn, f := structKey(fa.X.Type(), fa.Field)
			cp := parserCursor(p)
			if cp == nil {
				return
			}
			ownedBy := func(owner string) bool { return fk == owner || p.OwnedBy(fn, owner) }
			if tn == cp.posType && f == cp.posField {
				if !ownedBy("parser.(*Parser).advance") && !ownedBy("parser.NewParser") {
					why = append(why, "the parser's position ("+tn+"."+f+") is also written by "+fk)
				}
			}
			if tn == cp.toksType && f == cp.toksField {
				if !ownedBy("parser.NewParser") {
					why = append(why, "the parser's token list ("+tn+"."+f+") is also written by "+fk)
				}
			}
			// the struct that holds the cursor is itself put into the parser only at construction
			if tn == "parser.Parser" && cp.path != "" && "."+f == cp.path && !ownedBy("parser.NewParser") {
				why = append(why, "the parser's cursor (Parser"+cp.path+") is replaced by "+fk)
			}
		})
	}
	// the token list ends with EOF and NewParser receives exactly ScanTokens' result
	scratch2 := NewLedger("lemma", "quick", 0, "")
	checkScanTokensLoop(p, scratch2)
	for _, o := range scratch2.Obls {
		if o.Status != Discharged {
			why = append(why, "ScanTokens: "+o.Why)
		}
	}
	if _, ws, _ := exploreMain(p, scratch2, "main.run"); ws != nil {
		for _, w := range ws {
			scan := ""
			for _, e := range w {
				if e.Op == "call" && strings.HasSuffix(e.Args[0], ".ScanTokens") {
					scan = e.KV["res"] // the name of the token list this path got from the scanner
				}
				if e.Op == "call" && e.Args[0] == "parser.NewParser" {
					if len(e.Args) < 2 || scan == "" || e.Args[1] != scan {
						why = append(why, "NewParser is given "+strings.Join(e.Args[1:], ",")+", not the scanner's token list ("+scan+")")
					}
				}
			}
		}
	}
	for _, cs := range p.CallSites(p.Func("parser.NewParser")) {
		if fk := p.FuncKey(cs.Parent()); !p.OwnedBy(cs.Parent(), "main.run") {
			why = append(why, "NewParser is also called from "+fk+" (token list not known to end with EOF)")
		}
	}
	// previous(): only after a consumption
	pi := getParser(p)
	needsCaller := map[string]bool{}
	for _, name := range pi.Names {
		for _, e := range pi.Models[name].G.Events("previous") {
			c := e.KV["cons"]
			if c == "P" || anyConsuming(pi, c) {
				continue
			}
			needsCaller[name] = true
		}
	}
	for name := range needsCaller {
		found := false
		for _, caller := range pi.Names {
			for _, e := range pi.Models[caller].G.Events("call") {
				if e.Args[0] != name {
					continue
				}
				found = true
				if c := e.KV["cons"]; !(c == "P" || anyConsuming(pi, c)) {
					why = append(why, name+" uses previous() at entry but "+caller+" calls it before consuming any token")
				}
			}
		}
		if !found {
			why = append(why, name+" uses previous() at entry and has no explored caller")
		}
	}
	why = uniqStrings(sortStrings(why))
	if len(why) > 0 {
		return false, "lemma d fails: " + strings.Join(why, "; ")
	}
	return true, "lemma d: current is moved only by advance(), which increments only when tokens[current] is not EOF; the token list handed to NewParser is ScanTokens' result, whose last element is the only EOF, so current <= len-1; tokens is never reassigned; every previous() follows a consumption in the same function or in every caller, so current >= 1 there"
}

// ---- S6 assignment targets ----------------------------------------------------------------------------------------
//
// The parser decides "is the left side assignable" from the *node type* of the already parsed left side.  That
// agrees with the grammar (IDENTIFIER | arrayAccess | propertyAccess before "=") only if a node of a target type is
// the parse of exactly a target form.  Structural necessary condition decided here: an expression-level parse
// function that hands the node of a sub-parser on *unchanged* must not have consumed any other token on that path
// when the node may have a target type — otherwise the extra tokens (parentheses, a prefix operator …) vanish from
// the tree and `( x ) = 1` is accepted as `x = 1`.
func checkTargetTransparency(p *Prog, l *Ledger, pi *parserInfo) {
	rule := "C08/S6-assignment-target"
	am := pi.Models["assignment"]
	if am == nil {
		l.Undecide(rule, "parser.assignment", "", "the assignment parse function was not found")
		return
	}
	targets := map[string]bool{}
	for _, e := range am.G.Events("typetest") {
		if strings.HasPrefix(e.Args[1], "*ast.") {
			targets[strings.TrimPrefix(e.Args[1], "*ast.")] = true
		}
	}
	if len(targets) == 0 {
		l.Discharge(rule, "parser.assignment#targets", "", "assignment does not decide assignability by node type: rule not applicable to this parser shape", false)
		return
	}
	type passRec struct {
		callee   string
		consumed []string
		only     map[string]bool // positive type tests on the passed node (nil = none)
		not      map[string]bool
		pos      string
	}
	fresh := map[string]map[string]bool{}
	passes := map[string][]passRec{}
	// one product search per function: the monitor state is the finite summary (token consumptions, successful
	// sub-parser calls, fresh nodes, type tests) of the path so far; every ok-return is reported as a record
	setAdd := func(set, x string) string {
		items := map[string]bool{x: true}
		for _, y := range strings.Split(set, "\x02") {
			if y != "" {
				items[y] = true
			}
		}
		var out []string
		for y := range items {
			out = append(out, y)
		}
		sort.Strings(out)
		return strings.Join(out, "\x02")
	}
	for _, name := range pi.Names {
		m := pi.Models[name]
		fresh[name] = map[string]bool{}
		mon := Monitor{Init: "\x01\x01\x01", Also: map[string]bool{"typetest": true}, Step: func(state string, e *Event) string {
			f := strings.Split(state, "\x01") // consumed, calls, nodes, tests
			switch {
			case e.Op == "match" && e.Out == "true":
				f[0] = setAdd(f[0], "match("+strings.Join(e.Args, ",")+")")
			case e.Op == "consume" && e.Out == "ok":
				f[0] = setAdd(f[0], "consume("+e.Args[0]+")")
			case e.Op == "advance":
				f[0] = setAdd(f[0], "advance()")
			case e.Op == "call" && e.Out == "ok":
				f[1] = setAdd(f[1], e.KV["res"]+"="+e.Args[0])
				if pi.Consuming[e.Args[0]] {
					f[0] = setAdd(f[0], e.Args[0]+"()="+e.KV["res"])
				}
			case e.Op == "node":
				f[2] = setAdd(f[2], e.Out+"="+e.Args[0])
			case e.Op == "typetest" && strings.HasPrefix(e.Args[1], "*ast."):
				f[3] = setAdd(f[3], e.Args[0]+"="+e.Out+":"+strings.TrimPrefix(e.Args[1], "*ast."))
			case e.Op == "return" && e.Out == "ok":
				return "!" + e.KV["r0"] + "\x01" + e.Pos + "\x01" + strings.Join(f, "\x01")
			case e.Op == "return":
				return ""
			}
			return strings.Join(f, "\x01")
		}}
		for _, w := range m.G.Run(mon) {
			f := strings.Split(strings.TrimPrefix(w.Msg, "!"), "\x01")
			r0, pos := f[0], f[1]
			if r0 == "" || r0 == "nil" {
				continue
			}
			isFresh := false
			for _, n := range strings.Split(f[4], "\x02") {
				if strings.HasPrefix(n, r0+"=") {
					fresh[name][strings.TrimPrefix(n, r0+"=")] = true
					isFresh = true
				}
			}
			if isFresh {
				continue
			}
			callee := ""
			for _, c := range strings.Split(f[3], "\x02") {
				if strings.HasPrefix(c, r0+"=") {
					callee = strings.TrimPrefix(c, r0+"=")
				}
			}
			if callee == "" {
				continue
			}
			rec := passRec{callee: callee, pos: pos, not: map[string]bool{}}
			for _, c := range strings.Split(f[2], "\x02") {
				if c != "" && c != callee+"()="+r0 {
					if i := strings.Index(c, "()="); i >= 0 {
						c = c[:i+2]
					}
					rec.consumed = append(rec.consumed, c)
				}
			}
			for _, t := range strings.Split(f[5], "\x02") {
				if !strings.HasPrefix(t, r0+"=") {
					continue
				}
				t = strings.TrimPrefix(t, r0+"=")
				if strings.HasPrefix(t, "true:") {
					if rec.only == nil {
						rec.only = map[string]bool{}
					}
					rec.only[strings.TrimPrefix(t, "true:")] = true
				} else {
					rec.not[strings.TrimPrefix(t, "false:")] = true
				}
			}
			passes[name] = append(passes[name], rec)
		}
	}
	// node types a function can return: own fresh nodes plus those of the functions it passes on
	ret := map[string]map[string]bool{}
	for n, f := range fresh {
		ret[n] = map[string]bool{}
		for t := range f {
			ret[n][t] = true
		}
	}
	narrowed := func(r passRec) map[string]bool {
		out := map[string]bool{}
		for t := range ret[r.callee] {
			if r.only != nil && !r.only[t] {
				continue
			}
			if r.not[t] {
				continue
			}
			out[t] = true
		}
		return out
	}
	for changed := true; changed; {
		changed = false
		for n, rs := range passes {
			for _, r := range rs {
				for t := range narrowed(r) {
					if !ret[n][t] {
						ret[n][t] = true
						changed = true
					}
				}
			}
		}
	}
	// functions whose result can become the left side of an assignment: pass-through closure from assignment's operand
	cone := map[string]bool{}
	var work []string
	for _, e := range am.G.Events("call") {
		if e.Out == "ok" && e.Args[0] != "assignment" {
			work = append(work, e.Args[0])
		}
	}
	for len(work) > 0 {
		n := work[len(work)-1]
		work = work[:len(work)-1]
		if cone[n] {
			continue
		}
		cone[n] = true
		for _, r := range passes[n] {
			work = append(work, r.callee)
		}
	}
	var names []string
	for n := range cone {
		names = append(names, n)
	}
	sort.Strings(names)
	var found []string
	for _, n := range names {
		bad := ""
		npass := 0
		for _, r := range passes[n] {
			npass++
			if len(r.consumed) == 0 {
				continue
			}
			var hit []string
			for t := range narrowed(r) {
				if targets[t] {
					hit = append(hit, t)
				}
			}
			sort.Strings(hit)
			if len(hit) > 0 {
				bad = fmt.Sprintf("%s returns the node of %s() unchanged after also consuming %s (return at %s); that node can be %s, which assignment() accepts as a target: the consumed tokens are not part of any assignable form of the grammar, so a non-assignable left side is accepted", n, r.callee, strings.Join(r.consumed, " "), r.pos, strings.Join(hit, "/"))
				break
			}
		}
		found = append(found, n)
		if bad != "" {
			l.Violate(rule, "parser."+n, "", bad)
		} else {
			var ts []string
			for t := range ret[n] {
				ts = append(ts, t)
			}
			sort.Strings(ts)
			l.Discharge(rule, "parser."+n, "", fmt.Sprintf("%d pass-through path(s), none consumes further tokens around a possible target node; can return {%s}", npass, strings.Join(ts, ",")), npass > 0)
		}
	}
	l.RequireMin(rule, 5, found, "expression-level parse functions whose result can reach the left side of '='")
}

// ---- the parser's cursor, wherever it is kept --------------------------------------------------------------

type cursorPlaces struct {
	toksType, toksField string // struct type and field holding the token list
	posType, posField   string // struct type and field holding the position
	path                string // how a *Parser reaches that struct: "" (its own fields) or ".cursor" …
}

var cursorPlacesCache = map[*Prog]*cursorPlaces{}

// parserCursor finds where the parser keeps its token list and its position: a field of type []token.Token of Parser
// itself, or of a struct (by value or pointer) that Parser has as a field; the position is the integer field of the
// same struct that indexes the list.
func parserCursor(p *Prog) *cursorPlaces {
	if cp, ok := cursorPlacesCache[p]; ok {
		return cp
	}
	cursorPlacesCache[p] = nil
	pk := p.Pkg("parser")
	if pk == nil {
		return nil
	}
	pt, _ := pk.Members["Parser"].(*ssa.Type)
	if pt == nil {
		return nil
	}
	st, ok := pt.Type().Underlying().(*types.Struct)
	if !ok {
		return nil
	}
	isTokList := func(t types.Type) bool {
		sl, ok := t.Underlying().(*types.Slice)
		return ok && typeStr(sl.Elem()) == "token.Token"
	}
	find := func(s *types.Struct, owner, path string) *cursorPlaces {
		var toks, pos []string
		for i := 0; i < s.NumFields(); i++ {
			f := s.Field(i)
			if isTokList(f.Type()) {
				toks = append(toks, f.Name())
			}
			if b, ok := f.Type().Underlying().(*types.Basic); ok && b.Kind() == types.Int {
				pos = append(pos, f.Name())
			}
		}
		if len(toks) == 1 && len(pos) == 1 {
			return &cursorPlaces{owner, toks[0], owner, pos[0], path}
		}
		if len(toks) == 1 && len(pos) > 1 {
			// several integer fields: the position is the one the token list is indexed with
			used := map[string]bool{}
			for _, fn := range p.ModuleFuncs() {
				if fnPkgName(fn) != "parser" {
					continue
				}
				instrsOf(fn, func(in ssa.Instruction) {
					var base, idx ssa.Value
					switch x := in.(type) {
					case *ssa.IndexAddr:
						base, idx = x.X, x.Index
					case *ssa.Index:
						base, idx = x.X, x.Index
					default:
						return
					}
					fieldOf := func(v ssa.Value) (string, string) {
						for i := 0; i < 4; i++ {
							switch y := v.(type) {
							case *ssa.BinOp:
								if _, isK := constInt(y.Y); isK && (y.Op == token.ADD || y.Op == token.SUB) {
									v = y.X
									continue
								}
							case *ssa.UnOp:
								if fa, ok := y.X.(*ssa.FieldAddr); ok && y.Op == token.MUL {
									return structKey(fa.X.Type(), fa.Field)
								}
							}
							break
						}
						return "", ""
					}
					bt, bf := fieldOf(base)
					it, itf := fieldOf(idx)
					if bt == owner && bf == toks[0] && it == owner {
						used[itf] = true
					}
				})
			}
			var cand []string
			for _, f := range pos {
				if used[f] {
					cand = append(cand, f)
				}
			}
			if len(cand) == 1 {
				return &cursorPlaces{owner, toks[0], owner, cand[0], path}
			}
		}
		return nil
	}
	if cp := find(st, "parser.Parser", ""); cp != nil {
		cursorPlacesCache[p] = cp
		return cp
	}
	for i := 0; i < st.NumFields(); i++ {
		f := st.Field(i)
		t := f.Type()
		if ptr, ok := t.Underlying().(*types.Pointer); ok {
			t = ptr.Elem()
		}
		if s2, ok := t.Underlying().(*types.Struct); ok {
			if cp := find(s2, typeStr(t), "."+f.Name()); cp != nil {
				cursorPlacesCache[p] = cp
				return cp
			}
		}
	}
	return nil
}

// parserPrimitiveWords: a cursor primitive as event words with every parser-package helper it calls inlined and the
// places of token list and position written TOKS and POS, so that the words do not depend on where the cursor lives
// or on how the primitive is split into helpers.
func parserPrimitiveWords(p *Prog, fn *ssa.Function) []string {
	cp := parserCursor(p)
	if cp == nil {
		return nil
	}
	m := NewInterpModel(p, "Parser."+fnName(fn))
	m.EmitTests = true
	m.KeepAsEvent = func(c *ssa.Function) bool {
		return fnPkgName(c) != "parser" || fnName(c) == "error"
	}
	var params []AV
	for i := range fn.Params {
		if i == 0 {
			params = append(params, Sym("p"))
		} else {
			params = append(params, Sym(fmt.Sprintf("a%d", i)))
		}
	}
	m.Explore(fn, params, nil)
	ws, ok := m.G.Words(200)
	if !ok || len(m.Undecided) > 0 {
		return nil
	}
	var words []string
	for _, w := range ws {
		var parts []string
		seen := map[string]bool{}
		for _, part := range strings.Split(normName(wordString(w)), " ; ") {
			if strings.HasPrefix(part, "test(") {
				if seen[part] {
					continue
				}
				seen[part] = true
			}
			// a loop over a list written out at the call (take(tokenType)) is walked exactly: its bookkeeping is not behaviour
			if strings.HasPrefix(part, "next(obj:") || part == "backedge(range)" {
				continue
			}
			parts = append(parts, part)
		}
		s := strings.Join(parts, " ; ")
		s = strings.ReplaceAll(s, "p"+cp.path+"."+cp.toksField, "TOKS")
		s = strings.ReplaceAll(s, "p"+cp.path+"."+cp.posField, "POS")
		words = append(words, s)
	}
	return uniqStrings(sortStrings(words))
}

func init() {
	debugHooks["pprim"] = func(p *Prog, what string) {
		fmt.Printf("%+v\n", parserCursor(p))
		for _, n := range []string{"peek", "previous", "isAtEnd", "advance", "check", "consume", "match", "error"} {
			fn := p.Func("parser.(*Parser)." + n)
			if fn == nil {
				continue
			}
			for _, w := range parserPrimitiveWords(p, fn) {
				fmt.Println(n, "::", w)
			}
		}
	}
}
