package main

// Model of the recursive-descent parser for the abstract machine.  The token-cursor primitives
// (match, consume, check, isAtEnd, peek, previous, advance, error) are abstracted to events; calls of
// other parse functions are events with a success / failure fork.  The model tracks whether a token
// has been consumed since function entry (progress, previous()-safety) and what the path knows about
// the current lookahead token.

import (
	"fmt"
	"go/types"
	"regexp"
	"sort"
	"strconv"
	"strings"

	"golang.org/x/tools/go/ssa"
)

type ParseModel struct {
	BaseModel
	GraphRec
	p         *Prog
	prim      map[*ssa.Function]string
	parseFns  map[*ssa.Function]bool
	tokNames  map[int64]string
	Undecided []string
	Fn        *ssa.Function
}

func parserPrimitives(p *Prog) map[*ssa.Function]string {
	out := map[*ssa.Function]string{}
	for _, n := range []string{"match", "consume", "check", "isAtEnd", "peek", "previous", "advance", "error"} {
		if fn := p.Func("parser.(*Parser)." + n); fn != nil {
			out[fn] = n
		}
	}
	// a match that hands back the token it consumed — (types ...TokenType) (Token, bool) — is the same primitive with a
	// richer result; its body is verified like match's (C08/S0)
	for _, fn := range p.ModuleFuncs() {
		if out[fn] == "" && isTakeShaped(fn) {
			out[fn] = "take"
		}
	}
	return out
}

func isTakeShaped(fn *ssa.Function) bool {
	if fnPkgName(fn) != "parser" || fn.Signature.Recv() == nil || !fn.Signature.Variadic() || fn.Blocks == nil {
		return false
	}
	if nt := namedOf(fn.Signature.Recv().Type()); nt == nil || nt.Obj().Name() != "Parser" {
		return false
	}
	ps, rs := fn.Signature.Params(), fn.Signature.Results()
	if ps.Len() != 1 || rs.Len() != 2 {
		return false
	}
	sl, ok := ps.At(0).Type().Underlying().(*types.Slice)
	if !ok || typeStr(sl.Elem()) != "token.TokenType" {
		return false
	}
	b, ok := rs.At(1).Type().Underlying().(*types.Basic)
	return ok && b.Kind() == types.Bool && typeStr(rs.At(0).Type()) == "token.Token"
}

// parseFunctions: methods of *Parser that return (something, error) or are Parse/block — i.e. the grammar functions.
func parseFunctions(p *Prog) []*ssa.Function {
	prim := parserPrimitives(p)
	var out []*ssa.Function
	for _, fn := range p.ModuleFuncs() {
		if fnPkgName(fn) != "parser" || fn.Signature.Recv() == nil || prim[fn] != "" {
			continue
		}
		if nt := namedOf(fn.Signature.Recv().Type()); nt == nil || nt.Obj().Name() != "Parser" {
			continue
		}
		res := fn.Signature.Results()
		if res.Len() == 2 && typeStr(res.At(1).Type()) == "error" && !higherOrder(fn) && !multiplyInstantiated(p, fn) && grammarFns[fnName(fn)] {
			out = append(out, fn)
		}
	}
	sort.Slice(out, func(i, j int) bool { return fnName(out[i]) < fnName(out[j]) })
	return out
}

// higherOrder: a parse helper parameterised by functions or token lists (e.g. a generic left-associative
// level); it has no grammar meaning of its own and is inlined at its call sites.
func higherOrder(fn *ssa.Function) bool {
	params := fn.Signature.Params()
	for i := 0; i < params.Len(); i++ {
		if _, ok := params.At(i).Type().Underlying().(*types.Signature); ok {
			return true
		}
	}
	return fn.Signature.Variadic() && params.Len() > 0 && fn.Name() != "match" && !isTakeShaped(fn)
}

// grammarFns: the parse functions that stand for a construct of the language — the instances the rules were confirmed
// against (one per nonterminal of grammer.txt, plus the statement forms the grammar lists as alternatives).  Any other
// method of the same shape is a helper some function was split into (forInitializer, parameterList, blockStatement …);
// it has no rule of its own and is analysed as part of each caller.
var grammarFns = map[string]bool{"Parse": true, "declaration": true, "varDeclaration": true, "statement": true, "forStatement": true,
	"while": true, "IfStatement": true, "printStatement": true, "returnStatement": true, "expressionStatement": true, "function": true,
	"block": true, "expression": true, "assignment": true, "logicalOR": true, "logicalAnd": true, "bitwiseOR": true, "bitwiseXOR": true,
	"bitwiseAND": true, "equality": true, "comparison": true, "shift": true, "term": true, "factor": true, "power": true, "unary": true,
	"call": true, "finishCall": true, "primary": true, "objectLiteral": true, "arrayLiteral": true}

// multiplyInstantiated: a parse helper whose extra parameters are tokens, messages or other non-tree values and which is
// called from several sites with different constant arguments (expressionList(closing), parenthesized(open, close) …)
// stands for a different piece of grammar at each site; like the higher-order helpers it is inlined where it is called.
func multiplyInstantiated(p *Prog, fn *ssa.Function) bool {
	params := fn.Signature.Params()
	if params.Len() == 0 {
		return false
	}
	for i := 0; i < params.Len(); i++ {
		t := params.At(i).Type()
		if sl, ok := t.Underlying().(*types.Slice); ok {
			t = sl.Elem()
		}
		if nt := namedOf(t); nt != nil && nt.Obj().Pkg() != nil && nt.Obj().Pkg().Name() == "ast" {
			return false // takes a tree: a grammar function in its own right (finishCall(callee))
		}
	}
	seen := map[string]bool{}
	for _, cs := range p.CallSites(fn) {
		c := cs.Common()
		if c.StaticCallee() != fn {
			continue
		}
		var key []string
		for _, a := range c.Args[1:] {
			key = append(key, describe(a))
		}
		seen[strings.Join(key, ",")] = true
	}
	return len(seen) >= 2
}

func NewParseModel(p *Prog, fn *ssa.Function) *ParseModel {
	m := &ParseModel{p: p, prim: parserPrimitives(p), parseFns: map[*ssa.Function]bool{}, tokNames: p.tokenNames(), Fn: fn}
	for _, f := range parseFunctions(p) {
		m.parseFns[f] = true
	}
	m.G = NewGraph("parser." + fnName(fn))
	return m
}

func (m *ParseModel) ev(in ssa.Instruction, op string, args []string, out string) *Event {
	s, pos := siteOf(m.p, in)
	return &Event{Op: op, Args: args, Out: out, Pos: pos, Site: s, KV: map[string]string{}}
}

func (m *ParseModel) tokName(a AV) string {
	if a.K == KInt {
		if n, ok := m.tokNames[a.I]; ok {
			return n
		}
	}
	return a.String()
}

func (m *ParseModel) annotate(st *State, e *Event) {
	e.KV["cons"] = st.Mon["cons"]
	e.KV["la"] = st.Mon["la"]
	e.KV["notla"] = st.Mon["notla"]
	if st.Mon["flagged"] != "" {
		e.KV["flagged"] = "T"
	}
}

func (m *ParseModel) consumed(st *State, by string) {
	if st.Mon["cons"] != "P" {
		st.Mon["cons"] = "P"
	}
	delete(st.Mon, "la")
	delete(st.Mon, "notla")
	delete(st.Mon, "atend")
	delete(st.Mon, "peekname")
	st.Mon["prev"] = by
}

func addSet(s string, items ...string) string {
	set := map[string]bool{}
	for _, x := range strings.Split(s, ",") {
		if x != "" {
			set[x] = true
		}
	}
	for _, x := range items {
		set[x] = true
	}
	var out []string
	for x := range set {
		out = append(out, x)
	}
	sort.Strings(out)
	return strings.Join(out, ",")
}

func inSet(s, x string) bool {
	for _, y := range strings.Split(s, ",") {
		if y == x {
			return true
		}
	}
	return false
}

func (m *ParseModel) Call(mc *Machine, st *State, call ssa.CallInstruction, callee *ssa.Function, args []AV) ([]Outcome, bool) {
	in := call.(ssa.Instruction)
	fr := st.Top()
	valName := ""
	if v, ok := call.(ssa.Value); ok {
		valName = "@" + fr.ID + ":" + v.Name()
	}
	if callee == nil {
		// method values (p.f passed as a function) and closures are inlined by the machine when resolvable
		return nil, false
	}
	switch m.prim[callee] {
	case "match", "take":
		take := m.prim[callee] == "take"
		elems, ok := mc.SliceElems(st, args[1])
		if !ok {
			m.Undecided = append(m.Undecided, "match with a token list that is not a literal at "+m.p.InstrPos(in))
			return nil, false
		}
		var names []string
		for _, e := range elems {
			names = append(names, m.tokName(mc.resolve(st, e)))
		}
		var outs []Outcome
		// true: one of the listed types is the lookahead (consistent with what is known)
		var possible []string
		for _, n := range names {
			if st.Mon["la"] != "" && st.Mon["la"] != n {
				continue
			}
			if inSet(st.Mon["notla"], n) {
				continue
			}
			if n == "EOF" || st.Mon["atend"] == "T" {
				continue
			}
			possible = append(possible, n)
		}
		if len(possible) > 0 {
			e := m.ev(in, "match", names, "true")
			e.KV["set"] = strings.Join(possible, ",")
			resT := AV(BoolV(true))
			var pe *Event
			if take {
				// the token handed back is the one just matched: what previous() would return now
				tokName := "prev(match)" + valName
				pe = m.ev(in, "previous", nil, "")
				pe.KV["res"], pe.KV["how"] = tokName, "match"
				resT = AV{K: KTuple, T: []AV{Sym(tokName), BoolV(true)}}
			}
			outs = append(outs, Outcome{Result: resT, Apply: func(s *State) {
				m.annotate(s, e)
				m.consumed(s, "match")
				m.Emit(s, e)
				if pe != nil {
					m.annotate(s, pe)
					m.Emit(s, pe)
				}
			}})
		}
		if !(st.Mon["la"] != "" && inSet(strings.Join(names, ","), st.Mon["la"])) {
			e := m.ev(in, "match", names, "false")
			resF := AV(BoolV(false))
			if take {
				resF = AV{K: KTuple, T: []AV{Unk, BoolV(false)}}
			}
			outs = append(outs, Outcome{Result: resF, Apply: func(s *State) {
				m.annotate(s, e)
				s.Mon["notla"] = addSet(s.Mon["notla"], names...)
				m.Emit(s, e)
			}})
		}
		return outs, true
	case "check":
		n := m.tokName(mc.resolve(st, args[1]))
		var outs []Outcome
		canT := !(st.Mon["la"] != "" && st.Mon["la"] != n) && !inSet(st.Mon["notla"], n) && st.Mon["atend"] != "T"
		canF := st.Mon["la"] != n
		if n == "EOF" {
			// check() answers false at the end of input whatever it is asked for (its body is verified separately), so
			// check(EOF) is the constant false and tells nothing about the lookahead
			e := m.ev(in, "check", []string{n}, "false")
			return []Outcome{{Result: BoolV(false), Apply: func(s *State) { m.annotate(s, e); m.Emit(s, e) }}}, true
		}
		if canT {
			e := m.ev(in, "check", []string{n}, "true")
			outs = append(outs, Outcome{Result: BoolV(true), Apply: func(s *State) {
				m.annotate(s, e)
				s.Mon["la"] = n
				s.Mon["atend"] = "F"
				m.Emit(s, e)
			}})
		}
		if canF {
			e := m.ev(in, "check", []string{n}, "false")
			outs = append(outs, Outcome{Result: BoolV(false), Apply: func(s *State) {
				m.annotate(s, e)
				s.Mon["notla"] = addSet(s.Mon["notla"], n)
				m.Emit(s, e)
			}})
		}
		return outs, true
	case "isAtEnd":
		var outs []Outcome
		if st.Mon["atend"] != "F" && (st.Mon["la"] == "" || st.Mon["la"] == "EOF") {
			e := m.ev(in, "atend", nil, "true")
			outs = append(outs, Outcome{Result: BoolV(true), Apply: func(s *State) {
				m.annotate(s, e)
				s.Mon["atend"] = "T"
				s.Mon["la"] = "EOF"
				m.Emit(s, e)
			}})
		}
		if st.Mon["atend"] != "T" {
			e := m.ev(in, "atend", nil, "false")
			outs = append(outs, Outcome{Result: BoolV(false), Apply: func(s *State) {
				m.annotate(s, e)
				s.Mon["atend"] = "F"
				s.Mon["notla"] = addSet(s.Mon["notla"], "EOF")
				m.Emit(s, e)
			}})
		}
		return outs, true
	case "consume":
		n := m.tokName(mc.resolve(st, args[1]))
		var outs []Outcome
		canT := !(st.Mon["la"] != "" && st.Mon["la"] != n) && !inSet(st.Mon["notla"], n) && st.Mon["atend"] != "T"
		canF := st.Mon["la"] != n
		_, used := call.(ssa.Value)
		lenient := true
		if v, ok := call.(ssa.Value); ok && used {
			for _, r := range *v.Referrers() {
				if ex, ok := r.(*ssa.Extract); ok && ex.Index == 1 && len(*ex.Referrers()) > 0 {
					lenient = false
				}
			}
		}
		if canT {
			e := m.ev(in, "consume", []string{n}, "ok")
			name := "tok" + valName
			e.KV["res"] = name
			outs = append(outs, Outcome{Result: AV{K: KTuple, T: []AV{Sym(name), NilV}}, Apply: func(s *State) {
				m.annotate(s, e)
				m.consumed(s, "consume")
				s.Facts["v:"+name+".Type"] = IntV(tokValue(m, n))
				m.Emit(s, e)
			}})
		}
		if canF {
			e := m.ev(in, "consume", []string{n, args[2].String()}, "err")
			if lenient {
				e.KV["lenient"] = "T"
			}
			name := "cerr" + valName
			outs = append(outs, Outcome{Result: AV{K: KTuple, T: []AV{Sym("zerotok"), Sym(name)}}, Apply: func(s *State) {
				m.annotate(s, e)
				s.Mon["notla"] = addSet(s.Mon["notla"], n)
				s.Facts["c:("+name+" == nil)"] = BoolV(false)
				s.Mon["flagged"] = "T"
				m.Emit(s, e)
			}})
		}
		return outs, true
	case "peek":
		e := m.ev(in, "peek", nil, "")
		e.KV["res"] = "peek" + valName
		return []Outcome{{Result: Sym("peek" + valName), Apply: func(s *State) { m.annotate(s, e); s.Mon["peekname"] = "peek" + valName; m.Emit(s, e) }}}, true
	case "previous":
		e := m.ev(in, "previous", nil, "")
		e.KV["res"] = "prev(" + st.Mon["prev"] + ")" + valName
		e.KV["how"] = st.Mon["prev"]
		return []Outcome{{Result: Sym("prev(" + st.Mon["prev"] + ")" + valName), Apply: func(s *State) { m.annotate(s, e); m.Emit(s, e) }}}, true
	case "advance":
		if la := st.Mon["la"]; la != "" && la != "EOF" {
			// the path knows which token is ahead (a check, or a table lookup on peek().Type, said so): this advance
			// consumes exactly that token, like consume(la) that cannot fail
			e := m.ev(in, "consume", []string{la}, "ok")
			name := "tok" + valName
			e.KV["res"] = name
			return []Outcome{{Result: Sym(name), Apply: func(s *State) {
				m.annotate(s, e)
				m.consumed(s, "consume")
				s.Facts["v:"+name+".Type"] = IntV(tokValue(m, la))
				m.Emit(s, e)
			}}}, true
		}
		e := m.ev(in, "advance", nil, "")
		return []Outcome{{Result: Sym("adv" + valName), Apply: func(s *State) { m.annotate(s, e); m.consumed(s, "advance"); m.Emit(s, e) }}}, true
	case "error":
		eargs := args
		if callee.Signature.Recv() != nil {
			eargs = args[1:] // without the parser itself
		}
		e := m.ev(in, "error", argStrings(eargs), "")
		return []Outcome{{Result: Sym("perr" + valName), Apply: func(s *State) {
			m.annotate(s, e)
			s.Facts["c:(perr"+valName+" == nil)"] = BoolV(false)
			s.Mon["flagged"] = "T"
			m.Emit(s, e)
		}}}, true
	}
	if m.parseFns[callee] {
		var outs []Outcome
		name := "n" + valName
		strArgs := argStrings(args[1:])
		eok := m.ev(in, "call", append([]string{fnName(callee)}, strArgs...), "ok")
		eok.KV["res"] = name
		outs = append(outs, Outcome{Result: AV{K: KTuple, T: []AV{Sym(name), NilV}}, Apply: func(s *State) {
			m.annotate(s, eok)
			if s.Mon["cons"] != "P" {
				s.Mon["cons"] = addSet(s.Mon["cons"], fnName(callee))
			}
			delete(s.Mon, "la")
			delete(s.Mon, "notla")
			delete(s.Mon, "atend")
			s.Mon["prev"] = "call:" + fnName(callee)
			s.Facts["c:("+name+" == nil)"] = BoolV(false)
			m.Emit(s, eok)
		}})
		eerr := m.ev(in, "call", append([]string{fnName(callee)}, strArgs...), "err")
		ename := "err" + valName
		outs = append(outs, Outcome{Result: AV{K: KTuple, T: []AV{NilV, Sym(ename)}}, Apply: func(s *State) {
			m.annotate(s, eerr)
			s.Facts["c:("+ename+" == nil)"] = BoolV(false)
			s.Mon["flagged"] = "T"
			m.Emit(s, eerr)
		}})
		return outs, true
	}
	if !m.p.InModule(callee) {
		res := Sym(fnName(callee) + "(" + strings.Join(argStrings(args), ",") + ")")
		if v, ok := call.(ssa.Value); ok {
			if tup, ok := v.Type().(*types.Tuple); ok {
				ts := make([]AV, tup.Len())
				for i := range ts {
					ts[i] = Sym(fmt.Sprintf("%s#%d", res.S, i))
				}
				return []Outcome{{Result: AV{K: KTuple, T: ts}}}, true
			}
		}
		return []Outcome{{Result: res}}, true
	}
	full := m.p.FuncKey(callee)
	if strings.HasPrefix(full, "utils.") {
		e := m.ev(in, "diag", append([]string{full}, argStrings(args)...), "")
		return []Outcome{{Result: Unk, Apply: func(s *State) { m.annotate(s, e); s.Mon["flagged"] = "T"; m.Emit(s, e) }}}, true
	}
	return nil, false // helper of the parser that is not a grammar function: inline
}

var rePeekType = regexp.MustCompile(`^\((peek@[^ ]+)\.Type == (\d+)\)$`)

func tokValue(m *ParseModel, name string) int64 {
	for v, n := range m.tokNames {
		if n == name {
			return v
		}
	}
	return -1
}

func (m *ParseModel) Instr(mc *Machine, st *State, in ssa.Instruction, ops []AV) {
	switch x := in.(type) {
	case *ssa.Alloc:
		if nt := namedOf(x.Type()); nt != nil && nt.Obj().Pkg() != nil && nt.Obj().Pkg().Name() == "ast" {
			e := m.ev(in, "node", []string{nt.Obj().Name()}, mc.eval(st, st.Top(), x).String())
			m.annotate(st, e)
			m.Emit(st, e)
		}
	case *ssa.Store:
		if fa, ok := x.Addr.(*ssa.FieldAddr); ok {
			tn, f := structKey(fa.X.Type(), fa.Field)
			if strings.HasPrefix(tn, "ast.") {
				e := m.ev(in, "field", []string{strings.TrimPrefix(tn, "ast."), f, ops[1].String()}, "")
				e.KV["obj"] = strings.TrimSuffix(ops[0].String(), "."+f)
				m.annotate(st, e)
				m.Emit(st, e)
			} else if tn == "parser.Parser" {
				e := m.ev(in, "parserstore", []string{f, ops[1].String()}, "")
				m.annotate(st, e)
				m.Emit(st, e)
			}
		}
	case *ssa.MapUpdate:
		e := m.ev(in, "mapstore", argStrings(ops), "")
		m.annotate(st, e)
		m.Emit(st, e)
	case *ssa.Call:
		if b, ok := x.Call.Value.(*ssa.Builtin); ok && b.Name() == "append" {
			e := m.ev(in, "append", argStrings(ops), "")
			e.KV["res"] = "append:" + st.Top().ID + ":" + x.Name()
			if len(ops) == 2 {
				if elems, ok := mc.SliceElems(st, ops[1]); ok && len(elems) == 1 {
					e.Args = []string{ops[0].String(), elems[0].String()}
				}
			}
			m.annotate(st, e)
			m.Emit(st, e)
		}
	case *ssa.Lookup:
		// a table indexed by the type of the lookahead token (peek().Type): a hit tells which token is ahead, a miss
		// which ones are not
		if len(ops) == 3 && ops[2].K == KSym && st.Mon["peekname"] != "" && ops[2].S == st.Mon["peekname"]+".Type" && ops[1].K == KInt {
			n := m.tokName(ops[1])
			st.Mon["la"] = n
			st.Mon["atend"] = "F"
			if n == "EOF" {
				st.Mon["atend"] = "T"
			}
			e := m.ev(in, "check", []string{n}, "true")
			m.annotate(st, e)
			m.Emit(st, e)
		} else if len(ops) == 2 && ops[1].K == KSym && st.Mon["peekname"] != "" && ops[1].S == st.Mon["peekname"]+".Type" {
			if u, ok := x.X.(*ssa.UnOp); ok {
				if g, ok := u.X.(*ssa.Global); ok {
					for _, ent := range m.p.ConstMapKeys(g) {
						st.Mon["notla"] = addSet(st.Mon["notla"], m.tokName(ent.K))
					}
				}
			}
		}
	case *ssa.TypeAssert:
	}
}

func (m *ParseModel) Branch(mc *Machine, st *State, in *ssa.If, cond AV, taken bool) {
	// type tests (assignment target switch, var-declaration literal test) and other symbolic decisions
	if ex, ok := in.Cond.(*ssa.Extract); ok && ex.Index == 1 {
		if ta, ok := ex.Tuple.(*ssa.TypeAssert); ok {
			subj := mc.eval(st, st.Top(), ta.X)
			tested := typeStr(ta.AssertedType)
			if ty, known := st.Facts["type:"+subj.S]; known && taken && subj.K == KSym && isInterfaceType(ta.AssertedType) {
				tested = ty.S // the test for an interface of the module succeeded on a path that knows the node's type
			}
			e := m.ev(in, "typetest", []string{subj.String(), tested}, fmt.Sprint(taken))
			m.annotate(st, e)
			m.Emit(st, e)
			return
		}
	}
	// a switch or comparison on the type of the lookahead token (peek().Type == T) is a check(T)
	if cond.K == KSym {
		if mm := rePeekType.FindStringSubmatch(cond.S); mm != nil && st.Mon["peekname"] == mm[1] {
			t := taken
			if cond.Neg {
				t = !t
			}
			k, _ := strconv.ParseInt(mm[2], 10, 64)
			n := m.tokName(IntV(k))
			e := m.ev(in, "check", []string{n}, fmt.Sprint(t))
			m.annotate(st, e)
			if t {
				st.Mon["la"] = n
				st.Mon["atend"] = "F"
				if n == "EOF" {
					st.Mon["atend"] = "T"
				}
			} else {
				st.Mon["notla"] = addSet(st.Mon["notla"], n)
			}
			m.Emit(st, e)
			return
		}
	}
	if cond.K == KSym && !strings.HasPrefix(cond.S, "(err@") && !strings.HasPrefix(cond.S, "(cerr@") && !strings.HasPrefix(cond.S, "(perr@") && !strings.HasPrefix(cond.S, "(n@") {
		t := taken
		c := cond
		if c.Neg {
			t = !t
			c.Neg = false
		}
		e := m.ev(in, "test", []string{c.S}, fmt.Sprint(t))
		m.annotate(st, e)
		m.Emit(st, e)
	}
}

func (m *ParseModel) BackEdge(mc *Machine, st *State, from, to *ssa.BasicBlock) {
	kind := "loop"
	if strings.HasPrefix(to.Comment, "rangeindex.loop") || strings.HasPrefix(to.Comment, "rangeiter.loop") || boundedCountingLoop(to) {
		kind = "range"
	}
	e := &Event{Op: "backedge", Args: []string{kind}, Pos: m.p.InstrPos(to.Instrs[0]), Site: fnName(to.Parent()) + ":b" + strconv.Itoa(to.Index), KV: map[string]string{"kind": kind}}
	m.annotate(st, e)
	m.Emit(st, e)
}

func (m *ParseModel) Return(mc *Machine, st *State, ret *ssa.Return, results []AV) {
	e := m.ev(ret, "return", argStrings(results), "")
	m.annotate(st, e)
	if len(results) == 2 {
		r1 := mc.resolve(st, results[1])
		switch {
		case r1.K == KNil:
			e.Out = "ok"
		default:
			e.Out = "err"
		}
	}
	for i, r := range results {
		e.KV[fmt.Sprintf("r%d", i)] = r.String()
	}
	m.Emit(st, e)
}

// ExploreParseFn explores one parse function.
func ExploreParseFn(p *Prog, fn *ssa.Function) (*ParseModel, *Machine) {
	m := NewParseModel(p, fn)
	mc := NewMachine(p, m)
	mc.ForkTables = true
	mc.ForkIfaceAsserts = true
	m.Attach(mc)
	var params []AV
	for _, prm := range fn.Params {
		params = append(params, Sym(prm.Name()))
	}
	mc.Start(fn, params, func(st *State) {
		m.setNode(st, m.G.Start)
	})
	if mc.Aborted != "" {
		m.Undecided = append(m.Undecided, mc.Aborted)
	}
	return m, mc
}
