package main

// E4 — guard facts and a tiny difference-bound reasoner for index / slice / shift / divisor
// obligations.  Expressions are canonicalised to strings (pure expression trees over parameters,
// never-reassigned locals, field loads and len()); branch conditions that dominate a use with a
// known polarity become difference constraints  base1 - base2 <= c.

import (
	"fmt"
	"go/token"
	"go/types"
	"strconv"
	"strings"

	"golang.org/x/tools/go/ssa"
)

type lin struct {
	base string // "" for pure constants
	off  int64
}

type Canon struct {
	p      *Prog
	fields map[string]bool   // field names mentioned by loads
	lower  map[string]int64  // inductive lower bounds of counter φs: base → c with base >= c
	upper  map[string]lin    // inductive upper bounds of down-counting φs: base → e with base <= e
	sums   map[string][2]lin // opaque sums of two non-constant terms: base → the terms (both >= 0 ⇒ base >= 0)
}

func (c *Canon) expr(v ssa.Value) lin {
	switch x := v.(type) {
	case *ssa.Const:
		if i, ok := constInt(x); ok {
			return lin{"", i}
		}
		return lin{"const:" + x.Name(), 0}
	case *ssa.Parameter:
		if lo, ok := c.p.paramLowerBound(x); ok {
			if c.lower == nil {
				c.lower = map[string]int64{}
			}
			c.lower["p:"+x.Name()] = lo
		}
		return lin{"p:" + x.Name(), 0}
	case *ssa.FreeVar:
		return lin{"fv:" + x.Name(), 0}
	case *ssa.FieldAddr:
		if promotedThrough(x.X.Type(), x.Field) {
			return c.expr(x.X) // &s.position stands for s: its fields are fields of s
		}
		return lin{"v:" + vname(v), 0}
	case *ssa.Convert:
		ft, ok1 := x.X.Type().Underlying().(*types.Basic)
		tt, ok2 := x.Type().Underlying().(*types.Basic)
		if ok1 && ok2 && ft.Info()&types.IsInteger != 0 && tt.Info()&types.IsInteger != 0 {
			if c.p.Sizes.Sizeof(tt) < c.p.Sizes.Sizeof(ft) {
				in := c.expr(x.X)
				return lin{"trunc" + strconv.Itoa(int(c.p.Sizes.Sizeof(tt))) + "(" + linStr(in) + ")", 0}
			}
			return c.expr(x.X)
		}
		return lin{"v:" + vname(v), 0}
	case *ssa.ChangeType:
		return c.expr(x.X)
	case *ssa.BinOp:
		if x.Op == token.ADD || x.Op == token.SUB {
			l, r := c.expr(x.X), c.expr(x.Y)
			if r.base == "" {
				if x.Op == token.ADD {
					return lin{l.base, l.off + r.off}
				}
				return lin{l.base, l.off - r.off}
			}
			if l.base == "" && x.Op == token.ADD {
				return lin{r.base, l.off + r.off}
			}
			if x.Op == token.ADD && isIntegerT(x.Type()) {
				if c.sums == nil {
					c.sums = map[string][2]lin{}
				}
				c.sums["v:"+vname(v)] = [2]lin{l, r}
			}
		}
		return lin{"v:" + vname(v), 0}
	case *ssa.UnOp:
		if x.Op == token.MUL {
			switch a := x.X.(type) {
			case *ssa.FieldAddr:
				fn := fieldName(a.X.Type(), a.Field)
				if c.fields != nil {
					c.fields[fn] = true
				}
				return lin{linStr(c.expr(a.X)) + "." + fn, 0}
			case *ssa.Global:
				return lin{"g:" + a.Pkg.Pkg.Name() + "." + a.Name(), 0}
			case *ssa.Alloc:
				if st := forwardLoad(v); st != v {
					return c.expr(st)
				}
			}
		}
		return lin{"v:" + vname(v), 0}
	case *ssa.Field:
		if promotedThrough(x.X.Type(), x.Field) {
			return c.expr(x.X)
		}
		fn := fieldName(x.X.Type(), x.Field)
		return lin{linStr(c.expr(x.X)) + "." + fn, 0}
	case *ssa.Call:
		if b, ok := x.Call.Value.(*ssa.Builtin); ok && b.Name() == "len" {
			// len(make([]T, n)) is n
			if mk, ok := x.Call.Args[0].(*ssa.MakeSlice); ok {
				return c.expr(mk.Len)
			}
			return lin{"len(" + linStr(c.expr(x.Call.Args[0])) + ")", 0}
		}
		return lin{"v:" + vname(v), 0}
	case *ssa.Phi:
		// counter idiom (also how go/ssa lowers `for i := range slice`): every edge is a constant
		// or this φ plus a non-negative constant ⇒ φ >= min(constants)
		base := "v:" + vname(v)
		lo, okAll, any := int64(0), true, false
		for _, e := range x.Edges {
			if k, ok := constInt(e); ok {
				if !any || k < lo {
					lo = k
				}
				any = true
				continue
			}
			if bo, ok := e.(*ssa.BinOp); ok && bo.Op == token.ADD && bo.X == v {
				if k, ok := constInt(bo.Y); ok && k >= 0 {
					continue
				}
			}
			okAll = false
		}
		if okAll && any {
			if c.lower == nil {
				c.lower = map[string]int64{}
			}
			c.lower[base] = lo
		}
		// down-counting idiom (for i := len(s) - 1; i >= 0; i--): one value from outside, every other edge this φ
		// minus a non-negative constant ⇒ φ <= that value (an SSA value, so it cannot change while the loop runs)
		var start ssa.Value
		okDown := true
		for _, e := range x.Edges {
			if bo, ok := e.(*ssa.BinOp); ok && bo.X == v {
				if k, ok := constInt(bo.Y); ok && ((bo.Op == token.SUB && k >= 0) || (bo.Op == token.ADD && k <= 0)) {
					continue
				}
			}
			if start != nil && start != e {
				okDown = false
			}
			start = e
		}
		if in, isInstr := start.(ssa.Instruction); isInstr && in.Block() != nil && x.Block().Dominates(in.Block()) {
			okDown = false // computed inside the loop of this φ: it may change while the counter runs
		}
		if okDown && start != nil && len(x.Edges) >= 2 {
			if _, self := start.(*ssa.Phi); !self || start != v {
				if c.upper == nil {
					c.upper = map[string]lin{}
				}
				if _, busy := c.upper[base]; !busy {
					c.upper[base] = lin{} // guard against recursion through the start value
					c.upper[base] = c.expr(start)
				}
			}
		}
		return lin{base, 0}
	case *ssa.Extract:
		if nx, ok := x.Tuple.(*ssa.Next); ok && x.Index == 1 {
			if r, ok := nx.Iter.(*ssa.Range); ok {
				return lin{"rangekey(" + linStr(c.expr(r.X)) + ")", 0}
			}
		}
		return lin{"v:" + vname(v), 0}
	}
	return lin{"v:" + vname(v), 0}
}

func vname(v ssa.Value) string {
	if v.Parent() != nil {
		return v.Parent().Name() + ":" + v.Name()
	}
	return v.Name()
}

func linStr(l lin) string {
	if l.base == "" {
		return "#" + strconv.FormatInt(l.off, 10)
	}
	if l.off == 0 {
		return l.base
	}
	return fmt.Sprintf("(%s%+d)", l.base, l.off)
}

// DBM: bound[a][b] = c means a - b <= c.  The constant zero is base "".
type DBM struct {
	bound map[string]map[string]int64
	why   []string
	ne    [][2]lin
}

func newDBM() *DBM { return &DBM{bound: map[string]map[string]int64{}} }

func (d *DBM) add(a, b string, c int64, why string) {
	if a == b {
		return
	}
	if d.bound[a] == nil {
		d.bound[a] = map[string]int64{}
	}
	if old, ok := d.bound[a][b]; !ok || c < old {
		d.bound[a][b] = c
		d.why = append(d.why, fmt.Sprintf("%s - %s <= %d  (%s)", dname(a), dname(b), c, why))
	}
}

func dname(s string) string {
	if s == "" {
		return "0"
	}
	return s
}

// addRel records  L op R.
func (d *DBM) addRel(l lin, op token.Token, r lin, why string) {
	switch op {
	case token.LSS: // l.base + l.off < r.base + r.off
		d.add(l.base, r.base, r.off-l.off-1, why)
	case token.LEQ:
		d.add(l.base, r.base, r.off-l.off, why)
	case token.GTR:
		d.addRel(r, token.LSS, l, why)
	case token.GEQ:
		d.addRel(r, token.LEQ, l, why)
	case token.EQL:
		d.add(l.base, r.base, r.off-l.off, why)
		d.add(r.base, l.base, l.off-r.off, why)
	case token.NEQ:
		// only useful against a known one-sided bound: x != c with x >= c  →  x >= c+1
		d.why = append(d.why, "ne:"+linStr(l)+"!="+linStr(r))
		d.ne = append(d.ne, [2]lin{l, r})
	}
}

func (d *DBM) close() {
	// apply disequalities against existing bounds, then Floyd–Warshall; repeat twice
	for iter := 0; iter < 3; iter++ {
		nodes := map[string]bool{"": true}
		for a, m := range d.bound {
			nodes[a] = true
			for b := range m {
				nodes[b] = true
			}
		}
		for k := range nodes {
			for i := range nodes {
				ik, ok := d.bound[i][k]
				if !ok {
					continue
				}
				for j := range nodes {
					kj, ok := d.bound[k][j]
					if !ok || i == j {
						continue
					}
					if d.bound[i] == nil {
						d.bound[i] = map[string]int64{}
					}
					if old, ok := d.bound[i][j]; !ok || ik+kj < old {
						d.bound[i][j] = ik + kj
					}
				}
			}
		}
		for _, ne := range d.ne {
			l, r := ne[0], ne[1]
			// l.base + l.off != r.base + r.off.  If l - r >= k exactly (lower bound tight) bump it.
			// lower bound of (l.base - r.base) is -(bound[r.base][l.base]).
			if c, ok := d.bound[r.base][l.base]; ok && -c == r.off-l.off {
				d.add(r.base, l.base, c-1, "disequality tightens lower bound")
			}
			if c, ok := d.bound[l.base][r.base]; ok && c == r.off-l.off {
				d.add(l.base, r.base, c-1, "disequality tightens upper bound")
			}
		}
	}
}

// proves  l op r  (op ∈ <, <=)
func (d *DBM) proves(l lin, op token.Token, r lin) bool {
	need := r.off - l.off
	if op == token.LSS {
		need--
	}
	if l.base == r.base {
		return 0 <= need
	}
	c, ok := d.bound[l.base][r.base]
	return ok && c <= need
}

// Facts collects the difference constraints that hold at instruction `at`.
type Facts struct {
	p   *Prog
	inv *Invariants
}

func negateOp(op token.Token) token.Token {
	switch op {
	case token.LSS:
		return token.GEQ
	case token.LEQ:
		return token.GTR
	case token.GTR:
		return token.LEQ
	case token.GEQ:
		return token.LSS
	case token.EQL:
		return token.NEQ
	case token.NEQ:
		return token.EQL
	}
	return token.ILLEGAL
}

func isRel(op token.Token) bool {
	switch op {
	case token.LSS, token.LEQ, token.GTR, token.GEQ, token.EQL, token.NEQ:
		return true
	}
	return false
}

// factsAt builds the DBM for the program point of instruction `at`.
func (f *Facts) factsAt(at ssa.Instruction) (*DBM, []string) {
	d := newDBM()
	var notes []string
	cn := &Canon{p: f.p}
	fn := at.Parent()
	for _, g := range GuardsAt(at.Block()) {
		f.addCond(d, cn, g.Cond, g.Truth, g.If, at, &notes, 0)
	}
	// facts from executed index expressions: after s[i] has executed, 0 <= i < len(s)
	for _, b := range fn.Blocks {
		if b != at.Block() && !b.Dominates(at.Block()) {
			continue
		}
		for _, in := range b.Instrs {
			if in == at {
				break
			}
			var sv, iv ssa.Value
			switch x := in.(type) {
			case *ssa.IndexAddr:
				if _, isSlice := x.X.Type().Underlying().(*types.Slice); isSlice {
					sv, iv = x.X, x.Index
				}
			case *ssa.Index:
				sv, iv = x.X, x.Index
			}
			if sv == nil {
				continue
			}
			cn.fields = map[string]bool{}
			li, ls := cn.expr(iv), lin{"len(" + linStr(cn.expr(sv)) + ")", 0}
			if len(cn.fields) > 0 && !f.stableAfter(in, at, cn.fields) {
				continue
			}
			d.addRel(li, token.LSS, ls, "index expression already executed at "+f.p.InstrPos(in))
			d.addRel(lin{"", 0}, token.LEQ, li, "index expression already executed at "+f.p.InstrPos(in))
		}
	}
	return d, notes
}

// addImplicit adds len(x) >= 0 and the struct-field invariants for every base mentioned.
func (f *Facts) addImplicit(d *DBM, bases []string) {
	for _, b := range bases {
		if strings.HasPrefix(b, "len(") {
			d.add("", b, 0, "len >= 0")
		}
		if strings.HasPrefix(b, "rangekey(") {
			d.add("", b, 0, "range index >= 0")
			inner := strings.TrimSuffix(strings.TrimPrefix(b, "rangekey("), ")")
			d.add(b, "len("+inner+")", -1, "range index < len of the ranged slice")
		}
		if f.inv != nil {
			f.inv.implicit(d, b)
		}
	}
}

// stableAfter: no write to the fields between instruction `from` (exclusive) and `use` within the function
// (straight-line / dominating region approximation: scan all blocks that `from` dominates and that reach use).
func (f *Facts) stableAfter(from, use ssa.Instruction, fields map[string]bool) bool {
	fn := use.Parent()
	started := false
	for _, b := range fn.Blocks {
		if !(b == from.Block() || (from.Block().Dominates(b) && reaches(b, use.Block()))) {
			continue
		}
		for _, in := range b.Instrs {
			if in == from {
				started = true
				continue
			}
			if in == use {
				break
			}
			if b == from.Block() && !started {
				continue
			}
			switch x := in.(type) {
			case *ssa.Store:
				if fa, ok := x.Addr.(*ssa.FieldAddr); ok && fields[fieldName(fa.X.Type(), fa.Field)] {
					return false
				}
			case ssa.CallInstruction:
				if _, ok := x.Common().Value.(*ssa.Builtin); ok {
					continue
				}
				for _, c := range f.p.Callees(x) {
					if !f.p.InModule(c) {
						continue
					}
					w, _ := f.p.mayWriteFields(c, map[*ssa.Function]bool{})
					for fld := range fields {
						if w[fld] {
							return false
						}
					}
				}
			}
		}
	}
	return true
}

func reaches(a, b *ssa.BasicBlock) bool {
	seen := map[*ssa.BasicBlock]bool{}
	st := []*ssa.BasicBlock{a}
	for len(st) > 0 {
		x := st[len(st)-1]
		st = st[:len(st)-1]
		if x == b {
			return true
		}
		if seen[x] {
			continue
		}
		seen[x] = true
		st = append(st, x.Succs...)
	}
	return false
}

func (f *Facts) addCond(d *DBM, cn *Canon, cond ssa.Value, truth bool, iff *ssa.If, at ssa.Instruction, notes *[]string, depth int) {
	switch c := cond.(type) {
	case *ssa.UnOp:
		if c.Op == token.NOT {
			f.addCond(d, cn, c.X, !truth, iff, at, notes, depth)
		}
	case *ssa.BinOp:
		if !isRel(c.Op) {
			return
		}
		if !isIntegerT(c.X.Type()) {
			return
		}
		op := c.Op
		if !truth {
			op = negateOp(op)
		}
		cn.fields = map[string]bool{}
		l, r := cn.expr(c.X), cn.expr(c.Y)
		if len(cn.fields) > 0 && !f.stableBetween(iff, at, cn.fields) {
			*notes = append(*notes, fmt.Sprintf("guard %s %s %s ignored: a mentioned field may be written between the guard and the use", linStr(l), op, linStr(r)))
			return
		}
		d.addRel(l, op, r, fmt.Sprintf("guard %s at %s", map[bool]string{true: "holds", false: "fails"}[truth], f.p.InstrPos(iff)))
	case *ssa.Call:
		// predicate inlining: a module function whose body is `return <relational expr>`
		callee := c.Call.StaticCallee()
		if callee == nil || !f.p.InModule(callee) || len(callee.Blocks) != 1 || depth > 2 {
			return
		}
		ret, ok := callee.Blocks[0].Instrs[len(callee.Blocks[0].Instrs)-1].(*ssa.Return)
		if !ok || len(ret.Results) != 1 {
			return
		}
		bo, ok := ret.Results[0].(*ssa.BinOp)
		if !ok || !isRel(bo.Op) || !isIntegerT(bo.X.Type()) {
			return
		}
		op := bo.Op
		if !truth {
			op = negateOp(op)
		}
		ccn := &Canon{p: f.p, fields: map[string]bool{}}
		l, r := ccn.expr(bo.X), ccn.expr(bo.Y)
		// substitute callee parameters by the caller's argument expressions
		sub := func(x lin) lin {
			for i, prm := range callee.Params {
				if i < len(c.Call.Args) {
					x.base = strings.ReplaceAll(x.base, "p:"+prm.Name(), linStr(cn.expr(c.Call.Args[i])))
				}
			}
			return x
		}
		l, r = sub(l), sub(r)
		if len(ccn.fields) > 0 && !f.stableBetween(iff, at, ccn.fields) {
			*notes = append(*notes, "predicate guard "+callee.Name()+" ignored: field may be written between guard and use")
			return
		}
		d.addRel(l, op, r, fmt.Sprintf("predicate %s() %v at %s", callee.Name(), truth, f.p.InstrPos(iff)))
	}
}

func isIntegerT(t types.Type) bool {
	b, ok := t.Underlying().(*types.Basic)
	return ok && b.Info()&types.IsInteger != 0
}

// fieldWriters: field names possibly stored by fn (transitively through static callees; dynamic calls = everything).
func (p *Prog) mayWriteFields(fn *ssa.Function, seen map[*ssa.Function]bool) (map[string]bool, bool) {
	out := map[string]bool{}
	all := false
	var walk func(f *ssa.Function)
	walk = func(f *ssa.Function) {
		if seen[f] || f == nil {
			return
		}
		seen[f] = true
		if f.Blocks == nil {
			return
		}
		instrsOf(f, func(in ssa.Instruction) {
			switch x := in.(type) {
			case *ssa.Store:
				if fa, ok := x.Addr.(*ssa.FieldAddr); ok {
					out[fieldName(fa.X.Type(), fa.Field)] = true
				}
			case ssa.CallInstruction:
				if _, ok := x.Common().Value.(*ssa.Builtin); ok {
					return
				}
				if c := x.Common().StaticCallee(); c != nil {
					if p.InModule(c) {
						walk(c)
					}
				} else {
					for _, c := range p.Callees(x) {
						if p.InModule(c) {
							walk(c)
						}
					}
				}
			}
		})
	}
	walk(fn)
	return out, all
}

// stableBetween: no store to any of the named fields can execute between the guard and the use.
func (f *Facts) stableBetween(iff *ssa.If, use ssa.Instruction, fields map[string]bool) bool {
	fn := use.Parent()
	gb := iff.Block()
	ub := use.Block()
	// blocks between: reachable from a successor of gb and able to reach ub
	fromG := map[*ssa.BasicBlock]bool{}
	var st []*ssa.BasicBlock
	st = append(st, gb.Succs...)
	for len(st) > 0 {
		b := st[len(st)-1]
		st = st[:len(st)-1]
		if fromG[b] {
			continue
		}
		fromG[b] = true
		if b == ub {
			continue
		}
		st = append(st, b.Succs...)
	}
	toU := map[*ssa.BasicBlock]bool{}
	st = append(st, ub)
	for len(st) > 0 {
		b := st[len(st)-1]
		st = st[:len(st)-1]
		if toU[b] {
			continue
		}
		toU[b] = true
		if b == gb {
			continue
		}
		st = append(st, b.Preds...)
	}
	writes := func(in ssa.Instruction) bool {
		switch x := in.(type) {
		case *ssa.Store:
			if fa, ok := x.Addr.(*ssa.FieldAddr); ok && fields[fieldName(fa.X.Type(), fa.Field)] {
				return true
			}
		case ssa.CallInstruction:
			if _, ok := x.Common().Value.(*ssa.Builtin); ok {
				return false
			}
			for _, c := range f.p.Callees(x) {
				if !f.p.InModule(c) {
					continue
				}
				w, _ := f.p.mayWriteFields(c, map[*ssa.Function]bool{})
				for fld := range fields {
					if w[fld] {
						return true
					}
				}
			}
		}
		return false
	}
	for _, b := range fn.Blocks {
		if !(fromG[b] && toU[b]) && b != ub {
			continue
		}
		if b == gb && b != ub {
			continue
		}
		for _, in := range b.Instrs {
			if b == ub && in == use {
				break
			}
			if b == gb && b == ub {
				continue
			}
			if writes(in) {
				return false
			}
		}
	}
	return true
}

var paramLowerCache = map[*ssa.Parameter]*int64{}
var paramLowerDone = map[*ssa.Parameter]bool{}

// paramLowerBound: an integer parameter of a function that is only ever called directly, with a constant in that
// position at every call site, is at least the smallest of those constants (peekAt(0), peekAt(1) ⇒ offset >= 0).
func (p *Prog) paramLowerBound(prm *ssa.Parameter) (int64, bool) {
	if paramLowerDone[prm] {
		if v := paramLowerCache[prm]; v != nil {
			return *v, true
		}
		return 0, false
	}
	paramLowerDone[prm] = true
	fn := prm.Parent()
	if fn == nil || !isIntegerT(prm.Type()) {
		return 0, false
	}
	idx := -1
	for i, q := range fn.Params {
		if q == prm {
			idx = i
		}
	}
	if idx < 0 {
		return 0, false
	}
	var lo int64
	n := 0
	ok := true
	// every call edge into fn must be a direct call (a method reachable through an interface has unknown callers)
	if node := p.CG().Nodes[fn]; node != nil {
		for _, e := range node.In {
			if e.Site == nil || e.Site.Common().StaticCallee() != fn {
				return 0, false
			}
		}
	}
	for _, caller := range p.ModuleFuncs() {
		instrsOf(caller, func(in ssa.Instruction) {
			// any use of fn as a value (stored, passed, bound) makes its callers unknown
			var ops []*ssa.Value
			for _, op := range in.Operands(ops) {
				if *op == ssa.Value(fn) {
					ci, isCall := in.(ssa.CallInstruction)
					if !isCall || ci.Common().Value != ssa.Value(fn) {
						ok = false
						return
					}
				}
			}
			ci, isCall := in.(ssa.CallInstruction)
			if !isCall || ci.Common().StaticCallee() != fn {
				return
			}
			args := ci.Common().Args
			if idx >= len(args) {
				ok = false
				return
			}
			k, isK := constInt(args[idx])
			if !isK {
				ok = false
				return
			}
			if n == 0 || k < lo {
				lo = k
			}
			n++
		})
	}
	if !ok || n == 0 {
		return 0, false
	}
	paramLowerCache[prm] = &lo
	return lo, true
}
