package main

// Exploration of all parse functions, code-side automata (with non-anchor functions inlined bottom-up as
// minimised DFAs), grammar-side automata, progress facts.

import (
	"fmt"
	"regexp"
	"sort"
	"strings"
)

var parseAnchors = map[string]string{ // grammar nonterminal → parser function
	"declaration": "declaration", "statement": "statement", "expression": "expression", "assignment": "assignment", "unary": "unary",
}

type parserInfo struct {
	p         *Prog
	Models    map[string]*ParseModel
	Names     []string
	States    int
	Probs     []string
	dfaMemo   map[string]*DFA
	building  map[string]bool
	Consuming map[string]bool
	tokOf     map[string]string // grammar terminal text → token name
}

var parserCache = map[*Prog]*parserInfo{}

func getParser(p *Prog) *parserInfo {
	if pi, ok := parserCache[p]; ok {
		return pi
	}
	pi := &parserInfo{p: p, Models: map[string]*ParseModel{}, dfaMemo: map[string]*DFA{}, building: map[string]bool{}, Consuming: map[string]bool{}}
	parserCache[p] = pi
	for _, fn := range parseFunctions(p) {
		m, mc := ExploreParseFn(p, fn)
		pi.Models[fnName(fn)] = m
		pi.Names = append(pi.Names, fnName(fn))
		pi.States += mc.States
		for _, u := range m.Undecided {
			pi.Probs = append(pi.Probs, fnName(fn)+": "+u)
		}
	}
	sort.Strings(pi.Names)
	pi.computeConsuming()
	return pi
}

// computeConsuming: least fixpoint — f is consuming iff every unflagged success return has consumed a token
// itself or through a successful call of a consuming function.
func (pi *parserInfo) computeConsuming() {
	for changed := true; changed; {
		changed = false
		for _, name := range pi.Names {
			if pi.Consuming[name] {
				continue
			}
			ok := true
			n := 0
			for _, e := range pi.Models[name].G.Events("return") {
				if e.Out != "ok" || e.KV["flagged"] == "T" {
					continue
				}
				n++
				cons := e.KV["cons"]
				if cons == "P" {
					continue
				}
				any := false
				for _, c := range strings.Split(cons, ",") {
					if c != "" && pi.Consuming[c] {
						any = true
					}
				}
				if !any {
					ok = false
				}
			}
			if ok && n > 0 {
				pi.Consuming[name] = true
				changed = true
			}
		}
	}
}

func isAnchorFn(name string) bool {
	for _, f := range parseAnchors {
		if f == name {
			return true
		}
	}
	return false
}

// ---- DFA helpers ---------------------------------------------------------------------------------

func (d *DFA) minimize() *DFA {
	n := len(d.acc)
	live := d.live()
	// partition refinement (Moore)
	class := make([]int, n)
	for i := range class {
		switch {
		case !live[i]:
			class[i] = 0
		case d.acc[i]:
			class[i] = 1
		default:
			class[i] = 2
		}
	}
	syms := map[string]bool{}
	for _, t := range d.trans {
		for s := range t {
			syms[s] = true
		}
	}
	var alphabet []string
	for s := range syms {
		alphabet = append(alphabet, s)
	}
	sort.Strings(alphabet)
	numClasses := 0
	{
		d0 := map[int]bool{}
		for _, c := range class {
			d0[c] = true
		}
		numClasses = len(d0)
	}
	for {
		sig := map[string]int{}
		next := make([]int, n)
		for i := 0; i < n; i++ {
			var sb strings.Builder
			fmt.Fprintf(&sb, "%d|", class[i])
			if live[i] {
				for _, s := range alphabet {
					if t, ok := d.trans[i][s]; ok && live[t] {
						fmt.Fprintf(&sb, "%s>%d;", s, class[t])
					}
				}
			}
			k := sb.String()
			if _, ok := sig[k]; !ok {
				sig[k] = len(sig)
			}
			next[i] = sig[k]
		}
		class = next
		if len(sig) == numClasses {
			break
		}
		numClasses = len(sig)
	}
	// rebuild with start state first
	remap := map[int]int{}
	out := &DFA{}
	var order []int
	add := func(c int) int {
		if i, ok := remap[c]; ok {
			return i
		}
		remap[c] = len(order)
		order = append(order, c)
		out.trans = append(out.trans, map[string]int{})
		out.acc = append(out.acc, false)
		return len(order) - 1
	}
	add(class[0])
	rep := map[int]int{}
	for i := 0; i < n; i++ {
		if _, ok := rep[class[i]]; !ok {
			rep[class[i]] = i
		}
	}
	for qi := 0; qi < len(order); qi++ {
		c := order[qi]
		r := rep[c]
		out.acc[qi] = d.acc[r] && live[r]
		if !live[r] {
			continue
		}
		for _, s := range alphabet {
			if t, ok := d.trans[r][s]; ok && live[t] {
				out.trans[qi][s] = add(class[t])
			}
		}
	}
	return out
}

// embed copies DFA d into NFA a between u and v.
func (a *NFA) embed(d *DFA, u, v int) {
	base := make([]int, len(d.acc))
	for i := range base {
		base[i] = a.state()
	}
	a.addEps(u, base[0])
	for i, tr := range d.trans {
		for s, t := range tr {
			a.add(base[i], s, base[t])
		}
		if d.acc[i] {
			a.addEps(base[i], v)
		}
	}
}

// CodeDFA: the language of parse function `name` over tokens and anchor calls.
func (pi *parserInfo) CodeDFA(name string) (*DFA, error) {
	if d, ok := pi.dfaMemo[name]; ok {
		return d, nil
	}
	if pi.building[name] {
		return nil, fmt.Errorf("parse function %s is recursive without passing through an anchor (declaration/statement/expression/assignment/unary)", name)
	}
	m := pi.Models[name]
	if m == nil {
		return nil, fmt.Errorf("parse function %s not found", name)
	}
	pi.building[name] = true
	defer delete(pi.building, name)
	g := m.G
	a := newNFA()
	st := make([]int, len(g.Out))
	for i := range st {
		st[i] = a.state()
	}
	a.start = st[g.Start]
	for u, es := range g.Out {
		for _, e := range es {
			v := e.To
			if e.Ev == nil {
				a.addEps(st[u], st[v])
				continue
			}
			switch e.Ev.Op {
			case "match":
				if e.Ev.Out == "true" {
					for _, t := range strings.Split(e.Ev.KV["set"], ",") {
						a.add(st[u], "T:"+t, st[v])
					}
				} else {
					a.addEps(st[u], st[v])
				}
			case "consume":
				if e.Ev.Out == "ok" {
					a.add(st[u], "T:"+e.Ev.Args[0], st[v])
				} else {
					a.addEps(st[u], st[v])
				}
			case "advance":
				return nil, fmt.Errorf("%s consumes a token with a bare advance() at %s: the token class is unknown", name, e.Ev.Pos)
			case "call":
				if e.Ev.Out != "ok" {
					a.addEps(st[u], st[v])
					continue
				}
				callee := e.Ev.Args[0]
				if isAnchorFn(callee) {
					a.add(st[u], "N:"+callee, st[v])
				} else {
					sub, err := pi.CodeDFA(callee)
					if err != nil {
						return nil, err
					}
					a.embed(sub, st[u], st[v])
				}
			case "atend":
				if name == "Parse" && e.Ev.Out == "true" {
					a.add(st[u], "T:EOF", st[v])
				} else {
					a.addEps(st[u], st[v])
				}
			case "return":
				if e.Ev.Out == "ok" && e.Ev.KV["flagged"] != "T" {
					a.acc[st[v]] = true
				}
				a.addEps(st[u], st[v])
			default:
				a.addEps(st[u], st[v])
			}
		}
	}
	d := a.determinize().minimize()
	pi.dfaMemo[name] = d
	return d, nil
}

// ---- grammar side ----------------------------------------------------------------------------------

var opTokens = map[string]string{"(": "LEFT_PAREN", ")": "RIGHT_PAREN", "{": "LEFT_BRACE", "}": "RIGHT_BRACE", "[": "LEFT_BRACKET", "]": "RIGHT_BRACKET",
	",": "COMMA", ".": "DOT", "-": "MINUS", ":": "COLON", "+": "PLUS", ";": "SEMICOLON", "^": "XOR", "~": "NOT", "%": "MODULO",
	"|": "OR", "||": "LOGICAL_OR", "&": "AND", "&&": "LOGICAL_AND", "*": "STAR", "**": "POWER", "!": "BANG", "!=": "BANG_EQUAL",
	"=": "EQUAL", "==": "EQUAL_EQUAL", "<": "LESS", "<=": "LESS_EQUAL", "<<": "LEFT_SHIFT", ">": "GREATER", ">=": "GREATER_EQUAL", ">>": "RIGHT_SHIFT", "/": "SLASH"}

// terminalToken maps a grammar terminal to a token type name.
func (pi *parserInfo) terminalToken(term string) (string, bool) {
	if strings.HasPrefix(term, `"`) {
		text := strings.Trim(term, `"`)
		if t, ok := opTokens[text]; ok {
			return t, true
		}
		if text == "print" { // reading rule r4: the print terminal is the PRINT keyword
			return "PRINT", true
		}
		if pi.tokOf == nil {
			pi.tokOf = pi.p.KeywordTable()
		}
		if t, ok := pi.tokOf[nfc(text)]; ok {
			return t, true
		}
		return "", false
	}
	switch term {
	case "IDENTIFIER", "NUMBER", "STRING", "EOF":
		return term, true
	}
	return "", false
}

func unquoteGo(s string) (string, error) {
	var out string
	_, err := fmt.Sscanf(s, "%q", &out)
	return out, err
}

var reNonterm = regexp.MustCompile(`^[a-z][A-Za-z_]*$`)

// GrammarDFA: language of nonterminal nt with the documented reading rules applied and non-anchors inlined.
func (pi *parserInfo) GrammarDFA(g *Grammar, nt string) (*DFA, []string, error) {
	var notes []string
	prods := map[string]*rx{}
	for k, v := range g.Prods {
		prods[k] = v
	}
	// r1: call is any chain of ( ) [ ] .name suffixes
	prods["call"] = rSeq(rSym("primary"), rStar(rAlt(
		rSeq(rSym(`"("`), rOpt(rSym("arguments")), rSym(`")"`)),
		rSeq(rSym(`"["`), rSym("expression"), rSym(`"]"`)),
		rSeq(rSym(`"."`), rSym("IDENTIFIER")))))
	// r2: assignment = logic_or ( "=" assignment )?  (target filter is a documented semantic rule)
	prods["assignment"] = rSeq(rSym("logic_or"), rOpt(rSeq(rSym(`"="`), rSym("assignment"))))
	// out-of-domain exemption: a trailing comma inside an object literal
	prods["objectLiteral"] = rSeq(rSym(`"{"`), rOpt(rSeq(rSym("property"), rStar(rSeq(rSym(`","`), rSym("property"))), rOpt(rSym(`","`)))), rSym(`"}"`))
	var convErr error
	var conv func(r *rx) *rx
	conv = func(r *rx) *rx {
		switch r.kind {
		case "sym":
			if t, ok := pi.terminalToken(r.sym); ok {
				return rSym("T:" + t)
			}
			if f, ok := parseAnchors[r.sym]; ok {
				return rSym("N:" + f)
			}
			if reNonterm.MatchString(r.sym) {
				return rSym(r.sym)
			}
			if convErr == nil {
				convErr = fmt.Errorf("grammar terminal %s has no token type (not an operator, keyword or token class)", r.sym)
			}
			return rSym("T:?" + r.sym)
		case "eps":
			return r
		}
		out := &rx{kind: r.kind}
		for _, k := range r.kids {
			out.kids = append(out.kids, conv(k))
		}
		return out
	}
	top, ok := prods[nt]
	if !ok {
		return nil, nil, fmt.Errorf("grammar has no production for %s", nt)
	}
	a := newNFA()
	expand := func(sym string) *rx {
		if strings.HasPrefix(sym, "T:") || strings.HasPrefix(sym, "N:") {
			return nil
		}
		if pr, ok := prods[sym]; ok {
			return conv(pr)
		}
		if convErr == nil {
			convErr = fmt.Errorf("grammar nonterminal %s has no production", sym)
		}
		return rEps()
	}
	s, e, err := a.build(conv(top), expand, 0)
	if err != nil {
		return nil, nil, err
	}
	if convErr != nil {
		return nil, nil, convErr
	}
	a.start = s
	a.acc[e] = true
	return a.determinize().minimize(), notes, nil
}

// FirstTokens: token-level FIRST sets of the anchors (code side), by fixpoint through N: symbols.
func (pi *parserInfo) FirstTokens() (map[string]map[string]bool, error) {
	first := map[string]map[string]bool{}
	dfas := map[string]*DFA{}
	for _, f := range parseAnchors {
		d, err := pi.CodeDFA(f)
		if err != nil {
			return nil, err
		}
		dfas[f] = d
		first[f] = map[string]bool{}
	}
	for changed := true; changed; {
		changed = false
		for f, d := range dfas {
			for s := range d.firstSet() {
				if strings.HasPrefix(s, "T:") {
					if !first[f][s[2:]] {
						first[f][s[2:]] = true
						changed = true
					}
				} else if strings.HasPrefix(s, "N:") {
					for t := range first[s[2:]] {
						if !first[f][t] {
							first[f][t] = true
							changed = true
						}
					}
				}
			}
		}
	}
	return first, nil
}

// FirstOf: token-level FIRST of any parse function.
func (pi *parserInfo) FirstOf(name string, anchorFirst map[string]map[string]bool) (map[string]bool, error) {
	d, err := pi.CodeDFA(name)
	if err != nil {
		return nil, err
	}
	out := map[string]bool{}
	for s := range d.firstSet() {
		if strings.HasPrefix(s, "T:") {
			out[s[2:]] = true
		} else if strings.HasPrefix(s, "N:") {
			for t := range anchorFirst[s[2:]] {
				out[t] = true
			}
		}
	}
	return out, nil
}

// ardenNormalize rewrites direct right recursion into iteration: if the language of X is  A·X ∪ B  (the symbol X itself
// occurring last, with nothing after it), its least solution is A*·B — `unary → ("!"|"-") unary | call` and a loop that
// collects the prefix operators before parsing one call denote the same set of token sequences.  Both sides of a
// comparison are normalised, so equal normal forms mean equal languages; occurrences of X that are not in tail
// position stay ordinary symbols.
func ardenNormalize(d *DFA, self string) *DFA {
	live := d.live()
	pureFinal := func(t int) bool {
		if !d.acc[t] {
			return false
		}
		for _, u := range d.trans[t] {
			if live[u] {
				return false
			}
		}
		return true
	}
	changed := false
	a := newNFA()
	st := make([]int, len(d.acc))
	for i := range st {
		st[i] = a.state()
	}
	a.start = st[0]
	for i, tr := range d.trans {
		if d.acc[i] {
			a.acc[st[i]] = true
		}
		for s, t := range tr {
			if s == self && pureFinal(t) {
				a.addEps(st[i], st[0])
				changed = true
				continue
			}
			a.add(st[i], s, st[t])
		}
	}
	if !changed {
		return d
	}
	return a.determinize().minimize()
}
