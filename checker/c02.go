package main

import (
	"fmt"
	"go/token"
	"regexp"
	"sort"
	"strings"

	"golang.org/x/tools/go/ssa"
)

var reFrameSuffix = regexp.MustCompile(`@[A-Za-z0-9_>$.*()#]+:t\d+`)

// normName strips the site suffixes the machine attaches to call results.
func normName(s string) string {
	s = reFrameSuffix.ReplaceAllString(s, "")
	return reAppendName.ReplaceAllString(s, "append")
}

var reAppendName = regexp.MustCompile(`append:[A-Za-z0-9_>$.*()#]+:t\d+`)

// exploreOperator explores fn (evaluateBinary / evaluateUnary) for one operator token type; the handle*
// helpers are inlined, the coercions and isEqual stay events.
func exploreOperator(p *Prog, fn *ssa.Function, params []AV, opParam string, tok int64) (*InterpModel, [][]*Event, bool) {
	m := NewInterpModel(p, fnName(fn))
	m.EmitTests = true
	keep := map[string]bool{"toNumber": true, "toInt64": true, "stringifyOperand": true, "isEqual": true, "isTruthy": true, "stringify": true, "ConvertBanglaDigitsToASCII": true}
	m.KeepAsEvent = func(c *ssa.Function) bool { return keep[fnName(c)] }
	m.Explore(fn, params, func(st *State) {
		st.Facts["v:"+opParam+".Type"] = IntV(tok)
	})
	ws, ok := m.G.Words(20000)
	return m, ws, ok && len(m.Undecided) == 0
}

func init() {
	debugHooks["op"] = func(p *Prog, what string) {
		name := strings.TrimPrefix(what, "op:")
		c, ok := p.tokenConst(name)
		if !ok {
			fmt.Println("no such token")
			return
		}
		for _, f := range []string{"interpreter.evaluateBinary", "interpreter.evaluateUnary"} {
			fn := p.Func(f)
			params := []AV{Sym("left"), Sym("operator"), Sym("right")}
			if f == "interpreter.evaluateUnary" {
				params = []AV{Sym("operator"), Sym("right")}
			}
			_, ws, ok := exploreOperator(p, fn, params, "operator", c)
			fmt.Println(f, "ok:", ok, "words:", len(ws))
			seen := map[string]bool{}
			var out []string
			for _, w := range ws {
				s := normName(wordString(w))
				if !seen[s] {
					seen[s] = true
					out = append(out, s)
				}
			}
			sort.Strings(out)
			for _, s := range out {
				fmt.Println("   ", s)
			}
		}
	}
}

func init() {
	register("C02", &Checker{
		Run: func(p *Prog, l *Ledger) { checkC02(p, l); checkC02Shared(p, l) },
		Explain: "Decided: S1 dispatch exhaustiveness — every operator token type the parser can store in a Binary/Unary node (read from the token sets of the parser's match calls) selects a real clause of evaluateBinary/evaluateUnary and of the handle* helper: no path returns nil without a reported error (no silent nil for a supported operator), none reaches the 'unknown operator' default. " +
			"I1 operator table — evaluateBinary/evaluateUnary are explored once per operator token (helpers inlined, coercions toNumber/toInt64/stringifyOperand/isEqual as events) and the set of abstract paths is compared with the reference: operands coerced left then right, a failed coercion reported; the value returned on the success path is exactly op(L,R) on the coerced left and right operands in that order (modulo commutativity of + * & | ^ and a>b ≡ b<a), arithmetic and comparison on float64 (IEEE inherited from Go), bitwise on int64; `+` concatenates text(left)+text(right) in that order using Sprintf(%v)/stringifyOperand. " +
			"S2 guards — / and % only behind 'right == 0 → error', shifts only behind 'count < 0 → error', each on the very operand used. S3 equality routes to isEqual, which is Go == on the canonical representations except for arrays/objects (identity); != is its negation. toInt64 accepts a float only under float64(int64(v)) == v. " +
			"Inherited / not decided: IEEE results, math.Pow/Mod accuracy, int64 wrap-around.",
		Rule:    "obligation = (operator token, rule); non-trivial: every operator's path-set comparison",
		Trusted: []string{"Go float64/int64 operator semantics", "math.Pow, math.Mod", "abstract machine"},
	})
}

// parserOperatorTokens: token types matched on successful parse paths that build a node of the given kind
// (read off the explored parser model, so helper functions and method values are looked through).
func parserOperatorTokens(p *Prog, nodeType string) map[int64]bool {
	out := map[int64]bool{}
	kind := strings.TrimPrefix(nodeType, "ast.")
	pi := getParser(p)
	names := p.tokenNames()
	byName := map[string]int64{}
	for v, n := range names {
		byName[n] = v
	}
	for _, name := range pi.Names {
		for _, pth := range successPaths(pi.Models[name]) {
			builds := false
			for _, n := range pth.nodes {
				if n.kind == kind {
					builds = true
				}
			}
			if !builds {
				continue
			}
			for _, set := range pth.matches {
				for _, t := range strings.Split(set, ",") {
					if v, ok := byName[t]; ok {
						out[v] = true
					}
				}
			}
		}
	}
	return out
}

type opSpec struct {
	success []string // regexps for the returned expression (at least the first must occur)
	guard   string   // regexp of a test event that must precede the success return with outcome false
	coerce  string   // toNumber | toInt64 | ""
}

func checkC02(p *Prog, l *Ledger) {
	evb, evu := p.Func("interpreter.evaluateBinary"), p.Func("interpreter.evaluateUnary")
	if evb == nil || evu == nil {
		l.Undecide("C02/anchors", "evaluateBinary/evaluateUnary", "", "not found")
		return
	}
	l.Funcs["interpreter.evaluateBinary"], l.Funcs["interpreter.evaluateUnary"] = true, true
	q := regexp.QuoteMeta
	L, R := q("toNumber(left)#0"), q("toNumber(right)#0")
	Li, Ri := q("toInt64(left)#0"), q("toInt64(right)#0")
	fl := func(inner string) string { return `(conv:float64\()?` + inner + `\)?` }
	bin := map[string]opSpec{
		"MINUS":         {[]string{`\(` + L + ` - ` + R + `\)`}, "", "toNumber"},
		"STAR":          {[]string{`\((` + L + ` \* ` + R + `|` + R + ` \* ` + L + `)\)`}, "", "toNumber"},
		"SLASH":         {[]string{`\(` + L + ` / ` + R + `\)`}, `\(` + R + ` == const:0\)`, "toNumber"},
		"MODULO":        {[]string{`Mod\(` + L + `,` + R + `\)`}, `\(` + R + ` == const:0\)`, "toNumber"},
		"POWER":         {[]string{`Pow\(` + L + `,` + R + `\)`}, "", "toNumber"},
		"GREATER":       {[]string{`\(` + R + ` < ` + L + `\)`}, "", "toNumber"},
		"GREATER_EQUAL": {[]string{`!\(` + L + ` < ` + R + `\)`}, "", "toNumber"},
		"LESS":          {[]string{`\(` + L + ` < ` + R + `\)`}, "", "toNumber"},
		"LESS_EQUAL":    {[]string{`!\(` + R + ` < ` + L + `\)`}, "", "toNumber"},
		"AND":           {[]string{fl(`\((` + Li + ` & ` + Ri + `|` + Ri + ` & ` + Li + `)\)`)}, "", "toInt64"},
		"OR":            {[]string{fl(`\((` + Li + ` \| ` + Ri + `|` + Ri + ` \| ` + Li + `)\)`)}, "", "toInt64"},
		"XOR":           {[]string{fl(`\((` + Li + ` \^ ` + Ri + `|` + Ri + ` \^ ` + Li + `)\)`)}, "", "toInt64"},
		"LEFT_SHIFT":    {[]string{fl(`\(` + Li + ` << ` + Ri + `\)`)}, `\(` + Ri + ` < 0\)`, "toInt64"},
		"RIGHT_SHIFT":   {[]string{fl(`\(` + Li + ` >> ` + Ri + `\)`)}, `\(` + Ri + ` < 0\)`, "toInt64"},
		"EQUAL_EQUAL":   {[]string{`isEqual\((left,right|right,left)\)`}, "", ""},
		"BANG_EQUAL":    {[]string{`!isEqual\((left,right|right,left)\)`}, "", ""},
		"PLUS": {[]string{`\((` + L + ` \+ ` + R + `|` + R + ` \+ ` + L + `)\)`,
			`\(Sprintf\("%v",` + L + `\) \+ right\)`, `\(left \+ stringifyOperand\(right\)#0\)`}, "", ""},
	}
	Rn, Rni := q("toNumber(right)#0"), q("toInt64(right)#0")
	un := map[string]opSpec{
		"MINUS": {[]string{`\(-` + Rn + `\)`}, "", "toNumber"},
		"NOT":   {[]string{fl(`\(\^` + Rni + `\)`)}, "", "toInt64"},
		"BANG":  {[]string{`(true|false)`}, "", ""},
	}
	names := p.tokenNames()
	check := func(kind string, fn *ssa.Function, params []AV, toks map[int64]bool, specs map[string]opSpec) {
		var ids []int64
		for t := range toks {
			ids = append(ids, t)
		}
		sort.Slice(ids, func(i, j int) bool { return ids[i] < ids[j] })
		for _, t := range ids {
			name := names[t]
			key := kind + "#" + name
			m, ws, ok := exploreOperator(p, fn, params, "operator", t)
			l.States += len(m.G.Out)
			if !ok {
				l.Undecide("C02/I1-operator-table", key, "", "paths not enumerable: "+strings.Join(m.Undecided, "; "))
				continue
			}
			spec, has := specs[name]
			if !has {
				l.Violate("C02/S1-dispatch", key, p.Pos(fn.Pos()), "the parser can build a "+kind+" node with operator "+name+" but the reference table has no such operator (new operator without a specification)")
				continue
			}
			var bad []string
			found := map[int]bool{}
			nSucc := 0
			for _, w := range ws {
				word := normName(wordString(w))
				last := lastOf(w)
				if last == nil || last.Op != "return" {
					bad = append(bad, "path does not end in a return: "+word)
					continue
				}
				ret := normName(last.KV["r0"])
				reported := hasOp(w, "rterror", nil)
				if hasOp(w, "rterror", func(e *Event) bool { return strings.Contains(e.KV["msg"], "Unknown") }) {
					bad = append(bad, "operator falls into the unknown-operator default")
					continue
				}
				if ret == "nil" {
					if !reported {
						bad = append(bad, "silent nil: a path returns nil without reporting an error: "+word)
					}
					continue
				}
				if reported {
					bad = append(bad, "a value ("+ret+") is returned after an error was reported: "+word)
					continue
				}
				nSucc++
				// a value is produced only from operands whose coercion succeeded
				failedCoercion := ""
				for _, e := range w {
					// (for +, a failed conversion to number selects the text arm: only operators with one operand type)
					if e.Op == "call" && strings.Contains(e.Out, "err") && len(e.Args) > 1 && spec.coerce != "" && strings.HasSuffix(e.Args[0], "."+spec.coerce) {
						failedCoercion = e.Args[0][strings.LastIndex(e.Args[0], ".")+1:] + "(" + e.Args[1] + ")"
					}
				}
				if failedCoercion != "" {
					bad = append(bad, "a value ("+ret+") is produced on a path on which "+failedCoercion+" failed: the operand is not of the operator's type, and no error is reported (the failure is not looked at)")
					continue
				}
				matched := false
				for i, pat := range spec.success {
					if regexp.MustCompile("^" + pat + "$").MatchString(ret) {
						matched = true
						found[i] = true
					}
				}
				if !matched {
					bad = append(bad, "result "+ret+" is not the documented operation on the coerced operands")
					continue
				}
				if spec.guard != "" {
					g := false
					for _, e := range w {
						if e.Op == "test" && regexp.MustCompile("^"+spec.guard+"$").MatchString(normName(e.Args[0])) && e.Out == "false" {
							g = true
						}
					}
					if !g {
						bad = append(bad, "result "+ret+" computed without the guard "+spec.guard+" having failed on this path")
					}
				}
				// coercion order: left before right
				if spec.coerce != "" && kind == "Binary" {
					li, ri := -1, -1
					for i, e := range w {
						if e.Op == "call" && strings.HasSuffix(e.Args[0], "."+spec.coerce) && len(e.Args) > 1 {
							if e.Args[1] == "left" && li < 0 {
								li = i
							}
							if e.Args[1] == "right" && ri < 0 {
								ri = i
							}
						}
					}
					if li < 0 || ri < 0 {
						bad = append(bad, "operands are not coerced with "+spec.coerce)
					}
				}
			}
			if nSucc == 0 {
				bad = append(bad, "no path yields a value")
			}
			if name == "PLUS" {
				for i := range spec.success {
					if !found[i] {
						bad = append(bad, "missing arm of +: "+spec.success[i])
					}
				}
			}
			if spec.guard != "" {
				// the failing side of the guard must report
				okFail := false
				for _, w := range ws {
					for i, e := range w {
						if e.Op == "test" && regexp.MustCompile("^"+spec.guard+"$").MatchString(normName(e.Args[0])) && e.Out == "true" {
							if i+1 < len(w) && w[i+1].Op == "rterror" {
								okFail = true
							}
						}
					}
				}
				if !okFail {
					bad = append(bad, "the guard "+spec.guard+" does not lead to a reported runtime error")
				}
			}
			bad = uniqStrings(sortStrings(bad))
			if len(bad) == 0 {
				l.Discharge("C02/I1-operator-table", key, p.Pos(fn.Pos()), fmt.Sprintf("%d abstract paths: coercion left→right, errors reported, result = %s", len(ws), strings.Join(spec.success, " | ")), true)
			} else {
				rule := "C02/I1-operator-table"
				if strings.Contains(strings.Join(bad, " "), "silent nil") || strings.Contains(strings.Join(bad, " "), "unknown-operator") {
					rule = "C02/S1-dispatch"
				}
				l.Violate(rule, key, p.Pos(fn.Pos()), strings.Join(bad, " || "))
			}
		}
	}
	bt := parserOperatorTokens(p, "ast.Binary")
	ut := parserOperatorTokens(p, "ast.Unary")
	l.Extra["binary_operator_tokens"] = tokNames(names, bt)
	l.Extra["unary_operator_tokens"] = tokNames(names, ut)
	if len(bt) < 17 || len(ut) < 3 {
		l.Violate("C02/S1-dispatch/vacuity", "parser operator sets", "", fmt.Sprintf("only %d binary and %d unary operator tokens extracted from the parser (17 and 3 documented)", len(bt), len(ut)))
	}
	check("Binary", evb, []AV{Sym("left"), Sym("operator"), Sym("right")}, bt, bin)
	check("Unary", evu, []AV{Sym("operator"), Sym("right")}, ut, un)
	checkCoercions(p, l)
	checkIsEqual(p, l)
	checkStatelessOperators(p, l)
}

func sortStrings(xs []string) []string { sort.Strings(xs); return xs }

func tokNames(names map[int64]string, set map[int64]bool) []string {
	var out []string
	for t := range set {
		out = append(out, names[t])
	}
	sort.Strings(out)
	return out
}

// toNumber / toInt64 per universe representation
func checkCoercions(p *Prog, l *Ledger) { checkCoercionsRule(p, l, "C02/I1-coercions") }

// checkC02Shared: `+` renders a number the way দেখাও prints it (C15's text-function rule) and == / != compare numbers by
// value, which Go's interface == does only if every number has the same representation (C16's universe rule).
func checkC02Shared(p *Prog, l *Ledger) {
	// == and != are total: the comparison isEqual falls back on cannot panic for any pair of values (C07's rule on
	// interface comparisons: no two values of an uncomparable Go type — a struct with a func field, say — can meet there)
	l.AsOnlyWhere(map[string]string{"C07/P2-iface-compare": "C02/S3-equality/total"}, func(o *Obligation) bool { return strings.HasPrefix(o.Pos, "interpreter/") }, func() { checkC07(p, l) })
	l.As(map[string]string{"C15/S2-text-function": "C02/S4-concatenation-text"}, func() { checkTextSites(p, l) })
	l.AsOnly(map[string]string{"C16/S1-": "C02/S3-equality/one-representation/", "C16/S3-": "C02/S3-equality/syntactic-origin/"}, func() { checkC16(p, l) })
}

const (
	coTr    = `call\(utils\.ConvertBanglaDigitsToASCII, value\)`
	coPF    = `ParseFloat\(ConvertBanglaDigitsToASCII\(value\),64\)`
	coWhole = `\((` + coPF + `#0 == conv:float64\(conv:int64\(` + coPF + `#0\)\)|conv:float64\(conv:int64\(` + coPF + `#0\)\) == ` + coPF + `#0)\)`
)

func checkCoercionsRule(p *Prog, l *Ledger, rule string) {
	for _, spec := range []struct {
		fn    string
		typ   string
		words map[string]string
	}{
		{"interpreter.toNumber", "float64", map[string]string{"identity": `return\(value, nil\)`}},
		{"interpreter.toInt64", "float64", map[string]string{
			"integral":     `test\(\(conv:float64\(conv:int64\(value\)\) == value\)\)→true ; return\(conv:int64\(value\), nil\)`,
			"non-integral": `test\(\(conv:float64\(conv:int64\(value\)\) == value\)\)→false ; return\(0, Errorf\(.*\)\)`}},
		// text: transliterated, parsed by ParseFloat as a whole (no prefix parse), then treated like a float
		{"interpreter.toNumber", "string", map[string]string{
			"parsed":   coTr + ` ; niltest\(` + coPF + `#1\)→nil ; return\(` + coPF + `#0, nil\)`,
			"rejected": coTr + ` ; niltest\(` + coPF + `#1\)→nonnil ; return\((const:)?0, Errorf\(.*\)\)`}},
		{"interpreter.toInt64", "string", map[string]string{
			"rejected":     coTr + ` ; niltest\(` + coPF + `#1\)→nonnil ; return\(0, Errorf\(.*\)\)`,
			"integral":     coTr + ` ; niltest\(` + coPF + `#1\)→nil ; test\(` + coWhole + `\)→true ; return\(conv:int64\(` + coPF + `#0\), nil\)`,
			"non-integral": coTr + ` ; niltest\(` + coPF + `#1\)→nil ; test\(` + coWhole + `\)→false ; return\(0, Errorf\(.*\)\)`}},
		{"interpreter.toNumber", "bool", map[string]string{"reject": `return\((const:)?0, Errorf\(.*\)\)`}},
		{"interpreter.toInt64", "bool", map[string]string{"reject": `return\(0, Errorf\(.*\)\)`}},
		{"interpreter.toNumber", "[]interface{}", map[string]string{"reject": `return\((const:)?0, Errorf\(.*\)\)`}},
		{"interpreter.toInt64", "map[string]interface{}", map[string]string{"reject": `return\(0, Errorf\(.*\)\)`}},
	} {
		fn := p.Func(spec.fn)
		key := fnName(fn) + "(" + spec.typ + ")"
		if fn == nil {
			l.Undecide(rule, key, "", "not found")
			continue
		}
		m := NewInterpModel(p, key)
		m.EmitTests = true
		m.KeepAsEvent = func(c *ssa.Function) bool { return fnName(c) == "ConvertBanglaDigitsToASCII" } // transliteration: C10
		m.Unroll = 1                                                                                    // the text case may hand the parsed number to the function itself
		pname := fn.Params[0].Name()
		m.Explore(fn, []AV{Sym("value")}, func(st *State) { st.Facts["type:value"] = StrV(spec.typ) })
		_ = pname
		ws, ok := m.G.Words(200)
		if !ok {
			l.Undecide(rule, key, "", "paths not enumerable")
			continue
		}
		used := map[string]bool{}
		var bad []string
		for _, w := range ws {
			word := normName(wordStringQuiet(w))
			matched := false
			for n, pat := range spec.words {
				if regexp.MustCompile("^" + pat + "$").MatchString(word) {
					matched = true
					used[n] = true
				}
			}
			if !matched {
				bad = append(bad, word)
			}
		}
		for n := range spec.words {
			if !used[n] {
				bad = append(bad, "missing: "+n)
			}
		}
		if len(bad) == 0 {
			l.Discharge(rule, key, p.Pos(fn.Pos()), "as specified", true)
		} else {
			l.Violate(rule, key, p.Pos(fn.Pos()), "coercion of a "+spec.typ+" deviates: "+strings.Join(uniqStrings(sortStrings(bad)), " || "))
		}
	}
}

func checkIsEqual(p *Prog, l *Ledger) {
	rule := "C02/S3-equality"
	fn := p.Func("interpreter.isEqual")
	if fn == nil {
		l.Undecide(rule, "isEqual", "", "not found")
		return
	}
	u := p.BuildUniverse()
	// for every pair (type of a) the result when a is not a container must be Go ==
	for _, t := range u.TypeList() {
		ts := typeStr(t)
		kind := p.kindOf(t)
		m := NewInterpModel(p, "isEqual["+ts+"]")
		m.KeepAsEvent = func(c *ssa.Function) bool { return false }
		m.Explore(fn, []AV{Sym("a"), Sym("b")}, func(st *State) { st.Facts["type:a"] = StrV(ts) })
		var rets []string
		for _, e := range m.G.Events("return") {
			rets = append(rets, normName(e.KV["r0"]))
		}
		rets = uniqStrings(sortStrings(rets))
		key := "isEqual(a:" + ts + ")"
		switch kind {
		case "array", "object":
			bad := false
			for _, r := range rets {
				if r == "(a == b)" {
					bad = true
				}
			}
			// identity: the only ways to answer false are "the other side is not of this kind" and "the lengths differ";
			// otherwise the answer is whether both are the same storage — so every container equals itself, also an empty one
			mw := NewInterpModel(p, "isEqual-words["+ts+"]")
			mw.EmitTests = true
			mw.KeepAsEvent = func(c *ssa.Function) bool { return false }
			mw.Explore(fn, []AV{Sym("a"), Sym("b")}, func(st *State) { st.Facts["type:a"] = StrV(ts) })
			words, okW := mw.G.Words(200)
			var odd []string
			if !okW {
				odd = append(odd, "paths not enumerable")
			}
			reStep := regexp.MustCompile(`^(typetest\((a|b), [^)]*(\{\})?\)→(true|false)|test\(\(len\((a|b)\) == len\((a|b)\)\)\)→(true|false))$`)
			for _, w := range words {
				parts := strings.Split(normName(wordString(w)), " ; ")
				last := parts[len(parts)-1]
				okWord := last == "return((Pointer(ValueOf(a)) == Pointer(ValueOf(b))))" || last == "return((Pointer(ValueOf(b)) == Pointer(ValueOf(a))))"
				if last == "return(false)" && len(parts) >= 2 && strings.HasSuffix(parts[len(parts)-2], "→false") && !strings.HasPrefix(parts[len(parts)-2], "typetest(a,") {
					okWord = true
				}
				for _, st := range parts[:len(parts)-1] {
					if !reStep.MatchString(st) {
						okWord = false
					}
				}
				if !okWord {
					odd = append(odd, strings.Join(parts, " ; "))
				}
			}
			switch {
			case bad:
				l.Violate(rule, key, p.Pos(fn.Pos()), "a container operand reaches Go's interface == (panics when the other side has the same type)")
			case len(odd) > 0:
				l.Violate(rule, key, p.Pos(fn.Pos()), "equality of containers is not identity (same kind, same length, same storage — nothing else may decide, or some container would differ from itself): "+strings.Join(uniqStrings(sortStrings(odd)), " || "))
			default:
				l.Discharge(rule, key, p.Pos(fn.Pos()), "containers compared by identity without interface ==: "+strings.Join(rets, " | "), true)
			}
		default:
			if len(rets) == 1 && (rets[0] == "(a == b)" || rets[0] == "(b == a)") {
				l.Discharge(rule, key, p.Pos(fn.Pos()), "Go == on the canonical representation (numbers by value, strings by content, different types unequal)", true)
			} else {
				l.Violate(rule, key, p.Pos(fn.Pos()), "equality of a "+kind+" is not plain Go ==: "+strings.Join(rets, " | "))
			}
		}
	}
}

// wordStringQuiet renders a word without dispatch type tests, map probes and flag tests.
func wordStringQuiet(w []*Event) string {
	var parts []string
	for _, e := range w {
		if quietOps[e.Op] || e.Op == "flagtest" || trivialNilTest(e) {
			continue
		}
		parts = append(parts, e.String())
	}
	return strings.Join(parts, " ; ")
}

// checkStatelessOperators: whether an operation is valid, and what it yields, is a function of its operands alone.  The
// functions that decide it — evaluateBinary, evaluateUnary and everything they call (coercions, equality, rendering) —
// therefore neither write nor read mutable package-level state; the one exception is the error flag, which only
// utils.RuntimeError writes (C06/S1).  A memo table keyed by operand text, a counter, a "last operand" cache would make
// the same operation succeed once and fail (or succeed wrongly) the next time.
func checkStatelessOperators(p *Prog, l *Ledger) {
	rule := "C02/S5-stateless-operators"
	ii := p.Interp()
	roots := []*ssa.Function{p.Func("interpreter.evaluateBinary"), p.Func("interpreter.evaluateUnary"), ii.IsTruthy, p.Func("interpreter.isEqual"), p.Func("interpreter.stringify")}
	set := map[*ssa.Function]bool{}
	for _, r := range roots {
		if r == nil {
			continue
		}
		for fn := range p.Reachable(r) {
			if p.InModule(fn) && fn != ii.RuntimeErr && fn.Blocks != nil {
				set[fn] = true
			}
		}
	}
	var fns []*ssa.Function
	for fn := range set {
		fns = append(fns, fn)
	}
	sort.Slice(fns, func(i, j int) bool { return p.FuncKey(fns[i]) < p.FuncKey(fns[j]) })
	if len(fns) < 8 {
		l.Violate(rule+"/vacuity", "operator functions", "", fmt.Sprintf("only %d functions reachable from the operator entry points (expected >= 8: the dispatchers, the handle* helpers, the coercions)", len(fns)))
	}
	rootGlobal := func(v ssa.Value) *ssa.Global {
		for i := 0; i < 10; i++ {
			switch x := v.(type) {
			case *ssa.Global:
				return x
			case *ssa.FieldAddr:
				v = x.X
			case *ssa.IndexAddr:
				v = x.X
			case *ssa.UnOp:
				if x.Op != token.MUL {
					return nil
				}
				v = x.X
			case *ssa.Slice:
				v = x.X
			default:
				return nil
			}
		}
		return nil
	}
	mutable := map[*ssa.Global]int{} // 0 unknown, 1 constant after init, 2 mutable
	isMutable := func(g *ssa.Global) bool {
		if mutable[g] != 0 {
			return mutable[g] == 2
		}
		mutable[g] = 1
		for _, fn := range p.ModuleFuncs() {
			if fn.Name() == "init" && fn.Signature.Recv() == nil {
				continue
			}
			instrsOf(fn, func(in ssa.Instruction) {
				switch x := in.(type) {
				case *ssa.Store:
					if rootGlobal(x.Addr) == g {
						mutable[g] = 2
					}
				case *ssa.MapUpdate:
					if rootGlobal(x.Map) == g {
						mutable[g] = 2
					}
				}
			})
		}
		return mutable[g] == 2
	}
	for _, fn := range fns {
		key := p.FuncKey(fn)
		l.Funcs[key] = true
		var bad []string
		pos := ""
		instrsOf(fn, func(in ssa.Instruction) {
			switch x := in.(type) {
			case *ssa.Store:
				if g := rootGlobal(x.Addr); g != nil && g != ii.FlagRT {
					bad = append(bad, "writes the package-level "+g.Name())
					pos = p.InstrPos(in)
				}
			case *ssa.MapUpdate:
				if g := rootGlobal(x.Map); g != nil {
					bad = append(bad, "writes into the package-level table "+g.Name())
					pos = p.InstrPos(in)
				}
			case *ssa.UnOp:
				if g, ok := x.X.(*ssa.Global); ok && x.Op == token.MUL && g != ii.FlagRT && g.Pkg != nil && p.InModulePkg(g.Pkg) && isMutable(g) {
					bad = append(bad, "reads the package-level "+g.Name()+", which is written after initialisation")
					pos = p.InstrPos(in)
				}
			}
		})
		bad = uniqStrings(sortStrings(bad))
		if len(bad) == 0 {
			l.Discharge(rule, key, p.Pos(fn.Pos()), "no package-level state written, none read that changes after initialisation", false)
		} else {
			l.Violate(rule, key, pos, "an operator's outcome must depend on its operands only, but this function "+strings.Join(bad, " and ")+": the same operation can be accepted once and rejected (or computed differently) later")
		}
	}
}
