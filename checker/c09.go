package main

import (
	"fmt"
	"go/types"
	"os"
	"path/filepath"
	"regexp"
	"sort"
	"strconv"
	"strings"
	"unicode"

	"golang.org/x/text/unicode/norm"
	"golang.org/x/tools/go/ssa"
)

func init() {
	register("C09", &Checker{
		Run: checkC09,
		Explain: "Decided: the scanner is explored with its cursor API (isAtEnd/peek/peekNext/advance/match) abstracted to a model that tracks end-of-input knowledge, the facts established about the rune under the cursor and the next one, the number of runes consumed since the token start and the newline bookkeeping; the bodies of the five primitives are themselves matched against reference words. " +
			"S1 partition by construction: tokens are appended only by AddToken and the final EOF append; AddToken's lexeme is source[start:current] with the scanner's own start/current/line; `start = current` precedes every scanToken call and nothing else writes start; current only ever grows by one (advance, match). Exactly one EOF, on the only return path, after the loop. " +
			"S2 nothing dropped silently: every path through scanToken adds exactly one token, or reports at least one diagnostic and adds none, or is a skip path — and skip paths exist only for blank, tab, CR, newline and for '/' followed by a matched '/' or '*'. " +
			"S3 maximal munch = table agreement: the decision table read off the explored dispatcher (first rune → match tests → token type) equals the reference table of one- and two-character operators (two-character forms tested before the one-character token is emitted). Identifiers: loop while isAlphaNumeric(peek()), whole lexeme looked up in the keyword table, IDENTIFIER otherwise. " +
			"S4 newline accounting: every consumed rune that may be a newline is paired with exactly one line++ (before it under peek()=='\\n', or after the dispatcher's advance in the '\\n' clause), and line++ happens for nothing else; line starts at 1 and has no other writer. " +
			"S5 keyword table = README's keyword table ∪ {nil}, with the token types the grammar's productions use. S6 a string token's value is source[start+1:current-1], reached only after at least two consumed runes. " +
			"Inherited: unicode.IsLetter/IsMark tables.",
		Rule:    "obligation = (rule, scanner function / table row / path class); non-trivial: every path-class, table-row and primitive obligation",
		Trusted: []string{"abstract machine + scanner cursor model (lexmodel.go)", "unicode tables", "README keyword table as oracle"},
	})
}

type lexRun struct {
	m  *LexModel
	mc *Machine
}

var lexCache = map[*Prog]*lexRun{}

func exploreScanToken(p *Prog) *lexRun {
	if r, ok := lexCache[p]; ok {
		return r
	}
	fn := p.Func("lexer.(*Scanner).scanToken")
	if fn == nil {
		return nil
	}
	m := NewLexModel(p, "scanToken")
	mc := m.Explore(fn, "F")
	r := &lexRun{m: m, mc: mc}
	lexCache[p] = r
	return r
}

// checkLexPrimitives: bodies of the cursor primitives against reference words.
func checkLexPrimitives(p *Prog, l *Ledger, rule string) bool {
	q := regexp.QuoteMeta
	// the reference is stated on what a primitive tests, stores and returns — with whatever helpers it calls inlined
	specs := map[string]map[string]string{
		"isAtEnd": {"test": q("return(!(s.current < len(s.source)))")},
		"peek": {"end": q("test((s.current < len(s.source)))→false ; return(0)"),
			"rune": q("test((s.current < len(s.source)))→true ; return(s.source[s.current])")},
		"peekNext": {"end": q("test(((s.current + 1) < len(s.source)))→false ; return(0)"),
			"rune": q("test(((s.current + 1) < len(s.source)))→true ; return(s.source[(s.current + 1)])")},
		"advance": {"step": q("fieldstore(s.current, (s.current + 1)) ; return(s.source[s.current])")},
		"match": {"end": q("test((s.current < len(s.source)))→false ; return(false)"),
			"differ": q("test((s.current < len(s.source)))→true ; test((a1 == s.source[s.current]))→false ; return(false)"),
			"same":   q("test((s.current < len(s.source)))→true ; test((a1 == s.source[s.current]))→true ; fieldstore(s.current, (s.current + 1)) ; return(true)")},
	}
	okAll := true
	var names []string
	for n := range specs {
		names = append(names, n)
	}
	sort.Strings(names)
	for _, n := range names {
		fn := p.Func("lexer.(*Scanner)." + n)
		if fn == nil {
			l.Undecide(rule, "Scanner."+n, "", "primitive not found")
			okAll = false
			continue
		}
		l.Funcs[p.FuncKey(fn)] = true
		words := primitiveWords(p, fn)
		if words == nil {
			l.Undecide(rule, "Scanner."+n, p.Pos(fn.Pos()), "paths not enumerable")
			okAll = false
			continue
		}
		before := len(l.Obls)
		matchWordSet(l, rule, "Scanner."+n, p.Pos(fn.Pos()), words, specs[n])
		for _, o := range l.Obls[before:] {
			if o.Status != Discharged {
				okAll = false
			}
		}
		if o := l.index[rule+"\x00Scanner."+n]; o != nil && o.Status != Discharged {
			okAll = false
		}
	}
	return okAll
}

// primitiveWords: the behaviour of a cursor primitive as event words with every helper it calls inlined (so isAtEnd(),
// or a shared peekAt(offset), leaves no trace of its own: only the tests on cursor and length, the stores and the result).
func primitiveWords(p *Prog, fn *ssa.Function) []string {
	m := NewInterpModel(p, "Scanner."+fnName(fn))
	m.EmitTests = true
	m.KeepAsEvent = func(c *ssa.Function) bool { return false }
	var params []AV
	for i := range fn.Params {
		if i == 0 {
			params = append(params, Sym("s"))
		} else {
			params = append(params, Sym(fmt.Sprintf("a%d", i)))
		}
	}
	m.Explore(fn, params, nil)
	ws, ok := m.G.Words(100)
	if !ok || len(m.Undecided) > 0 {
		return nil
	}
	var words []string
	for _, w := range ws {
		// a test repeated on the path with the same outcome (a helper re-checking what its caller established) adds nothing
		var parts []string
		seen := map[string]bool{}
		for _, part := range strings.Split(normName(wordString(w)), " ; ") {
			if strings.HasPrefix(part, "test(") {
				if seen[part] {
					continue
				}
				seen[part] = true
			}
			parts = append(parts, part)
		}
		words = append(words, strings.Join(parts, " ; "))
	}
	return uniqStrings(sortStrings(words))
}

var oneCharTokens = map[rune]string{'(': "LEFT_PAREN", ')': "RIGHT_PAREN", '{': "LEFT_BRACE", '}': "RIGHT_BRACE", '[': "LEFT_BRACKET", ']': "RIGHT_BRACKET",
	',': "COMMA", '.': "DOT", '-': "MINUS", ':': "COLON", '+': "PLUS", ';': "SEMICOLON", '^': "XOR", '~': "NOT", '%': "MODULO"}

// first rune → ordered (second rune → token), then the fallback token
var twoCharTokens = map[rune]struct {
	second   []rune
	tokens   []string
	fallback string
}{
	'|': {[]rune{'|'}, []string{"LOGICAL_OR"}, "OR"},
	'&': {[]rune{'&'}, []string{"LOGICAL_AND"}, "AND"},
	'*': {[]rune{'*'}, []string{"POWER"}, "STAR"},
	'!': {[]rune{'='}, []string{"BANG_EQUAL"}, "BANG"},
	'=': {[]rune{'='}, []string{"EQUAL_EQUAL"}, "EQUAL"},
	'<': {[]rune{'=', '<'}, []string{"LESS_EQUAL", "LEFT_SHIFT"}, "LESS"},
	'>': {[]rune{'=', '>'}, []string{"GREATER_EQUAL", "RIGHT_SHIFT"}, "GREATER"},
	'/': {[]rune{'/', '*'}, []string{"<line-comment>", "<block-comment>"}, "SLASH"},
}

// checkWordCharacters: which runes may stand in a word is decided for every code point — isAlpha(r) holds exactly for
// letters, combining marks and the underscore (U+0000 … U+10FFFF, with Go's unicode tables as the reference, as the
// digit rule of C10 does).  The predicate's paths are evaluated, not run: each path is a conjunction of comparisons with
// constants and of unicode class tests, and the path a code point satisfies gives its answer.  A predicate written in
// terms this evaluation does not know is left to the other rules (a note, not a verdict).
func checkWordCharacters(p *Prog, l *Ledger, rule string) {
	fn := p.Func("lexer.isAlpha")
	if fn == nil || len(fn.Params) != 1 {
		l.Note("word characters: lexer.isAlpha not found; the exhaustive rule is skipped")
		return
	}
	m := NewInterpModel(p, fnName(fn))
	m.EmitTests = true
	m.KeepAsEvent = func(c *ssa.Function) bool { return false }
	v := fn.Params[0].Name()
	m.Explore(fn, []AV{Sym(v)}, nil)
	ws, ok := m.G.Words(2000)
	if !ok || len(ws) == 0 || len(m.Undecided) > 0 {
		l.Note("word characters: the paths of isAlpha are not enumerable; the exhaustive rule is skipped")
		return
	}
	type cond func(r int64) bool
	compile := func(c string, truth bool) cond {
		if mm := reCmp.FindStringSubmatch(c); mm != nil {
			a, op, b := mm[1], mm[2], mm[3]
			ka, errA := strconv.ParseInt(a, 10, 64)
			kb, errB := strconv.ParseInt(b, 10, 64)
			switch {
			case a == v && errB == nil && op == "<":
				return func(r int64) bool { return (r < kb) == truth }
			case a == v && errB == nil && op == "==":
				return func(r int64) bool { return (r == kb) == truth }
			case b == v && errA == nil && op == "<":
				return func(r int64) bool { return (ka < r) == truth }
			case b == v && errA == nil && op == "==":
				return func(r int64) bool { return (ka == r) == truth }
			}
			return nil
		}
		if mm := reCall.FindStringSubmatch(c); mm != nil && mm[2] == v {
			if set, ok := membershipSet(mm[1]); ok {
				return func(r int64) bool { return set[r] == truth }
			}
			var f func(rune) bool
			switch mm[1] {
			case "IsLetter":
				f = unicode.IsLetter
			case "IsMark":
				f = unicode.IsMark
			case "IsDigit":
				f = unicode.IsDigit
			case "IsNumber":
				f = unicode.IsNumber
			case "IsSpace":
				f = unicode.IsSpace
			case "IsPunct":
				f = unicode.IsPunct
			}
			if f != nil {
				return func(r int64) bool { return f(rune(r)) == truth }
			}
		}
		return nil
	}
	type path struct {
		conds  []cond
		result cond // the answer as a function of the rune (a constant, or one more condition)
	}
	var paths []path
	for _, w := range ws {
		var pt path
		for _, e := range w {
			if e.Op != "test" {
				continue
			}
			c := compile(e.Args[0], e.Out == "true")
			if c == nil {
				l.Note("word characters: isAlpha decides on %s, which the exhaustive evaluation does not know; the rule is skipped", e.Args[0])
				return
			}
			pt.conds = append(pt.conds, c)
		}
		last := lastOf(w)
		if last == nil || last.Op != "return" {
			l.Note("word characters: a path of isAlpha does not end in a return; the exhaustive rule is skipped")
			return
		}
		r := last.KV["r0"]
		switch r {
		case "true":
			pt.result = func(int64) bool { return true }
		case "false":
			pt.result = func(int64) bool { return false }
		default:
			truth := true
			if strings.HasPrefix(r, "!") {
				truth, r = false, r[1:]
			}
			pt.result = compile(r, truth)
			if pt.result == nil {
				l.Note("word characters: isAlpha returns %s, which the exhaustive evaluation does not know; the rule is skipped", last.KV["r0"])
				return
			}
		}
		paths = append(paths, pt)
	}
	var wrongly, missing []ivl
	add := func(set []ivl, r int64) []ivl {
		if n := len(set); n > 0 && set[n-1].hi == r-1 {
			set[n-1].hi = r
			return set
		}
		return append(set, ivl{r, r})
	}
	for r := int64(0); r <= maxRune; r++ {
		got, found := false, false
		for _, pt := range paths {
			sat := true
			for _, c := range pt.conds {
				if !c(r) {
					sat = false
					break
				}
			}
			if sat {
				got, found = pt.result(r), true
				break
			}
		}
		if !found {
			l.Note("word characters: no path of isAlpha covers U+%04X; the exhaustive rule is skipped", r)
			return
		}
		want := unicode.IsLetter(rune(r)) || unicode.IsMark(rune(r)) || r == '_'
		if got && !want {
			wrongly = add(wrongly, r)
		}
		if !got && want {
			missing = add(missing, r)
		}
	}
	short := func(set []ivl) string {
		s := ivlString(set)
		if len(set) > 6 {
			s = ivlString(set[:6]) + fmt.Sprintf(" … (%d ranges)", len(set))
		}
		return s
	}
	switch {
	case len(wrongly) > 0 || len(missing) > 0:
		var why []string
		if len(wrongly) > 0 {
			why = append(why, "code points that are neither letter, mark nor underscore are taken as word characters: "+short(wrongly)+" — text that must be rejected (\"Unexpected character.\") scans as part of a name")
		}
		if len(missing) > 0 {
			why = append(why, "letters or marks that are not taken as word characters: "+short(missing))
		}
		l.Violate(rule, "isAlpha#all-code-points", p.Pos(fn.Pos()), strings.Join(why, " || "))
	default:
		l.Discharge(rule, "isAlpha#all-code-points", p.Pos(fn.Pos()), fmt.Sprintf("for each of the %d code points the path it satisfies answers letter ∨ mark ∨ '_' (%d paths)", maxRune+1, len(paths)), true)
	}
}

func checkC09(p *Prog, l *Ledger) {
	checkLexPrimitives(p, l, "C09/S0-cursor-primitives")
	checkWordCharacters(p, l, "C09/S3-maximal-munch/word-characters")
	run := exploreScanToken(p)
	if run == nil {
		l.Undecide("C09/anchors", "scanToken", "", "not found")
		return
	}
	l.States += run.mc.States
	l.Paths += run.mc.Paths
	l.Funcs["lexer.(*Scanner).scanToken"] = true
	for _, u := range run.m.Undecided {
		l.Undecide("infrastructure/explorer", "scanToken", "", u)
	}
	g := run.m.G
	checkLexPartition(p, l)
	// ---- S2 / S4 on the event graph
	type cls struct{ first, second string }
	mon := Monitor{Init: "start||", Step: func(s string, ev *Event) string {
		ps := strings.SplitN(s, "|", 3) // phase | first | second
		switch ev.Op {
		case "consume":
			if ev.KV["uncounted"] != "" {
				return "!" + ev.KV["uncounted"]
			}
			if ev.KV["overcount"] != "" {
				return "!" + ev.KV["overcount"]
			}
			if ps[0] == "start" {
				return "afterfirst|" + ps[1] + "|" + ps[2]
			}
			return "body|" + ps[1] + "|" + ps[2]
		case "first":
			return ps[0] + "|" + ev.Args[0] + "|" + ps[2]
		case "match":
			if ev.Out == "true" && ps[0] == "afterfirst" && ps[2] == "" {
				return "afterfirst|" + ps[1] + "|" + ev.Args[0]
			}
			return s
		case "line++":
			if ev.KV["bad"] != "" {
				return "!" + ev.KV["bad"]
			}
			return s
		case "cursor-write":
			return "!the cursor is moved outside advance/match (" + ev.Args[0] + ")"
		case "token", "lexerror", "peek", "peeknext", "atend":
			if ps[0] == "afterfirst" {
				return "body|" + ps[1] + "|" + ps[2]
			}
			return s
		case "return":
			first := ev.KV["first"]
			if first == "" {
				first = ps[1]
			}
			switch {
			case ev.KV["owed"] != "" && ev.KV["owed"] != "0":
				return "!a newline is consumed on this path but the line counter is not advanced for it"
			case ev.KV["counted"] == "T":
				return "!the line counter is advanced for a newline that is never consumed"
			case ev.KV["deferred"] == "newline-not-counted":
				return "!the newline consumed by the dispatcher is not counted"
			case ev.KV["deferred"] == "maybe-newline":
				return "!the rune consumed by the dispatcher may be a newline, and no clause counts it"
			}
			tok, errs := ev.KV["tok"], ev.KV["err"]
			switch {
			case tok == "1" && errs == "":
				return ""
			case tok == "" && errs != "":
				return ""
			case tok == "" && errs == "":
				// skip path: only for blanks and comment openers
				switch first {
				case `' '`, `'\t'`, `'\r'`, `'\n'`:
					return ""
				case `'/'`:
					if ps[2] == `'/'` || ps[2] == `'*'` {
						return ""
					}
				}
				return "!input starting with " + first + " is consumed without a token and without a diagnostic (silently dropped)"
			case tok == "1" && errs != "":
				return "!a token is added although a diagnostic was reported for the same lexeme"
			default:
				return "!more than one token is added by one scanToken call"
			}
		}
		return s
	}}
	ws := g.Run(mon)
	for _, w := range ws {
		rule := "C09/S2-nothing-dropped"
		if strings.Contains(w.Msg, "line") || strings.Contains(w.Msg, "newline") {
			rule = "C09/S4-newline-accounting"
		}
		l.Violate(rule, "scanToken#"+shortMsgKey(w.Msg), posOf(w), w.Msg, witnessDetail(w))
	}
	nCons := len(g.Events("consume"))
	nLine := len(g.Events("line++"))
	if len(ws) == 0 {
		l.Discharge("C09/S2-nothing-dropped", "scanToken", "", fmt.Sprintf("every path: one token | diagnostics and no token | a documented skip (%d graph nodes)", len(g.Out)), true)
		l.Discharge("C09/S4-newline-accounting", "scanToken", "", fmt.Sprintf("%d consumption sites and %d line increments: every possibly-newline rune is paired with exactly one increment", nCons, nLine), true)
	}
	if nCons < 8 || nLine < 2 {
		l.Violate("C09/S4-newline-accounting/vacuity", "scanToken", "", fmt.Sprintf("only %d consumption sites / %d line increments seen", nCons, nLine))
	}
	// unsafe advances belong to C07/C08 but are reported here too (a panic drops everything)
	for _, e := range g.Events("consume") {
		if e.KV["unsafe"] != "" {
			l.Violate("C09/S0-cursor-safety", "scanToken#"+e.Site, e.Pos, "advance() is reachable where "+e.KV["unsafe"])
		}
	}
	checkExtents(p, l, g, "C09/S7-extents")
	// "each produce a diagnostic": the reporter the scanner calls writes the diagnostic and raises the flag on every path
	// (rule shared with C08; a reporter that suppresses repeats drops lexical errors silently)
	l.As(map[string]string{"C08/S4-flagged": "C09/S2-diagnostic-emitted"}, func() { checkErrorOrigin(p, l, nil) })
	checkNumberScanner(p, l, "C09/S7-extents/number-shape", "C09/S2-number-token")
	checkMunchTable(p, l, g)
	checkKeywords(p, l, g)
	checkStringValue(p, l, g)
	checkScanTokensLoop(p, l)
}

func shortMsgKey(msg string) string {
	msg = regexp.MustCompile(`'[^']*'`).ReplaceAllString(msg, "")
	if len(msg) > 60 {
		msg = msg[:60]
	}
	return strings.TrimSpace(msg)
}

// checkMunchTable reads the dispatcher's decision table off the graph.
func checkMunchTable(p *Prog, l *Ledger, g *Graph) {
	rule := "C09/S3-maximal-munch"
	names := p.tokenNames()
	// DFS from each `first(c)` event: follow match events; stop at the first token / other event
	type entry struct {
		path   string // "=:T,<:F"
		result string
	}
	table := map[string]map[string]string{} // first → path → result
	var walk func(n int, first, path string, depth int, seen map[int]bool)
	walk = func(n int, first, path string, depth int, seen map[int]bool) {
		if depth > 40 || seen[n] {
			return
		}
		seen[n] = true
		defer delete(seen, n)
		for _, e := range g.Out[n] {
			if e.Ev == nil {
				walk(e.To, first, path, depth, seen) // ε edges (tests that emit nothing) do not count towards the depth
				continue
			}
			switch e.Ev.Op {
			case "first":
				if first == "" {
					walk(e.To, e.Ev.Args[0], "", depth+1, seen)
				}
			case "consume", "maplookup", "has":
				walk(e.To, first, path, depth+1, seen) // a table lookup decides nothing by itself: what follows does
			case "match":
				if first == "" {
					continue
				}
				o := "F"
				if e.Ev.Out == "true" {
					o = "T"
				}
				walk(e.To, first, path+e.Ev.Args[0]+":"+o+",", depth+1, seen)
			case "token":
				if first == "" {
					continue
				}
				res := "tok:" + e.Ev.Args[0]
				if t, err := strconv.ParseInt(e.Ev.Args[0], 10, 64); err == nil {
					res = names[t]
				}
				if table[first] == nil {
					table[first] = map[string]string{}
				}
				if old, ok := table[first][path]; ok && old != res {
					res = old + "|" + res
				}
				table[first][path] = res
			case "line++":
				if first != "" {
					if table[first] == nil {
						table[first] = map[string]string{}
					}
					table[first][path] = "<newline>"
				}
			case "return":
				if first != "" {
					if table[first] == nil {
						table[first] = map[string]string{}
					}
					if _, ok := table[first][path]; !ok {
						table[first][path] = "<skip>"
					}
				}
			default: // peek / atend / lexerror …: a sub-scanner
				if first != "" {
					if table[first] == nil {
						table[first] = map[string]string{}
					}
					if _, ok := table[first][path]; !ok {
						table[first][path] = "<scan:" + e.Ev.Op + ">"
					}
				}
			}
		}
	}
	walk(g.Start, "", "", 0, map[int]bool{})
	l.Extra["scanner_decision_table"] = table
	// one-character tokens
	for r, tok := range oneCharTokens {
		key := "scanToken#" + strconv.QuoteRune(r)
		got := table[strconv.QuoteRune(r)]
		if len(got) == 1 && got[""] == tok {
			l.Discharge(rule, key, "", "→ "+tok, true)
		} else {
			l.Violate(rule, key, "", fmt.Sprintf("%q must yield %s unconditionally; the scanner does %v", r, tok, got))
		}
	}
	for r, spec := range twoCharTokens {
		key := "scanToken#" + strconv.QuoteRune(r)
		got := table[strconv.QuoteRune(r)]
		var bad []string
		prefix := ""
		for i, sec := range spec.second {
			q := strconv.QuoteRune(sec)
			want := spec.tokens[i]
			res, ok := got[prefix+q+":T,"]
			switch {
			case !ok:
				bad = append(bad, fmt.Sprintf("%c%c is not tested (after %q)", r, sec, prefix))
			case strings.HasPrefix(want, "<"):
				if !strings.HasPrefix(res, "<") {
					bad = append(bad, fmt.Sprintf("%c%c yields %s instead of opening a comment", r, sec, res))
				}
			case res != want:
				bad = append(bad, fmt.Sprintf("%c%c yields %s instead of %s", r, sec, res, want))
			}
			prefix += q + ":F,"
		}
		if res, ok := got[prefix]; !ok || res != spec.fallback {
			bad = append(bad, fmt.Sprintf("%c alone yields %q instead of %s (two-character forms must be tried first)", r, res, spec.fallback))
		}
		if len(got) != len(spec.second)+1 {
			bad = append(bad, fmt.Sprintf("unexpected decision paths: %v", got))
		}
		if len(bad) == 0 {
			l.Discharge(rule, key, "", fmt.Sprintf("%v then %s", spec.tokens, spec.fallback), true)
		} else {
			l.Violate(rule, key, "", strings.Join(bad, "; "))
		}
	}
	// whitespace, newline, string opener
	for r, want := range map[rune]string{' ': "<skip>", '\t': "<skip>", '\r': "<skip>", '\n': "<newline>", '"': "<scan:"} {
		key := "scanToken#" + strconv.QuoteRune(r)
		got := table[strconv.QuoteRune(r)]
		if len(got) == 1 && strings.HasPrefix(got[""], want) {
			l.Discharge(rule, key, "", got[""], true)
		} else {
			l.Violate(rule, key, "", fmt.Sprintf("%q: expected %s, the scanner does %v", r, want, got))
		}
	}
	// no other first rune has a clause of its own
	for first := range table {
		r, _ := strconv.Unquote(first)
		rr := []rune(r)
		if len(rr) != 1 {
			continue
		}
		_, a := oneCharTokens[rr[0]]
		_, b := twoCharTokens[rr[0]]
		if rr[0] == '_' && len(table[first]) == 1 && strings.HasPrefix(table[first][""], "<scan:") {
			continue // `_` starts an identifier like a letter does (documented); the classifier singles it out by an equality test
		}
		if !a && !b && !strings.ContainsRune(" \t\r\n\"", rr[0]) {
			l.Violate(rule, "scanToken#"+first, "", fmt.Sprintf("the scanner has a clause for %s (%v) that the lexical grammar does not document", first, table[first]))
		}
	}
}

// checkKeywords: the keyword table against README.
func checkKeywords(p *Prog, l *Ledger, g *Graph) {
	rule := "C09/S5-keywords"
	got := p.KeywordTable()
	// any other writer of the table?
	for _, fn := range p.ModuleFuncs() {
		if strings.Contains(fn.Synthetic, "package initializer") {
			continue
		}
		instrsOf(fn, func(in ssa.Instruction) {
			if mu, ok := in.(*ssa.MapUpdate); ok && strings.Contains(describe(mu.Map), "lexer.keywords") {
				l.Violate(rule, p.FuncKey(fn)+"#write(keywords)", p.InstrPos(in), "the keyword table is modified at run time")
			}
		})
	}
	readme, err := os.ReadFile(filepath.Join(p.RepoDir, "README.md"))
	if err != nil {
		l.Undecide(rule, "README.md", "", "cannot read the documented keyword table: "+err.Error())
		return
	}
	gloss := []struct{ re, tok string }{
		{`(?i)return`, "RETURN"}, {`(?i)declares a function`, "FUN"}, {`(?i)variable`, "VAR"}, {`(?i)for-loop`, "FOR"}, {`(?i)if-statement`, "IF"}, {`(?i)else`, "ELSE"},
		{`(?i)while`, "WHILE"}, {`(?i)boolean true`, "TRUE"}, {`(?i)boolean false`, "FALSE"}, {`(?i)print`, "PRINT"}, {`(?i)return`, "RETURN"},
		{`(?i)break`, "BREAK"}, {`(?i)continue`, "CONTINUE"}, {`(?i)logical and`, "LOGICAL_AND"}, {`(?i)logical or`, "LOGICAL_OR"},
	}
	want := map[string]string{"nil": "NIL"}
	rowRe := regexp.MustCompile("(?m)^\\|\\s*`([^`]+)`\\s*\\|\\s*([^|]+?)\\s*\\|")
	inTable := false
	for _, line := range strings.Split(string(readme), "\n") {
		if strings.Contains(line, "Keywords & Reserved Words") {
			inTable = true
		} else if inTable && strings.HasPrefix(line, "## ") {
			inTable = false
		}
		if !inTable {
			continue
		}
		if mm := rowRe.FindStringSubmatch(line); mm != nil {
			for _, gl := range gloss {
				if regexp.MustCompile(gl.re).MatchString(mm[2]) {
					want[norm.NFC.String(mm[1])] = gl.tok
					break
				}
			}
		}
	}
	if len(want) < 15 {
		l.Undecide(rule, "README.md#keyword-table", "", fmt.Sprintf("only %d keywords recognised in README's table (15 expected)", len(want)))
		return
	}
	for kw, tok := range want {
		key := "keyword:" + kw
		if got[kw] == tok {
			l.Discharge(rule, key, "", "→ "+tok+" (README and scanner agree)", true)
		} else if got[kw] == "" {
			l.Violate(rule, key, "", "documented keyword "+kw+" ("+tok+") is missing from the scanner's table: it would scan as an identifier")
		} else {
			l.Violate(rule, key, "", "keyword "+kw+" maps to "+got[kw]+" but is documented as "+tok)
		}
	}
	for kw, tok := range got {
		if _, ok := want[kw]; !ok {
			l.Violate(rule, "keyword:"+kw, "", "undocumented keyword "+kw+" → "+tok+": a word that is a keyword although the documentation does not list it")
		}
	}
	// identifier(): whole lexeme looked up, IDENTIFIER fallback
	idTok, _ := p.tokenConst("IDENTIFIER")
	okLookup, okFallback := false, false
	badTok := ""
	nWord, munchBad, munchPos := 0, "", ""
	for _, es := range g.Out {
		for _, e := range es {
			if e.Ev == nil || e.Ev.Op != "token" {
				continue
			}
			a := e.Ev.Args[0]
			isLookup := strings.HasPrefix(a, "global:lexer.keywords[") || strings.HasPrefix(a, "table:lexer.")
			if isLookup || a == fmt.Sprint(idTok) {
				// the longest piece: a word ends only where the next rune cannot continue it
				nWord++
				if e.Ev.KV["at-end"] != "T" && e.Ev.KV["after-may"] != "" {
					munchBad = fmt.Sprintf("a word token (%s) is produced although the rune after it may still be one of %s: the word is cut short (a keyword followed by a digit or letter must be one identifier)", a, e.Ev.KV["after-may"])
					munchPos = e.Ev.Pos
				}
			}
			if isLookup {
				if strings.HasSuffix(a, "[conv:string(s.source[s.start:s.current])]") {
					okLookup = true
				} else {
					badTok = a
				}
				if strings.HasPrefix(a, "table:") {
					// the table is a function: its fall-through value is the fallback
					if fn := p.Func(strings.TrimPrefix(a[:strings.Index(a, "[")], "table:")); fn != nil {
						if ws := p.WordSwitch(fn); ws != nil && ws.Default.K == KInt && ws.Default.I == idTok {
							okFallback = true
						}
					}
				}
			}
			if a == fmt.Sprint(idTok) {
				okFallback = true
			}
		}
	}
	switch {
	case munchBad != "":
		l.Violate(rule, "identifier#longest", munchPos, munchBad)
	case nWord == 0:
		l.Violate(rule, "identifier#longest", "", "no word token found")
	default:
		l.Discharge(rule, "identifier#longest", "", fmt.Sprintf("at each of the %d places a word token is produced, the input has ended or the next rune is known to be neither letter, mark, underscore nor digit", nWord), true)
	}
	switch {
	case badTok != "":
		l.Violate(rule, "identifier#lookup", "", "the keyword lookup uses "+badTok+" instead of the whole lexeme source[start:current]")
	case okLookup && okFallback:
		l.Discharge(rule, "identifier#lookup", "", "keyword iff the whole lexeme is in the table, IDENTIFIER otherwise", true)
	default:
		l.Violate(rule, "identifier#lookup", "", fmt.Sprintf("identifier scanning does not end in 'keyword lookup of the lexeme, else IDENTIFIER' (lookup=%v fallback=%v)", okLookup, okFallback))
	}
}

// checkStringValue: S6 and lemma (c).
func checkStringValue(p *Prog, l *Ledger, g *Graph) {
	strTok, _ := p.tokenConst("STRING")
	n := 0
	for _, es := range g.Out {
		for _, e := range es {
			if e.Ev == nil || e.Ev.Op != "token" || e.Ev.Args[0] != fmt.Sprint(strTok) {
				continue
			}
			n++
			if e.Ev.Args[1] == "conv:string(s.source[(s.start + 1):(s.current + -1)])" || e.Ev.Args[1] == "conv:string(s.source[(s.start + 1):(s.current - 1)])" {
				l.Discharge("C09/S6-string-value", "stringLiteral#value", e.Ev.Pos, "value = text between the quotes: source[start+1 : current-1]", true)
			} else {
				l.Violate("C09/S6-string-value", "stringLiteral#value", e.Ev.Pos, "the STRING token's value is "+e.Ev.Args[1]+", not the text between the quotes (source[start+1:current-1])")
			}
		}
	}
	if n == 0 {
		l.Violate("C09/S6-string-value", "stringLiteral#value", "", "no STRING token is ever produced")
	}
}

// sliceObligations: every source[lo:hi] needs enough consumed runes (lemma c): start+klo <= current+khi.
func sliceObligations(g *Graph) (ok []string, bad []string) {
	off := func(s string) (int, bool) {
		switch {
		case s == "" || s == "s.start" || s == "s.current":
			return 0, true
		}
		if mm := regexp.MustCompile(`^\(s\.(start|current)([+-]\d+)\)$`).FindStringSubmatch(strings.ReplaceAll(s, " ", "")); mm != nil {
			k, _ := strconv.Atoi(mm[2])
			return k, true
		}
		return 0, false
	}
	for _, e := range g.Events("slice") {
		lo, ok1 := off(e.Args[0])
		hi, ok2 := off(e.Args[1])
		desc := fmt.Sprintf("%s: source[%s:%s] with >= %s runes consumed since start", e.Pos, e.Args[0], e.Args[1], e.KV["adv"])
		if !ok1 || !ok2 || !strings.Contains(e.Args[0]+"s.start", "start") {
			bad = append(bad, desc+" (bounds not understood)")
			continue
		}
		adv, _ := strconv.Atoi(e.KV["adv"])
		if adv >= lo-hi {
			ok = append(ok, desc)
		} else {
			bad = append(bad, desc+fmt.Sprintf(" but %d are needed", lo-hi))
		}
	}
	return
}

// soleCallerKey: the key of fn, or — when fn takes nothing but its receiver, is never used as a value, and every one
// of its call sites is in one and the same function, on that function's own receiver — the key of that function (at
// most three levels up).
func soleCallerKey(p *Prog, fn *ssa.Function) string {
	if os.Getenv("DBGSOLE") != "" {
		fmt.Fprintln(os.Stderr, "sole", fn, fn.Signature.Recv() == nil, len(fn.Params), p.UsedAsValue(fn), len(p.CallSites(fn)))
		for _, cs := range p.CallSites(fn) {
			fmt.Fprintln(os.Stderr, "  cs", cs.Parent(), cs.Parent().Synthetic, cs.Common().Args[0])
		}
	}
	for depth := 0; depth < 3; depth++ {
		if fn.Signature.Recv() == nil || len(fn.Params) != 1 || p.UsedAsValue(fn) || !isPlainSetter(fn) {
			break
		}
		css := p.CallSites(fn)
		if len(css) == 0 {
			break
		}
		var caller *ssa.Function
		ok := true
		for _, cs := range css {
			c := cs.Parent()
			if caller != nil && c != caller || cs.Common().StaticCallee() != fn || len(c.Params) == 0 || c.Signature.Recv() == nil {
				ok = false
				break
			}
			caller = c
			// the receiver handed over is the caller's own receiver (or the part of it embedded by value)
			a := cs.Common().Args[0]
			if fa, isFA := a.(*ssa.FieldAddr); isFA && promotedThrough(fa.X.Type(), fa.Field) {
				a = fa.X
			}
			if a != ssa.Value(c.Params[0]) {
				ok = false
				break
			}
		}
		if !ok || caller == nil || caller == fn {
			break
		}
		fn = caller
	}
	return p.FuncKey(fn)
}

// isPlainSetter: one straight line of loads, arithmetic and stores — no call, no branch (beginLexeme, newLine): the
// only kind of helper that writes "on behalf of" its caller; a scanning routine that happens to have one caller does not.
func isPlainSetter(fn *ssa.Function) bool {
	if len(fn.Blocks) != 1 {
		return false
	}
	for _, in := range fn.Blocks[0].Instrs {
		switch in.(type) {
		case *ssa.FieldAddr, *ssa.UnOp, *ssa.BinOp, *ssa.Store, *ssa.Return, *ssa.DebugRef:
		default:
			return false
		}
	}
	return true
}

// checkLexPartition: S1 who-writes facts.
func checkLexPartition(p *Prog, l *Ledger) {
	rule := "C09/S1-partition"
	writers := map[string][]string{}
	for _, fn := range p.ModuleFuncs() {
		instrsOf(fn, func(in ssa.Instruction) {
			st, ok := in.(*ssa.Store)
			if !ok {
				return
			}
			fa, ok := st.Addr.(*ssa.FieldAddr)
			if !ok {
				return
			}
			tn, f := structKey(fa.X.Type(), fa.Field)
			if tn == "lexer.Scanner" {
				// a setter whose only callers are one scanner method writes on behalf of that method
				writers[f] = append(writers[f], soleCallerKey(p, fn)+":"+strings.ReplaceAll(recvFieldExpr(fn, st.Val), "$.", "s."))
			}
		})
	}
	expect := map[string]func(w string) bool{
		"tokens": func(w string) bool {
			return strings.HasPrefix(w, "lexer.NewScanner:") || strings.HasPrefix(w, "lexer.(*Scanner).AddToken:append(") || strings.HasPrefix(w, "lexer.(*Scanner).ScanTokens:append(")
		},
		"start": func(w string) bool {
			return strings.HasPrefix(w, "lexer.NewScanner:0") || w == "lexer.(*Scanner).ScanTokens:s.current"
		},
		"current": func(w string) bool {
			return strings.HasPrefix(w, "lexer.NewScanner:0") || w == "lexer.(*Scanner).advance:(s.current+1)" || w == "lexer.(*Scanner).match:(s.current+1)"
		},
		"line": func(w string) bool {
			return strings.HasPrefix(w, "lexer.NewScanner:1") || strings.HasSuffix(w, ":(s.line+1)")
		},
		"source": func(w string) bool { return strings.HasPrefix(w, "lexer.NewScanner:") },
	}
	for f, pred := range expect {
		ws := writers[f]
		var bad []string
		for _, w := range ws {
			if !pred(w) {
				bad = append(bad, w)
			}
		}
		if len(ws) == 0 {
			l.Violate(rule, "Scanner."+f, "", "no writer of Scanner."+f+" found")
		} else if len(bad) > 0 {
			l.Violate(rule, "Scanner."+f, "", "Scanner."+f+" is written in an undocumented way: "+strings.Join(bad, ", "))
		} else {
			l.Discharge(rule, "Scanner."+f, "", fmt.Sprintf("writers: %s", strings.Join(ws, ", ")), true)
		}
	}
	// AddToken: lexeme = source[start:current], line = s.line
	fn := p.Func("lexer.(*Scanner).AddToken")
	if fn == nil {
		l.Undecide(rule, "Scanner.AddToken", "", "not found")
		return
	}
	m := NewInterpModel(p, "AddToken")
	m.MainMode = true
	m.InlinePkg = "lexer"
	m.Explore(fn, []AV{Sym("s"), Sym("tokenType"), Sym("literal")}, nil)
	ws, _ := m.G.Words(10)
	want := "call(token.CTOR, tokenType, conv:string(s.source[s.start:s.current]), literal, s.line) ; fieldstore(s.tokens, append) ; return()"
	got := ""
	if len(ws) == 1 {
		got = normName(wordString(ws[0]))
		got = regexp.MustCompile(`append\(s\.tokens, [^)]*\) ; `).ReplaceAllString(got, "")
		for name := range tokenConstructors(p) {
			got = strings.Replace(got, "call("+name+",", "call(token.CTOR,", 1)
		}
	}
	if got == want {
		l.Discharge(rule, "Scanner.AddToken", p.Pos(fn.Pos()), "appends Token{type, source[start:current], literal, line}", true)
	} else {
		l.Violate(rule, "Scanner.AddToken", p.Pos(fn.Pos()), "AddToken does not append Token{type, source[start:current], literal, line}: "+got)
	}
	// every constructor of package token (NewToken, or a value-returning sibling) sets the four fields from its four
	// arguments in order
	var ctors []string
	for name := range tokenConstructors(p) {
		ctors = append(ctors, name)
	}
	sort.Strings(ctors)
	for _, name := range ctors {
		nt := tokenConstructors(p)[name]
		if tokenCtorFaithful(p, nt) {
			l.Discharge(rule, name, p.Pos(nt.Pos()), "fields set from the arguments in order", true)
		} else {
			l.Violate(rule, name, p.Pos(nt.Pos()), fnName(nt)+" does not store its arguments in the corresponding fields")
		}
	}
}

var tokenCtorCache = map[*Prog]map[string]*ssa.Function{}

// tokenConstructors: the functions of package token that take (type, lexeme, literal, line) and return a Token or a
// pointer to one.
func tokenConstructors(p *Prog) map[string]*ssa.Function {
	if m, ok := tokenCtorCache[p]; ok {
		return m
	}
	out := map[string]*ssa.Function{}
	tokenCtorCache[p] = out
	for _, fn := range p.ModuleFuncs() {
		if fnPkgName(fn) != "token" || fn.Signature.Recv() != nil || fn.Signature.Params().Len() != 4 || fn.Signature.Results().Len() != 1 || fn.Blocks == nil {
			continue
		}
		if typeStr(derefT(fn.Signature.Results().At(0).Type())) != "token.Token" {
			continue
		}
		ps := fn.Signature.Params()
		b1, ok1 := ps.At(1).Type().Underlying().(*types.Basic)
		b3, ok3 := ps.At(3).Type().Underlying().(*types.Basic)
		if typeStr(ps.At(0).Type()) == "token.TokenType" && ok1 && b1.Kind() == types.String && isIfaceT(ps.At(2).Type()) && ok3 && b3.Kind() == types.Int {
			out[p.FuncKey(fn)] = fn
		}
	}
	return out
}

// tokenCtorFaithful: on its only path the constructor returns a token whose fields are its arguments, in order —
// directly, or through another faithful constructor.
func tokenCtorFaithful(p *Prog, nt *ssa.Function) bool {
	mm := NewInterpModel(p, fnName(nt))
	mm.KeepAsEvent = func(c *ssa.Function) bool { return false }
	mm.Explore(nt, []AV{Sym("tokenType"), Sym("lexeme"), Sym("literal"), Sym("line")}, nil)
	rets := mm.G.Events("return")
	if len(rets) != 1 {
		return false
	}
	kv := rets[0].KV
	return kv["r0.Type"] == "tokenType" && kv["r0.Lexeme"] == "lexeme" && kv["r0.Literal"] == "literal" && kv["r0.Line"] == "line"
}

func isTokenCtorName(p *Prog, name string) bool {
	for k := range tokenConstructors(p) {
		if name == k || strings.HasSuffix(name, "."+fnName(tokenConstructors(p)[k])) && strings.HasPrefix(name, "token.") {
			return true
		}
	}
	return false
}

// checkScanTokensLoop: start=current before each scanToken; one EOF after the loop on the only return.
func checkScanTokensLoop(p *Prog, l *Ledger) {
	rule := "C09/S1-partition"
	fn := p.Func("lexer.(*Scanner).ScanTokens")
	if fn == nil {
		l.Undecide(rule, "ScanTokens", "", "not found")
		return
	}
	m := NewInterpModel(p, "ScanTokens")
	m.MainMode = true
	// the calls the automaton below speaks about stay calls; any other helper of the package is looked into
	m.InlinePkg = "lexer"
	m.InlineStop = map[string]bool{}
	for _, f := range p.ModuleFuncs() {
		if fnPkgName(f) != "lexer" {
			continue
		}
		k := p.FuncKey(f)
		for _, suf := range []string{".isAtEnd", ".scanToken", ".addToken", ".AddToken"} {
			if strings.HasSuffix(k, suf) {
				m.InlineStop[fnName(f)] = true
			}
		}
	}
	m.Explore(fn, []AV{Sym("s")}, nil)
	eofTok, _ := p.tokenConst("EOF")
	// three independent facts are tracked along every path: is start == current (set by `start = current`, destroyed by
	// scanning a token); what did the last end-of-input test say; how many EOF tokens exist.  The loop may be written
	// `for !isAtEnd() { start = current; scanToken() }` or `for { start = current; if isAtEnd() { break }; scanToken() }`.
	mon := Monitor{Init: "F|?|0", Step: func(s string, ev *Event) string {
		f := strings.Split(s, "|") // marked | last test (? more atend pending) | EOF tokens
		switch ev.Op {
		case "call":
			switch {
			case strings.HasSuffix(ev.Args[0], ".isAtEnd"):
				f[1] = "pending"
			case strings.HasSuffix(ev.Args[0], ".scanToken"):
				if f[0] != "T" {
					return "!scanToken is called without `start = current` having been executed since the last token"
				}
				if f[1] != "more" {
					return "!scanToken is called without the input having been found non-empty in this iteration"
				}
				f[0], f[1] = "F", "?"
			case isTokenCtorName(p, ev.Args[0]):
				if f[1] != "atend" {
					return "!the end-of-input token is created before the input is exhausted"
				}
				if ev.Args[1] != fmt.Sprint(eofTok) || ev.Args[2] != `""` || ev.Args[4] != "s.line" {
					return "!the closing token is " + strings.Join(ev.Args[1:], ",") + " instead of EOF with empty lexeme and the current line"
				}
				f[2] = f[2] + "+"
			case strings.HasSuffix(ev.Args[0], ".addToken") || strings.HasSuffix(ev.Args[0], ".AddToken"):
				// the scanner's own token constructor: lexeme source[start:current] (empty iff start == current), line s.line
				if f[1] != "atend" {
					return "!the end-of-input token is created before the input is exhausted"
				}
				if len(ev.Args) < 3 || ev.Args[2] != fmt.Sprint(eofTok) {
					return "!the closing token is not EOF: " + strings.Join(ev.Args[1:], ",")
				}
				if f[0] != "T" {
					return "!the EOF token is added while start != current: its lexeme is not empty"
				}
				f[2] = f[2] + "+A"
			default:
				return "!unexpected call " + ev.Args[0] + " in ScanTokens"
			}
		case "test":
			if f[1] == "pending" {
				if ev.Out == "true" {
					f[1] = "atend"
				} else {
					f[1] = "more"
				}
			}
		case "fieldstore":
			if ev.Args[0] == "s.start" {
				if ev.Args[1] != "s.current" {
					return "!start is set to " + ev.Args[1] + ", not to the cursor"
				}
				f[0] = "T"
			}
			if ev.Args[0] == "s.tokens" {
				if f[2] != "0+" {
					return "!tokens is reassigned in ScanTokens before exactly one EOF token exists"
				}
				f[2] = "0+A"
			}
		case "backedge":
			if f[0] == "T" && f[1] != "?" {
				return "!loop iteration without scanning a token"
			}
		case "return":
			if f[2] != "0+A" {
				return "!ScanTokens returns without having appended exactly one EOF token after the loop"
			}
			if !strings.HasPrefix(ev.KV["r0"], "append:") && ev.KV["r0"] != "s.tokens" {
				return "!ScanTokens returns " + ev.KV["r0"] + " instead of the token list"
			}
			return ""
		}
		return strings.Join(f, "|")
	}}
	runMon(l, rule, "ScanTokens", m, mon, "loop: !isAtEnd → start=current → scanToken; then exactly one EOF token (empty lexeme, current line) appended; single return")
}

var _ = types.Typ

// checkExtents (S7): where the three multi-rune skipping/collecting loops stop.  "separated only by blanks, //
// comments and /* */ comments" and "a string token's value is the text between its quotes" fix the extent of each
// construct: a line comment runs to the next newline or the end of input and no further; a block comment ends with
// the first "*" "/" pair that lies wholly behind its opener; a string ends with the first quote behind its opener.
// Decided on the scanner's event graph from what each path knows, at every later consumption and at the return,
// about the runes it consumed (knowledge gained by tests made after consuming a rune counts too, so the loop may be
// written peek-then-advance or advance-then-test).
func checkExtents(p *Prog, l *Ledger, g *Graph, rule string) {
	const nl, star, slash, quote = "U+000A–U+000A", "U+002A–U+002A", "U+002F–U+002F", "U+0022–U+0022"
	atoi := func(s string) int { n, _ := strconv.Atoi(s); return n }
	seenMode := map[string]int{}
	mon := Monitor{Init: "start||", Step: func(s string, ev *Event) string {
		ps := strings.SplitN(s, "|", 3) // phase | first | second
		mode := ps[1] + ps[2]
		switch ev.Op {
		case "first":
			return ps[0] + "|" + ev.Args[0] + "|" + ps[2]
		case "match":
			if ev.Out == "true" && ps[0] == "afterfirst" && ps[2] == "" {
				return "afterfirst|" + ps[1] + "|" + ev.Args[0]
			}
			return s
		case "token", "lexerror", "peek", "peeknext", "atend":
			if ps[0] == "afterfirst" {
				return "body|" + ps[1] + "|" + ps[2]
			}
			return s
		case "consume":
			if ps[0] == "start" {
				return "afterfirst|" + ps[1] + "|" + ps[2]
			}
			if ps[0] == "afterfirst" && ev.Args[0] == "match" && ps[2] == "" {
				return s // the opener's second rune (the match event set it)
			}
			switch mode {
			case `'/''/'`:
				if ev.KV["prevnl"] == "T" && atoi(ev.KV["h1adv"]) >= 3 {
					return "!a // comment goes on consuming after a rune that may be a newline: the comment swallows the next line"
				}
			case `'/''*'`:
				if ev.KV["prevpair"] == "T" {
					return "!a /* comment goes on consuming after a '*' '/' pair behind its opener: it does not end at the first */"
				}
			case `'"'`:
				if ev.KV["prevquote"] == "T" {
					return "!a string goes on consuming after a rune that may be its closing quote: it does not end at the first quote"
				}
			}
			return "body|" + ps[1] + "|" + ps[2]
		case "return":
			seenMode[mode]++
			failed := ev.KV["err"] != ""
			switch mode {
			case `'/''/'`:
				if failed {
					return "!a // comment path reports a diagnostic"
				}
				if ev.KV["end"] == "T" || ev.KV["cur"] == nl || (ev.KV["last1"] == nl && atoi(ev.KV["last1adv"]) >= 3) {
					return ""
				}
				return "!a // comment can stop although the input has not ended and the rune under the cursor is not known to be a newline (it may be " + ev.KV["cur"] + "): the rest of the comment is scanned as program text"
			case `'/''*'`:
				if failed {
					if ev.KV["end"] == "T" {
						return ""
					}
					return "!a /* comment is reported unterminated although the input has not ended"
				}
				if ev.KV["last1"] == slash && ev.KV["last2"] == star && atoi(ev.KV["last2adv"]) >= 3 {
					return ""
				}
				return fmt.Sprintf("!a /* comment can end without a diagnostic although the last two runes consumed are not known to be '*' '/' behind the opener (last two: %s #%s, %s #%s; runes are numbered from the token start, the opener is #1 #2)", ev.KV["last2"], ev.KV["last2adv"], ev.KV["last1"], ev.KV["last1adv"])
			case `'"'`:
				if failed {
					if ev.KV["end"] == "T" {
						return ""
					}
					return "!a string is reported unterminated although the input has not ended"
				}
				if ev.KV["last1"] == quote && atoi(ev.KV["last1adv"]) >= 2 {
					return ""
				}
				return "!a string token can be produced although the last rune consumed is not known to be a closing quote behind the opener (" + ev.KV["last1"] + " #" + ev.KV["last1adv"] + ")"
			}
			return ""
		}
		return s
	}}
	ws := g.Run(mon)
	for _, w := range ws {
		l.Violate(rule, "scanToken#"+shortMsgKey(w.Msg), posOf(w), w.Msg, witnessDetail(w))
	}
	var found []string
	for _, md := range []string{`'/''/'`, `'/''*'`, `'"'`} {
		if seenMode[md] > 0 {
			found = append(found, md)
		}
	}
	if len(ws) == 0 {
		l.Discharge(rule, "scanToken", "", fmt.Sprintf("line comments stop only at a newline or the end of input, block comments only behind their first */, strings only behind their first quote (%d / %d / %d return paths examined)", seenMode[`'/''/'`], seenMode[`'/''*'`], seenMode[`'"'`]), true)
	}
	l.RequireMin(rule, 3, found, "scanner constructs with an extent (// comment, /* comment, string)")
}
