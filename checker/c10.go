package main

import (
	"fmt"
	"sort"
	"strconv"
	"strings"
	"unicode"

	"golang.org/x/tools/go/ssa"
)

func init() {
	register("C10", &Checker{
		Run: checkC10,
		Explain: "Decided completely for the per-character part: S1 the transliteration table of ConvertBanglaDigitsToASCII is constant-evaluated — exactly the ten Bengali digits U+09E6…U+09EF, each mapped to the ASCII digit of the same Unicode digit value (Go's unicode tables are the independent oracle) — and the function's loop writes, for every input rune in order, the table image or the rune itself and nothing else (no early exit, no skipped or extra output). " +
			"S2 classifier agreement: the rune set accepted by isDigit, obtained by interval evaluation of its path conditions, is ASCII digits ∪ the table's domain. " +
			"S3 literal shape: in number() every consumed rune is a digit of that set or a '.' consumed only under peek()=='.' with isDigit(peekNext()) established; nothing else is consumed. " +
			"I1 value: the NUMBER token's literal is the first result of strconv.ParseFloat(ConvertBanglaDigitsToASCII(lexeme), 64) — no other value path — and on a ParseFloat error (which includes overflow) a diagnostic is reported and no token is added. S4 every ParseFloat call of the module transliterates first and uses bit size 64. " +
			"Inherited: correct rounding is ParseFloat's contract; script independence follows from S1+S2 (both spellings become the same ASCII string).",
		Rule:    "obligation = (rule, table entry / function / call site); the digit table and classifier obligations are exhaustive over all code points",
		Trusted: []string{"strconv.ParseFloat is correctly rounded and reports range errors", "Go's unicode.IsDigit tables", "abstract machine + scanner cursor model"},
	})
}

type ivl struct{ lo, hi int64 } // inclusive

func intersect(a []ivl, lo, hi int64) []ivl {
	var out []ivl
	for _, x := range a {
		l, h := x.lo, x.hi
		if lo > l {
			l = lo
		}
		if hi < h {
			h = hi
		}
		if l <= h {
			out = append(out, ivl{l, h})
		}
	}
	return out
}

const maxRune = 0x10FFFF

// constrain applies one rendered comparison over variable v with the given truth.
func constrain(set []ivl, cond string, truth bool, v string) ([]ivl, bool) {
	mm := reCmp.FindStringSubmatch(cond)
	if mm == nil {
		return set, false
	}
	a, op, b := mm[1], mm[2], mm[3]
	num := func(s string) (int64, bool) { i, err := strconv.ParseInt(s, 10, 64); return i, err == nil }
	switch {
	case a == v:
		c, ok := num(b)
		if !ok {
			return set, false
		}
		if op == "<" {
			if truth {
				return intersect(set, -1<<40, c-1), true
			}
			return intersect(set, c, 1<<40), true
		}
		if truth {
			return intersect(set, c, c), true
		}
		return append(intersect(set, -1<<40, c-1), intersect(set, c+1, 1<<40)...), true
	case b == v:
		c, ok := num(a)
		if !ok {
			return set, false
		}
		if op == "<" { // c < v
			if truth {
				return intersect(set, c+1, 1<<40), true
			}
			return intersect(set, -1<<40, c), true
		}
		if truth {
			return intersect(set, c, c), true
		}
		return append(intersect(set, -1<<40, c-1), intersect(set, c+1, 1<<40)...), true
	}
	return set, false
}

// acceptedSet: the set of runes for which a pure rune predicate returns true (interval evaluation of its paths).
func acceptedSet(p *Prog, fn *ssa.Function) ([]ivl, bool, string) {
	m := NewInterpModel(p, fn.Name())
	m.EmitTests = true
	m.KeepAsEvent = func(c *ssa.Function) bool { return false }
	v := fn.Params[0].Name()
	m.Explore(fn, []AV{Sym(v)}, nil)
	ws, ok := m.G.Words(500)
	if !ok {
		return nil, false, "paths not enumerable"
	}
	var acc []ivl
	for _, w := range ws {
		set := []ivl{{0, maxRune}}
		understood := true
		for _, e := range w {
			if e.Op == "test" {
				var u bool
				set, u = constrain(set, e.Args[0], e.Out == "true", v)
				understood = understood && u
			}
		}
		last := lastOf(w)
		if last == nil || last.Op != "return" {
			return nil, false, "path without return"
		}
		r := last.KV["r0"]
		switch {
		case r == "true":
		case r == "false":
			set = nil
		default:
			truth := true
			if strings.HasPrefix(r, "!") {
				truth, r = false, r[1:]
			}
			var u bool
			set, u = constrain(set, r, truth, v)
			understood = understood && u
		}
		if !understood {
			return nil, false, "a condition of the predicate is not an integer comparison on its argument: " + wordString(w)
		}
		acc = append(acc, set...)
	}
	// normalise
	sort.Slice(acc, func(i, j int) bool { return acc[i].lo < acc[j].lo })
	var out []ivl
	for _, x := range acc {
		if len(out) > 0 && x.lo <= out[len(out)-1].hi+1 {
			if x.hi > out[len(out)-1].hi {
				out[len(out)-1].hi = x.hi
			}
		} else {
			out = append(out, x)
		}
	}
	return out, true, ""
}

func ivlString(s []ivl) string {
	var parts []string
	for _, x := range s {
		parts = append(parts, fmt.Sprintf("U+%04X–U+%04X", x.lo, x.hi))
	}
	return strings.Join(parts, " ∪ ")
}

func digitTable(p *Prog) (map[rune]rune, *ssa.Function, []string) {
	fn := p.Func("utils.ConvertBanglaDigitsToASCII")
	tab := map[rune]rune{}
	var probs []string
	if fn == nil {
		return tab, nil, []string{"ConvertBanglaDigitsToASCII not found"}
	}
	collect := func(f *ssa.Function) {
		instrsOf(f, func(in ssa.Instruction) {
			mu, ok := in.(*ssa.MapUpdate)
			if !ok {
				return
			}
			k, ok1 := constInt(mu.Key)
			v, ok2 := constInt(mu.Value)
			if !ok1 || !ok2 {
				probs = append(probs, "non-constant table entry at "+p.InstrPos(in))
				return
			}
			if old, dup := tab[rune(k)]; dup && old != rune(v) {
				probs = append(probs, fmt.Sprintf("U+%04X mapped twice", k))
			}
			tab[rune(k)] = rune(v)
		})
	}
	collect(fn)
	if len(tab) == 0 {
		// the table may be a package-level map initialised in init
		if pk := p.Pkg("utils"); pk != nil && pk.Func("init") != nil {
			collect(pk.Func("init"))
		}
	}
	return tab, fn, probs
}

func checkC10(p *Prog, l *Ledger) {
	// ---- S1 table
	tab, conv, probs := digitTable(p)
	for _, pr := range probs {
		l.Violate("C10/S1-digit-table", "ConvertBanglaDigitsToASCII#table", "", pr)
	}
	if conv == nil {
		return
	}
	l.Funcs[p.FuncKey(conv)] = true
	for r := rune(0x09E6); r <= 0x09EF; r++ {
		key := fmt.Sprintf("digit:U+%04X", r)
		want := '0' + (r - 0x09E6)
		if !unicode.IsDigit(r) {
			l.Undecide("C10/S1-digit-table", key, "", "oracle: not a Unicode decimal digit")
			continue
		}
		if got, ok := tab[r]; !ok {
			l.Violate("C10/S1-digit-table", key, "", fmt.Sprintf("Bengali digit %c is not transliterated", r))
		} else if got != want {
			l.Violate("C10/S1-digit-table", key, "", fmt.Sprintf("Bengali digit %c (value %d) is transliterated to %q instead of %q", r, r-0x09E6, got, want))
		} else {
			l.Discharge("C10/S1-digit-table", key, "", fmt.Sprintf("%c → %c", r, want), true)
		}
	}
	for r, v := range tab {
		if r < 0x09E6 || r > 0x09EF {
			l.Violate("C10/S1-digit-table", fmt.Sprintf("digit:U+%04X", r), "", fmt.Sprintf("a character that is not a Bengali digit (%q) is altered (→ %q)", r, v))
		}
	}
	checkTransliterationLoop(p, l, conv)
	// ---- S2 classifier
	isDigit := p.Func("lexer.isDigit")
	var digits []ivl
	if isDigit == nil {
		l.Undecide("C10/S2-classifier", "isDigit", "", "not found")
	} else {
		l.Funcs[p.FuncKey(isDigit)] = true
		set, ok, why := acceptedSet(p, isDigit)
		digits = set
		want := []ivl{{'0', '9'}, {0x09E6, 0x09EF}}
		switch {
		case !ok:
			l.Undecide("C10/S2-classifier", "isDigit", p.Pos(isDigit.Pos()), why)
		case ivlString(set) == ivlString(want):
			l.Discharge("C10/S2-classifier", "isDigit", p.Pos(isDigit.Pos()), "accepts exactly "+ivlString(set)+" = ASCII digits ∪ domain of the transliteration table (all 1,114,112 code points decided by interval evaluation)", true)
		default:
			l.Violate("C10/S2-classifier", "isDigit", p.Pos(isDigit.Pos()), "the digit classifier accepts "+ivlString(set)+" but a literal may only consist of "+ivlString(want)+" (anything else is not transliterated and cannot be parsed, or a digit is not recognised)")
		}
	}
	_ = digits
	// ---- S3 + I1 on number()
	checkNumberScanner(p, l)
	// ---- S4 ParseFloat call sites
	n := 0
	for _, fn := range p.ModuleFuncs() {
		instrsOf(fn, func(in ssa.Instruction) {
			call, ok := in.(*ssa.Call)
			if !ok {
				return
			}
			c := call.Call.StaticCallee()
			if c == nil {
				return
			}
			name := extName(c)
			if strings.HasPrefix(name, "strconv.Parse") || name == "strconv.Atoi" || strings.HasPrefix(name, "fmt.Sscan") {
				n++
				key := p.FuncKey(fn) + "#" + name
				if name != "strconv.ParseFloat" {
					l.Violate("C10/S4-coercion-sites", key, p.InstrPos(in), "text is converted to a number with "+name+" instead of ParseFloat(transliterated, 64)")
					return
				}
				arg, isCall := call.Call.Args[0].(*ssa.Call)
				bits, _ := constInt(call.Call.Args[1])
				switch {
				case !isCall || arg.Call.StaticCallee() == nil || arg.Call.StaticCallee() != conv:
					l.Violate("C10/S4-coercion-sites", key, p.InstrPos(in), "ParseFloat is applied to "+describe(call.Call.Args[0])+" without transliterating Bengali digits first")
				case bits != 64:
					l.Violate("C10/S4-coercion-sites", key, p.InstrPos(in), fmt.Sprintf("ParseFloat with bit size %d: the value is rounded to a narrower type first", bits))
				default:
					l.Discharge("C10/S4-coercion-sites", key, p.InstrPos(in), "ParseFloat(ConvertBanglaDigitsToASCII(text), 64)", true)
				}
			}
		})
	}
	if n < 3 {
		l.Violate("C10/S4-coercion-sites/vacuity", "ParseFloat sites", "", fmt.Sprintf("only %d text-to-number conversion sites found (lexer + two coercions expected)", n))
	}
}

// checkTransliterationLoop: one WriteRune per input rune: the table image if present, else the rune itself.
func checkTransliterationLoop(p *Prog, l *Ledger, conv *ssa.Function) {
	rule := "C10/S1-transliteration-loop"
	m := NewInterpModel(p, "ConvertBanglaDigitsToASCII")
	m.EmitTests = true
	m.Explore(conv, []AV{Sym("input")}, nil)
	// events: next(range input)→T/F ; maplookup ; has→T/F ; call WriteRune(builder, x)
	mon := Monitor{Init: "out", Also: map[string]bool{"has": true}, Step: func(s string, ev *Event) string {
		isWrite := func() (string, bool) {
			if ev.Op == "call" || ev.Op == "io" {
				return "", false
			}
			return "", false
		}
		_ = isWrite
		switch ev.Op {
		case "next":
			if s == "in" {
				return "!an input character is not looked up in the table (dropped or copied unconditionally)"
			}
			if ev.Out == "true" {
				return "in"
			}
			return "done"
		case "has":
			if s != "in" {
				return s
			}
			return "out"
		case "test":
			return "!the transliteration takes a decision (" + ev.Args[0] + ") other than the table lookup: some strings may be left untransliterated or handled differently"
		case "return":
			if s != "done" && s != "out" {
				return "!the function returns before the whole input has been processed"
			}
			return ""
		}
		return s
	}}
	// WriteRune calls are external: rendered through Sym results, not events; inspect them on the SSA instead
	ws := m.G.Run(mon)
	for _, w := range ws {
		l.Violate(rule, "ConvertBanglaDigitsToASCII", posOf(w), w.Msg, witnessDetail(w))
	}
	// SSA shape: exactly two WriteRune calls inside the loop, one with the looked-up value (under ok), one with the range rune (under !ok)
	var writes []*ssa.Call
	instrsOf(conv, func(in ssa.Instruction) {
		if c, ok := in.(*ssa.Call); ok {
			if sc := c.Call.StaticCallee(); sc != nil && strings.HasSuffix(extName(sc), "strings.Builder).WriteRune") {
				writes = append(writes, c)
			} else if sc != nil && (strings.Contains(extName(sc), "strings.Builder).Write") || strings.Contains(extName(sc), "Fprint")) {
				writes = append(writes, c)
			}
		}
	})
	var problems []string
	okHit, okMiss := false, false
	for _, wcall := range writes {
		arg := wcall.Call.Args[len(wcall.Call.Args)-1]
		guards := GuardsAt(wcall.Block())
		var lookupTruth *bool
		for _, g := range guards {
			if ex, ok := g.Cond.(*ssa.Extract); ok && ex.Index == 1 {
				if _, isLk := ex.Tuple.(*ssa.Lookup); isLk {
					t := g.Truth
					lookupTruth = &t
				}
			}
		}
		d := describe(arg)
		switch {
		case lookupTruth == nil:
			problems = append(problems, "output "+d+" is written unconditionally")
		case *lookupTruth:
			if ex, ok := arg.(*ssa.Extract); ok && ex.Index == 0 {
				if _, isLk := ex.Tuple.(*ssa.Lookup); isLk {
					okHit = true
					continue
				}
			}
			problems = append(problems, "for a table hit the output is "+d+", not the table image")
		default:
			if ex, ok := arg.(*ssa.Extract); ok {
				if _, isNext := ex.Tuple.(*ssa.Next); isNext && ex.Index == 2 {
					okMiss = true
					continue
				}
			}
			problems = append(problems, "for a character outside the table the output is "+d+", not the character itself")
		}
	}
	if !okHit || !okMiss {
		problems = append(problems, fmt.Sprintf("expected one write of the table image and one of the unchanged rune (found hit=%v miss=%v, %d writes)", okHit, okMiss, len(writes)))
	}
	if len(writes) != 2 {
		problems = append(problems, fmt.Sprintf("%d output sites instead of 2", len(writes)))
	}
	if len(problems) == 0 && len(ws) == 0 {
		l.Discharge(rule, "ConvertBanglaDigitsToASCII", p.Pos(conv.Pos()), "for every rune of the input, in order: exactly one WriteRune — the table image on a hit, the rune itself otherwise; no other decision", true)
	} else if len(problems) > 0 {
		l.Violate(rule, "ConvertBanglaDigitsToASCII", p.Pos(conv.Pos()), strings.Join(uniqStrings(sortStrings(problems)), " || "))
	}
}

// checkNumberScanner: literal shape and value on the scanner graph.
func checkNumberScanner(p *Prog, l *Ledger) {
	fn := p.Func("lexer.(*Scanner).number")
	if fn == nil {
		l.Undecide("C10/S3-literal-shape", "number", "", "not found")
		return
	}
	m := NewLexModel(p, "number")
	mc := m.Explore(fn, "")
	l.States += mc.States
	l.Funcs[p.FuncKey(fn)] = true
	for _, u := range m.Undecided {
		l.Undecide("infrastructure/explorer", "number", "", u)
	}
	numTok, _ := p.tokenConst("NUMBER")
	digitSets := map[string]bool{"U+0030–U+0039": true, "U+09E6–U+09EF": true, "U+0030–U+0039 ∪ U+09E6–U+09EF": true}
	bad := map[string]*Event{}
	nCons := 0
	for _, e := range m.G.Events("consume") {
		nCons++
		set := e.KV["set"]
		switch {
		case digitSets[set]:
		case set == "U+002E–U+002E":
			if !digitSets[e.KV["next-set"]] || e.KV["nend"] != "F" {
				bad["a '.' is consumed although the rune after it is not known to be a digit (it may be "+e.KV["next-set"]+", end of input: "+e.KV["nend"]+"): a point not followed by a digit must not be part of the number"] = e
			}
		default:
			bad["number() may consume a rune in "+set+", which is neither a digit nor a fraction point"] = e
		}
		if e.KV["unsafe"] != "" {
			bad["advance() where "+e.KV["unsafe"]] = e
		}
	}
	for msg, e := range bad {
		l.Violate("C10/S3-literal-shape", "number#"+shortMsgKey(msg), e.Pos, msg)
	}
	if len(bad) == 0 && nCons >= 3 {
		l.Discharge("C10/S3-literal-shape", "number", p.Pos(fn.Pos()), fmt.Sprintf("digits* ('.' only before a digit) digits*: all %d consumption sites take only digits, or the point under peek()=='.' && isDigit(peekNext())", nCons), true)
	} else if nCons < 3 {
		l.Violate("C10/S3-literal-shape/vacuity", "number", "", fmt.Sprintf("only %d consumption sites in number()", nCons))
	}
	// value
	wantLit := "ParseFloat(ConvertBanglaDigitsToASCII(conv:string(s.source[s.start:s.current])),64)#0"
	mon := Monitor{Init: "scan|", Step: func(s string, ev *Event) string {
		ps := strings.SplitN(s, "|", 2)
		switch ev.Op {
		case "parsefloat":
			if ps[0] != "scan" {
				return "!the literal is converted twice"
			}
			if ev.Args[0] != "ConvertBanglaDigitsToASCII(conv:string(s.source[s.start:s.current]))" || ev.Args[1] != "64" {
				return "!ParseFloat is applied to " + strings.Join(ev.Args, ", ") + " instead of the transliterated lexeme with bit size 64"
			}
			return "pf|" + ev.Out
		case "token":
			if ev.Args[0] != fmt.Sprint(numTok) {
				return "!number() adds a token of type " + ev.Args[0]
			}
			if ps[0] != "pf" || ps[1] != "ok" {
				return "!a NUMBER token is added although ParseFloat did not succeed on this path (overflow must be a diagnostic, not a token)"
			}
			if normName(ev.Args[1]) != wantLit {
				return "!the NUMBER token's value is " + normName(ev.Args[1]) + ", not ParseFloat's result for the transliterated lexeme"
			}
			return "tok|"
		case "lexerror":
			if ps[0] == "pf" && ps[1] == "err" {
				return "err|"
			}
			return "!diagnostic without a failed conversion"
		case "consume":
			if ps[0] != "scan" {
				return "!characters are consumed after the literal was converted"
			}
		case "return":
			switch ps[0] {
			case "tok", "err":
				return ""
			case "pf":
				if ps[1] == "err" {
					return "!a literal that ParseFloat rejects (e.g. too large for a double) is dropped without a diagnostic"
				}
				return "!a valid literal produces no token"
			default:
				return "!number() returns without converting the literal"
			}
		}
		return s
	}}
	runMonG(l, "C10/I1-value", "number", m.G, mon, "the NUMBER literal is ParseFloat(ConvertBanglaDigitsToASCII(lexeme), 64); a conversion error gives a diagnostic and no token")
}
