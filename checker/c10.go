package main

import (
	"fmt"
	"sort"
	"strconv"
	"strings"
	"unicode"

	"golang.org/x/tools/go/ssa"
)

func init() {
	register("C10", &Checker{
		Run: checkC10,
		Explain: "Decided completely for the per-character part: S1 the transliteration table of ConvertBanglaDigitsToASCII is constant-evaluated — exactly the ten Bengali digits U+09E6…U+09EF, each mapped to the ASCII digit of the same Unicode digit value (Go's unicode tables are the independent oracle) — and the function's loop writes, for every input rune in order, the table image or the rune itself and nothing else (no early exit, no skipped or extra output). " +
			"S2 classifier agreement: the rune set accepted by isDigit, obtained by interval evaluation of its path conditions, is ASCII digits ∪ the table's domain. " +
			"S3 literal shape: in number() every consumed rune is a digit of that set or a '.' consumed only under peek()=='.' with isDigit(peekNext()) established; nothing else is consumed. " +
			"I1 value: the NUMBER token's literal is the first result of strconv.ParseFloat(ConvertBanglaDigitsToASCII(lexeme), 64) — no other value path — and on a ParseFloat error (which includes overflow) a diagnostic is reported and no token is added. S4 every ParseFloat call of the module transliterates first and uses bit size 64. " +
			"Inherited: correct rounding is ParseFloat's contract; script independence follows from S1+S2 (both spellings become the same ASCII string).",
		Rule:    "obligation = (rule, table entry / function / call site); the digit table and classifier obligations are exhaustive over all code points",
		Trusted: []string{"strconv.ParseFloat is correctly rounded and reports range errors", "Go's unicode.IsDigit tables", "abstract machine + scanner cursor model"},
	})
}

type ivl struct{ lo, hi int64 } // inclusive

func intersect(a []ivl, lo, hi int64) []ivl {
	var out []ivl
	for _, x := range a {
		l, h := x.lo, x.hi
		if lo > l {
			l = lo
		}
		if hi < h {
			h = hi
		}
		if l <= h {
			out = append(out, ivl{l, h})
		}
	}
	return out
}

const maxRune = 0x10FFFF

// constrain applies one rendered comparison over variable v with the given truth.
func constrain(set []ivl, cond string, truth bool, v string) ([]ivl, bool) {
	if cm := reCall.FindStringSubmatch(cond); cm != nil && cm[2] == v {
		// membership in a written-out set of runes
		if members, ok := membershipSet(cm[1]); ok {
			var ks []int64
			for k := range members {
				ks = append(ks, k)
			}
			sort.Slice(ks, func(i, j int) bool { return ks[i] < ks[j] })
			var out []ivl
			if truth {
				for _, k := range ks {
					out = append(out, intersect(set, k, k)...)
				}
				return out, true
			}
			out = set
			for _, k := range ks {
				out = append(intersect(out, -1<<40, k-1), intersect(out, k+1, 1<<40)...)
			}
			return out, true
		}
	}
	mm := reCmp.FindStringSubmatch(cond)
	if mm == nil {
		return set, false
	}
	a, op, b := mm[1], mm[2], mm[3]
	num := func(s string) (int64, bool) { i, err := strconv.ParseInt(s, 10, 64); return i, err == nil }
	switch {
	case a == v:
		c, ok := num(b)
		if !ok {
			return set, false
		}
		if op == "<" {
			if truth {
				return intersect(set, -1<<40, c-1), true
			}
			return intersect(set, c, 1<<40), true
		}
		if truth {
			return intersect(set, c, c), true
		}
		return append(intersect(set, -1<<40, c-1), intersect(set, c+1, 1<<40)...), true
	case b == v:
		c, ok := num(a)
		if !ok {
			return set, false
		}
		if op == "<" { // c < v
			if truth {
				return intersect(set, c+1, 1<<40), true
			}
			return intersect(set, -1<<40, c), true
		}
		if truth {
			return intersect(set, c, c), true
		}
		return append(intersect(set, -1<<40, c-1), intersect(set, c+1, 1<<40)...), true
	}
	return set, false
}

// acceptedSet: the set of runes for which a pure rune predicate returns true (interval evaluation of its paths).
func acceptedSet(p *Prog, fn *ssa.Function) ([]ivl, bool, string) {
	m := NewInterpModel(p, fnName(fn))
	m.EmitTests = true
	m.KeepAsEvent = func(c *ssa.Function) bool { return false }
	v := fn.Params[0].Name()
	m.Explore(fn, []AV{Sym(v)}, nil)
	ws, ok := m.G.Words(500)
	if !ok {
		return nil, false, "paths not enumerable"
	}
	var acc []ivl
	for _, w := range ws {
		set := []ivl{{0, maxRune}}
		understood := true
		for _, e := range w {
			if e.Op == "test" {
				var u bool
				set, u = constrain(set, e.Args[0], e.Out == "true", v)
				understood = understood && u
			}
		}
		last := lastOf(w)
		if last == nil || last.Op != "return" {
			return nil, false, "path without return"
		}
		r := last.KV["r0"]
		switch {
		case r == "true":
		case r == "false":
			set = nil
		default:
			truth := true
			if strings.HasPrefix(r, "!") {
				truth, r = false, r[1:]
			}
			var u bool
			set, u = constrain(set, r, truth, v)
			understood = understood && u
		}
		if !understood {
			return nil, false, "a condition of the predicate is not an integer comparison on its argument: " + wordString(w)
		}
		acc = append(acc, set...)
	}
	// normalise
	sort.Slice(acc, func(i, j int) bool { return acc[i].lo < acc[j].lo })
	var out []ivl
	for _, x := range acc {
		if len(out) > 0 && x.lo <= out[len(out)-1].hi+1 {
			if x.hi > out[len(out)-1].hi {
				out[len(out)-1].hi = x.hi
			}
		} else {
			out = append(out, x)
		}
	}
	return out, true, ""
}

// ivlNormal: sorted, with touching and overlapping pieces merged.
func ivlNormal(s []ivl) []ivl {
	acc := append([]ivl(nil), s...)
	sort.Slice(acc, func(i, j int) bool { return acc[i].lo < acc[j].lo })
	var out []ivl
	for _, x := range acc {
		if len(out) > 0 && x.lo <= out[len(out)-1].hi+1 {
			if x.hi > out[len(out)-1].hi {
				out[len(out)-1].hi = x.hi
			}
		} else {
			out = append(out, x)
		}
	}
	return out
}

func ivlString(s []ivl) string {
	var parts []string
	for _, x := range ivlNormal(s) {
		parts = append(parts, fmt.Sprintf("U+%04X–U+%04X", x.lo, x.hi))
	}
	return strings.Join(parts, " ∪ ")
}

func digitTable(p *Prog) (map[rune]rune, *ssa.Function, []string) {
	fn := p.Func("utils.ConvertBanglaDigitsToASCII")
	tab := map[rune]rune{}
	var probs []string
	if fn == nil {
		return tab, nil, []string{"ConvertBanglaDigitsToASCII not found"}
	}
	collect := func(f *ssa.Function) {
		instrsOf(f, func(in ssa.Instruction) {
			mu, ok := in.(*ssa.MapUpdate)
			if !ok {
				return
			}
			k, ok1 := constInt(mu.Key)
			v, ok2 := constInt(mu.Value)
			if !ok1 || !ok2 {
				probs = append(probs, "non-constant table entry at "+p.InstrPos(in))
				return
			}
			if old, dup := tab[rune(k)]; dup && old != rune(v) {
				probs = append(probs, fmt.Sprintf("U+%04X mapped twice", k))
			}
			tab[rune(k)] = rune(v)
		})
	}
	collect(fn)
	if len(tab) == 0 {
		// the table may be a package-level map initialised in init
		if pk := p.Pkg("utils"); pk != nil && pk.Func("init") != nil {
			collect(pk.Func("init"))
		}
	}
	return tab, fn, probs
}

func checkC10(p *Prog, l *Ledger) {
	// ---- S1: the transliteration as a function of one input rune (table lookups, range tests and arithmetic
	// are all evaluated: the rule is about the mapping, not about how the source expresses it)
	conv := p.Func("utils.ConvertBanglaDigitsToASCII")
	if conv == nil {
		l.Undecide("C10/S1-digit-table", "ConvertBanglaDigitsToASCII", "", "not found")
		return
	}
	l.Funcs[p.FuncKey(conv)] = true
	checkTransliteration(p, l, conv)
	// ---- S0: the literal the scanner sees is the literal in the file: the script reaches the scanner as one text,
	// decoded in one piece (a Bangla digit is three bytes; a text decoded in pieces can cut one in two, an ASCII digit never)
	checkRunPipeline(p, l, "C10/S0-text-reaches-scanner")
	checkWholeText(p, l, "C10/S0-text-reaches-scanner")
	// ---- S2 classifier
	isDigit := p.Func("lexer.isDigit")
	var digits []ivl
	if isDigit == nil {
		l.Undecide("C10/S2-classifier", "isDigit", "", "not found")
	} else {
		l.Funcs[p.FuncKey(isDigit)] = true
		set, ok, why := acceptedSet(p, isDigit)
		digits = set
		want := []ivl{{'0', '9'}, {0x09E6, 0x09EF}}
		switch {
		case !ok:
			l.Undecide("C10/S2-classifier", "isDigit", p.Pos(isDigit.Pos()), why)
		case ivlString(set) == ivlString(want):
			l.Discharge("C10/S2-classifier", "isDigit", p.Pos(isDigit.Pos()), "accepts exactly "+ivlString(set)+" = ASCII digits ∪ domain of the transliteration table (all 1,114,112 code points decided by interval evaluation)", true)
		default:
			l.Violate("C10/S2-classifier", "isDigit", p.Pos(isDigit.Pos()), "the digit classifier accepts "+ivlString(set)+" but a literal may only consist of "+ivlString(want)+" (anything else is not transliterated and cannot be parsed, or a digit is not recognised)")
		}
	}
	_ = digits
	// ---- S3 + I1 on number()
	checkNumberScanner(p, l, "C10/S3-literal-shape", "C10/I1-value")
	// ---- S4 ParseFloat call sites
	n := 0
	for _, fn := range p.ModuleFuncs() {
		instrsOf(fn, func(in ssa.Instruction) {
			call, ok := in.(*ssa.Call)
			if !ok {
				return
			}
			c := call.Call.StaticCallee()
			if c == nil {
				return
			}
			name := extName(c)
			if strings.HasPrefix(name, "strconv.Parse") || name == "strconv.Atoi" || strings.HasPrefix(name, "fmt.Sscan") {
				n++
				key := p.FuncKey(fn) + "#" + name
				if name != "strconv.ParseFloat" {
					l.Violate("C10/S4-coercion-sites", key, p.InstrPos(in), "text is converted to a number with "+name+" instead of ParseFloat(transliterated, 64)")
					return
				}
				arg, isCall := call.Call.Args[0].(*ssa.Call)
				bits, _ := constInt(call.Call.Args[1])
				switch {
				case !isCall || arg.Call.StaticCallee() == nil || arg.Call.StaticCallee() != conv:
					l.Violate("C10/S4-coercion-sites", key, p.InstrPos(in), "ParseFloat is applied to "+describe(call.Call.Args[0])+" without transliterating Bengali digits first")
				case bits != 64:
					l.Violate("C10/S4-coercion-sites", key, p.InstrPos(in), fmt.Sprintf("ParseFloat with bit size %d: the value is rounded to a narrower type first", bits))
				default:
					l.Discharge("C10/S4-coercion-sites", key, p.InstrPos(in), "ParseFloat(ConvertBanglaDigitsToASCII(text), 64)", true)
				}
			}
		})
	}
	if n < 2 {
		l.Violate("C10/S4-coercion-sites/vacuity", "ParseFloat sites", "", fmt.Sprintf("only %d text-to-number conversion sites found (the scanner's and at least one coercion expected)", n))
	}
}

// evalRuneExpr evaluates a rendered arithmetic expression over the variable v.
func evalRuneExpr(expr, v string, val int64) (int64, bool) {
	expr = strings.TrimSpace(expr)
	if expr == v {
		return val, true
	}
	if n, err := strconv.ParseInt(expr, 10, 64); err == nil {
		return n, true
	}
	if strings.HasPrefix(expr, "(") && strings.HasSuffix(expr, ")") {
		inner := expr[1 : len(expr)-1]
		depth := 0
		for i := 0; i < len(inner); i++ {
			switch inner[i] {
			case '(', '[':
				depth++
			case ')', ']':
				depth--
			case ' ':
				if depth == 0 && i+2 < len(inner) && (inner[i+1] == '+' || inner[i+1] == '-') && inner[i+2] == ' ' {
					a, ok1 := evalRuneExpr(inner[:i], v, val)
					b, ok2 := evalRuneExpr(inner[i+3:], v, val)
					if !ok1 || !ok2 {
						return 0, false
					}
					if inner[i+1] == '+' {
						return a + b, true
					}
					return a - b, true
				}
			}
		}
	}
	return 0, false
}

// checkTransliteration: for every code point the function must emit exactly one rune: the ASCII digit of the same
// value for the ten Bengali digits, the rune itself otherwise.
func checkTransliteration(p *Prog, l *Ledger, conv *ssa.Function) {
	rule := "C10/S1-digit-table"
	m := NewInterpModel(p, "ConvertBanglaDigitsToASCII")
	m.EmitTests = true
	m.Explore(conv, []AV{Sym("input")}, nil)
	for _, u := range m.Undecided {
		l.Undecide("infrastructure/explorer", "ConvertBanglaDigitsToASCII", "", u)
	}
	const V = "input[range]"
	// tables: local map literals (mapstore events) and package-level maps (initialiser)
	tables := map[string]map[int64]int64{}
	for _, e := range m.G.Events("mapstore") {
		if len(e.Args) == 3 {
			k, err1 := strconv.ParseInt(e.Args[1], 10, 64)
			v, err2 := strconv.ParseInt(e.Args[2], 10, 64)
			if err1 == nil && err2 == nil {
				if tables[e.Args[0]] == nil {
					tables[e.Args[0]] = map[int64]int64{}
				}
				tables[e.Args[0]][k] = v
			}
		}
	}
	if pk := p.Pkg("utils"); pk != nil && pk.Func("init") != nil {
		instrsOf(pk.Func("init"), func(in ssa.Instruction) {
			if mu, ok := in.(*ssa.MapUpdate); ok {
				k, ok1 := constInt(mu.Key)
				v, ok2 := constInt(mu.Value)
				// the map value stored into a global: name it by the global it ends up in
				if ok1 && ok2 {
					for _, r := range *mu.Map.Referrers() {
						if st, ok := r.(*ssa.Store); ok {
							if g, ok := st.Addr.(*ssa.Global); ok {
								name := "global:" + g.Pkg.Pkg.Name() + "." + g.Name()
								if tables[name] == nil {
									tables[name] = map[int64]int64{}
								}
								tables[name][k] = v
							}
						}
					}
				}
			}
		})
	}
	// iteration words: from a next→true edge to the following back-edge
	type piece struct {
		set  []ivl
		out  string
		word string
	}
	var pieces []piece
	var problems []string
	var walk func(n int, set []ivl, keysOf string, writes []string, trail []string, depth int)
	walk = func(n int, set []ivl, keysOf string, writes []string, trail []string, depth int) {
		if depth > 200 {
			return
		}
		for _, e := range m.G.Out[n] {
			if e.Ev == nil {
				walk(e.To, set, keysOf, writes, trail, depth+1)
				continue
			}
			ev := e.Ev
			tr := append(append([]string{}, trail...), ev.String())
			switch ev.Op {
			case "test":
				ns, ok := constrain(set, ev.Args[0], ev.Out == "true", V)
				if !ok {
					problems = append(problems, "the transliteration takes a decision that is not a comparison of the current rune with constants: "+ev.Args[0])
					continue
				}
				walk(e.To, ns, keysOf, writes, tr, depth+1)
			case "has":
				// has(M[V])
				arg := ev.Args[0]
				if !strings.HasSuffix(arg, "["+V+"]") {
					problems = append(problems, "table lookup under a key other than the current rune: "+arg)
					continue
				}
				mname := strings.TrimSuffix(arg, "["+V+"]")
				tab, ok := tables[mname]
				if !ok {
					problems = append(problems, "lookup in a table whose contents are not constant: "+mname)
					continue
				}
				var ns []ivl
				if ev.Out == "true" {
					for k := range tab {
						ns = append(ns, intersect(set, k, k)...)
					}
				} else {
					ns = set
					for k := range tab {
						ns = append(intersect(ns, -1, k-1), intersect(ns, k+1, maxRune)...)
					}
				}
				walk(e.To, ns, mname, writes, tr, depth+1)
			case "bufwrite":
				walk(e.To, set, keysOf, append(append([]string{}, writes...), strings.Join(ev.Args[1:], ",")), tr, depth+1)
			case "backedge", "next", "return":
				if len(set) == 0 {
					continue // infeasible combination of tests
				}
				if len(writes) != 1 {
					problems = append(problems, fmt.Sprintf("for runes in %s an iteration writes %d runes instead of exactly one (%s)", ivlString(set), len(writes), strings.Join(trail, " ; ")))
					continue
				}
				pieces = append(pieces, piece{set: set, out: writes[0], word: strings.Join(trail, " ; ")})
			default:
				walk(e.To, set, keysOf, writes, tr, depth+1)
			}
		}
	}
	started := 0
	for n, es := range m.G.Out {
		for _, e := range es {
			if e.Ev != nil && e.Ev.Op == "next" && e.Ev.Out == "true" {
				started++
				_ = n
				walk(e.To, []ivl{{0, maxRune}}, "", nil, nil, 0)
			}
		}
	}
	if started == 0 {
		l.Violate(rule, "ConvertBanglaDigitsToASCII", p.Pos(conv.Pos()), "no loop over the input runes found")
		return
	}
	// evaluate the pieces
	covered := []ivl{}
	bad := map[string]bool{}
	nDigits := map[rune]bool{}
	for _, pc := range pieces {
		covered = append(covered, pc.set...)
		for _, iv := range pc.set {
			switch {
			case pc.out == V:
				// identity: must not contain a Bengali digit
				if x := intersect([]ivl{iv}, 0x09E6, 0x09EF); len(x) > 0 {
					bad[fmt.Sprintf("Bengali digit(s) %s are copied unchanged instead of being transliterated", ivlString(x))] = true
				}
			case strings.HasSuffix(pc.out, "["+V+"]"):
				tab := tables[strings.TrimSuffix(pc.out, "["+V+"]")]
				for r := iv.lo; r <= iv.hi && r-iv.lo < 4096; r++ {
					img, ok := tab[r]
					if !ok {
						bad[fmt.Sprintf("U+%04X is looked up in a table that has no entry for it", r)] = true
						continue
					}
					checkImage(r, img, bad, nDigits)
				}
			default:
				if iv.hi-iv.lo > 4096 {
					bad[fmt.Sprintf("runes %s are rewritten by the expression %s", ivlString([]ivl{iv}), pc.out)] = true
					continue
				}
				for r := iv.lo; r <= iv.hi; r++ {
					img, ok := evalRuneExpr(pc.out, V, r)
					if !ok {
						bad["output expression not understood: "+pc.out] = true
						break
					}
					checkImage(r, img, bad, nDigits)
				}
			}
		}
	}
	// every rune must be handled by some iteration path
	rest := []ivl{{0, maxRune}}
	for _, c := range covered {
		rest = append(intersect(rest, -1, c.lo-1), intersect(rest, c.hi+1, maxRune)...)
	}
	if len(rest) > 0 {
		bad["no output is produced for runes "+ivlString(rest)] = true
	}
	for pr := range uniqMap(problems) {
		bad[pr] = true
	}
	for r := rune(0x09E6); r <= 0x09EF; r++ {
		key := fmt.Sprintf("digit:U+%04X", r)
		if nDigits[r] && len(bad) == 0 {
			l.Discharge(rule, key, "", fmt.Sprintf("%c → %c", r, '0'+(r-0x09E6)), true)
		}
	}
	if len(bad) == 0 {
		l.Discharge(rule, "ConvertBanglaDigitsToASCII#image", p.Pos(conv.Pos()), fmt.Sprintf("as a function of one rune (%d path pieces covering all code points): the ten Bengali digits map to the ASCII digit of the same value, every other rune to itself; exactly one rune is written per input rune", len(pieces)), true)
	} else {
		l.Violate(rule, "ConvertBanglaDigitsToASCII#image", p.Pos(conv.Pos()), strings.Join(sortedKeysOf(bad), " || "))
	}
	// whole input processed, in order
	mon := Monitor{Init: "loop", Step: func(s string, ev *Event) string {
		switch ev.Op {
		case "next":
			if ev.Out == "false" {
				return "done"
			}
			return "loop"
		case "return":
			if s != "done" {
				return "!the function returns before the whole input has been processed"
			}
			if !strings.HasPrefix(ev.KV["r0"], "String(") {
				return "!the result is " + ev.KV["r0"] + ", not the text built"
			}
			return ""
		}
		return s
	}}
	runMon(l, "C10/S1-transliteration-loop", "ConvertBanglaDigitsToASCII", m, mon, "every rune of the input is processed in order; the result is the text built")
}

func checkImage(r, img int64, bad map[string]bool, seen map[rune]bool) {
	if r >= 0x09E6 && r <= 0x09EF {
		want := int64('0') + (r - 0x09E6)
		if !unicode.IsDigit(rune(r)) {
			bad[fmt.Sprintf("oracle: U+%04X is not a decimal digit", r)] = true
		}
		if img != want {
			bad[fmt.Sprintf("Bengali digit %c (value %d) is transliterated to %q instead of %q", rune(r), r-0x09E6, rune(img), rune(want))] = true
		} else {
			seen[rune(r)] = true
		}
		return
	}
	if img != r {
		bad[fmt.Sprintf("a character that is not a Bengali digit (%q, U+%04X) is altered (→ %q)", rune(r), r, rune(img))] = true
	}
}

func uniqMap(xs []string) map[string]bool {
	out := map[string]bool{}
	for _, x := range xs {
		out[x] = true
	}
	return out
}

// checkNumberScanner: literal shape and value on the scanner graph.
func checkNumberScanner(p *Prog, l *Ledger, shapeRule, valueRule string) {
	fn := p.Func("lexer.(*Scanner).number")
	if fn == nil {
		l.Undecide(shapeRule, "number", "", "not found")
		return
	}
	m := NewLexModel(p, "number")
	mc := m.Explore(fn, "")
	l.States += mc.States
	l.Funcs[p.FuncKey(fn)] = true
	for _, u := range m.Undecided {
		l.Undecide("infrastructure/explorer", "number", "", u)
	}
	numTok, _ := p.tokenConst("NUMBER")
	digitSets := map[string]bool{"U+0030–U+0039": true, "U+09E6–U+09EF": true, "U+0030–U+0039 ∪ U+09E6–U+09EF": true}
	bad := map[string]*Event{}
	nCons := 0
	for _, e := range m.G.Events("consume") {
		nCons++
		set := e.KV["set"]
		switch {
		case digitSets[set]:
		case set == "U+002E–U+002E":
			if !digitSets[e.KV["next-set"]] || e.KV["nend"] != "F" {
				bad["a '.' is consumed although the rune after it is not known to be a digit (it may be "+e.KV["next-set"]+", end of input: "+e.KV["nend"]+"): a point not followed by a digit must not be part of the number"] = e
			}
		default:
			bad["number() may consume a rune in "+set+", which is neither a digit nor a fraction point"] = e
		}
		if e.KV["unsafe"] != "" {
			bad["advance() where "+e.KV["unsafe"]] = e
		}
	}
	for msg, e := range bad {
		l.Violate(shapeRule, "number#"+shortMsgKey(msg), e.Pos, msg)
	}
	if len(bad) == 0 && nCons >= 3 {
		l.Discharge(shapeRule, "number", p.Pos(fn.Pos()), fmt.Sprintf("digits* ('.' only before a digit) digits*: all %d consumption sites take only digits, or the point under peek()=='.' && isDigit(peekNext())", nCons), true)
	} else if nCons < 3 {
		l.Violate(shapeRule+"/vacuity", "number", "", fmt.Sprintf("only %d consumption sites in number()", nCons))
	}
	// the longest piece: where the literal ends the next rune is not a digit of either script (a run of digits is one
	// literal whatever mixture of ASCII and Bangla digits it is written in)
	nTok, cut := 0, ""
	var cutEv *Event
	for _, e := range m.G.Events("token") {
		if e.Args[0] != fmt.Sprint(numTok) {
			continue
		}
		nTok++
		if e.KV["at-end"] == "T" {
			continue
		}
		for _, d := range []string{"'0'", "'9'", "'৫'"} {
			if strings.Contains(e.KV["after-may"], d) {
				if !strings.Contains(cut, d) {
					cut += d
				}
				cutEv = e
			}
		}
	}
	switch {
	case cut != "":
		l.Violate(shapeRule, "number#longest", cutEv.Pos, "the NUMBER token is produced although the rune after it may still be a digit ("+cut+"): a digit run that mixes the two scripts is cut into several literals")
	case nTok > 0:
		l.Discharge(shapeRule, "number#longest", p.Pos(fn.Pos()), "where the literal ends the input has ended or the next rune is known not to be a digit of either script", true)
	}
	// value
	wantLit := "ParseFloat(ConvertBanglaDigitsToASCII(conv:string(s.source[s.start:s.current])),64)#0"
	mon := Monitor{Init: "scan|", Step: func(s string, ev *Event) string {
		ps := strings.SplitN(s, "|", 2)
		switch ev.Op {
		case "parsefloat":
			if ps[0] != "scan" {
				return "!the literal is converted twice"
			}
			if ev.Args[0] != "ConvertBanglaDigitsToASCII(conv:string(s.source[s.start:s.current]))" || ev.Args[1] != "64" {
				return "!ParseFloat is applied to " + strings.Join(ev.Args, ", ") + " instead of the transliterated lexeme with bit size 64"
			}
			return "pf|" + ev.Out
		case "token":
			if ev.Args[0] != fmt.Sprint(numTok) {
				return "!number() adds a token of type " + ev.Args[0]
			}
			if ps[0] != "pf" || ps[1] != "ok" {
				return "!a NUMBER token is added although ParseFloat did not succeed on this path (overflow must be a diagnostic, not a token)"
			}
			if normName(ev.Args[1]) != wantLit {
				return "!the NUMBER token's value is " + normName(ev.Args[1]) + ", not ParseFloat's result for the transliterated lexeme"
			}
			return "tok|"
		case "lexerror":
			if ps[0] == "pf" && ps[1] == "err" {
				return "err|"
			}
			return "!diagnostic without a failed conversion"
		case "consume":
			if ps[0] != "scan" {
				return "!characters are consumed after the literal was converted"
			}
		case "return":
			switch ps[0] {
			case "tok", "err":
				return ""
			case "pf":
				if ps[1] == "err" {
					return "!a literal that ParseFloat rejects (e.g. too large for a double) is dropped without a diagnostic"
				}
				return "!a valid literal produces no token"
			default:
				return "!number() returns without converting the literal"
			}
		}
		return s
	}}
	runMonG(l, valueRule, "number", m.G, mon, "the NUMBER literal is ParseFloat(ConvertBanglaDigitsToASCII(lexeme), 64); a conversion error gives a diagnostic and no token")
}
