package main

// A form-independent recogniser of the least/greatest fold (C17/S2): whatever the loop looks like (range over the rest
// with the first element as initial value, or an index loop from 0 that takes the first element unconditionally;
// comparison written inline or handed in as a function), every way round the loop must either keep the accumulator —
// and then the path has found "element <op> accumulator" false — or replace it by the current element — and then the
// path has found it true, or is the first iteration.  Decided by enumerating the acyclic paths of the loop body.

import (
	"fmt"
	"go/token"
	"go/types"
	"strings"

	"golang.org/x/tools/go/ssa"
)

type foldInfo struct {
	fn     *ssa.Function
	acc    *ssa.Phi
	ctr    *ssa.Phi // index counter (nil for a lowered range loop handled through the head's test)
	cmpFn  *ssa.Function
	cmpPrm *ssa.Parameter
}

// closureCompare: does fn's body return `p0 <op> p1` (or the mirrored `p1 <mirror op> p0`)?
func closureCompare(fn *ssa.Function, op token.Token) bool {
	if fn == nil || len(fn.Params) != 2 || len(fn.Blocks) != 1 {
		return false
	}
	mirror := map[token.Token]token.Token{token.LSS: token.GTR, token.GTR: token.LSS}
	for _, in := range fn.Blocks[0].Instrs {
		if r, ok := in.(*ssa.Return); ok && len(r.Results) == 1 {
			if bo, ok := r.Results[0].(*ssa.BinOp); ok {
				if bo.Op == op && bo.X == ssa.Value(fn.Params[0]) && bo.Y == ssa.Value(fn.Params[1]) {
					return true
				}
				if bo.Op == mirror[op] && bo.X == ssa.Value(fn.Params[1]) && bo.Y == ssa.Value(fn.Params[0]) {
					return true
				}
			}
		}
	}
	return false
}

// findFold locates the loop-carried float accumulator in callFn or in the one helper callFn hands its argument list to.
func findFold(p *Prog, callFn *ssa.Function) (*foldInfo, string) {
	find := func(fn *ssa.Function) *ssa.Phi {
		var acc *ssa.Phi
		instrsOf(fn, func(in ssa.Instruction) {
			ph, ok := in.(*ssa.Phi)
			if !ok {
				return
			}
			if b, ok := ph.Type().Underlying().(*types.Basic); !ok || b.Kind() != types.Float64 {
				return
			}
			head := ph.Block()
			isHead := false
			for _, pr := range head.Preds {
				if head.Dominates(pr) {
					isHead = true
				}
			}
			if isHead {
				acc = ph
			}
		})
		return acc
	}
	if acc := find(callFn); acc != nil {
		return &foldInfo{fn: callFn, acc: acc}, ""
	}
	// a helper: called from callFn with callFn's own argument list
	var out *foldInfo
	why := "no float accumulator carried round a loop found: the least/greatest element is not computed by a fold"
	instrsOf(callFn, func(in ssa.Instruction) {
		c, ok := in.(*ssa.Call)
		if !ok || out != nil {
			return
		}
		h := c.Call.StaticCallee()
		if h == nil || !p.InModule(h) || h.Blocks == nil {
			return
		}
		passes := false
		for _, a := range c.Call.Args {
			if prm, ok := a.(*ssa.Parameter); ok && prm.Parent() == callFn {
				if _, isSl := prm.Type().Underlying().(*types.Slice); isSl {
					passes = true
				}
			}
		}
		acc := find(h)
		if !passes || acc == nil {
			return
		}
		fi := &foldInfo{fn: h, acc: acc}
		for i, a := range c.Call.Args {
			var cl *ssa.Function
			switch v := a.(type) {
			case *ssa.Function:
				cl = v
			case *ssa.MakeClosure:
				if len(v.Bindings) == 0 {
					cl, _ = v.Fn.(*ssa.Function)
				}
			}
			if cl != nil && i < len(h.Params) {
				fi.cmpFn, fi.cmpPrm = cl, h.Params[i]
			}
		}
		if len(p.CallSites(h)) > 2 {
			why = "the fold helper " + p.FuncKey(h) + " has further callers"
			return
		}
		out = fi
	})
	return out, why
}

// checkFoldPaths enumerates the ways round the loop and classifies them.
func checkFoldPaths(p *Prog, fi *foldInfo, wantOp token.Token) []string {
	var problems []string
	head := fi.acc.Block()
	loop := naturalLoop(head)
	mirror := map[token.Token]token.Token{token.LSS: token.GTR, token.GTR: token.LSS}
	// the element of this iteration: toNumber(<indexed element>)#0
	isElem := func(v ssa.Value) bool {
		ex, ok := v.(*ssa.Extract)
		if !ok || ex.Index != 0 {
			return false
		}
		c, ok := ex.Tuple.(*ssa.Call)
		if !ok || c.Call.StaticCallee() == nil || fnName(c.Call.StaticCallee()) != "toNumber" || !loop[c.Block()] {
			return false
		}
		return strings.Contains(describe(c.Call.Args[0]), "[")
	}
	// cmp(x, acc) as a condition value
	isCmp := func(v ssa.Value) (bool, bool) { // (is a comparison of element and accumulator, in the wanted direction)
		switch c := v.(type) {
		case *ssa.BinOp:
			if isElem(c.X) && c.Y == ssa.Value(fi.acc) {
				return true, c.Op == wantOp
			}
			if isElem(c.Y) && c.X == ssa.Value(fi.acc) {
				return true, c.Op == mirror[wantOp]
			}
		case *ssa.Call:
			if fi.cmpPrm != nil && c.Call.Value == ssa.Value(fi.cmpPrm) && len(c.Call.Args) == 2 {
				if isElem(c.Call.Args[0]) && c.Call.Args[1] == ssa.Value(fi.acc) {
					return true, closureCompare(fi.cmpFn, wantOp)
				}
				if isElem(c.Call.Args[1]) && c.Call.Args[0] == ssa.Value(fi.acc) {
					return true, closureCompare(fi.cmpFn, mirror[wantOp])
				}
			}
		}
		return false, false
	}
	isFirst := func(v ssa.Value) bool { // counter == 0
		bo, ok := v.(*ssa.BinOp)
		if !ok || bo.Op != token.EQL {
			return false
		}
		k, isK := constInt(bo.Y)
		ph, isPh := bo.X.(*ssa.Phi)
		return isK && k == 0 && isPh && ph.Block() == head
	}
	type cond struct {
		v     ssa.Value
		truth bool
	}
	nTake, nKeep, nFirst := 0, 0, 0
	var walk func(b, from *ssa.BasicBlock, conds []cond, depth int)
	walk = func(b, from *ssa.BasicBlock, conds []cond, depth int) {
		if depth > 24 {
			problems = append(problems, "loop body too deep to enumerate")
			return
		}
		if b == head {
			// arrived back: which value flows into the accumulator from `from`?
			idx := -1
			for i, pr := range head.Preds {
				if pr == from {
					idx = i
				}
			}
			if idx < 0 {
				return
			}
			v := fi.acc.Edges[idx]
			// resolve φs of the body along this path
			for d := 0; d < 6; d++ {
				ph, ok := v.(*ssa.Phi)
				if !ok || ph == fi.acc || ph.Block() == head {
					break
				}
				// which predecessor of ph.Block() is on the path?  recorded in conds as block markers
				found := false
				for i, pr := range ph.Block().Preds {
					for _, c := range conds {
						if m, ok := c.v.(*pathMark); ok && m.from == pr && m.to == ph.Block() {
							v = ph.Edges[i]
							found = true
						}
					}
				}
				if !found {
					break
				}
			}
			cmpT, cmpF, first, notFirst := false, false, false, false
			for _, c := range conds {
				if _, ok := c.v.(*pathMark); ok {
					continue
				}
				if is, dirOK := isCmp(c.v); is {
					if !dirOK {
						problems = append(problems, fmt.Sprintf("the comparison between element and accumulator is not 'element %s accumulator'", wantOp))
					}
					if c.truth {
						cmpT = true
					} else {
						cmpF = true
					}
				}
				if isFirst(c.v) {
					if c.truth {
						first = true
					} else {
						notFirst = true
					}
				}
			}
			_ = notFirst
			switch {
			case v == ssa.Value(fi.acc):
				nKeep++
				if !cmpF {
					problems = append(problems, "the accumulator is kept on a path that has not found 'element "+wantOp.String()+" accumulator' false")
				}
				if first {
					problems = append(problems, "the accumulator is kept on the first iteration")
				}
			case isElem(v):
				if first {
					nFirst++
				} else if cmpT {
					nTake++
				} else {
					problems = append(problems, "the accumulator takes the element on a path that has neither found 'element "+wantOp.String()+" accumulator' true nor is the first iteration")
				}
			default:
				problems = append(problems, "the accumulator is updated with "+describe(v))
			}
			return
		}
		if !loop[b] {
			return // left the loop (error exit or done)
		}
		last := b.Instrs[len(b.Instrs)-1]
		switch x := last.(type) {
		case *ssa.If:
			for i, s := range b.Succs {
				cs := append(append([]cond{}, conds...), cond{x.Cond, i == 0}, cond{&pathMark{from: b, to: s}, true})
				walk(s, b, cs, depth+1)
			}
		case *ssa.Jump:
			cs := append(append([]cond{}, conds...), cond{&pathMark{from: b, to: b.Succs[0]}, true})
			walk(b.Succs[0], b, cs, depth+1)
		}
	}
	// start on the edge of the head's test that stays in the loop
	if iff, ok := head.Instrs[len(head.Instrs)-1].(*ssa.If); ok {
		for i, s := range head.Succs {
			if loop[s] {
				walk(s, head, []cond{{iff.Cond, i == 0}, {&pathMark{from: head, to: s}, true}}, 0)
			}
		}
	} else {
		problems = append(problems, "the loop head has no exit test")
	}
	if nTake == 0 {
		problems = append(problems, "no path replaces the accumulator by an element found "+wantOp.String()+" than it")
	}
	if nKeep == 0 {
		problems = append(problems, "no path keeps the accumulator")
	}
	// the first element: either the initial value, or taken unconditionally on the first iteration
	initOK := false
	for i, e := range fi.acc.Edges {
		if loop[head.Preds[i]] {
			continue
		}
		if ex, ok := e.(*ssa.Extract); ok && ex.Index == 0 {
			if c, ok := ex.Tuple.(*ssa.Call); ok && c.Call.StaticCallee() != nil && fnName(c.Call.StaticCallee()) == "toNumber" && strings.HasSuffix(describe(c.Call.Args[0]), "[0]") {
				initOK = true
			}
		}
	}
	if !initOK && nFirst == 0 {
		problems = append(problems, "the first element neither initialises the accumulator nor is taken unconditionally on the first iteration")
	}
	if initOK {
		// then the loop must cover exactly the elements after the first
		covered := false
		if iff, ok := head.Instrs[len(head.Instrs)-1].(*ssa.If); ok {
			if bo, ok := iff.Cond.(*ssa.BinOp); ok {
				if la := lenArg(bo.Y); la != nil {
					if sl, ok := la.(*ssa.Slice); ok && sl.Low != nil && sl.High == nil {
						if k, ok := constInt(sl.Low); ok && k == 1 {
							covered = true
						}
					}
				}
				// or a counter starting at 1
				if ph, ok := bo.X.(*ssa.Phi); ok && ph.Block() == head {
					for i, e := range ph.Edges {
						if !loop[head.Preds[i]] {
							if k, ok := constInt(e); ok && k == 1 {
								covered = true
							}
						}
					}
				}
			}
		}
		if !covered {
			problems = append(problems, "the fold does not range over exactly the elements after the first")
		}
	}
	return uniqStrings(sortStrings(problems))
}

// pathMark is a pseudo-value recording which edge a path took (used to resolve φs of the loop body).
type pathMark struct {
	ssa.Value
	from, to *ssa.BasicBlock
}
