package main

// E1 — loader.  Every run re-loads /repo's current working tree, type-checks it,
// builds go/ssa for all packages and (lazily) a VTA call graph.

import (
	"fmt"
	"go/constant"
	"go/token"
	"go/types"
	"os"
	"os/exec"
	"path/filepath"
	"sort"
	"strings"

	"golang.org/x/text/unicode/norm"
	"golang.org/x/tools/go/callgraph"
	"golang.org/x/tools/go/callgraph/cha"
	"golang.org/x/tools/go/callgraph/vta"
	"golang.org/x/tools/go/packages"
	"golang.org/x/tools/go/ssa"
	"golang.org/x/tools/go/ssa/ssautil"
)

const modulePath = "github.com/ah-naf/borno"

type Prog struct {
	RepoDir string
	Pkgs    []*packages.Package
	SSA     *ssa.Program
	Fset    *token.FileSet
	byName  map[string]*ssa.Package
	pkgs    map[string]*packages.Package
	cg      *callgraph.Graph
	funcs   []*ssa.Function
	GOARCH  string
	GOOS    string
	Sizes   types.Sizes
	gitStat string
	Renamed []string // functions recognised under a new name (canon.go)
}

// Load type-checks the repository at dir.  extraEnv lets the thorough tier
// repeat the analysis under GOARCH=386 / GOOS=windows.
func Load(dir string, extraEnv ...string) (*Prog, error) {
	env := append(os.Environ(), "GOFLAGS=-mod=mod", "GOPROXY=off", "GOSUMDB=off", "GOTOOLCHAIN=local", "GOWORK=off")
	env = append(env, extraEnv...)
	cfg := &packages.Config{
		Mode: packages.LoadAllSyntax,
		Dir:  dir,
		Env:  env,
	}
	pkgs, err := packages.Load(cfg, "./...")
	if err != nil {
		return nil, fmt.Errorf("packages.Load: %v", err)
	}
	var errs []string
	packages.Visit(pkgs, nil, func(p *packages.Package) {
		for _, e := range p.Errors {
			errs = append(errs, e.Error())
		}
	})
	if len(errs) > 0 {
		return nil, fmt.Errorf("type errors in %s: %s", dir, strings.Join(errs, "; "))
	}
	if len(pkgs) < 8 {
		return nil, fmt.Errorf("only %d packages loaded from %s (expected >= 8)", len(pkgs), dir)
	}
	prog, _ := ssautil.AllPackages(pkgs, ssa.InstantiateGenerics)
	prog.Build()
	p := &Prog{RepoDir: dir, Pkgs: pkgs, SSA: prog, byName: map[string]*ssa.Package{}, pkgs: map[string]*packages.Package{}}
	{
		var tps []*types.Package
		for _, pk := range pkgs {
			if pk.Types != nil && strings.HasPrefix(pk.Types.Path(), modulePath) {
				tps = append(tps, pk.Types)
			}
		}
		computeEmbeddedOwners(tps)
	}
	for _, pk := range pkgs {
		p.Fset = pk.Fset
		sp := prog.Package(pk.Types)
		if sp == nil {
			return nil, fmt.Errorf("no SSA package for %s", pk.PkgPath)
		}
		p.byName[pk.Name] = sp
		p.pkgs[pk.Name] = pk
		p.Sizes = pk.TypesSizes
	}
	for _, e := range extraEnv {
		if strings.HasPrefix(e, "GOARCH=") {
			p.GOARCH = e[7:]
		}
		if strings.HasPrefix(e, "GOOS=") {
			p.GOOS = e[5:]
		}
	}
	// all functions of the module, deterministic order
	for fn := range ssautil.AllFunctions(prog) {
		if p.InModule(fn) {
			p.funcs = append(p.funcs, fn)
		}
	}
	p.computeScannerFieldRoles()
	p.Renamed = p.resolveRenames()
	sort.Slice(p.funcs, func(i, j int) bool { return p.FuncKey(p.funcs[i]) < p.FuncKey(p.funcs[j]) })
	p.gitStat = gitStatus(dir)
	return p, nil
}

func gitStatus(dir string) string {
	out, err := exec.Command("git", "-C", dir, "status", "--porcelain").Output()
	if err != nil {
		return "?"
	}
	return string(out)
}

// Pkg returns the SSA package with the given package *name* (interpreter, parser …).
func (p *Prog) Pkg(name string) *ssa.Package { return p.byName[name] }

func (p *Prog) TPkg(name string) *packages.Package { return p.pkgs[name] }

func (p *Prog) InModule(fn *ssa.Function) bool {
	if fn == nil {
		return false
	}
	pk := fn.Package()
	if pk == nil {
		if fn.Parent() != nil {
			return p.InModule(fn.Parent())
		}
		// an instantiation of a generic function belongs to the package of the generic
		if o := fn.Origin(); o != nil && o != fn {
			return p.InModule(o)
		}
		// synthetic wrappers/thunks: attribute to the receiver's package
		if fn.Signature.Recv() != nil {
			if n := namedOf(fn.Signature.Recv().Type()); n != nil && n.Obj().Pkg() != nil {
				return strings.HasPrefix(n.Obj().Pkg().Path(), modulePath)
			}
		}
		return false
	}
	return strings.HasPrefix(pk.Pkg.Path(), modulePath)
}

func namedOf(t types.Type) *types.Named {
	for {
		switch tt := t.(type) {
		case *types.Pointer:
			t = tt.Elem()
		case *types.Named:
			return tt
		default:
			return nil
		}
	}
}

// FuncKey is the position-independent name of a function: pkg.(*T).m / pkg.f / pkg.f$1
func (p *Prog) FuncKey(fn *ssa.Function) string {
	if fn == nil {
		return "<nil>"
	}
	if k, ok := canonKey[fn]; ok {
		return k
	}
	return p.rawFuncKey(fn)
}

// rawFuncKey: the key from the names as written in the source.
func (p *Prog) rawFuncKey(fn *ssa.Function) string {
	if fn == nil {
		return "<nil>"
	}
	pkgName := ""
	if fn.Package() != nil {
		pkgName = fn.Package().Pkg.Name()
	} else if fn.Parent() != nil && fn.Parent().Package() != nil {
		pkgName = fn.Parent().Package().Pkg.Name()
	} else if fn.Signature.Recv() != nil {
		if n := namedOf(fn.Signature.Recv().Type()); n != nil && n.Obj().Pkg() != nil {
			pkgName = n.Obj().Pkg().Name()
		}
	}
	name := fn.Name()
	if fn.Signature.Recv() != nil {
		rt := fn.Signature.Recv().Type()
		if pt, ok := rt.(*types.Pointer); ok {
			if n, ok := pt.Elem().(*types.Named); ok {
				return pkgName + ".(*" + n.Obj().Name() + ")." + name
			}
		}
		if n, ok := rt.(*types.Named); ok {
			return pkgName + "." + n.Obj().Name() + "." + name
		}
	}
	if fn.Parent() != nil {
		return p.FuncKey(fn.Parent()) + "$" + strings.TrimPrefix(name, fn.Parent().Name()+"$")
	}
	return pkgName + "." + name
}

// Func looks a function up by its FuncKey; nil if absent.
func (p *Prog) Func(key string) *ssa.Function {
	for _, fn := range p.funcs {
		if fn.Synthetic != "" && !strings.Contains(fn.Synthetic, "package initializer") {
			continue
		}
		if p.FuncKey(fn) == key {
			return fn
		}
	}
	return nil
}

// ModuleFuncs returns all source-level functions of the module (methods, closures, init).
func (p *Prog) ModuleFuncs() []*ssa.Function {
	var out []*ssa.Function
	for _, fn := range p.funcs {
		if fn.Blocks == nil {
			continue
		}
		if fn.Synthetic != "" && !strings.Contains(fn.Synthetic, "package initializer") {
			continue
		}
		out = append(out, fn)
	}
	return out
}

func (p *Prog) CG() *callgraph.Graph {
	if p.cg == nil {
		p.cg = vta.CallGraph(ssautil.AllFunctions(p.SSA), cha.CallGraph(p.SSA))
	}
	return p.cg
}

// Reachable returns the module functions reachable from root in the VTA graph.
func (p *Prog) Reachable(root *ssa.Function) map[*ssa.Function]bool {
	seen := map[*ssa.Function]bool{}
	cg := p.CG()
	var walk func(fn *ssa.Function)
	walk = func(fn *ssa.Function) {
		if seen[fn] {
			return
		}
		seen[fn] = true
		n := cg.Nodes[fn]
		if n == nil {
			return
		}
		for _, e := range n.Out {
			walk(e.Callee.Func)
		}
	}
	walk(root)
	return seen
}

// Callees resolves a call instruction to its possible callees (static or via VTA).
func (p *Prog) Callees(call ssa.CallInstruction) []*ssa.Function {
	if sc := call.Common().StaticCallee(); sc != nil {
		return []*ssa.Function{sc}
	}
	cg := p.CG()
	n := cg.Nodes[call.Parent()]
	if n == nil {
		return nil
	}
	var out []*ssa.Function
	for _, e := range n.Out {
		if e.Site == call {
			out = append(out, e.Callee.Func)
		}
	}
	sort.Slice(out, func(i, j int) bool { return p.FuncKey(out[i]) < p.FuncKey(out[j]) })
	return out
}

// Callers of fn (call sites) in the module.
func (p *Prog) CallSites(fn *ssa.Function) []ssa.CallInstruction {
	cg := p.CG()
	n := cg.Nodes[fn]
	if n == nil {
		return nil
	}
	var out []ssa.CallInstruction
	for _, e := range n.In {
		if e.Site != nil && p.InModule(e.Caller.Func) {
			// the wrapper the compiler makes for a method promoted through an embedded struct is a caller only if
			// something calls the wrapper
			if strings.HasPrefix(e.Caller.Func.Synthetic, "wrapper for") && len(e.Caller.In) == 0 {
				continue
			}
			out = append(out, e.Site)
		}
	}
	sort.Slice(out, func(i, j int) bool { return out[i].Pos() < out[j].Pos() })
	return out
}

// Pos renders a position relative to the repository root.
func (p *Prog) Pos(pos token.Pos) string {
	if !pos.IsValid() {
		return "-"
	}
	ps := p.Fset.Position(pos)
	rel, err := filepath.Rel(p.RepoDir, ps.Filename)
	if err != nil || strings.HasPrefix(rel, "..") {
		rel = ps.Filename
	}
	return fmt.Sprintf("%s:%d", rel, ps.Line)
}

// InstrPos finds a usable position for an instruction (falls back to operands / block neighbours).
func (p *Prog) InstrPos(in ssa.Instruction) string {
	if in == nil {
		return "-"
	}
	if in.Pos().IsValid() {
		return p.Pos(in.Pos())
	}
	if v, ok := in.(ssa.Value); ok {
		_ = v
	}
	var ops []*ssa.Value
	for _, op := range in.Operands(ops) {
		if *op != nil && (*op).Pos().IsValid() {
			return p.Pos((*op).Pos())
		}
	}
	if b := in.Block(); b != nil {
		for _, x := range b.Instrs {
			if x.Pos().IsValid() {
				return p.Pos(x.Pos())
			}
		}
	}
	if in.Parent() != nil {
		return p.Pos(in.Parent().Pos())
	}
	return "-"
}

// isPkgFunc reports whether fn is the package-level function pkgPath.name (external packages).
func isPkgFunc(fn *ssa.Function, pkgPath, name string) bool {
	if fn == nil || fn.Pkg == nil || fn.Signature.Recv() != nil {
		return false
	}
	return fn.Pkg.Pkg.Path() == pkgPath && fn.Name() == name
}

func fnPkgPath(fn *ssa.Function) string {
	if fn == nil {
		return ""
	}
	if fn.Pkg != nil {
		return fn.Pkg.Pkg.Path()
	}
	if fn.Signature.Recv() != nil {
		if n := namedOf(fn.Signature.Recv().Type()); n != nil && n.Obj().Pkg() != nil {
			return n.Obj().Pkg().Path()
		}
	}
	if fn.Parent() != nil {
		return fnPkgPath(fn.Parent())
	}
	if o := fn.Origin(); o != nil && o != fn {
		return fnPkgPath(o)
	}
	return ""
}

// qualified external name, e.g. "fmt.Println", "(*bufio.Reader).ReadString"
func extName(fn *ssa.Function) string {
	if fn == nil {
		return ""
	}
	if fn.Signature.Recv() != nil {
		return fn.String()
	}
	return fnPkgPath(fn) + "." + fn.Name()
}

// InModulePkg: is this SSA package part of the analysed module?
func (p *Prog) InModulePkg(pk *ssa.Package) bool {
	return pk != nil && pk.Pkg != nil && strings.HasPrefix(pk.Pkg.Path(), modulePath)
}

type constEntry struct{ K, V AV }

var constMapEntries = map[*ssa.Global][]constEntry{}

// ConstMapKeys: the entries of a constant table (see ConstMap) in a deterministic order; only for tables whose keys
// are integers or runes.
func (p *Prog) ConstMapKeys(g *ssa.Global) []constEntry {
	if p.ConstMap(g) == nil {
		return nil
	}
	return constMapEntries[g]
}

var constMapValueTypes = map[*ssa.Global][]types.Type{}

var constMapCache = map[*ssa.Global]map[string]AV{}
var constMapDone = map[*ssa.Global]bool{}

// ConstMap: the contents of a package-level map variable that is built by its package initialiser from constant keys
// and values and is never written, replaced or handed out afterwards (every other use is a lookup, a range or len);
// nil when the variable is not such a table.  Keys are rendered like abstract values (AV.String()).
func (p *Prog) ConstMap(g *ssa.Global) map[string]AV {
	if constMapDone[g] {
		return constMapCache[g]
	}
	constMapDone[g] = true
	if g.Pkg == nil || !p.InModulePkg(g.Pkg) {
		return nil
	}
	if _, isMap := derefT(g.Type()).Underlying().(*types.Map); !isMap {
		return nil
	}
	init := g.Pkg.Func("init")
	if init == nil {
		return nil
	}
	var mk *ssa.MakeMap
	stores := 0
	ok := true
	for _, fn := range p.ModuleFuncs() {
		instrsOf(fn, func(in ssa.Instruction) {
			switch x := in.(type) {
			case *ssa.Store:
				if x.Addr == g {
					stores++
					if m, isMk := x.Val.(*ssa.MakeMap); isMk && (fn == init || (strings.HasPrefix(fn.Name(), "init#") && fn.Pkg == g.Pkg && fn.Signature.Recv() == nil)) {
						mk = m
					} else {
						ok = false
					}
				}
			case *ssa.UnOp:
				if x.X == g {
					for _, r := range *x.Referrers() {
						switch u := r.(type) {
						case *ssa.Lookup:
							if u.X != x {
								ok = false
							}
						case *ssa.Range:
						case *ssa.Call:
							if b, isB := u.Call.Value.(*ssa.Builtin); !isB || b.Name() != "len" {
								ok = false
							}
						case *ssa.DebugRef:
						default:
							ok = false
						}
					}
				}
			}
		})
	}
	if !ok || mk == nil || stores != 1 {
		return nil
	}
	tab := map[string]AV{}
	var entries []constEntry
	intKeys := true
	for _, r := range *mk.Referrers() {
		switch u := r.(type) {
		case *ssa.MapUpdate:
			k, kok := u.Key.(*ssa.Const)
			val := u.Value
			if mi, isMI := val.(*ssa.MakeInterface); isMI {
				val = mi.X // a table of interface values holding constants
				constMapValueTypes[g] = append(constMapValueTypes[g], mi.X.Type())
			}
			if !kok {
				return nil
			}
			if ct, isCT := val.(*ssa.ChangeType); isCT {
				val = ct.X // a function stored under a named function type
			}
			var vav AV
			switch v := val.(type) {
			case *ssa.Const:
				vav = constAV(v)
			case *ssa.Function: // a table of function literals without captured variables
				vav = AV{K: KFunc, Fn: v}
			case *ssa.MakeClosure:
				fn, isFn := v.Fn.(*ssa.Function)
				if !isFn || len(v.Bindings) > 0 {
					return nil
				}
				vav = AV{K: KFunc, Fn: fn}
			default:
				return nil
			}
			tab[constAV(k).String()] = vav
			if constAV(k).K == KInt {
				entries = append(entries, constEntry{constAV(k), vav})
			} else {
				intKeys = false
			}
		case *ssa.Store:
			if u.Addr != g {
				return nil
			}
		case *ssa.DebugRef:
		default:
			return nil
		}
	}
	constMapCache[g] = tab
	if intKeys {
		sort.Slice(entries, func(i, j int) bool { return entries[i].K.I < entries[j].K.I })
		constMapEntries[g] = entries
	}
	return tab
}

// OwnedBy: is fn the function with key owner, or a helper split off from it — a function all of whose callers
// (transitively, a few levels) are owned by it?
func (p *Prog) OwnedBy(fn *ssa.Function, owner string) bool {
	var rec func(f *ssa.Function, depth int) bool
	rec = func(f *ssa.Function, depth int) bool {
		if p.FuncKey(f) == owner {
			return true
		}
		if _, existing := expectedFuncs[p.FuncKey(f)]; existing {
			return false // a function of the confirmed tree is nobody's helper
		}
		css := p.CallSites(f)
		if depth > 3 || len(css) == 0 {
			return false
		}
		outside := 0
		for _, cs := range css {
			if cs.Parent() == f {
				continue // a helper calling itself
			}
			outside++
			if cs.Common().StaticCallee() != f || !rec(cs.Parent(), depth+1) {
				return false
			}
		}
		return outside > 0
	}
	return rec(fn, 0)
}

// WordSwitch: a function whose whole body is a switch over its one string parameter with constant cases, every arm (and
// the fall-through) returning a constant — a table from words to values written as code (identifierType(text) in place
// of a keywords map).  Returns the table keyed by the Go string, the default, and whether fn has that shape.
type wordSwitch struct {
	Cases   map[string]AV
	Default AV
}

var wordSwitchCache = map[*ssa.Function]*wordSwitch{}
var wordSwitchDone = map[*ssa.Function]bool{}

func (p *Prog) WordSwitch(fn *ssa.Function) *wordSwitch {
	if wordSwitchDone[fn] {
		return wordSwitchCache[fn]
	}
	wordSwitchDone[fn] = true
	if fn == nil || fn.Blocks == nil || len(fn.Params) != 1 || fn.Signature.Results().Len() != 1 || len(fn.FreeVars) != 0 {
		return nil
	}
	if b, ok := fn.Params[0].Type().Underlying().(*types.Basic); !ok || b.Kind() != types.String {
		return nil
	}
	prm := fn.Params[0]
	ws := &wordSwitch{Cases: map[string]AV{}}
	retConst := func(b *ssa.BasicBlock) (AV, bool) {
		for hops := 0; hops < 4; hops++ {
			if len(b.Instrs) == 1 {
				if j, ok := b.Instrs[0].(*ssa.Jump); ok {
					_ = j
					b = b.Succs[0]
					continue
				}
			}
			break
		}
		if len(b.Instrs) != 1 {
			return AV{}, false
		}
		r, ok := b.Instrs[0].(*ssa.Return)
		if !ok || len(r.Results) != 1 {
			return AV{}, false
		}
		c, ok := r.Results[0].(*ssa.Const)
		if !ok {
			return AV{}, false
		}
		return constAV(c), true
	}
	b := fn.Blocks[0]
	seen := map[*ssa.BasicBlock]bool{}
	for {
		if seen[b] {
			return nil
		}
		seen[b] = true
		if v, ok := retConst(b); ok {
			ws.Default = v
			break
		}
		// block: [DebugRef…] t = prm == "k"; if t goto arm else next
		var instrs []ssa.Instruction
		for _, in := range b.Instrs {
			if _, dbg := in.(*ssa.DebugRef); !dbg {
				instrs = append(instrs, in)
			}
		}
		if len(instrs) != 2 {
			return nil
		}
		bo, ok1 := instrs[0].(*ssa.BinOp)
		iff, ok2 := instrs[1].(*ssa.If)
		if !ok1 || !ok2 || bo.Op != token.EQL || iff.Cond != ssa.Value(bo) {
			return nil
		}
		var k *ssa.Const
		if bo.X == ssa.Value(prm) {
			k, _ = bo.Y.(*ssa.Const)
		} else if bo.Y == ssa.Value(prm) {
			k, _ = bo.X.(*ssa.Const)
		}
		if k == nil || k.Value == nil || k.Value.Kind() != constant.String {
			return nil
		}
		v, ok := retConst(b.Succs[0])
		if !ok {
			return nil
		}
		key := constant.StringVal(k.Value)
		if _, dup := ws.Cases[key]; !dup {
			ws.Cases[key] = v
		}
		b = b.Succs[1]
	}
	if len(ws.Cases) == 0 {
		return nil
	}
	wordSwitchCache[fn] = ws
	return ws
}

// KeywordTable: the scanner's table from words to token types, whichever way it is written — a package-level map of
// package lexer filled by its initialiser (string keys, constant token values) or a word-switch function of that
// package returning token types.  Keys are NFC-normalised; values are token names.
func (p *Prog) KeywordTable() map[string]string {
	names := p.tokenNames()
	got := map[string]string{}
	pk := p.Pkg("lexer")
	if pk == nil {
		return got
	}
	if init := pk.Func("init"); init != nil {
		instrsOf(init, func(in ssa.Instruction) {
			mu, ok := in.(*ssa.MapUpdate)
			if !ok {
				return
			}
			k, ok1 := mu.Key.(*ssa.Const)
			v, ok2 := constInt(mu.Value)
			if mt, isMap := mu.Map.Type().Underlying().(*types.Map); !isMap || !types.Identical(mt.Key().Underlying(), types.Typ[types.String]) {
				return
			}
			if ok1 && ok2 && k.Value != nil && k.Value.Kind() == constant.String {
				got[norm.NFC.String(constant.StringVal(k.Value))] = names[v]
			}
		})
	}
	if len(got) > 0 {
		return got
	}
	for _, fn := range p.ModuleFuncs() {
		if fn.Package() != pk || fn.Signature.Results().Len() != 1 || typeStr(fn.Signature.Results().At(0).Type()) != "token.TokenType" {
			continue
		}
		if ws := p.WordSwitch(fn); ws != nil {
			for k, v := range ws.Cases {
				if v.K == KInt {
					got[norm.NFC.String(k)] = names[v.I]
				}
			}
		}
	}
	return got
}

var usedAsValueCache = map[*ssa.Function]bool{}

// OnlyCalled: every use of fn in the module is a call — direct, or through an interface method (the call sites are all
// known: CallSites lists them); it is never stored, passed or bound as a value.
func (p *Prog) OnlyCalled(fn *ssa.Function) bool {
	if node := p.CG().Nodes[fn]; node != nil {
		for _, e := range node.In {
			if strings.HasPrefix(e.Caller.Func.Synthetic, "wrapper for") && len(e.Caller.In) == 0 {
				continue
			}
			if e.Site == nil {
				return false
			}
			c := e.Site.Common()
			if !c.IsInvoke() && c.StaticCallee() != fn {
				return false
			}
			if _, isCall := e.Site.(*ssa.Call); !isCall {
				return false
			}
		}
	}
	only := true
	for _, caller := range p.ModuleFuncs() {
		instrsOf(caller, func(in ssa.Instruction) {
			var ops []*ssa.Value
			for _, op := range in.Operands(ops) {
				if *op == ssa.Value(fn) {
					if ci, isCall := in.(ssa.CallInstruction); !isCall || ci.Common().Value != ssa.Value(fn) {
						only = false
					}
				}
			}
		})
	}
	return only
}

var usedAsValueDone = map[*ssa.Function]bool{}

// UsedAsValue: is fn referenced anywhere in the module other than as the callee of a direct call (stored, passed,
// bound as a method value, deferred through a value), or can it be reached through an interface?
func (p *Prog) UsedAsValue(fn *ssa.Function) bool {
	if usedAsValueDone[fn] {
		return usedAsValueCache[fn]
	}
	usedAsValueDone[fn] = true
	used := false
	if node := p.CG().Nodes[fn]; node != nil {
		for _, e := range node.In {
			if e.Site == nil || e.Site.Common().StaticCallee() != fn {
				used = true
			}
		}
	}
	for _, caller := range p.ModuleFuncs() {
		if used {
			break
		}
		instrsOf(caller, func(in ssa.Instruction) {
			var ops []*ssa.Value
			for _, op := range in.Operands(ops) {
				if *op == ssa.Value(fn) {
					if ci, isCall := in.(ssa.CallInstruction); !isCall || ci.Common().Value != ssa.Value(fn) {
						used = true
					}
				}
			}
		})
	}
	usedAsValueCache[fn] = used
	return used
}
