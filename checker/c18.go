package main

import (
	"fmt"
	"go/token"
	"go/types"
	"sort"
	"strings"

	"golang.org/x/tools/go/ssa"
)

func init() {
	register("C18", &Checker{
		Run: checkC18,
		Explain: "Each invariance family is a non-interference claim decided by a forward data-flow (taint) analysis over go/ssa, interprocedural through parameters, results, locals and struct fields: " +
			"(a) layout — blanks and comments produce no token (C09/S2), so layout reaches later phases only through line numbers; every value read from a Line/LineNumber/line field flows only into other line fields, the line arguments of the diagnostic functions and the one documented exception (the same-line test of `ধরি` declarations); it never reaches another comparison, a map key, an index or a Borno value. " +
			"(b) digit script — the C10 rules (table, classifier, every ParseFloat behind the transliteration). " +
			"(c) synonyms — in the scanner's decision table `&&` yields the token type of the keyword এবং and `||` that of বা; token lexemes are control-irrelevant (see d). " +
			"(d) renaming — values read from a Lexeme field flow only to map-key positions compared by equality (scope tables, the reserved-name table, object property names and the literal's name list), to diagnostics and String() methods; they are never compared with a constant, measured, indexed, converted, ordered or turned into a Borno value. " +
			"(e) parentheses — the Grouping clause returns exactly the results of evaluating its content on every path, and no type test on an AST node outside eval's dispatch distinguishes node kinds except at the documented places (assignment-target switch, the `ধরি` literal test, getLineNumber). " +
			"(f) never-executed code — necessary conditions on the parser only: every parse function rejects by its documented rules alone, and the parser keeps no state between constructs except its position (who-writes rule over the structs that live as long as the parser).",
		Rule:    "obligation = (family, source field or site); non-trivial: every flow and every type-test site",
		Trusted: []string{"go/ssa def-use chains", "the list of allowed sinks in c18.go"},
	})
}

type taintSink struct {
	In   ssa.Instruction
	Kind string
	Fn   *ssa.Function
	Desc string
}

// taintFrom runs a forward closure from the given source values; fieldSinkOK decides which struct fields may
// receive tainted data (and then act as sources themselves through isSourceField).
type taintEngine struct {
	p            *Prog
	seen         map[ssa.Value]bool
	sinks        []taintSink
	allowField   func(tn, f string) bool
	taintedField map[string]bool
	work         []ssa.Value
}

func (t *taintEngine) add(v ssa.Value) {
	if v == nil || t.seen[v] {
		return
	}
	t.seen[v] = true
	t.work = append(t.work, v)
}

func (t *taintEngine) sink(in ssa.Instruction, kind, desc string) {
	t.sinks = append(t.sinks, taintSink{In: in, Kind: kind, Fn: in.Parent(), Desc: desc})
}

func (t *taintEngine) run() {
	for len(t.work) > 0 {
		v := t.work[len(t.work)-1]
		t.work = t.work[:len(t.work)-1]
		refs := v.Referrers()
		if refs == nil {
			continue
		}
		for _, r := range *refs {
			t.visit(v, r)
		}
	}
}

func (t *taintEngine) visit(v ssa.Value, r ssa.Instruction) {
	switch x := r.(type) {
	case *ssa.DebugRef:
	case *ssa.BinOp:
		switch x.Op {
		case token.EQL, token.NEQ, token.LSS, token.LEQ, token.GTR, token.GEQ:
			if isNilConst(x.X) || isNilConst(x.Y) {
				return // presence tests carry no data
			}
			t.sink(x, "compare", describe(x))
		default:
			t.add(x)
		}
	case *ssa.UnOp:
		if x.Op == token.MUL {
			return // v used as an address: loads are handled through stores
		}
		t.add(x)
	case *ssa.Convert:
		ft, tt := x.X.Type().Underlying(), x.Type().Underlying()
		_, fs := ft.(*types.Basic)
		_, ts := tt.(*types.Slice)
		if fs && ts {
			t.sink(x, "convert", "converted to "+typeStr(x.Type()))
			return
		}
		t.add(x)
	case *ssa.ChangeType, *ssa.ChangeInterface:
		t.add(x.(ssa.Value))
	case *ssa.MakeInterface:
		t.add(x)
	case *ssa.Phi:
		t.add(x)
	case *ssa.Extract:
		t.add(x)
	case *ssa.Field:
		t.add(x)
	case *ssa.FieldAddr:
		// address of a field inside a tainted struct value: no
	case *ssa.Store:
		if x.Val != v {
			return
		}
		switch a := x.Addr.(type) {
		case *ssa.Alloc:
			for _, rr := range *a.Referrers() {
				if ld, ok := rr.(*ssa.UnOp); ok && ld.Op == token.MUL {
					t.add(ld)
				}
			}
		case *ssa.FieldAddr:
			tn, f := structKey(a.X.Type(), a.Field)
			if t.allowField(tn, f) {
				return
			}
			t.sink(x, "field-store", "stored into "+tn+"."+f)
		case *ssa.IndexAddr:
			// element of a local array (varargs): follow the array's consumers
			if al, ok := a.X.(*ssa.Alloc); ok {
				for _, rr := range *al.Referrers() {
					if sl, ok := rr.(*ssa.Slice); ok {
						t.add(sl)
					}
				}
				return
			}
			t.sink(x, "element-store", "stored into an element of "+describe(a.X))
		case *ssa.Global:
			t.sink(x, "global-store", "stored into "+a.Name())
		default:
			t.sink(x, "store", "stored through "+describe(x.Addr))
		}
	case *ssa.MapUpdate:
		switch v {
		case x.Key:
			t.sink(x, "map-key", "key of "+typeStr(x.Map.Type())+" ("+describe(x.Map)+")")
		case x.Value:
			t.sink(x, "map-value", "value stored into "+describe(x.Map))
		}
	case *ssa.Lookup:
		if x.Index == v {
			t.sink(x, "map-key", "lookup key of "+typeStr(x.X.Type())+" ("+describe(x.X)+")")
		} else {
			t.add(x)
		}
	case *ssa.Index, *ssa.IndexAddr:
		t.sink(r, "index", "used in an index expression")
	case *ssa.Slice:
		t.add(x)
	case *ssa.Range:
		t.sink(x, "range", "iterated over")
	case *ssa.If:
		t.sink(x, "branch", "branch condition")
	case *ssa.Return:
		fn := x.Parent()
		idx := -1
		for i, res := range x.Results {
			if res == v {
				idx = i
			}
		}
		for _, cs := range t.p.CallSites(fn) {
			cv, ok := cs.(ssa.Value)
			if !ok {
				continue
			}
			if len(x.Results) == 1 {
				t.add(cv)
			} else {
				for _, rr := range *cv.Referrers() {
					if ex, ok := rr.(*ssa.Extract); ok && ex.Index == idx {
						t.add(ex)
					}
				}
			}
		}
		if len(t.p.CallSites(fn)) == 0 && fn.Name() != "String" && fn.Name() != "Error" {
			t.sink(x, "return", "returned from "+t.p.FuncKey(fn)+" (no resolved caller)")
		}
		if fn.Name() == "String" || fn.Name() == "Error" {
			t.sink(x, "stringer", "rendered by "+t.p.FuncKey(fn))
		}
	case ssa.CallInstruction:
		common := x.Common()
		if b, ok := common.Value.(*ssa.Builtin); ok {
			switch b.Name() {
			case "append":
				if cv, ok := x.(ssa.Value); ok {
					// a list of plain strings being assembled (the pieces of a rendered node, joined afterwards) only
					// carries the text on; a list of interface values is a Borno array: text stored in it is a value
					t.sink(x, "append", "appended to "+describe(common.Args[0])+" : "+typeStr(cv.Type()))
				}
			default:
				t.sink(x, "builtin", b.Name()+"()")
			}
			return
		}
		callees := t.p.Callees(x)
		if len(callees) == 0 {
			t.sink(x, "call", "passed to an unresolved call")
			return
		}
		for _, c := range callees {
			argIdx := -1
			args := common.Args
			off := 0
			if common.IsInvoke() {
				off = 1
				if common.Value == v {
					argIdx = 0
				}
			}
			for i, a := range args {
				if a == v {
					argIdx = i + off
				}
			}
			if argIdx < 0 {
				continue
			}
			if !t.p.InModule(c) || c.Blocks == nil {
				t.sink(x, "extcall", extName(c))
				// formatting / concatenation results stay tainted
				if cv, ok := x.(ssa.Value); ok && (fnPkgPath(c) == "fmt" || fnPkgPath(c) == "strings" || fnPkgPath(c) == "golang.org/x/text/unicode/norm") {
					if typeStr(cv.Type()) != "error" { // an error value is a diagnostic, not data
						t.add(cv)
					}
				}
				continue
			}
			if argIdx < len(c.Params) {
				t.add(c.Params[argIdx])
			}
		}
	}
}

func fieldLoadsNamed(p *Prog, pred func(tn, f string) bool) []ssa.Value {
	var out []ssa.Value
	for _, fn := range p.ModuleFuncs() {
		instrsOf(fn, func(in ssa.Instruction) {
			switch x := in.(type) {
			case *ssa.UnOp:
				if fa, ok := x.X.(*ssa.FieldAddr); ok && x.Op == token.MUL {
					tn, f := structKey(fa.X.Type(), fa.Field)
					if pred(tn, f) {
						out = append(out, x)
					}
				}
			case *ssa.Field:
				tn, f := structKey(x.X.Type(), x.Field)
				if pred(tn, f) {
					out = append(out, x)
				}
			}
		})
	}
	return out
}

func isLineField(tn, f string) bool { return f == "Line" || f == "LineNumber" || f == "line" }

func checkC18(p *Prog, l *Ledger) {
	// (a) comments are layout: what is comment ends where the language says (extents rule of C09)
	if run := exploreScanToken(p); run != nil {
		checkExtents(p, l, run.m.G, "C18/a-layout/comment-extents")
	}
	// (d) renaming: a name is the text written — the scanner hands on each lexeme as the slice of the source it covers
	// (C09's partition rule), so two spellings that differ in the source stay two names (no normalisation, folding or
	// truncation that would let a consistent renaming merge or split variables)
	l.AsOnly(map[string]string{"C09/S1-partition": "C18/d-renaming/lexeme-is-source"}, func() { checkC09(p, l) })
	// (e) parentheses that repeat the documented grouping change nothing only if the parser groups as documented (C01's
	// ladder and associativity rules): a level that takes an operand from the wrong level accepts `x < (1 << n)` and
	// rejects or regroups `x < 1 << n`
	l.AsOnly(map[string]string{"C01/S1-ladder": "C18/e-parentheses/documented-grouping", "C01/S2-associativity": "C18/e-parentheses/documented-grouping/associativity", "C01/S3-postfix-chain": "C18/e-parentheses/documented-grouping/postfix"}, func() { checkC01(p, l) })
	// (e) parentheses: evaluating a Grouping node does nothing but evaluate its operand
	checkGroupingTransparent(p, l, "C18/e-parentheses/grouping-transparent")
	// (d) renaming: the initialisers of an object literal run in the order they are written (the parser's Keys), not in
	// an order computed from the names — a consistent renaming of the properties would reorder their side effects
	l.AsOnlyWhere(map[string]string{"C12/S1-literal": "C18/d-renaming/literal-order"}, func(o *Obligation) bool { return o.Construct == "eval/ObjectLiteral" }, func() { checkObjectLiteral(p, l) })
	// ---------------- (a) layout
	{
		srcs := fieldLoadsNamed(p, isLineField)
		te := &taintEngine{p: p, seen: map[ssa.Value]bool{}, allowField: isLineField}
		for _, s := range srcs {
			te.add(s)
		}
		te.run()
		nOK := 0
		byKey := map[string]bool{}
		for _, s := range te.sinks {
			fk := p.FuncKey(s.Fn)
			key := fk + "#" + s.Kind
			ok, why := false, ""
			switch s.Kind {
			case "extcall":
				ok = fnPkgName(s.Fn) == "utils" && strings.HasPrefix(s.Desc, "fmt.Fprint")
				why = "printed in the diagnostic's [line N]"
				if !ok && (s.Desc == "fmt.Sprintf" || s.Desc == "fmt.Errorf") {
					ok, why = true, "formatted into text"
				}
			case "compare":
				ok = p.OwnedBy(s.Fn, "parser.(*Parser).varDeclaration")
				why = "the documented same-line rule of `ধরি` declarations"
				if fk == "lexer.(*Scanner).AddToken" || strings.HasPrefix(fk, "token.") {
					ok = false
				}
			case "branch":
				ok = false
			case "stringer":
				ok, why = true, "String() rendering"
			}
			if ok {
				nOK++
				if !byKey[key] {
					byKey[key] = true
					l.Discharge("C18/a-layout", key, p.InstrPos(s.In), "line number reaches "+s.Desc+": "+why, true)
				}
				continue
			}
			l.Violate("C18/a-layout", key+"("+s.Desc+")", p.InstrPos(s.In), "a line number (layout information) influences behaviour: "+s.Desc+" in "+fk+" — inserting a line break changes what the program does, not only the line shown in diagnostics")
		}
		// a whole token (or any struct carrying a line) used as a map key makes the line part of the key's identity
		for _, fn := range p.ModuleFuncs() {
			instrsOf(fn, func(in ssa.Instruction) {
				var key ssa.Value
				switch x := in.(type) {
				case *ssa.MapUpdate:
					key = x.Key
				case *ssa.Lookup:
					if _, isMap := x.X.Type().Underlying().(*types.Map); isMap {
						key = x.Index
					}
				}
				if key == nil {
					return
				}
				if st, ok := key.Type().Underlying().(*types.Struct); ok {
					for i := 0; i < st.NumFields(); i++ {
						if n := st.Field(i).Name(); n == "Line" || n == "LineNumber" {
							l.Violate("C18/a-layout", p.FuncKey(fn)+"#map-key("+typeStr(key.Type())+")", p.InstrPos(in), "a map is keyed by a "+typeStr(key.Type())+" value, which contains the line number: two occurrences of a name behave as one or as two depending on whether they stand on the same line")
						}
					}
				}
			})
		}
		l.Extra["line_field_reads"] = len(srcs)
		if len(srcs) < 40 {
			l.Violate("C18/a-layout/vacuity", "line reads", "", fmt.Sprintf("only %d reads of Line/LineNumber/line fields found (about 50 expected)", len(srcs)))
		} else {
			l.Discharge("C18/a-layout", "line-flow", "", fmt.Sprintf("%d reads of line fields; forward closure reaches only line fields, diagnostic arguments and the documented `ধরি` test (%d values visited)", len(srcs), len(te.seen)), true)
		}
	}
	// ---------------- (c) synonyms
	if run := exploreScanToken(p); run != nil {
		scratch := NewLedger("tmp", "quick", 0, "")
		checkMunchTable(p, scratch, run.m.G)
		table, _ := scratch.Extra["scanner_decision_table"].(map[string]map[string]string)
		kw := p.KeywordTable()
		for _, syn := range []struct{ sym, first, second, word string }{{"&&", `'&'`, `'&'`, "এবং"}, {"||", `'|'`, `'|'`, "বা"}} {
			got := table[syn.first][syn.second+":T,"]
			want := kw[nfc(syn.word)]
			if got != "" && got == want {
				l.Discharge("C18/c-synonyms", syn.sym+"≡"+syn.word, "", "both spellings yield token type "+got, true)
			} else {
				l.Violate("C18/c-synonyms", syn.sym+"≡"+syn.word, "", fmt.Sprintf("%s scans as %q but the keyword %s as %q: the two documented spellings are different tokens", syn.sym, got, syn.word, want))
			}
		}
	} else {
		l.Undecide("C18/c-synonyms", "scanner", "", "scanToken not found")
	}
	// ---------------- (d) renaming: Lexeme flows
	{
		srcs := fieldLoadsNamed(p, func(tn, f string) bool { return f == "Lexeme" })
		te := &taintEngine{p: p, seen: map[ssa.Value]bool{}, allowField: func(tn, f string) bool { return f == "Lexeme" }}
		for _, s := range srcs {
			te.add(s)
		}
		te.run()
		byKey := map[string]bool{}
		// a function that only String() methods call (transitively) is part of the rendering of a node as text
		var renderer func(fn *ssa.Function, depth int) bool
		renderer = func(fn *ssa.Function, depth int) bool {
			if fn.Name() == "String" || fn.Name() == "Error" {
				return true
			}
			css := p.CallSites(fn)
			if depth > 3 || len(css) == 0 {
				return false
			}
			for _, cs := range css {
				if !renderer(cs.Parent(), depth+1) {
					return false
				}
			}
			return true
		}
		for _, s := range te.sinks {
			fk := p.FuncKey(s.Fn)
			key := fk + "#" + s.Kind
			ok, why := false, ""
			if (s.Kind == "append" || s.Kind == "extcall" || s.Kind == "return") && renderer(s.Fn, 0) {
				ok, why = true, "part of a String() rendering (a helper only String() methods call)"
			}
			switch s.Kind {
			case "map-key":
				ok = strings.Contains(s.Desc, "map[string]")
				why = "used as a key compared by equality only (" + s.Desc + ")"
			case "extcall":
				switch {
				case ok:
				case strings.HasPrefix(s.Desc, "fmt."):
					ok, why = true, "formatted into a diagnostic or String() text"
				case s.Desc == "errors.New":
					ok, why = true, "made the text of an error value (a diagnostic, not data)"
				case strings.Contains(s.Desc, "norm."):
					ok, why = true, "normalised for display"
				}
			case "stringer":
				ok, why = true, "String() rendering"
			case "append":
				if !ok {
					ok = strings.HasSuffix(s.Desc, ": []string") && (fk == "parser.(*Parser).objectLiteral" || (fnPkgName(s.Fn) == "parser" && p.OwnedBy(s.Fn, "parser.(*Parser).objectLiteral")))
					why = "recorded in the literal's name list (property names are data: the documented second class)"
				}
			case "field-store":
				ok = false
			}
			if ok {
				if !byKey[key] {
					byKey[key] = true
					l.Discharge("C18/d-renaming", key, p.InstrPos(s.In), why, true)
				}
				continue
			}
			l.Violate("C18/d-renaming", key+"("+s.Desc+")", p.InstrPos(s.In), "the spelling of a name or operator influences behaviour: its lexeme is "+s.Desc+" in "+fk+" — consistently renaming identifiers (or exchanging && / এবং) can change what the program does")
		}
		l.Extra["lexeme_reads"] = len(srcs)
		if len(srcs) < 15 {
			l.Violate("C18/d-renaming/vacuity", "lexeme reads", "", fmt.Sprintf("only %d reads of Lexeme fields found", len(srcs)))
		} else {
			l.Discharge("C18/d-renaming", "lexeme-flow", "", fmt.Sprintf("%d reads of Lexeme; they reach only map keys, diagnostics and String() methods (%d values visited)", len(srcs), len(te.seen)), true)
		}
	}
	// ---------------- (e) parentheses
	{
		cs := getClauses(p)
		if cs.account(l) {
			m := cs.Clauses["*ast.Grouping"]
			if m == nil {
				l.Undecide("C18/e-parentheses", "eval/Grouping", "", "clause missing")
			} else {
				mon := Monitor{Init: "start|", Step: func(s string, ev *Event) string {
					ps := strings.SplitN(s, "|", 2)
					switch ev.Op {
					case "flagtest":
						return s
					case "eval":
						if ps[0] != "start" || ev.KV["child"] != "e.Expression" {
							return "!the grouping clause evaluates " + ev.KV["child"] + " (or evaluates twice)"
						}
						return "done|" + ev.KV["res"]
					case "return":
						if ps[0] != "done" {
							if ev.KV["raised"] == "T" {
								return ""
							}
							return "!the grouping clause returns without evaluating its content"
						}
						if ev.KV["r0"] != ps[1]+".val" || ev.KV["r1"] != ps[1]+".sig" {
							return "!a parenthesised expression yields (" + ev.KV["r0"] + ", " + ev.KV["r1"] + ") instead of exactly its content's results"
						}
						return ""
					}
					return "!the grouping clause does more than evaluating its content: " + ev.String()
				}}
				runMon(l, "C18/e-parentheses", "eval/Grouping", m, mon, "returns exactly the value and signal of its content")
			}
		}
		checkNodeKindTests(p, l, "C18/e-parentheses")
	}
	// ---------------- (b) digit script
	{
		scratch := NewLedger("C10", "quick", 0, "")
		checkC10(p, scratch)
		bad := 0
		for _, o := range scratch.Obls {
			if o.Status != Discharged {
				bad++
				l.Violate("C18/b-digit-script", o.Rule+"@"+o.Construct, o.Pos, o.Why)
			}
		}
		if bad == 0 {
			l.Discharge("C18/b-digit-script", "C10-rules", "", fmt.Sprintf("all %d obligations of C10 (digit table, classifier, literal shape, transliteration before every ParseFloat) hold", len(scratch.Obls)), true)
		}
	}
	// (f) never-executed code — a necessary condition: text that never runs can change what the program does only through
	// the parser (the evaluator does not visit it: C05/C03), so (1) each parse function rejects by its documented rules
	// only (C08's filter rule) and (2) the parser remembers nothing from one construct to the next except its position
	// (so whether and how a construct is accepted cannot depend on declarations standing elsewhere in the text)
	{
		pi := getParser(p)
		l.AsOnly(map[string]string{"C08/S3-filters": "C18/f-unreachable-code/documented-rejections"}, func() { checkSemanticFilters(p, l, pi) })
		checkParserMemory(p, l, "C18/f-unreachable-code/parser-memory")
	}
	l.Note("(f) never-executed code: decided only as far as the parser goes (documented rejections, no memory between constructs); that the evaluator leaves unvisited code alone is C05's and C03's business")
}

// checkNodeKindTests: no type test on an AST node outside eval's dispatch except at the documented places.
// (Used by C18/e — parentheses — and by C16: behaviour must not depend on the syntactic form of an operand.)
func checkNodeKindTests(p *Prog, l *Ledger, rule string) {
	allowed := map[string]string{
		"parser.(*Parser).assignment":     "assignment-target switch (documented: only identifiers, element and property accesses are assignable)",
		"parser.(*Parser).varDeclaration": "the `ধরি` line rule's literal test (documented exception)",
		"interpreter.getLineNumber":       "line lookup for diagnostics",
	}
	ev := p.Interp().Eval
	var sites []string
	// a helper split off from an allowed function (all of its callers are that function, or helpers of it) shares the allowance
	var owner func(fn *ssa.Function, depth int) string
	owner = func(fn *ssa.Function, depth int) string {
		fk := p.FuncKey(fn)
		if _, ok := allowed[fk]; ok {
			return fk
		}
		if _, existing := expectedFuncs[fk]; existing || depth > 3 {
			// a function of the confirmed tree is nobody's helper: only functions that did not exist there (code that
			// was split off) inherit — otherwise the allowance would run down the whole ladder, each level having
			// exactly one caller
			return ""
		}
		css := p.CallSites(fn)
		if len(css) == 0 {
			return ""
		}
		o := ""
		for _, cs := range css {
			if cs.Parent() == fn {
				continue // a helper calling itself
			}
			if cs.Common().StaticCallee() != fn {
				return ""
			}
			c := owner(cs.Parent(), depth+1)
			if c == "" || (o != "" && c != o) {
				return ""
			}
			o = c
		}
		return o
	}
	inherited := map[string]string{}
	for _, fn := range p.ModuleFuncs() {
		fk := p.FuncKey(fn)
		if o := owner(fn, 0); o != "" && o != fk {
			inherited[fk] = allowed[o] + " (in a helper of " + o + ")"
		}
	}
	for k, v := range inherited {
		allowed[k] = v
	}
	for _, fn := range p.ModuleFuncs() {
		fk := p.FuncKey(fn)
		instrsOf(fn, func(in ssa.Instruction) {
			ta, ok := in.(*ssa.TypeAssert)
			if !ok {
				return
			}
			nt := namedOf(ta.AssertedType)
			if nt == nil || nt.Obj().Pkg() == nil || nt.Obj().Pkg().Name() != "ast" {
				return
			}
			if fn == ev {
				if _, isParam := ta.X.(*ssa.Parameter); isParam {
					return // the dispatch itself
				}
			}
			key := fk + "#is(" + typeStr(ta.AssertedType) + ")"
			sites = append(sites, key)
			if why, ok := allowed[fk]; ok {
				l.Discharge(rule, key, p.InstrPos(in), why, true)
			} else {
				l.Violate(rule, key, p.InstrPos(in), "a node-kind test outside eval's dispatch: a sub-expression is treated specially when it is syntactically a "+strings.TrimPrefix(typeStr(ta.AssertedType), "*ast.")+", so wrapping it in redundant parentheses (a Grouping node) — or producing the same value another way — changes behaviour")
			}
		})
	}
	sort.Strings(sites)
	l.Extra["ast_type_tests_outside_dispatch"] = sites
}

// checkGroupingTransparent: on every path, eval of a parenthesised expression performs exactly one child evaluation — of
// its operand, in the same environment — and returns that value and signal; no store, definition, report or output on
// the way (including eval's prologue, which every node passes through: a per-node counter there would make redundant
// parentheses observable).
func checkGroupingTransparent(p *Prog, l *Ledger, rule string) {
	cs := getClauses(p)
	if !cs.account(l) {
		return
	}
	if cs.Clauses["*ast.Grouping"] == nil {
		l.Undecide(rule, "eval/Grouping", "", "no Grouping clause")
		return
	}
	// explored with state writes visible (field and global stores are events)
	m, _ := exploreEvalClause(p, "*ast.Grouping", false, true)
	mon := Monitor{Init: "before|", Step: func(s string, ev *Event) string {
		ps := strings.SplitN(s, "|", 2)
		switch ev.Op {
		case "flagtest", "niltest", "test":
			return s
		case "eval":
			if ps[0] != "before" {
				return "!a second evaluation in the Grouping clause: " + ev.String()
			}
			if ev.KV["child"] != "e.Expression" || ev.KV["env"] != "env" {
				return "!the Grouping clause evaluates " + ev.KV["child"] + " in " + ev.KV["env"] + ", not its operand in the current environment"
			}
			return "after|" + ev.KV["res"]
		case "return":
			if ps[0] == "before" {
				if ev.KV["r0"] == "nil" {
					return "" // the guarded exit (error flag already set)
				}
				return "!the Grouping clause returns " + ev.KV["r0"] + " without evaluating its operand"
			}
			if (ev.KV["r0"] == ps[1]+".val" || ev.KV["r0"] == "nil") && (ev.KV["r1"] == ps[1]+".sig" || ev.KV["r1.Type"] == "0") {
				return ""
			}
			return "!the Grouping clause returns (" + ev.KV["r0"] + ", " + ev.KV["r1"] + ") instead of its operand's value and signal"
		}
		return "!evaluating a parenthesised expression performs " + ev.String() + ": redundant parentheses become observable"
	}}
	runMon(l, rule, "eval/Grouping", m, mon, "flag test, one evaluation of the operand in the same environment, its value and signal returned; nothing else")
}
