package main

// Grammar oracle (grammer.txt) and a small regular-language toolkit: regex AST → NFA → DFA → equivalence.

import (
	"fmt"
	"os"
	"path/filepath"
	"sort"
	"strings"

	"golang.org/x/text/unicode/norm"
)

type rx struct {
	kind string // sym | seq | alt | star | opt | eps
	sym  string
	kids []*rx
}

func rSym(s string) *rx { return &rx{kind: "sym", sym: s} }
func rSeq(k ...*rx) *rx { return &rx{kind: "seq", kids: k} }
func rAlt(k ...*rx) *rx { return &rx{kind: "alt", kids: k} }
func rStar(k *rx) *rx   { return &rx{kind: "star", kids: []*rx{k}} }
func rOpt(k *rx) *rx    { return &rx{kind: "opt", kids: []*rx{k}} }
func rEps() *rx         { return &rx{kind: "eps"} }

func (r *rx) String() string {
	switch r.kind {
	case "sym":
		return r.sym
	case "eps":
		return "ε"
	case "seq":
		var p []string
		for _, k := range r.kids {
			p = append(p, k.String())
		}
		return strings.Join(p, " ")
	case "alt":
		var p []string
		for _, k := range r.kids {
			p = append(p, k.String())
		}
		return "( " + strings.Join(p, " | ") + " )"
	case "star":
		return "( " + r.kids[0].String() + " )*"
	case "opt":
		return "( " + r.kids[0].String() + " )?"
	}
	return "?"
}

// ---- grammar file ------------------------------------------------------------------------------

type Grammar struct {
	Prods map[string]*rx // nonterminal → rhs; terminals are sym "\"text\"" or CAPS names, nonterminals sym "name"
	Order []string
}

func lexGrammar(s string) []string {
	var toks []string
	rs := []rune(s)
	for i := 0; i < len(rs); {
		c := rs[i]
		switch {
		case c == ' ' || c == '\t' || c == '\n' || c == '\r':
			i++
		case c == '"':
			j := i + 1
			for j < len(rs) && rs[j] != '"' {
				j++
			}
			toks = append(toks, string(rs[i:j+1]))
			i = j + 1
		case strings.ContainsRune("()*?|;→", c):
			toks = append(toks, string(c))
			i++
		default:
			j := i
			for j < len(rs) && !strings.ContainsRune(" \t\n\r()*?|;→\"", rs[j]) {
				j++
			}
			toks = append(toks, string(rs[i:j]))
			i = j
		}
	}
	return toks
}

type gparser struct {
	toks []string
	pos  int
}

func (g *gparser) peek() string {
	if g.pos < len(g.toks) {
		return g.toks[g.pos]
	}
	return ""
}

func (g *gparser) alt() *rx {
	alts := []*rx{g.seq()}
	for g.peek() == "|" {
		g.pos++
		alts = append(alts, g.seq())
	}
	if len(alts) == 1 {
		return alts[0]
	}
	return rAlt(alts...)
}

func (g *gparser) seq() *rx {
	var items []*rx
	for {
		t := g.peek()
		if t == "" || t == "|" || t == ")" || t == ";" {
			break
		}
		var it *rx
		if t == "(" {
			g.pos++
			it = g.alt()
			if g.peek() == ")" {
				g.pos++
			}
		} else {
			g.pos++
			it = rSym(t)
		}
		for g.peek() == "*" || g.peek() == "?" {
			if g.peek() == "*" {
				it = rStar(it)
			} else {
				it = rOpt(it)
			}
			g.pos++
		}
		items = append(items, it)
	}
	if len(items) == 0 {
		return rEps()
	}
	if len(items) == 1 {
		return items[0]
	}
	return rSeq(items...)
}

// LoadGrammar reads the section of grammer.txt whose header line contains marker.
func LoadGrammar(repo, marker string) (*Grammar, error) {
	b, err := os.ReadFile(filepath.Join(repo, "grammer.txt"))
	if err != nil {
		return nil, err
	}
	text := string(b)
	idx := -1
	lines := strings.Split(text, "\n")
	for i, ln := range lines {
		if strings.HasPrefix(strings.TrimSpace(ln), "-----") && strings.Contains(ln, marker) {
			idx = i
		}
	}
	if idx < 0 {
		return nil, fmt.Errorf("section %q not found in grammer.txt", marker)
	}
	var sect []string
	for _, ln := range lines[idx+1:] {
		if strings.HasPrefix(strings.TrimSpace(ln), "-----") {
			break
		}
		sect = append(sect, ln)
	}
	toks := lexGrammar(strings.Join(sect, "\n"))
	g := &Grammar{Prods: map[string]*rx{}}
	for i := 0; i < len(toks); {
		// name → rhs ;
		if i+1 >= len(toks) || toks[i+1] != "→" {
			return nil, fmt.Errorf("grammar syntax near %q", toks[i])
		}
		name := toks[i]
		gp := &gparser{toks: toks, pos: i + 2}
		rhs := gp.alt()
		if gp.peek() != ";" {
			return nil, fmt.Errorf("production %s not terminated by ';' (at %q)", name, gp.peek())
		}
		g.Prods[name] = rhs
		g.Order = append(g.Order, name)
		i = gp.pos + 1
	}
	return g, nil
}

// ---- automata ----------------------------------------------------------------------------------

type NFA struct {
	n     int
	eps   map[int][]int
	trans map[int]map[string][]int
	start int
	acc   map[int]bool
}

func newNFA() *NFA {
	return &NFA{eps: map[int][]int{}, trans: map[int]map[string][]int{}, acc: map[int]bool{}}
}

func (a *NFA) state() int      { a.n++; return a.n - 1 }
func (a *NFA) addEps(f, t int) { a.eps[f] = append(a.eps[f], t) }
func (a *NFA) add(f int, s string, t int) {
	if a.trans[f] == nil {
		a.trans[f] = map[string][]int{}
	}
	a.trans[f][s] = append(a.trans[f][s], t)
}

// build adds the automaton of r between fresh states and returns (start, end).
func (a *NFA) build(r *rx, expand func(sym string) *rx, depth int) (int, int, error) {
	if depth > 60 {
		return 0, 0, fmt.Errorf("grammar expansion too deep (recursive nonterminal outside the anchors?)")
	}
	s, e := a.state(), a.state()
	switch r.kind {
	case "eps":
		a.addEps(s, e)
	case "sym":
		if sub := expand(r.sym); sub != nil {
			ss, se, err := a.build(sub, expand, depth+1)
			if err != nil {
				return 0, 0, err
			}
			a.addEps(s, ss)
			a.addEps(se, e)
		} else {
			a.add(s, r.sym, e)
		}
	case "seq":
		cur := s
		for _, k := range r.kids {
			ks, ke, err := a.build(k, expand, depth)
			if err != nil {
				return 0, 0, err
			}
			a.addEps(cur, ks)
			cur = ke
		}
		a.addEps(cur, e)
	case "alt":
		for _, k := range r.kids {
			ks, ke, err := a.build(k, expand, depth)
			if err != nil {
				return 0, 0, err
			}
			a.addEps(s, ks)
			a.addEps(ke, e)
		}
	case "star":
		ks, ke, err := a.build(r.kids[0], expand, depth)
		if err != nil {
			return 0, 0, err
		}
		a.addEps(s, e)
		a.addEps(s, ks)
		a.addEps(ke, ks)
		a.addEps(ke, e)
	case "opt":
		ks, ke, err := a.build(r.kids[0], expand, depth)
		if err != nil {
			return 0, 0, err
		}
		a.addEps(s, e)
		a.addEps(s, ks)
		a.addEps(ke, e)
	}
	return s, e, nil
}

func (a *NFA) closure(set map[int]bool) map[int]bool {
	stack := make([]int, 0, len(set))
	for s := range set {
		stack = append(stack, s)
	}
	for len(stack) > 0 {
		s := stack[len(stack)-1]
		stack = stack[:len(stack)-1]
		for _, t := range a.eps[s] {
			if !set[t] {
				set[t] = true
				stack = append(stack, t)
			}
		}
	}
	return set
}

type DFA struct {
	trans []map[string]int
	acc   []bool
}

func setKey(s map[int]bool) string {
	ids := make([]int, 0, len(s))
	for x := range s {
		ids = append(ids, x)
	}
	sort.Ints(ids)
	return fmt.Sprint(ids)
}

func (a *NFA) determinize() *DFA {
	d := &DFA{}
	index := map[string]int{}
	var sets []map[int]bool
	add := func(s map[int]bool) int {
		k := setKey(s)
		if i, ok := index[k]; ok {
			return i
		}
		index[k] = len(sets)
		sets = append(sets, s)
		d.trans = append(d.trans, map[string]int{})
		acc := false
		for x := range s {
			if a.acc[x] {
				acc = true
			}
		}
		d.acc = append(d.acc, acc)
		return len(sets) - 1
	}
	add(a.closure(map[int]bool{a.start: true}))
	for i := 0; i < len(sets); i++ {
		syms := map[string]map[int]bool{}
		for s := range sets[i] {
			for sym, ts := range a.trans[s] {
				if syms[sym] == nil {
					syms[sym] = map[int]bool{}
				}
				for _, t := range ts {
					syms[sym][t] = true
				}
			}
		}
		for sym, ts := range syms {
			d.trans[i][sym] = add(a.closure(ts))
		}
	}
	return d
}

// live marks DFA states from which an accepting state is reachable.
func (d *DFA) live() []bool {
	live := make([]bool, len(d.acc))
	for changed := true; changed; {
		changed = false
		for i := range d.acc {
			if live[i] {
				continue
			}
			if d.acc[i] {
				live[i] = true
				changed = true
				continue
			}
			for _, t := range d.trans[i] {
				if live[t] {
					live[i] = true
					changed = true
					break
				}
			}
		}
	}
	return live
}

// diff returns a shortest word accepted by exactly one of the two automata ("" + ok=false when equivalent).
func dfaDiff(a, b *DFA) (word []string, inA bool, differ bool) {
	la, lb := a.live(), b.live()
	type pair struct{ x, y int } // -1 = dead
	type item struct {
		p      pair
		parent int
		sym    string
	}
	start := pair{0, 0}
	seen := map[pair]bool{start: true}
	q := []item{{p: start, parent: -1}}
	accOf := func(d *DFA, s int) bool { return s >= 0 && d.acc[s] }
	for qi := 0; qi < len(q); qi++ {
		it := q[qi]
		if accOf(a, it.p.x) != accOf(b, it.p.y) {
			var w []string
			for k := qi; k > 0; k = q[k].parent {
				w = append(w, q[k].sym)
			}
			for i, j := 0, len(w)-1; i < j; i, j = i+1, j-1 {
				w[i], w[j] = w[j], w[i]
			}
			return w, accOf(a, it.p.x), true
		}
		syms := map[string]bool{}
		if it.p.x >= 0 {
			for s := range a.trans[it.p.x] {
				syms[s] = true
			}
		}
		if it.p.y >= 0 {
			for s := range b.trans[it.p.y] {
				syms[s] = true
			}
		}
		var ss []string
		for s := range syms {
			ss = append(ss, s)
		}
		sort.Strings(ss)
		for _, s := range ss {
			nx, ny := -1, -1
			if it.p.x >= 0 {
				if t, ok := a.trans[it.p.x][s]; ok && la[t] {
					nx = t
				}
			}
			if it.p.y >= 0 {
				if t, ok := b.trans[it.p.y][s]; ok && lb[t] {
					ny = t
				}
			}
			if nx < 0 && ny < 0 {
				continue
			}
			np := pair{nx, ny}
			if !seen[np] {
				seen[np] = true
				q = append(q, item{p: np, parent: qi, sym: s})
			}
		}
	}
	return nil, false, false
}

// firstSet: symbols that can start a word of the automaton.
func (d *DFA) firstSet() map[string]bool {
	out := map[string]bool{}
	live := d.live()
	for s, t := range d.trans[0] {
		if live[t] {
			out[s] = true
		}
	}
	return out
}

func (d *DFA) acceptsEmpty() bool { return d.acc[0] }

func nfc(s string) string { return norm.NFC.String(s) }
