package main

import (
	"fmt"
	"go/token"
	"regexp"
	"sort"
	"strconv"
	"strings"

	"golang.org/x/tools/go/ssa"
)

func init() {
	register("C19", &Checker{
		Run: checkC19,
		Explain: "Decided: S1 the exit-status decision list, by enumerating every abstract path of main.main, runFile and run (package main explored with module calls as events and both values of each error flag): more than one argument → message, Exit(64), nothing run; one argument not ending in .bn → message, Exit(64); read failure → message on stderr, Exit(non-zero), nothing run; after run: HadError → Exit(65), else HadRuntimeError → Exit(70), else normal return; run interprets only on the false edge of a HadError test placed after both ScanTokens and Parse. " +
			"S2 flag ownership: HadError is written only by utils.report whose callers lie in lexer/parser, HadRuntimeError only by utils.RuntimeError whose callers lie in interpreter/environment, neither is cleared outside the REPL loop. " +
			"S3 streams, who-writes-where: every use of os.Stdout/os.Stderr and every fmt.Print*/Fprint*, print/println and log call in the module is classified — stderr ← report, RuntimeError, runFile's read failure; stdout ← the print clause and the REPL echo of eval, main's usage messages, the REPL prompt, the input built-in's prompt; nothing else writes anywhere. " +
			"S4 the input built-in reads exactly one line (one ReadString('\\n')) per call and returns strings.TrimSpace of it, and every buffered reader/scanner on os.Stdin is created at most once per process (a per-call reader would swallow read-ahead lines). " +
			"Not decided: what the OS does with unreadable files; a last input line without trailing newline.",
		Rule:    "obligation = (rule, function#path-or-site); non-trivial: path-word checks, stream classification sites, flag writers",
		Trusted: []string{"abstract machine (main mode)", "os.Exit does not return", "VTA call graph"},
	})
}

func exploreMain(p *Prog, l *Ledger, key string) (*InterpModel, [][]*Event, bool) {
	fn := p.Func(key)
	if fn == nil {
		l.Undecide("C19/anchors", key, "", "function not found")
		return nil, nil, false
	}
	m := NewInterpModel(p, key)
	m.MainMode = true
	var params []AV
	for _, prm := range fn.Params {
		params = append(params, Sym(prm.Name()))
	}
	mc := m.Explore(fn, params, nil)
	l.States += mc.States
	l.Paths += mc.Paths
	l.Funcs[key] = true
	ws, ok := m.G.Words(5000)
	if len(m.Undecided) > 0 {
		l.Undecide("infrastructure/explorer", key, "", strings.Join(m.Undecided, "; "))
		return m, nil, false
	}
	return m, ws, ok
}

var reLenArgs = regexp.MustCompile(`^\((-?\d+|len\(global:os\.Args\)) (<|==) (-?\d+|len\(global:os\.Args\))\)$`)

// argcSet: which argument-vector lengths 0..6 are consistent with the tests on a word
func argcSet(w []*Event) map[int]bool {
	out := map[int]bool{}
	for n := 0; n <= 6; n++ {
		ok := true
		for _, e := range w {
			if e.Op != "test" {
				continue
			}
			mm := reLenArgs.FindStringSubmatch(e.Args[0])
			if mm == nil {
				continue
			}
			val := func(s string) int {
				if strings.HasPrefix(s, "len(") {
					return n
				}
				v, _ := strconv.Atoi(s)
				return v
			}
			a, b := val(mm[1]), val(mm[3])
			var truth bool
			if mm[2] == "<" {
				truth = a < b
			} else {
				truth = a == b
			}
			if truth != (e.Out == "true") {
				ok = false
			}
		}
		if ok {
			out[n] = true
		}
	}
	return out
}

func lastOf(w []*Event) *Event {
	if len(w) == 0 {
		return nil
	}
	return w[len(w)-1]
}

func hasOp(w []*Event, op string, pred func(*Event) bool) bool {
	for _, e := range w {
		if e.Op == op && (pred == nil || pred(e)) {
			return true
		}
	}
	return false
}

func checkC19(p *Prog, l *Ledger) {
	// ---- S1 main.main
	if _, ws, ok := exploreMain(p, l, "main.main"); ws != nil {
		if !ok {
			l.Undecide("C19/S1-status", "main.main", "", "paths of main not enumerable (loop?)")
		}
		classes := map[string]int{}
		for _, w := range ws {
			set := argcSet(w)
			word := wordString(w)
			calls := func(name string) bool {
				return hasOp(w, "call", func(e *Event) bool { return e.Args[0] == name })
			}
			anyCall := hasOp(w, "call", nil)
			msg := hasOp(w, "print", nil) || hasOp(w, "fprint", nil)
			last := lastOf(w)
			only := func(lo, hi int) bool {
				if len(set) == 0 {
					return false
				}
				for n := range set {
					if n < lo || n > hi {
						return false
					}
				}
				return true
			}
			extTest := ""
			for _, e := range w {
				if e.Op == "test" && strings.Contains(e.Args[0], `".bn"`) && strings.Contains(e.Args[0], "os.Args[1]") {
					extTest = e.Out
				}
			}
			switch {
			case only(3, 6): // program name + 2 or more arguments
				classes["too-many"]++
				if anyCall || !msg || last == nil || last.Op != "exit" || last.Args[0] != "64" {
					l.Violate("C19/S1-status", "main.main#too-many-arguments", firstPos(w), "with more than one argument the path must print a message and Exit(64) without running anything: "+word)
				}
			case only(2, 2):
				switch extTest {
				case "false":
					classes["bad-ext"]++
					if anyCall || !msg || last == nil || last.Op != "exit" || last.Args[0] != "64" {
						l.Violate("C19/S1-status", "main.main#bad-extension", firstPos(w), "a script name not ending in .bn must give a message and Exit(64) without running anything: "+word)
					}
				case "true":
					classes["script"]++
					if msg {
						l.Violate("C19/S1-status", "main.main#script", firstPos(w), "main itself writes a message although the script argument is valid (stdout must carry only what the program prints): "+word)
					} else if !calls("main.runFile") || calls("main.runPrompt") || hasOp(w, "exit", nil) {
						l.Violate("C19/S1-status", "main.main#script", firstPos(w), "one .bn argument must run exactly that file: "+word)
					} else if !hasOp(w, "call", func(e *Event) bool {
						return e.Args[0] == "main.runFile" && len(e.Args) > 1 && e.Args[1] == "global:os.Args[1]"
					}) {
						l.Violate("C19/S1-status", "main.main#script", firstPos(w), "runFile is not given the script argument: "+word)
					}
				default:
					l.Violate("C19/S1-status", "main.main#one-argument", firstPos(w), "one argument but no extension test on this path: "+word)
				}
			case only(0, 1):
				classes["repl"]++
				if !calls("main.runPrompt") || calls("main.runFile") || hasOp(w, "exit", nil) {
					l.Violate("C19/S1-status", "main.main#no-argument", firstPos(w), "without arguments the prompt must start: "+word)
				}
			default:
				l.Undecide("C19/S1-status", "main.main#argument-count", firstPos(w), "argument-count tests on this path not understood: "+word)
			}
		}
		for _, c := range []string{"too-many", "bad-ext", "script", "repl"} {
			if classes[c] == 0 {
				l.Violate("C19/S1-status", "main.main#"+c, "", "no path of main handles the case '"+c+"'")
			} else {
				l.Discharge("C19/S1-status", "main.main#"+c, "", fmt.Sprintf("%d path(s), all as specified", classes[c]), true)
			}
		}
	}
	// ---- S1 runFile
	if _, ws, _ := exploreMain(p, l, "main.runFile"); ws != nil {
		seen := map[string]bool{}
		for _, w := range ws {
			word := wordString(w)
			last := lastOf(w)
			runCall := hasOp(w, "call", func(e *Event) bool { return e.Args[0] == "main.run" })
			readFailed := hasOp(w, "niltest", func(e *Event) bool { return e.Out == "nonnil" })
			// flag tests after run, in order
			var flags []string
			afterRun := false
			for _, e := range w {
				if e.Op == "call" && e.Args[0] == "main.run" {
					afterRun = true
				}
				if e.Op == "flagtest" {
					if !afterRun {
						l.Violate("C19/S1-status", "main.runFile#flag-order", e.Pos, "an error flag is consulted before the script has run")
					}
					flags = append(flags, e.Args[0]+"="+e.Out)
				}
			}
			fl := strings.Join(flags, ",")
			switch {
			case readFailed:
				seen["read-error"] = true
				okMsg := hasOp(w, "fprint", func(e *Event) bool { return strings.Contains(e.KV["dest"], "os.Stderr") })
				if runCall || !okMsg || last.Op != "exit" || last.Args[0] == "0" {
					l.Violate("C19/S1-status", "main.runFile#read-error", firstPos(w), "an unreadable file must give a message on stderr and a non-zero exit without running anything: "+word)
				}
			case !runCall:
				l.Violate("C19/S1-status", "main.runFile#run", firstPos(w), "the file was read but run() is not called: "+word)
			case fl == "HadError=true":
				seen["65"] = true
				if last.Op != "exit" || last.Args[0] != "65" {
					l.Violate("C19/S1-status", "main.runFile#syntax-error", firstPos(w), "lexical/syntax error must exit 65: "+word)
				}
			case fl == "HadError=false,HadRuntimeError=true":
				seen["70"] = true
				if last.Op != "exit" || last.Args[0] != "70" {
					l.Violate("C19/S1-status", "main.runFile#runtime-error", firstPos(w), "runtime error must exit 70: "+word)
				}
			case fl == "HadError=false,HadRuntimeError=false":
				seen["0"] = true
				if last.Op != "return" || hasOp(w, "exit", nil) {
					l.Violate("C19/S1-status", "main.runFile#clean", firstPos(w), "a clean run must return normally (status 0): "+word)
				}
			default:
				l.Violate("C19/S1-status", "main.runFile#flags", firstPos(w), "after run() the flags must be consulted as HadError, then HadRuntimeError; found ["+fl+"]: "+word)
			}
			if runCall && !hasOp(w, "call", func(e *Event) bool {
				return e.Args[0] == "main.run" && len(e.Args) == 3 && runReplFlag(p, e.Args[2]) == "false"
			}) {
				l.Violate("C19/S1-status", "main.runFile#repl-flag", firstPos(w), "a script must run with isRepl=false: "+word)
			}
		}
		for _, c := range []string{"read-error", "65", "70", "0"} {
			if !seen[c] {
				l.Violate("C19/S1-status", "main.runFile#"+c, "", "no path of runFile yields outcome "+c)
			} else {
				l.Discharge("C19/S1-status", "main.runFile#"+c, "", "outcome reached exactly under its flag combination", true)
			}
		}
	}
	// ---- S1/S4 of C08: run interprets only when no syntax error was flagged
	checkRunPipeline(p, l, "C19/S1-pipeline")
	checkWholeText(p, l, "C19/S1-pipeline")
	// ---- lexical errors are classified 65 only if the scanner sees them: unterminated comments and strings are
	// reported exactly when the input ends inside one, and a comment or string ends exactly where the language says
	if run := exploreScanToken(p); run != nil {
		l.States += run.mc.States
		checkExtents(p, l, run.m.G, "C19/S1-lexical-errors")
	} else {
		l.Undecide("C19/S1-lexical-errors", "scanToken", "", "scanner not found")
	}
	// "status 70 iff … hit a runtime error" needs the run to end after the error: eval is a no-op once the flag is set and
	// no loop can keep cycling in that state (rules of C06)
	l.AsOnly(map[string]string{"C06/S2-guarded-eval": "C19/S1-ends-after-error/guarded-eval", "C06/S3-bounded-after-error": "C19/S1-ends-after-error/loops", "C06/S2-effect-after-error": "C19/S1-ends-after-error/effects",
		// status 70 iff a runtime error: an invalid operation that is not detected ends with status 0 (C06's detection rules)
		"C06/S0-fault-detected": "C19/S2-status-70/fault-detected"}, func() { checkC06(p, l) })
	// status 65 iff a syntax error: the parser's reporter writes its diagnostic and raises the flag on its only path (the
	// `error` primitive of C08/S0) — a reporter that stays silent for some position lets a rejected text run
	l.AsOnlyWhere(map[string]string{"C08/S0-cursor-primitives": "C19/S2-status-65/reported"}, func(o *Obligation) bool { return o.Construct == "Parser.error" }, func() { checkParserPrimitives(p, l, "C08/S0-cursor-primitives") })
	// … and every rejection goes through that primitive: an error value made anywhere else in the parser (or a lexical
	// error path that does not report) rejects the text silently — main sees no flag, runs what was parsed so far and
	// ends with status 0 (C08's origin rule)
	l.AsOnly(map[string]string{"C08/S4-flagged": "C19/S2-status-65/every-rejection-reported"}, func() { checkErrorOrigin(p, l, nil) })
	// 65 iff a lexical error: the scanner sees the whole text — its cursor primitives end the input at the end of the text,
	// nowhere else (C09's primitive rule: a NUL sentinel would end a script at the first U+0000)
	l.AsOnly(map[string]string{"C09/S0-cursor-primitives": "C19/S1-lexical-errors/cursor-primitives"}, func() { checkLexPrimitives(p, l, "C09/S0-cursor-primitives") })
	// stdout and stderr carry the program's text and the diagnostics as they are: nothing the program supplies is used
	// as a format string
	checkFormatStrings(p, l, "C19/S3-streams/format-strings")
	// ---- S2
	checkFlagWriters(p, l, "C19/S2-flag-ownership")
	checkFlagCallers(p, l, "C19/S2-flag-ownership")
	// ---- S3
	checkStreams(p, l)
	// ---- S4
	checkInputBuiltin(p, l)
}

// checkWholeText: what runFile hands to run() is the content of the file as one text — the result of one whole-file read,
// converted to a string (and at most to runes) in one piece.  A text assembled from separately decoded pieces is not the
// text the user wrote wherever a character straddles two pieces (a Bangla digit is three bytes long).
func checkWholeText(p *Prog, l *Ledger, rule string) {
	_, ws, _ := exploreMain(p, l, "main.runFile")
	if ws == nil {
		return
	}
	reWhole := regexp.MustCompile(`^(conv:\[\]rune\()?conv:string\((io[^ ()]*)#0\)\)?$`)
	// … or everything read from the opened file: io.ReadAll(os.Open(path))
	reAll := regexp.MustCompile(`^(conv:\[\]rune\()?conv:string\(ReadAll\((io[^ ()]*)#0\)#0\)\)?$`)
	n := 0
	var bad []string
	pos := ""
	for _, w := range ws {
		reads := map[string]string{} // result name → library function
		for _, e := range w {
			if e.Op == "io" {
				reads[e.KV["res"]] = e.KV["fn"]
			}
			if e.Op != "call" || e.Args[0] != "main.run" || len(e.Args) < 2 {
				continue
			}
			n++
			pos = e.Pos
			mm := reWhole.FindStringSubmatch(e.Args[1])
			if ma := reAll.FindStringSubmatch(normName(e.Args[1])); mm == nil && ma != nil {
				for res, fn := range reads {
					if normName(res) == ma[2] && fn == "os.Open" {
						mm = []string{"", "", res}
						reads[res] = "io.ReadAll"
					}
				}
			}
			switch {
			case mm == nil:
				bad = append(bad, "run() is given "+e.Args[1]+", not the file's content converted in one piece")
			case reads[mm[2]] != "os.ReadFile" && reads[mm[2]] != "io.ReadAll" && reads[mm[2]] != "io/ioutil.ReadFile":
				bad = append(bad, "the text comes from "+reads[mm[2]]+", which is not a read of the whole file")
			}
		}
	}
	bad = uniqStrings(sortStrings(bad))
	switch {
	case n == 0:
		l.Violate(rule, "main.runFile#source", "", "runFile never calls run()")
	case len(bad) > 0:
		l.Violate(rule, "main.runFile#source", pos, strings.Join(bad, " || ")+": a character that straddles two separately decoded pieces is not the character the user wrote")
	default:
		l.Discharge(rule, "main.runFile#source", pos, "the script is the whole file, read once and converted in one piece", true)
	}
}

// checkRunPipeline: in run(), Interpret is called only after ScanTokens and Parse and on the false edge of a HadError test.
func checkRunPipeline(p *Prog, l *Ledger, rule string) {
	_, ws, _ := exploreMain(p, l, "main.run")
	if ws == nil {
		return
	}
	n := 0
	bad := false
	for _, w := range ws {
		state := map[string]bool{}
		for _, e := range w {
			switch e.Op {
			case "call":
				switch {
				case strings.HasSuffix(e.Args[0], ".NewScanner"):
					// the text scanned is the text given: rune for rune (a conversion to []rune is the only thing that may
					// happen to it — rewriting line ends, trimming or normalising changes which line a token is on or which
					// characters the program contains)
					src := "source"
					if rf := p.Func("main.run"); rf != nil && len(rf.Params) > 0 {
						src = rf.Params[0].Name()
					}
					if len(e.Args) < 2 || (e.Args[1] != src && e.Args[1] != "conv:[]rune("+src+")") {
						bad = true
						l.Violate(rule, "main.run#source", e.Pos, "the scanner is not given the program text as it is but "+strings.Join(e.Args[1:], ",")+": positions, line numbers or characters of the text the user wrote are altered before it is scanned")
					} else {
						l.Discharge(rule, "main.run#source", e.Pos, "the scanner gets the text unchanged", true)
					}
				case strings.HasSuffix(e.Args[0], ".ScanTokens"):
					state["scan"] = true
				case strings.HasSuffix(e.Args[0], ").Parse"):
					state["parse"] = true
					if !state["scan"] {
						bad = true
						l.Violate(rule, "main.run#order", e.Pos, "Parse is called before ScanTokens")
					}
				case strings.HasSuffix(e.Args[0], ".NewInterpreter"):
					if !state["clean"] {
						// allowed: performs no I/O (checked in streams), but keep order strict for Interpret
					}
				case strings.HasSuffix(e.Args[0], ").Interpret"):
					n++
					if !state["scan"] || !state["parse"] || !state["clean"] {
						bad = true
						l.Violate(rule, "main.run#interpret-guard", e.Pos, "Interpret is reachable without HadError having been found false after both ScanTokens and Parse: "+wordString(w))
					}
				}
			case "flagtest":
				if e.Args[0] == "HadError" && e.Out == "false" && state["scan"] && state["parse"] {
					state["clean"] = true
				}
			case "test":
				// the flag read in a helper after both phases (`return stmts, !utils.HadError`) and tested by the caller
				if e.Args[0] == "flag:HadError" && e.Out == "false" && state["scan"] && state["parse"] {
					state["clean"] = true
				}
			}
		}
	}
	if n == 0 {
		l.Violate(rule, "main.run#interpret", "", "run() never calls Interpret")
	} else if !bad {
		l.Discharge(rule, "main.run#interpret-guard", "", "ScanTokens → Parse → HadError test → (only if false) Interpret, on every path", true)
	}
}

// checkFlagCallers: report is reachable only from lexer/parser/utils, RuntimeError only from interpreter/environment/utils.
func checkFlagCallers(p *Prog, l *Ledger, rule string) {
	ii := p.Interp()
	report := p.Func("utils.report")
	if report == nil || ii.RuntimeErr == nil {
		l.Undecide(rule, "utils.report", "", "anchor not found")
		return
	}
	cg := p.CG()
	callersOf := func(target *ssa.Function) map[*ssa.Function]bool {
		out := map[*ssa.Function]bool{}
		var walk func(fn *ssa.Function)
		walk = func(fn *ssa.Function) {
			n := cg.Nodes[fn]
			if n == nil {
				return
			}
			for _, e := range n.In {
				c := e.Caller.Func
				if !p.InModule(c) || out[c] {
					continue
				}
				out[c] = true
				walk(c)
			}
		}
		walk(target)
		return out
	}
	// direct callers decide who *reports*; transitive callers are everyone above them
	directPkgs := func(target *ssa.Function) map[string][]string {
		out := map[string][]string{}
		n := cg.Nodes[target]
		if n == nil {
			return out
		}
		for _, e := range n.In {
			c := e.Caller.Func
			if p.InModule(c) {
				out[fnPkgName(c)] = append(out[fnPkgName(c)], p.FuncKey(c))
			}
		}
		return out
	}
	_ = callersOf
	// report ← GlobalError / GlobalErrorToken (utils) ← lexer, parser
	for _, helper := range []string{"utils.GlobalError", "utils.GlobalErrorToken", "utils.report"} {
		fn := p.Func(helper)
		if fn == nil {
			continue
		}
		for pk, fs := range directPkgs(fn) {
			key := helper + "←" + pk
			if pk == "utils" || pk == "lexer" || pk == "parser" {
				l.Discharge(rule, key, "", "syntax diagnostics are raised by "+uniqJoin(fs), true)
			} else {
				l.Violate(rule, key, "", "the syntax-error reporter is called from package "+pk+" ("+uniqJoin(fs)+"): exit status 65 would no longer mean 'lexical or syntax error'")
			}
		}
	}
	for pk, fs := range directPkgs(ii.RuntimeErr) {
		key := "utils.RuntimeError←" + pk
		if pk == "interpreter" || pk == "environment" {
			l.Discharge(rule, key, "", "runtime diagnostics are raised by "+uniqJoin(fs), true)
		} else {
			l.Violate(rule, key, "", "the runtime-error reporter is called from package "+pk+" ("+uniqJoin(fs)+"): exit status 70 would no longer mean 'valid text with a runtime error'")
		}
	}
}

func fnPkgName(fn *ssa.Function) string {
	if fn.Package() != nil {
		return fn.Package().Pkg.Name()
	}
	if fn.Parent() != nil {
		return fnPkgName(fn.Parent())
	}
	if o := fn.Origin(); o != nil && o != fn {
		return fnPkgName(o)
	}
	if fn.Signature.Recv() != nil {
		if n := namedOf(fn.Signature.Recv().Type()); n != nil && n.Obj().Pkg() != nil {
			return n.Obj().Pkg().Name()
		}
	}
	return "?"
}

// checkStreams: who writes where.
func checkStreams(p *Prog, l *Ledger) {
	rule := "C19/S3-streams"
	allowedStdout := map[string]string{
		"interpreter.(*Interpreter).eval": "program output (print clause) and REPL echo",
		"main.main":                       "usage messages",
		"main.runPrompt":                  "REPL prompt",
		"interpreter.NativeInputFn.Call":  "input prompt",
	}
	allowedStderr := map[string]string{
		"utils.report":       "syntax diagnostics",
		"utils.RuntimeError": "runtime diagnostics",
		"main.runFile":       "read failure message",
	}
	n := 0
	for _, fn := range p.ModuleFuncs() {
		fk := p.FuncKey(fn)
		instrsOf(fn, func(in ssa.Instruction) {
			switch x := in.(type) {
			case *ssa.UnOp:
				g, ok := x.X.(*ssa.Global)
				if !ok || g.Pkg.Pkg.Path() != "os" {
					return
				}
				switch g.Name() {
				case "Stderr":
					n++
					if why, ok := allowedStderr[fk]; ok {
						l.Discharge(rule, fk+"#os.Stderr", p.InstrPos(in), why, true)
					} else {
						l.Violate(rule, fk+"#os.Stderr", p.InstrPos(in), "stderr is written outside the three diagnostic writers")
					}
				case "Stdout":
					n++
					if why, ok := allowedStdout[strings.Replace(fk, "(*NativeInputFn)", "NativeInputFn", 1)]; ok {
						l.Discharge(rule, fk+"#os.Stdout", p.InstrPos(in), why, true)
					} else {
						l.Violate(rule, fk+"#os.Stdout", p.InstrPos(in), "stdout is accessed outside the documented writers (buffering or extra output would change what stdout carries)")
					}
				}
			case ssa.CallInstruction:
				if b, ok := x.Common().Value.(*ssa.Builtin); ok && (b.Name() == "print" || b.Name() == "println") {
					l.Violate(rule, fk+"#builtin-"+b.Name(), p.InstrPos(in), "the print/println builtins write to stderr")
					return
				}
				c := x.Common().StaticCallee()
				if c == nil {
					return
				}
				name := extName(c)
				switch {
				case strings.HasPrefix(name, "fmt.Print"):
					n++
					if fnPkgName(fn) == "main" && fk != "main.run" && fk != "main.runFile" {
						l.Discharge(rule, fk+"#"+name, p.InstrPos(in), "usage message / prompt written by package main (the path rules of S1 require: message then Exit(64) on bad usage, nothing printed on the script path)", true)
					} else if why, ok := allowedStdout[strings.Replace(fk, "(*NativeInputFn)", "NativeInputFn", 1)]; ok {
						l.Discharge(rule, fk+"#"+name, p.InstrPos(in), why, true)
					} else {
						l.Violate(rule, fk+"#"+name, p.InstrPos(in), "writes to stdout from "+fk+": stdout must carry only what the program printed, prompts and usage messages")
					}
				case strings.HasPrefix(name, "fmt.Fprint"):
					n++
					dest := describe(x.Common().Args[0])
					if strings.Contains(dest, "os.Stderr") || strings.Contains(dest, "os.Stdout") {
						return // classified at the load of the stream
					}
					if strings.Contains(dest, "Builder") || strings.Contains(dest, "Buffer") {
						return
					}
					l.Violate(rule, fk+"#"+name, p.InstrPos(in), "formatted write to "+dest+": destination not classified")
				case fnPkgPath(c) == "log":
					l.Violate(rule, fk+"#"+name, p.InstrPos(in), "the log package writes to stderr outside the diagnostic protocol")
				}
			}
		})
	}
	if n < 10 {
		l.Violate(rule+"/vacuity", "stream sites", "", fmt.Sprintf("only %d output sites classified", n))
	}
	// within eval, only the print clause and the expression-statement echo print
	cs := getClauses(p)
	for _, t := range cs.Order {
		m := cs.Clauses[t]
		for _, e := range m.G.Events("print") {
			if t == "*ast.PrintStatement" || t == "*ast.ExpressionStatement" {
				l.Discharge(rule, m.Scenario+"#print", e.Pos, "the documented stdout writer", true)
			} else {
				l.Violate(rule, m.Scenario+"#print", e.Pos, "clause "+short(t)+" writes to stdout")
			}
		}
	}
}

// checkInputBuiltin: one line per call, trimmed; readers on stdin are created once per process.
func checkInputBuiltin(p *Prog, l *Ledger) {
	rule := "C19/S4-input"
	fn := p.Func("interpreter.NativeInputFn.Call")
	if fn == nil {
		fn = p.Func("interpreter.(*NativeInputFn).Call") // the same method on a pointer receiver
	}
	if fn == nil {
		l.Undecide(rule, "NativeInputFn.Call", "", "not found")
		return
	}
	m := NewInterpModel(p, "builtin/NativeInputFn")
	m.Explore(fn, []AV{Sym("n"), Sym("i"), Sym("arguments")}, nil)
	ws, ok := m.G.Words(500)
	if !ok {
		l.Undecide(rule, "NativeInputFn.Call", "", "paths not enumerable")
		return
	}
	okAll := true
	nSuccess := 0
	for _, w := range ws {
		last := lastOf(w)
		if last == nil || last.Op != "return" {
			continue
		}
		success := last.KV["r1"] == "nil"
		var reads []*Event
		for _, e := range w {
			if e.Op == "io" && strings.Contains(e.KV["fn"], "Read") {
				reads = append(reads, e)
			}
		}
		if len(reads) > 1 {
			okAll = false
			l.Violate(rule, "NativeInputFn.Call#reads", reads[1].Pos, "more than one read from stdin in one call: "+wordString(w))
		}
		if success {
			nSuccess++
			if len(reads) != 1 || !strings.HasSuffix(reads[0].KV["fn"], "ReadString") || len(reads[0].Args) < 2 || reads[0].Args[1] != "10" {
				okAll = false
				l.Violate(rule, "NativeInputFn.Call#line", firstPos(w), "a successful call must consume exactly one line with ReadString('\\n'): "+wordString(w))
				continue
			}
			res := reads[0]
			_ = res
			if !regexp.MustCompile(`^TrimSpace\(io@\S+#0\)$`).MatchString(last.KV["r0"]) {
				okAll = false
				l.Violate(rule, "NativeInputFn.Call#result", last.Pos, "the result is "+last.KV["r0"]+", not strings.TrimSpace of the line read")
			}
		}
	}
	if nSuccess == 0 {
		okAll = false
		l.Violate(rule, "NativeInputFn.Call#success", "", "no successful path found")
	}
	if okAll {
		l.Discharge(rule, "NativeInputFn.Call", p.Pos(fn.Pos()), "every successful call reads one line with ReadString('\\n') and returns TrimSpace of it", true)
	}
	// readers on stdin: created once per process
	mainFn := p.Func("main.main")
	nReaders := 0
	for _, f := range p.ModuleFuncs() {
		fk := p.FuncKey(f)
		instrsOf(f, func(in ssa.Instruction) {
			call, ok := in.(*ssa.Call)
			if !ok {
				return
			}
			c := call.Call.StaticCallee()
			if c == nil {
				return
			}
			name := extName(c)
			if name != "bufio.NewReader" && name != "bufio.NewScanner" && name != "bufio.NewReaderSize" {
				return
			}
			if !strings.Contains(describe(call.Call.Args[0]), "os.Stdin") {
				return
			}
			nReaders++
			key := fk + "#" + name + "(os.Stdin)"
			switch {
			case strings.Contains(f.Synthetic, "package initializer"):
				l.Discharge(rule, key, p.InstrPos(in), "created once, in a package initialiser", true)
			case onceOnly(p, f, call, mainFn):
				l.Discharge(rule, key, p.InstrPos(in), "created once: outside any loop in a function that main calls once", true)
			default:
				l.Violate(rule, key, p.InstrPos(in), "a buffered reader on stdin is created in code that can run more than once: read-ahead data of the previous reader is lost (a second ইনপুট() on piped input loses its line)")
			}
		})
	}
	if nReaders == 0 {
		l.Violate(rule+"/vacuity", "stdin readers", "", "no buffered reader on os.Stdin found")
	}
	_ = sort.Strings
}

// onceOnly: the call is not inside a loop of f, and f is called only from main.main, itself not in a loop.
func onceOnly(p *Prog, f *ssa.Function, call ssa.Instruction, mainFn *ssa.Function) bool {
	inLoop := func(in ssa.Instruction) bool {
		b := in.Block()
		// b is in a loop if it can reach itself
		seen := map[*ssa.BasicBlock]bool{}
		st := append([]*ssa.BasicBlock{}, b.Succs...)
		for len(st) > 0 {
			x := st[len(st)-1]
			st = st[:len(st)-1]
			if x == b {
				return true
			}
			if seen[x] {
				continue
			}
			seen[x] = true
			st = append(st, x.Succs...)
		}
		return false
	}
	if inLoop(call) {
		return false
	}
	if f == mainFn {
		return true
	}
	sites := p.CallSites(f)
	if len(sites) != 1 {
		return false
	}
	s := sites[0]
	if s.Parent() != mainFn || inLoop(s) {
		return false
	}
	return true
}

// checkFormatStrings: every call of a formatting output function (fmt.Printf, fmt.Fprintf) reachable from main has a
// constant format — a prompt, a value's text or a diagnostic used *as* the format has its % sequences interpreted
// ("100%" becomes "100%!(NOVERB)") and swallows the arguments that follow.
func checkFormatStrings(p *Prog, l *Ledger, rule string) {
	n := 0
	for _, fn := range p.ModuleFuncs() {
		instrsOf(fn, func(in ssa.Instruction) {
			c, ok := in.(ssa.CallInstruction)
			if !ok {
				return
			}
			sc := c.Common().StaticCallee()
			if sc == nil {
				return
			}
			fi := -1
			switch extName(sc) {
			case "fmt.Printf":
				fi = 0
			case "fmt.Fprintf":
				fi = 1
			}
			if fi < 0 || fi >= len(c.Common().Args) {
				return
			}
			n++
			key := fmt.Sprintf("%s#%s", p.FuncKey(fn), extName(sc))
			if constantText(c.Common().Args[fi], 0) {
				l.Discharge(rule, key, p.InstrPos(in), "constant format", false)
			} else {
				l.Violate(rule, key, p.InstrPos(in), "the format of "+extName(sc)+" is "+describe(c.Common().Args[fi])+", not a constant: text supplied by the program (a prompt, a value, a message quoting source text) has its % sequences interpreted and the output is no longer that text")
			}
		})
	}
	if n == 0 {
		l.Discharge(rule, "no-formatting-output", "", "no fmt.Printf/Fprintf in the module", false)
	}
}

// constantText: a string constant, or a concatenation of string constants.
func constantText(v ssa.Value, depth int) bool {
	if depth > 6 {
		return false
	}
	switch x := v.(type) {
	case *ssa.Const:
		return true
	case *ssa.BinOp:
		return x.Op == token.ADD && constantText(x.X, depth+1) && constantText(x.Y, depth+1)
	}
	return false
}

var replFlagCache = map[*Prog]map[string]string{}

// runReplFlag: what main.run hands to Interpret as the "interactive" flag when its own mode parameter has the given
// value (a boolean, or a small enum of which one constant means interactive): "true", "false", or something else.
func runReplFlag(p *Prog, arg string) string {
	if replFlagCache[p] == nil {
		replFlagCache[p] = map[string]string{}
	}
	if v, ok := replFlagCache[p][arg]; ok {
		return v
	}
	out := arg
	fn := p.Func("main.run")
	var av AV
	switch {
	case arg == "true":
		av = BoolV(true)
	case arg == "false":
		av = BoolV(false)
	default:
		if k, err := strconv.ParseInt(arg, 10, 64); err == nil {
			av = IntV(k)
		} else {
			fn = nil
		}
	}
	if fn != nil && len(fn.Params) == 2 {
		m := NewInterpModel(p, "run["+arg+"]")
		m.MainMode = true
		m.Explore(fn, []AV{Sym("source"), av}, nil)
		vals := map[string]bool{}
		for _, e := range m.G.Events("call") {
			if strings.HasSuffix(e.Args[0], ").Interpret") && len(e.Args) >= 2 {
				vals[e.Args[len(e.Args)-1]] = true
			}
		}
		if len(vals) == 1 {
			for v := range vals {
				out = v
			}
		} else if len(vals) > 1 {
			out = "varies"
		}
	}
	replFlagCache[p][arg] = out
	return out
}
