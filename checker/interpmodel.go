package main

// Model of the interpreter package for the abstract machine: recursion into eval, built-in
// invocation, the error flag, environments, output and leaf value functions become events.

import (
	"fmt"
	"go/token"
	"go/types"
	"sort"
	"strings"

	"golang.org/x/tools/go/ssa"
)

type InterpInfo struct {
	p           *Prog
	Eval        *ssa.Function
	Interpret   *ssa.Function
	FuncCall    *ssa.Function // (*Function).Call
	RuntimeErr  *ssa.Function
	IsTruthy    *ssa.Function
	FlagRT      *ssa.Global
	FlagErr     *ssa.Global
	Effectful   map[*ssa.Function]bool // may reach eval / invoke / stdout / stdin
	MayRaise    map[*ssa.Function]bool // may reach utils.RuntimeError
	EvalGuarded bool
	Problems    []string
}

var interpInfoCache = map[*Prog]*InterpInfo{}

func (p *Prog) Interp() *InterpInfo {
	if ii, ok := interpInfoCache[p]; ok {
		return ii
	}
	ii := &InterpInfo{p: p, Effectful: map[*ssa.Function]bool{}, MayRaise: map[*ssa.Function]bool{}}
	interpInfoCache[p] = ii
	ii.Eval = p.findEval()
	ii.Interpret = p.Func("interpreter.(*Interpreter).Interpret")
	ii.FuncCall = p.Func("interpreter.(*Function).Call")
	ii.RuntimeErr = p.Func("utils.RuntimeError")
	ii.IsTruthy = p.Func("interpreter.isTruthy")
	if up := p.Pkg("utils"); up != nil {
		ii.FlagRT, _ = up.Members["HadRuntimeError"].(*ssa.Global)
		ii.FlagErr, _ = up.Members["HadError"].(*ssa.Global)
	}
	for name, v := range map[string]interface{}{"eval": ii.Eval, "Interpret": ii.Interpret, "Function.Call": ii.FuncCall, "RuntimeError": ii.RuntimeErr, "isTruthy": ii.IsTruthy} {
		if fn, _ := v.(*ssa.Function); fn == nil {
			ii.Problems = append(ii.Problems, "anchor not found: "+name)
		}
	}
	if ii.FlagRT == nil || ii.FlagErr == nil {
		ii.Problems = append(ii.Problems, "anchor not found: utils.HadRuntimeError / utils.HadError")
	}
	if len(ii.Problems) > 0 {
		return ii
	}
	// effect / raise summaries over the call graph (least fixpoint)
	cg := p.CG()
	isEffectCall := func(c *ssa.Function) bool {
		if c == ii.Eval {
			return true
		}
		n := extName(c)
		if strings.HasPrefix(n, "fmt.Print") || strings.HasPrefix(n, "fmt.Fprint") {
			return true
		}
		if strings.Contains(n, "bufio.") || strings.HasPrefix(n, "os.") && !strings.HasPrefix(n, "os.Exit") {
			return strings.Contains(n, "Read") || strings.Contains(n, "Scan") || strings.Contains(n, "Write")
		}
		return false
	}
	for changed := true; changed; {
		changed = false
		for _, fn := range p.ModuleFuncs() {
			n := cg.Nodes[fn]
			if n == nil {
				continue
			}
			for _, e := range n.Out {
				c := e.Callee.Func
				if fn == ii.RuntimeErr || fnPkgPath(fn) == modulePath+"/utils" {
					continue // diagnostics on stderr are not program effects
				}
				if !ii.Effectful[fn] && (isEffectCall(c) || ii.Effectful[c] || (e.Site != nil && e.Site.Common().IsInvoke() && e.Site.Common().Method.Name() == "Call")) {
					ii.Effectful[fn] = true
					changed = true
				}
				if !ii.MayRaise[fn] && (c == ii.RuntimeErr || ii.MayRaise[c]) {
					ii.MayRaise[fn] = true
					changed = true
				}
			}
		}
	}
	return ii
}

type InterpModel struct {
	BaseModel
	GraphRec
	ii       *InterpInfo
	p        *Prog
	Scenario string
	// AssumeGuarded: treat eval as returning (nil, None) without effects when entered dirty
	AssumeGuarded bool
	// SignalsFor decides which signal types a child evaluation may return
	SignalsFor func(childType types.Type) []int
	Undecided  []string
	// EmitTests: every symbolic branch decision becomes a test(cond)→T/F event (word-level specs)
	EmitTests bool
	// KeepAsEvent: module functions that stay events even though they could be inlined (nil = default policy)
	KeepAsEvent func(fn *ssa.Function) bool
	// MainMode: used for package main — module calls are events (nothing is inlined) and loads of
	// the two error flags fork over both values
	// Unroll: nested activations of one helper function inlined (Machine.Unroll)
	Unroll int
	// StateCap: a smaller state budget for explorations of small functions (0: the machine's default) — a walk that never
	// converges should end as "undecided" after seconds, not after gigabytes
	StateCap int
	MainMode bool
	// InlinePkg: in MainMode, callees of this package are inlined too (except InlineStop names)
	InlinePkg  string
	InlineStop map[string]bool
}

func NewInterpModel(p *Prog, scenario string) *InterpModel {
	ii := p.Interp()
	m := &InterpModel{ii: ii, p: p, Scenario: scenario}
	m.G = NewGraph(scenario)
	m.AssumeGuarded = ii.EvalGuarded
	m.SignalsFor = func(t types.Type) []int {
		if nt, ok := t.(*types.Named); ok && nt.Obj().Name() == "Stmt" {
			return []int{0, 1, 2, 3}
		}
		return []int{0}
	}
	return m
}

func (m *InterpModel) raised(st *State) bool { return st.Mon["raised"] == "T" }

func argStrings(args []AV) []string {
	out := make([]string, len(args))
	for i, a := range args {
		out[i] = a.String()
	}
	return out
}

func sourceType(v ssa.Value) types.Type {
	for {
		switch x := v.(type) {
		case *ssa.ChangeInterface:
			v = x.X
		case *ssa.MakeInterface:
			v = x.X
		case *ssa.ChangeType:
			v = x.X
		default:
			return v.Type()
		}
	}
}

func (m *InterpModel) ev(call ssa.Instruction, op string, args []string, out string) *Event {
	s, pos := siteOf(m.p, call)
	return &Event{Op: op, Args: args, Out: out, Pos: pos, Site: s, KV: map[string]string{}}
}

// Emit (override): annotate events with facts rules look at.
func (m *InterpModel) Emit(st *State, e *Event) {
	if v, ok := st.Facts["c:isRepl"]; ok {
		e.KV["isRepl"] = v.String()
	}
	m.GraphRec.Emit(st, e)
}

func (m *InterpModel) Call(mc *Machine, st *State, call ssa.CallInstruction, callee *ssa.Function, args []AV) ([]Outcome, bool) {
	ii := m.ii
	in := call.(ssa.Instruction)
	fr := st.Top()
	common := call.Common()
	valName := ""
	if v, ok := call.(ssa.Value); ok {
		valName = "@" + fr.ID + ":" + v.Name()
	}
	// ---- recursion into eval
	if callee == ii.Eval {
		child := args[1]
		ctype := sourceType(common.Args[1])
		sigs := m.SignalsFor(ctype)
		var outs []Outcome
		was := m.raised(st)
		if was && m.AssumeGuarded {
			e := m.ev(in, "eval", []string{child.String(), args[2].String(), args[3].String()}, "guarded-noop")
			e.KV["dirty"] = "T"
			e.KV["sig"] = "0"
			e.KV["child"] = child.String()
			e.KV["env"] = args[2].String()
			e.KV["repl"] = args[3].String()
			e.KV["childtype"] = typeStr(ctype)
			e.KV["res"] = "ev[" + child.String() + "]" + valName
			name := "ev[" + child.String() + "]" + valName
			outs = append(outs, Outcome{Result: AV{K: KTuple, T: []AV{Sym(name + ".val"), Sym(name + ".sig")}}, Apply: func(s *State) {
				s.Facts["v:"+name+".val"] = NilV // the guarded callee returns nil
				s.Heap[name+".sig.Type"] = IntV(0)
				s.Heap[name+".sig.Value"] = NilV
				s.Heap[name+".sig.LineNumber"] = IntV(0)
				m.Emit(s, e)
			}})
			return outs, true
		}
		for _, sg := range sigs {
			for _, nowRaised := range []bool{false, true} {
				if was && !nowRaised {
					continue
				}
				sg, nowRaised := sg, nowRaised
				lbl := fmt.Sprintf("sig=%d", sg)
				if nowRaised && !was {
					lbl += ",raised"
				}
				e := m.ev(in, "eval", []string{child.String(), args[2].String(), args[3].String()}, lbl)
				e.KV["sig"] = fmt.Sprint(sg)
				e.KV["child"] = child.String()
				e.KV["env"] = args[2].String()
				e.KV["repl"] = args[3].String()
				e.KV["childtype"] = typeStr(ctype)
				e.KV["res"] = "ev[" + child.String() + "]" + valName
				if was {
					e.KV["dirty"] = "T"
				}
				if nowRaised && !was {
					e.KV["raises"] = "T"
				}
				name := "ev[" + child.String() + "]" + valName
				outs = append(outs, Outcome{Result: AV{K: KTuple, T: []AV{Sym(name + ".val"), Sym(name + ".sig")}}, Apply: func(s *State) {
					s.Heap[name+".sig.Type"] = IntV(int64(sg))
					if nowRaised {
						s.Mon["raised"] = "T"
					}
					m.Emit(s, e)
				}})
			}
		}
		return outs, true
	}
	// ---- dynamic dispatch — and the same methods of the function values called on a value whose type the code has
	// just tested (`case *Function: fn.Call(i, arguments)`): a call of a callable is one event however it is dispatched
	methodName := ""
	if common.IsInvoke() {
		methodName = common.Method.Name()
	} else if callee != nil && callee.Signature.Recv() != nil && len(st.Frames) >= 1 && callee != st.Frames[0].Fn && (callee.Name() == "Call" || callee.Name() == "Arity") {
		if ci := m.p.callableIface(); ci != nil && types.Implements(callee.Signature.Recv().Type(), ci) {
			methodName = callee.Name()
		}
	}
	if methodName != "" {
		recv := args[0]
		switch methodName {
		case "Call":
			var outs []Outcome
			was := m.raised(st)
			for _, failed := range []bool{false, true} {
				for _, nowRaised := range []bool{false, true} {
					if was && !nowRaised {
						continue
					}
					failed, nowRaised := failed, nowRaised
					lbl := "ok"
					if failed {
						lbl = "err"
					}
					e := m.ev(in, "invoke", argStrings(args), lbl)
					e.KV["res"] = "inv" + valName
					var af []string
					for k, v := range st.Facts {
						if strings.Contains(k, "arity(") {
							af = append(af, k+"="+v.String())
						}
					}
					sort.Strings(af)
					e.KV["arityfacts"] = strings.Join(af, ";")
					if was {
						e.KV["dirty"] = "T"
					}
					name := "inv" + valName
					res := AV{K: KTuple, T: []AV{Sym(name + ".val"), NilV}}
					if failed {
						res = AV{K: KTuple, T: []AV{NilV, Sym(name + ".err")}}
					}
					outs = append(outs, Outcome{Result: res, Apply: func(s *State) {
						if nowRaised {
							s.Mon["raised"] = "T"
						}
						if failed {
							s.Facts["c:("+name+".err == nil)"] = BoolV(false)
						}
						m.Emit(s, e)
					}})
				}
			}
			return outs, true
		case "Arity":
			e := m.ev(in, "arity", argStrings(args), "")
			return []Outcome{{Result: Sym("arity(" + recv.String() + ")"), Apply: func(s *State) { m.Emit(s, e) }}}, true
		case "String", "Error":
			return []Outcome{{Result: Sym(methodName + "(" + recv.String() + ")")}}, true
		}
		m.Undecided = append(m.Undecided, "unmodelled dynamic call "+methodName+" at "+m.p.InstrPos(in))
		return nil, false
	}
	if callee == nil {
		return nil, false
	}
	// ---- error reporting
	if callee == ii.RuntimeErr {
		e := m.ev(in, "rterror", argStrings(args), "")
		// line provenance: the Line field of the token argument
		if args[0].K == KSym {
			line := mc.load(st, args[0].S+".Line", types.Typ[types.Int])
			e.KV["line"] = line.String()
		}
		e.KV["msg"] = args[1].String()
		if m.raised(st) {
			e.KV["dirty"] = "T"
		}
		return []Outcome{{Result: Unk, Apply: func(s *State) { s.Mon["raised"] = "T"; m.Emit(s, e) }}}, true
	}
	pkg := fnPkgPath(callee)
	name := fnName(callee)
	// ---- environment
	if pkg == modulePath+"/environment" {
		if m.p.EnvCtorKind(callee) != "" && name != "NewEnvironment" && name != "NewEnvironmentWithParent" {
			name = "NewEnvironment" // a constructor by what it does (a Child method, say): the parent is its one argument
		}
		switch name {
		case "NewEnvironment", "NewEnvironmentWithParent":
			parent := "nil"
			if len(args) > 0 {
				parent = args[0].String()
			}
			res := Sym("child(" + parent + ")" + valName)
			e := m.ev(in, "newenv", []string{parent}, res.String())
			return []Outcome{{Result: res, Apply: func(s *State) { m.Emit(s, e) }}}, true
		case "Define":
			e := m.ev(in, "define", argStrings(args), "")
			return []Outcome{{Result: Unk, Apply: func(s *State) { m.Emit(s, e) }}}, true
		case "Assign":
			var outs []Outcome
			was := m.raised(st)
			for _, nowRaised := range []bool{false, true} {
				if was && !nowRaised {
					continue
				}
				nowRaised := nowRaised
				lbl := "ok"
				if nowRaised && !was {
					lbl = "undefined"
				}
				e := m.ev(in, "assign", argStrings(args), lbl)
				if len(args) > 1 && args[1].K == KSym {
					e.KV["name"] = mc.load(st, args[1].S+".Lexeme", types.Typ[types.String]).String()
				}
				if was {
					e.KV["dirty"] = "T"
				}
				outs = append(outs, Outcome{Result: Unk, Apply: func(s *State) {
					if nowRaised {
						s.Mon["raised"] = "T"
					}
					m.Emit(s, e)
				}})
			}
			return outs, true
		case "Get", "GetInCurrentScope":
			op := "get"
			if name == "GetInCurrentScope" {
				op = "getlocal"
			}
			var outs []Outcome
			for _, found := range []bool{true, false} {
				found := found
				lbl := "found"
				if !found {
					lbl = "absent"
				}
				e := m.ev(in, op, argStrings(args), lbl)
				nm := op + valName
				res := AV{K: KTuple, T: []AV{Sym(nm + ".val"), NilV}}
				if !found {
					res = AV{K: KTuple, T: []AV{NilV, Sym(nm + ".err")}}
				}
				outs = append(outs, Outcome{Result: res, Apply: func(s *State) {
					if !found {
						s.Facts["c:("+nm+".err == nil)"] = BoolV(false)
					}
					m.Emit(s, e)
				}})
			}
			return outs, true
		}
		return nil, false
	}
	if callee == ii.IsTruthy {
		var outs []Outcome
		if mc.resolve(st, args[0]).K == KNil {
			// isTruthy(nil) is the constant false (re-checked on every run by the truthiness table, C14/S3)
			e := m.ev(in, "truthy", argStrings(args), "false")
			return []Outcome{{Result: BoolV(false), Apply: func(s *State) { m.Emit(s, e) }}}, true
		}
		for _, t := range []bool{true, false} {
			t := t
			e := m.ev(in, "truthy", argStrings(args), fmt.Sprint(t))
			outs = append(outs, Outcome{Result: BoolV(t), Apply: func(s *State) { m.Emit(s, e) }})
		}
		return outs, true
	}
	// ---- external library calls
	if !m.p.InModule(callee) {
		full := extName(callee)
		switch {
		case strings.HasPrefix(full, "fmt.Print"):
			e := m.ev(in, "print", m.variadic(mc, st, args), "")
			e.KV["fn"] = full
			if m.raised(st) {
				e.KV["dirty"] = "T"
			}
			return []Outcome{{Result: Unk, Apply: func(s *State) { m.Emit(s, e) }}}, true
		case strings.HasPrefix(full, "fmt.Fprint") && len(args) > 0 && args[0].String() == "global:os.Stdout":
			// fmt.Fprintln(os.Stdout, …) is fmt.Println(…) under another spelling
			e := m.ev(in, "print", m.variadic(mc, st, args[1:]), "")
			e.KV["fn"] = "fmt.P" + strings.TrimPrefix(full, "fmt.Fp")
			if m.raised(st) {
				e.KV["dirty"] = "T"
			}
			return []Outcome{{Result: Unk, Apply: func(s *State) { m.Emit(s, e) }}}, true
		case strings.HasPrefix(full, "fmt.Fprint"):
			e := m.ev(in, "fprint", m.variadic(mc, st, args), "")
			e.KV["fn"] = full
			e.KV["dest"] = args[0].String()
			if m.raised(st) {
				e.KV["dirty"] = "T"
			}
			return []Outcome{{Result: Unk, Apply: func(s *State) { m.Emit(s, e) }}}, true
		case strings.HasPrefix(full, "fmt.Sprint"), full == "fmt.Errorf", full == "errors.New":
			res := Sym(fnName(callee) + "(" + strings.Join(m.variadic(mc, st, args), ",") + ")")
			if res.K != KSym {
				res = Sym(fnName(callee) + valName)
			}
			isErr := full != "fmt.Sprintf" && !strings.HasPrefix(full, "fmt.Sprint")
			return []Outcome{{Result: res, Apply: func(s *State) {
				if isErr {
					s.Facts["c:("+res.S+" == nil)"] = BoolV(false) // a freshly created error value is never nil
				}
			}}}, true
		case strings.Contains(full, "norm.Form).String"):
			// the normal form is the receiver: NFC = 0, NFD = 1, NFKC = 2, NFKD = 3 (golang.org/x/text/unicode/norm)
			form := "NF?"
			if r := mc.resolve(st, args[0]); r.K == KInt && r.I >= 0 && r.I < 4 {
				form = []string{"NFC", "NFD", "NFKC", "NFKD"}[r.I]
			}
			return []Outcome{{Result: Sym(form + "(" + args[len(args)-1].String() + ")")}}, true
		case strings.Contains(full, "bufio") || (pkg == "os" && name != "Exit"):
			e := m.ev(in, "io", argStrings(args), "")
			e.KV["fn"] = full
			e.KV["res"] = "io" + valName
			if m.raised(st) {
				e.KV["dirty"] = "T"
			}
			var res AV = Sym("io" + valName)
			if v, ok := call.(ssa.Value); ok {
				if tup, ok := v.Type().(*types.Tuple); ok {
					ts := make([]AV, tup.Len())
					for i := range ts {
						ts[i] = Sym(fmt.Sprintf("io%s#%d", valName, i))
					}
					res = AV{K: KTuple, T: ts}
					if tup.Len() > 0 && typeStr(tup.At(tup.Len()-1).Type()) == "error" {
						e.KV["haserr"] = "T"
					}
				}
			}
			return []Outcome{{Result: res, Apply: func(s *State) { m.Emit(s, e) }}}, true
		case full == "os.Exit":
			e := m.ev(in, "exit", argStrings(args), "")
			return []Outcome{{Result: Unk, Stop: true, Apply: func(s *State) { m.Emit(s, e) }}}, true
		}
		if strings.Contains(full, "strings.Builder).Write") || strings.Contains(full, "bytes.Buffer).Write") {
			e := m.ev(in, "bufwrite", append([]string{fnName(callee)}, argStrings(args[1:])...), "")
			return []Outcome{{Result: Unk, Apply: func(s *State) { m.Emit(s, e) }}}, true
		}
		if r, ok := runeMembership(callee, args); ok {
			return []Outcome{{Result: r}}, true
		}
		// other library functions: pure
		res := Sym(fnName(callee) + "(" + strings.Join(argStrings(args), ",") + ")")
		if v, ok := call.(ssa.Value); ok {
			if tup, ok := v.Type().(*types.Tuple); ok {
				ts := make([]AV, tup.Len())
				for i := range ts {
					ts[i] = Sym(fmt.Sprintf("%s#%d", res.S, i))
				}
				return []Outcome{{Result: AV{K: KTuple, T: ts}}}, true
			}
		}
		return []Outcome{{Result: res}}, true
	}
	if m.MainMode && fnPkgName(callee) == "main" && !mainAnchors[fnName(callee)] && len(st.Frames) < mc.MaxDepth-1 && !mc.onStack(st, callee) {
		return nil, false // helper of package main: inline
	}
	if m.MainMode && m.InlinePkg != "" && fnPkgName(callee) == m.InlinePkg && !m.InlineStop[fnName(callee)] && len(st.Frames) < mc.MaxDepth-1 && !mc.onStack(st, callee) {
		return nil, false // small helper next to the explored function (e.g. a lexeme() accessor): inline
	}
	if m.MainMode {
		e := m.ev(in, "call", append([]string{m.p.FuncKey(callee)}, argStrings(args)...), "")
		e.KV["res"] = "r" + valName
		var res AV = Sym("r" + valName)
		if v, ok := call.(ssa.Value); ok {
			if tup, ok := v.Type().(*types.Tuple); ok {
				ts := make([]AV, tup.Len())
				for i := range ts {
					ts[i] = Sym(fmt.Sprintf("r%s#%d", valName, i))
				}
				res = AV{K: KTuple, T: ts}
			}
		}
		return []Outcome{{Result: res, Apply: func(s *State) {
			// a call may change the flags: forget what earlier tests assumed
			for k := range s.Facts {
				if strings.Contains(k, "flag:") {
					delete(s.Facts, k)
				}
			}
			m.Emit(s, e)
		}}}, true
	}
	// ---- module leaf value functions: an event with the raise fork; effectful helpers are inlined
	if m.KeepAsEvent != nil {
		if !m.KeepAsEvent(callee) {
			return nil, false // inline
		}
	} else if _, isCtor := tokenConstructors(m.p)[m.p.FuncKey(callee)]; !coreLeaf[fnName(callee)] && !isCtor && len(st.Frames) < mc.MaxDepth-1 && !mc.onStack(st, callee) {
		return nil, false // a helper that is not one of the interpreter's core value functions: look inside it
	}
	if !ii.Effectful[callee] && callee != ii.Interpret && callee != ii.FuncCall {
		was := m.raised(st)
		var outs []Outcome
		raiseOpts := []bool{false}
		if ii.MayRaise[callee] {
			raiseOpts = []bool{false, true}
		}
		v, _ := call.(ssa.Value)
		var tup *types.Tuple
		if v != nil {
			tup, _ = v.Type().(*types.Tuple)
		}
		errOpts := []bool{false}
		if tup != nil && tup.Len() == 2 && typeStr(tup.At(1).Type()) == "error" {
			errOpts = []bool{false, true}
		}
		for _, nowRaised := range raiseOpts {
			for _, failed := range errOpts {
				if was && !nowRaised && ii.MayRaise[callee] {
					// flag stays set
				}
				nowRaised, failed := nowRaised, failed
				lbl := ""
				if nowRaised && !was {
					lbl = "raises"
				}
				if failed {
					lbl += "err"
				}
				e := m.ev(in, "call", append([]string{m.p.FuncKey(callee)}, argStrings(args)...), lbl)
				if was {
					e.KV["dirty"] = "T"
				}
				nm := fnName(callee) + "(" + strings.Join(argStrings(args), ",") + ")" + valName
				var res AV = Sym(nm)
				if tup != nil {
					ts := make([]AV, tup.Len())
					for i := range ts {
						ts[i] = Sym(fmt.Sprintf("%s#%d", nm, i))
					}
					if len(errOpts) == 2 {
						if failed {
							ts[1] = Sym(nm + ".err")
						} else {
							ts[1] = NilV
						}
					}
					res = AV{K: KTuple, T: ts}
				}
				if res.K == KUnk {
					res = Sym("r" + valName)
				}
				outs = append(outs, Outcome{Result: res, Apply: func(s *State) {
					if nowRaised {
						s.Mon["raised"] = "T"
					}
					if failed {
						s.Facts["c:("+nm+".err == nil)"] = BoolV(false)
					}
					m.Emit(s, e)
				}})
			}
		}
		return outs, true
	}
	return nil, false // inline
}

// variadic flattens a trailing varargs slice into rendered elements.
func (m *InterpModel) variadic(mc *Machine, st *State, args []AV) []string {
	var out []string
	for i, a := range args {
		if i == len(args)-1 {
			if elems, ok := mc.SliceElems(st, a); ok {
				for _, e := range elems {
					out = append(out, e.String())
				}
				continue
			}
		}
		out = append(out, a.String())
	}
	return out
}

func (m *InterpModel) LoadGlobal(mc *Machine, st *State, g *ssa.Global) ([]AV, bool) {
	if m.MainMode && (g == m.ii.FlagRT || g == m.ii.FlagErr) {
		return []AV{Sym("flag:" + g.Name())}, true
	}
	if g == m.ii.FlagRT {
		// the flag test itself is an event (C06 needs to see where the flag is consulted)
		return []AV{BoolV(m.raised(st))}, true
	}
	return nil, false
}

func (m *InterpModel) Instr(mc *Machine, st *State, in ssa.Instruction, ops []AV) {
	switch x := in.(type) {
	case *ssa.Store:
		if g, ok := x.Addr.(*ssa.Global); ok {
			e := m.ev(in, "globalstore", []string{g.Name(), ops[1].String()}, "")
			m.Emit(st, e)
			return
		}
		if fa, ok := x.Addr.(*ssa.FieldAddr); ok && (m.MainMode || m.EmitTests) {
			if ops[0].K == KSym && !strings.HasPrefix(ops[0].S, "obj:") {
				_ = fa
				m.Emit(st, m.ev(in, "fieldstore", []string{ops[0].String(), ops[1].String()}, ""))
				return
			}
		}
		// element store into a Borno array / field store into non-local objects
		if ia, ok := x.Addr.(*ssa.IndexAddr); ok {
			if _, isSlice := ia.X.Type().Underlying().(*types.Slice); isSlice {
				e := m.ev(in, "indexstore", []string{ops[0].String(), ops[1].String()}, "")
				m.Emit(st, e)
			}
		}
	case *ssa.MapUpdate:
		e := m.ev(in, "mapstore", argStrings(ops), "")
		m.Emit(st, e)
	case *ssa.Lookup:
		if _, isMap := x.X.Type().Underlying().(*types.Map); isMap {
			m.Emit(st, m.ev(in, "maplookup", argStrings(ops), ""))
		}
	case *ssa.Index, *ssa.IndexAddr:
		var base ssa.Value
		if ix, ok := in.(*ssa.Index); ok {
			base = ix.X
		} else {
			base = in.(*ssa.IndexAddr).X
		}
		if _, isSlice := base.Type().Underlying().(*types.Slice); isSlice && len(ops) == 2 && ((ops[1].K == KSym && !strings.HasPrefix(ops[1].S, "rangeidx:")) || (ops[1].K == KInt && ops[0].K == KSym)) {
			e := m.ev(in, "index", argStrings(ops), "")
			var fs []string
			for k, v := range st.Facts {
				if !strings.HasPrefix(k, "c:") {
					continue
				}
				if (ops[1].K == KSym && strings.Contains(k, ops[1].S)) || (ops[1].K == KInt && strings.Contains(k, "len("+ops[0].S+")")) {
					fs = append(fs, k[2:]+"="+v.String())
				}
			}
			sort.Strings(fs)
			e.KV["facts"] = strings.Join(fs, ";")
			m.Emit(st, e)
		}
	case *ssa.Slice:
		// x[lo:hi] of a list: bookkeeping for the path-sensitive bounds proof (what the path knows about lo, hi, len(x))
		if _, isSlice := x.X.Type().Underlying().(*types.Slice); isSlice && (x.Low != nil || x.High != nil) && len(ops) >= 1 && ops[0].K == KSym {
			lo, hi := "", ""
			if x.Low != nil {
				lo = mc.resolve(st, mc.eval(st, st.Top(), x.Low)).String()
			}
			if x.High != nil {
				hi = mc.resolve(st, mc.eval(st, st.Top(), x.High)).String()
			}
			e := m.ev(in, "slicebounds", []string{ops[0].S, lo, hi}, "")
			var fs []string
			for k, v := range st.Facts {
				if strings.HasPrefix(k, "c:") {
					fs = append(fs, k[2:]+"="+v.String())
				}
			}
			sort.Strings(fs)
			e.KV["facts"] = strings.Join(fs, ";")
			m.Emit(st, e)
		}
	case *ssa.Next:
		// outcome is decided at the following If; record the iteration source
	case *ssa.Panic:
		e := m.ev(in, "panic", argStrings(ops), "")
		m.Emit(st, e)
	case *ssa.Go:
		e := m.ev(in, "go", nil, "")
		m.Emit(st, e)
	case *ssa.Call:
		if b, ok := x.Call.Value.(*ssa.Builtin); ok {
			switch b.Name() {
			case "delete":
				m.Emit(st, m.ev(in, "delete", argStrings(ops), ""))
			case "append":
				m.Emit(st, m.ev(in, "append", m.variadic(mc, st, ops), ""))
			}
		}
	}
}

func (m *InterpModel) Branch(mc *Machine, st *State, in *ssa.If, cond AV, taken bool) {
	// range loops: the ok flag of a Next
	if ex, ok := in.Cond.(*ssa.Extract); ok && ex.Index == 0 {
		if nx, ok := ex.Tuple.(*ssa.Next); ok {
			it := mc.eval(st, st.Top(), nx.Iter)
			e := m.ev(in, "next", []string{it.String()}, fmt.Sprint(taken))
			m.Emit(st, e)
			return
		}
	}
	// lowered slice ranges: `i < len(xs)` on a counter φ — recognised by block comment
	if strings.HasPrefix(in.Block().Comment, "rangeindex.loop") || rangeLikeCounter(in.Block()) != nil {
		subj := rangeSubject(in)
		if bo, ok := in.Cond.(*ssa.BinOp); ok {
			if la := lenArg(bo.Y); la != nil {
				if av := mc.eval(st, st.Top(), la); av.K == KSym {
					subj = av.S
				}
			} else if av := mc.eval(st, st.Top(), bo.Y); av.K == KSym && strings.HasPrefix(av.S, "len(") {
				subj = strings.TrimSuffix(strings.TrimPrefix(av.S, "len("), ")")
			}
		}
		e := m.ev(in, "next", []string{subj}, fmt.Sprint(taken))
		m.Emit(st, e)
		return
	}
	// nil tests on symbolic values (optional AST children): recognised on the instruction, so the
	// event is emitted on every execution, also when an earlier assumption already decides it
	if bo, ok := in.Cond.(*ssa.BinOp); ok && (bo.Op == token.EQL || bo.Op == token.NEQ) {
		var other ssa.Value
		if isNilConst(bo.Y) {
			other = bo.X
		} else if isNilConst(bo.X) {
			other = bo.Y
		}
		if other != nil {
			if av := mc.eval(st, st.Top(), other); av.K == KSym {
				isNil := taken
				if bo.Op == token.NEQ {
					isNil = !isNil
				}
				out := "nonnil"
				if isNil {
					out = "nil"
				}
				m.Emit(st, m.ev(in, "niltest", []string{av.S}, out))
				return
			}
		}
	}
	// comma-ok map lookups and type tests
	if cond.K == KSym && strings.HasPrefix(cond.S, "has:") {
		t := taken
		if cond.Neg {
			t = !t
		}
		m.Emit(st, m.ev(in, "has", []string{strings.TrimPrefix(cond.S, "has:")}, fmt.Sprint(t)))
		return
	}
	// the outcome of a type test made in a helper and handed back (array, ok := asArray(v)): the same event as the test
	// made in place
	if cond.K == KSym && strings.HasPrefix(cond.S, "ok:") && strings.HasSuffix(cond.S, ")") {
		if i := strings.LastIndex(cond.S, ".("); i > 3 {
			t := taken
			if cond.Neg {
				t = !t
			}
			m.Emit(st, m.ev(in, "typetest", []string{cond.S[3:i], cond.S[i+2 : len(cond.S)-1]}, fmt.Sprint(t)))
			return
		}
	}
	if ex, ok := in.Cond.(*ssa.Extract); ok && ex.Index == 1 {
		if ta, ok := ex.Tuple.(*ssa.TypeAssert); ok {
			subj := mc.eval(st, st.Top(), ta.X)
			m.Emit(st, m.ev(in, "typetest", []string{subj.String(), typeStr(ta.AssertedType)}, fmt.Sprint(taken)))
			return
		}
	}
	// flag tests
	if u, ok := in.Cond.(*ssa.UnOp); ok && m.MainMode {
		if g, ok := u.X.(*ssa.Global); ok && (g == m.ii.FlagRT || g == m.ii.FlagErr) {
			m.Emit(st, m.ev(in, "flagtest", []string{g.Name()}, fmt.Sprint(taken)))
			return
		}
	}
	if cond.K == KSym && (m.MainMode || m.EmitTests) {
		// other symbolic decisions of main (argument count, extension, read error)
		t := taken
		c := cond
		if c.Neg {
			t = !t
			c.Neg = false
		}
		m.Emit(st, m.ev(in, "test", []string{c.S}, fmt.Sprint(t)))
		return
	}
	if cond.K == KUnk && m.EmitTests {
		// a decision on something the machine cannot name (a call it does not model, an over-long expression): the
		// word-level specifications must see that the path forks here, or an unexplained choice would pass as no choice
		m.Emit(st, m.ev(in, "test", []string{"?" + describe(in.Cond)}, fmt.Sprint(taken)))
		return
	}
	if u, ok := in.Cond.(*ssa.UnOp); ok {
		if g, ok := u.X.(*ssa.Global); ok && g == m.ii.FlagRT {
			e := m.ev(in, "flagtest", nil, fmt.Sprint(taken))
			m.Emit(st, e)
		}
	}
}

// rangeSubject names the slice a lowered `for range` iterates over (operand of len in the loop test).
func rangeSubject(in *ssa.If) string {
	if bo, ok := in.Cond.(*ssa.BinOp); ok {
		if la := lenArg(bo.Y); la != nil {
			return describe(la)
		}
	}
	return "?"
}

func (m *InterpModel) BackEdge(mc *Machine, st *State, from, to *ssa.BasicBlock) {
	if len(st.Frames) == 0 {
		return
	}
	kind := "loop"
	if strings.HasPrefix(to.Comment, "rangeindex.loop") || strings.HasPrefix(to.Comment, "rangeiter.loop") || boundedCountingLoop(to) {
		kind = "range"
	}
	e := &Event{Op: "backedge", Args: []string{kind}, Pos: m.p.InstrPos(to.Instrs[0]), Site: fnName(to.Parent()) + ":b" + fmt.Sprint(to.Index), KV: map[string]string{"kind": kind}}
	if m.raised(st) {
		e.KV["dirty"] = "T"
	}
	m.Emit(st, e)
}

func (m *InterpModel) Return(mc *Machine, st *State, ret *ssa.Return, results []AV) {
	e := m.ev(ret, "return", argStrings(results), "")
	for i, r := range results {
		e.KV[fmt.Sprintf("r%d", i)] = r.String()
		if r.K == KSym {
			// objects built on this path: expose their fields
			for k, v := range st.Heap {
				if strings.HasPrefix(k, r.S+".") {
					e.KV[fmt.Sprintf("r%d.%s", i, k[len(r.S)+1:])] = v.String()
				}
			}
			if strings.HasPrefix(r.S, "obj:") {
				for f, zero := range map[string]string{"Type": "0", "LineNumber": "0", "Value": "nil"} {
					if _, ok := e.KV[fmt.Sprintf("r%d.%s", i, f)]; !ok && strings.Contains(typeStr(ret.Results[i].Type()), "ControlFlowSignal") {
						e.KV[fmt.Sprintf("r%d.%s", i, f)] = zero
					}
				}
			}
		}
	}
	if m.raised(st) {
		e.KV["raised"] = "T"
	}
	m.Emit(st, e)
}

// Explore runs fn under this model.
func (m *InterpModel) Explore(fn *ssa.Function, params []AV, init func(*State)) *Machine {
	mc := NewMachine(m.p, m)
	m.Attach(mc)
	mc.Inline = func(c *ssa.Function) bool { return true }
	mc.Unroll = m.Unroll
	if m.StateCap > 0 && m.StateCap < mc.MaxStates {
		mc.MaxStates = m.StateCap
	}
	mc.Start(fn, params, func(st *State) {
		m.setNode(st, m.G.Start)
		if init != nil {
			init(st)
		}
	})
	if mc.Aborted != "" {
		m.Undecided = append(m.Undecided, mc.Aborted)
	}
	return mc
}

// evalClauses lists the node types eval dispatches on (type-switch arms), in source order.
func (ii *InterpInfo) evalClauses() []string {
	var out []string
	if ii.Eval == nil {
		return nil
	}
	seen := map[string]bool{}
	instrsOf(ii.Eval, func(in ssa.Instruction) {
		if ta, ok := in.(*ssa.TypeAssert); ok && ta.CommaOk {
			if _, isParam := ta.X.(*ssa.Parameter); isParam {
				t := typeStr(ta.AssertedType)
				if !seen[t] {
					seen[t] = true
					out = append(out, t)
				}
			}
		}
	})
	return out
}

// ExploreEvalClause explores eval for one node type.
func ExploreEvalClause(p *Prog, nodeType string, entryRaised bool) (*InterpModel, *Machine) {
	return exploreEvalClause(p, nodeType, entryRaised, false)
}

// exploreEvalClause with stores=true also reports writes to struct fields as events (state kept by the interpreter).
func exploreEvalClause(p *Prog, nodeType string, entryRaised, stores bool) (*InterpModel, *Machine) {
	ii := p.Interp()
	m := NewInterpModel(p, "eval/"+strings.TrimPrefix(nodeType, "*ast."))
	m.EmitTests = stores
	// a clause of eval is a few hundred abstract states at most; one that runs into the tens of thousands (a helper that
	// counts a concrete index down, say) is given up at a fixed count — the same verdict on every run and machine,
	// rather than whenever the heap happens to reach the memory budget
	m.StateCap = 20000
	params := []AV{Sym("i"), Sym("e"), Sym("env"), Sym("isRepl")}
	mc := m.Explore(ii.Eval, params, func(st *State) {
		st.Facts["type:e"] = StrV(nodeType)
		// writer/reader agreement: fields the parser never leaves nil are non-nil here
		w := p.Wiring()
		for _, nt := range p.astNodeTypes() {
			if "*ast."+nt.Obj().Name() != nodeType {
				continue
			}
			stt := nt.Underlying().(*types.Struct)
			for i := 0; i < stt.NumFields(); i++ {
				f := stt.Field(i)
				if isIfaceT(f.Type()) && !w.Nullable("ast."+nt.Obj().Name()+"."+f.Name()) {
					st.Facts["c:(e."+f.Name()+" == nil)"] = BoolV(false)
				}
			}
		}
		if entryRaised {
			st.Mon["raised"] = "T"
		}
	})
	return m, mc
}

func sortedKeysOf(m map[string]bool) []string {
	var out []string
	for k := range m {
		out = append(out, k)
	}
	sort.Strings(out)
	return out
}

// coreLeaf: the value-level functions of the interpreter that rules refer to by name; every other module
// function without effects is treated as a refactoring helper and inlined.
var coreLeaf = map[string]bool{"evaluateBinary": true, "evaluateUnary": true, "stringify": true, "isTruthy": true, "toNumber": true, "toInt64": true,
	"stringifyOperand": true, "isEqual": true, "NewFunction": true, "sortedKeys": true, "getLineNumber": true, "handleAddition": true,
	"handleArithmetic": true, "handleComparison": true, "handleBitwise": true, "handleEquality": true, "ConvertBanglaDigitsToASCII": true,
	"GlobalError": true, "GlobalErrorToken": true, "report": true, "NewToken": true}

// mainAnchors: functions of package main that stay events in main mode (anything else there is a helper)
var mainAnchors = map[string]bool{"run": true, "runFile": true, "runPrompt": true, "main": true}

// TypeTest: an assertion of a Borno value (static type interface{}) to a concrete type that no
// producer ever puts into the value universe can never succeed — such arms are dead code.
func (m *InterpModel) TypeTest(mc *Machine, st *State, in *ssa.TypeAssert, operand AV) *bool {
	if !isEmptyInterface(in.X.Type()) || isIfaceT(in.AssertedType) {
		return nil
	}
	u := m.p.BuildUniverse()
	want := typeStr(in.AssertedType)
	for _, t := range u.TypeList() {
		if typeStr(t) == want {
			return nil
		}
	}
	f := false
	return &f
}
