package main

// E3 — abstract path explorer.
//
// A small path-sensitive abstract interpreter over go/ssa.  Values are drawn from a finite
// domain: small integer / boolean / string constants, nil, and *symbolic names* (access paths
// rooted at parameters, allocation sites and call sites, bounded in length).  Unknown branch
// conditions fork the state and record the assumed outcome as a fact, so that a condition over
// the same symbolic operands is decided consistently later on the path (property simulation in
// the style of ESP).  Exploration is a reachability fixpoint over (program point × abstract
// state) pairs — loops converge because the domain is finite (arithmetic results outside a small
// window and over-long names are widened to "unknown").  No solver is involved and Borno is
// never executed: the explorer only looks at the Go code of the interpreter.
//
// Rules plug in a Model: it decides how calls of interest are abstracted (events + forked
// outcomes), observes side-effecting instructions, and runs a monitor whose state lives in
// State.Mon, i.e. the product automaton is explored on the fly.

import (
	"fmt"
	"go/constant"
	"go/token"
	"go/types"
	"regexp"
	"runtime"
	"sort"
	"strconv"
	"strings"

	"golang.org/x/tools/go/ssa"
)

type Kind uint8

const (
	KUnk Kind = iota
	KInt
	KBool
	KNil
	KStr
	KSym
	KTuple
	KFunc
	KConst // other constants (floats)
)

type AV struct {
	K   Kind
	I   int64
	B   bool
	S   string
	Neg bool
	T   []AV
	Fn  *ssa.Function
}

var Unk = AV{K: KUnk}

func Sym(name string) AV {
	if len(name) > 320 {
		return Unk
	}
	return AV{K: KSym, S: name}
}
func IntV(i int64) AV  { return AV{K: KInt, I: i} }
func BoolV(b bool) AV  { return AV{K: KBool, B: b} }
func StrV(s string) AV { return AV{K: KStr, S: s} }

var NilV = AV{K: KNil}

func (a AV) String() string {
	switch a.K {
	case KUnk:
		return "?"
	case KInt:
		return strconv.FormatInt(a.I, 10)
	case KBool:
		if a.B {
			return "true"
		}
		return "false"
	case KNil:
		return "nil"
	case KStr:
		return strconv.Quote(a.S)
	case KSym:
		if a.Neg {
			return "!" + a.S
		}
		return a.S
	case KTuple:
		parts := make([]string, len(a.T))
		for i, t := range a.T {
			parts[i] = t.String()
		}
		return "<" + strings.Join(parts, ",") + ">"
	case KFunc:
		if a.Fn != nil {
			return "func:" + a.Fn.String()
		}
		return "func:?"
	case KConst:
		return "const:" + a.S
	}
	return "?"
}

func (a AV) IsSym() bool  { return a.K == KSym }
func (a AV) Eq(b AV) bool { return a.String() == b.String() }

type Frame struct {
	Fn    *ssa.Function
	Block *ssa.BasicBlock
	PC    int
	Prev  *ssa.BasicBlock
	Vals  map[ssa.Value]AV
	Call  ssa.CallInstruction
	ID    string
}

type TrailNode struct {
	Parent *TrailNode
	Label  string
}

type State struct {
	Frames []*Frame
	Heap   map[string]AV
	Facts  map[string]AV
	Mon    map[string]string
	Trail  *TrailNode
}

func (st *State) Top() *Frame { return st.Frames[len(st.Frames)-1] }

func (st *State) Clone() *State {
	n := &State{Heap: make(map[string]AV, len(st.Heap)), Facts: make(map[string]AV, len(st.Facts)), Mon: make(map[string]string, len(st.Mon)), Trail: st.Trail}
	for k, v := range st.Heap {
		n.Heap[k] = v
	}
	for k, v := range st.Facts {
		n.Facts[k] = v
	}
	for k, v := range st.Mon {
		n.Mon[k] = v
	}
	n.Frames = make([]*Frame, len(st.Frames))
	for i, f := range st.Frames {
		nf := *f
		nf.Vals = make(map[ssa.Value]AV, len(f.Vals))
		for k, v := range f.Vals {
			nf.Vals[k] = v
		}
		n.Frames[i] = &nf
	}
	return n
}

func (st *State) Log(label string) { st.Trail = &TrailNode{Parent: st.Trail, Label: label} }

func (st *State) TrailStrings(max int) []string {
	var out []string
	for t := st.Trail; t != nil; t = t.Parent {
		out = append(out, t.Label)
	}
	for i, j := 0, len(out)-1; i < j; i, j = i+1, j-1 {
		out[i], out[j] = out[j], out[i]
	}
	if max > 0 && len(out) > max {
		out = append([]string{"…"}, out[len(out)-max:]...)
	}
	return out
}

func (st *State) key() string {
	var sb strings.Builder
	for _, f := range st.Frames {
		fmt.Fprintf(&sb, "F%s/%d/%d{", f.ID, f.Block.Index, f.PC)
		names := make([]string, 0, len(f.Vals))
		for v, av := range f.Vals {
			names = append(names, v.Name()+"="+av.String())
		}
		sort.Strings(names)
		sb.WriteString(strings.Join(names, ";"))
		sb.WriteString("}")
	}
	writeMap := func(tag string, n int, each func(func(k, v string))) {
		items := make([]string, 0, n)
		each(func(k, v string) { items = append(items, k+"="+v) })
		sort.Strings(items)
		sb.WriteString(tag)
		sb.WriteString(strings.Join(items, ";"))
	}
	writeMap("|H:", len(st.Heap), func(f func(k, v string)) {
		for k, v := range st.Heap {
			f(k, v.String())
		}
	})
	writeMap("|F:", len(st.Facts), func(f func(k, v string)) {
		for k, v := range st.Facts {
			f(k, v.String())
		}
	})
	writeMap("|M:", len(st.Mon), func(f func(k, v string)) {
		for k, v := range st.Mon {
			if strings.HasPrefix(k, "\x00") {
				continue // bookkeeping (graph node id), not part of the abstract state
			}
			f(k, v)
		}
	})
	return sb.String()
}

type Outcome struct {
	Result AV
	Apply  func(st *State)
	Label  string
	Stop   bool
}

type Model interface {
	Call(m *Machine, st *State, call ssa.CallInstruction, callee *ssa.Function, args []AV) ([]Outcome, bool)
	Instr(m *Machine, st *State, in ssa.Instruction, ops []AV)
	LoadGlobal(m *Machine, st *State, g *ssa.Global) ([]AV, bool)
	Return(m *Machine, st *State, ret *ssa.Return, results []AV)
	BackEdge(m *Machine, st *State, from, to *ssa.BasicBlock)
	Branch(m *Machine, st *State, in *ssa.If, cond AV, taken bool)
	// TypeTest may decide a comma-ok assertion (nil = unknown)
	TypeTest(m *Machine, st *State, in *ssa.TypeAssert, operand AV) *bool
}

type BaseModel struct{}

func (BaseModel) Call(*Machine, *State, ssa.CallInstruction, *ssa.Function, []AV) ([]Outcome, bool) {
	return nil, false
}
func (BaseModel) Instr(*Machine, *State, ssa.Instruction, []AV)               {}
func (BaseModel) LoadGlobal(*Machine, *State, *ssa.Global) ([]AV, bool)       { return nil, false }
func (BaseModel) Return(*Machine, *State, *ssa.Return, []AV)                  {}
func (BaseModel) BackEdge(*Machine, *State, *ssa.BasicBlock, *ssa.BasicBlock) {}
func (BaseModel) Branch(*Machine, *State, *ssa.If, AV, bool)                  {}
func (BaseModel) TypeTest(*Machine, *State, *ssa.TypeAssert, AV) *bool        { return nil }

type condInfo struct {
	X      string // symbolic operand
	C      AV     // constant it is compared with (==)
	TypeOf string // for type-assert ok flags: the asserted operand
	Type   string // asserted type
	Iface  bool   // the asserted type is an interface: success tells what the value can do, not which type it has
}

type Machine struct {
	P     *Prog
	Model Model
	// ForkTables: a lookup in a constant table with a key known only by name is explored once per entry (the scanner's and
	// the parser's dispatch tables); off for models that iterate over data (a transliteration loop would multiply)
	ForkTables bool
	// ForkIfaceAsserts: a comma-ok assertion to one of the module's own method-bearing interfaces, on a value whose
	// dynamic type the path does not know, is explored once per module type that can be in the value and implements
	// the interface (and once for "none of them") — so that the method calls that follow resolve.
	ForkIfaceAsserts bool
	// Unroll: how many nested activations of one function are inlined beyond the first (0: recursion is not followed)
	Unroll    int
	MaxDepth  int
	MaxStates int
	Inline    func(callee *ssa.Function) bool
	visited   map[string]int
	OnVisit   func(st *State, b *ssa.BasicBlock) int // first visit of an abstract state at a block entry: returns a node id
	OnRevisit func(st *State, node int)              // the state was seen before (at node)
	States    int
	Paths     int
	Aborted   string
	conds     map[string]condInfo
	work      []*State
	Silent    []string // descriptions of event-free cycles (filled by models that care)
}

var stdSizes = types.SizesFor("gc", "amd64")

func NewMachine(p *Prog, model Model) *Machine {
	m := &Machine{P: p, Model: model, MaxDepth: 6, MaxStates: 400000, visited: map[string]int{}, conds: map[string]condInfo{},
		Inline: func(fn *ssa.Function) bool { return true }}
	if thoroughMode {
		// thorough tier: same inlining depth (the event alphabets the rules are written against depend on it), five
		// times the state budget so that no exploration is cut short where the quick tier would give up
		m.MaxStates = 2000000
	}
	return m
}

// site gives a stable (line-independent) name of an instruction inside its function.
func site(in ssa.Instruction) string {
	fn := in.Parent()
	name := ""
	if v, ok := in.(ssa.Value); ok {
		name = v.Name()
	} else {
		name = fmt.Sprintf("b%d", in.Block().Index)
	}
	return fnName(fn) + ":" + name
}

// Start explores fn from its entry with the given parameter values and initial facts.
func (m *Machine) Start(fn *ssa.Function, params []AV, init func(st *State)) {
	st := &State{Heap: map[string]AV{}, Facts: map[string]AV{}, Mon: map[string]string{}}
	fr := &Frame{Fn: fn, Block: fn.Blocks[0], Vals: map[ssa.Value]AV{}, ID: fnName(fn)}
	for i, p := range fn.Params {
		if i < len(params) {
			fr.Vals[p] = params[i]
		} else {
			fr.Vals[p] = Sym("$" + p.Name())
		}
	}
	st.Frames = []*Frame{fr}
	if init != nil {
		init(st)
	}
	m.work = append(m.work, st)
	m.run()
}

func (m *Machine) run() {
	for len(m.work) > 0 {
		st := m.work[len(m.work)-1]
		m.work = m.work[:len(m.work)-1]
		m.runPath(st)
		if m.Aborted != "" {
			m.work = nil
			return
		}
	}
}

func (m *Machine) fork(st *State) { m.work = append(m.work, st) }

// enterBlock moves the top frame to block b (resolving phis) and checks the visited set.
func (m *Machine) enterBlock(st *State, b *ssa.BasicBlock) bool {
	fr := st.Top()
	from := fr.Block
	if from != nil && b.Dominates(from) {
		m.Model.BackEdge(m, st, from, b)
	}
	// resolve phis simultaneously
	var phiVals []AV
	var phis []*ssa.Phi
	for _, in := range b.Instrs {
		ph, ok := in.(*ssa.Phi)
		if !ok {
			break
		}
		idx := -1
		for i, pred := range b.Preds {
			if pred == from {
				idx = i
				break
			}
		}
		if idx < 0 {
			phiVals = append(phiVals, Unk)
		} else {
			phiVals = append(phiVals, m.eval(st, fr, ph.Edges[idx]))
		}
		phis = append(phis, ph)
	}
	fr.Prev = from
	fr.Block = b
	fr.PC = len(phis)
	// liveness pruning: only values defined in dominators of b can still be used
	for v := range fr.Vals {
		if in, ok := v.(ssa.Instruction); ok {
			if db := in.Block(); db != nil && db != b && !db.Dominates(b) {
				delete(fr.Vals, v)
			}
		}
	}
	for i, ph := range phis {
		fr.Vals[ph] = phiVals[i]
	}
	if ctr := rangeLikeCounter(b); ctr != nil {
		// the counter of `for k := 0; k < len(xs); k++` is a fresh symbolic index per iteration, like a range loop's
		name := "rangeidx:" + fr.ID + ":" + ctr.Name()
		m.forget(st, name)
		m.forgetRangeElement(st, fr, b)
		fr.Vals[ctr] = Sym(name)
	}
	if ctr, list := revRangeCounter(b); ctr != nil {
		// `for k := len(xs) - 1; k >= 0; k--`: a symbolic index per iteration; on entry from outside the loop the index
		// is known to be >= 0 when the path has put an element into xs
		lv := m.eval(st, fr, list)
		name := "revidx:" + fr.ID + ":" + ctr.Name() + "~" + lv.String()
		m.forget(st, name)
		fr.Vals[ctr] = Sym(name)
		if from != nil && !b.Dominates(from) {
			if lv.K == KSym {
				if lb, ok := m.lowerBound(st, AV{K: KSym, S: "len(" + lv.S + ")"}); ok && lb >= 1 {
					st.Facts["lb:"+name] = IntV(0)
				}
			} else if lv.K == KNil {
				st.Facts["ub:"+name] = IntV(-1)
			}
		}
	}
	k := st.key()
	if prev, seen := m.visited[k]; seen {
		if m.OnRevisit != nil {
			m.OnRevisit(st, prev)
		}
		return false
	}
	node := 0
	if m.OnVisit != nil {
		node = m.OnVisit(st, b)
	}
	m.visited[k] = node
	m.States++
	if m.States > m.MaxStates {
		m.Aborted = fmt.Sprintf("state budget %d exhausted", m.MaxStates)
		return false
	}
	if m.States%5000 == 0 {
		// an exploration that multiplies (a recursive helper over the tree, say) must end as "undecided", not by the
		// process being killed for memory
		var ms runtime.MemStats
		runtime.ReadMemStats(&ms)
		if ms.HeapAlloc > memoryBudget {
			m.Aborted = fmt.Sprintf("memory budget exhausted after %d abstract states", m.States)
			return false
		}
	}
	return true
}

// memoryBudget bounds the heap one exploration may use (bytes).
var memoryBudget uint64 = 5 << 30

func (m *Machine) runPath(st *State) {
	for {
		fr := st.Top()
		if fr.PC >= len(fr.Block.Instrs) {
			m.Paths++
			return
		}
		in := fr.Block.Instrs[fr.PC]
		fr.PC++
		switch x := in.(type) {
		case *ssa.If:
			raw := m.eval(st, fr, x.Cond)
			cond := m.resolve(st, raw)
			succs := fr.Block.Succs
			switch cond.K {
			case KBool:
				tgt := succs[1]
				if cond.B {
					tgt = succs[0]
				}
				if raw.K == KSym {
					m.Model.Branch(m, st, x, raw, cond.B) // decided by an earlier assumption: the model still sees the test
				} else {
					m.Model.Branch(m, st, x, cond, cond.B)
				}
				if !m.enterBlock(st, tgt) {
					m.Paths++
					return
				}
			default:
				// fork
				for _, taken := range []bool{true, false} {
					ns := st.Clone()
					if cond.K == KSym {
						m.assume(ns, cond, taken)
					}
					m.Model.Branch(m, ns, x, cond, taken)
					tgt := succs[1]
					if taken {
						tgt = succs[0]
					}
					if m.enterBlock(ns, tgt) {
						m.fork(ns)
					} else {
						m.Paths++
					}
				}
				return
			}
		case *ssa.Jump:
			if !m.enterBlock(st, fr.Block.Succs[0]) {
				m.Paths++
				return
			}
		case *ssa.Return:
			results := make([]AV, len(x.Results))
			for i, r := range x.Results {
				results[i] = m.eval(st, fr, r)
			}
			if len(st.Frames) == 1 {
				m.Model.Return(m, st, x, results)
				m.Paths++
				return
			}
			// pop frame, bind result in caller
			call := fr.Call
			st.Frames = st.Frames[:len(st.Frames)-1]
			caller := st.Top()
			var res AV
			switch len(results) {
			case 0:
				res = Unk
			case 1:
				res = results[0]
			default:
				res = AV{K: KTuple, T: results}
			}
			if v, ok := call.(ssa.Value); ok {
				caller.Vals[v] = res
			}
		case *ssa.Panic:
			m.Model.Instr(m, st, x, []AV{m.eval(st, fr, x.X)})
			m.Paths++
			return
		case ssa.CallInstruction:
			if !m.doCall(st, fr, x) {
				return
			}
		default:
			m.step(st, fr, in)
		}
	}
}

// assume records the outcome of a symbolic condition.
func (m *Machine) assume(st *State, cond AV, taken bool) {
	val := taken
	if cond.Neg {
		val = !val
	}
	st.Facts["c:"+cond.S] = BoolV(val)
	if ci, ok := m.conds[cond.S]; ok {
		if ci.X != "" && val {
			st.Facts["v:"+ci.X] = ci.C
		}
		if ci.X != "" && !val {
			// remember excluded constants
			k := "ne:" + ci.X
			prev := st.Facts[k]
			st.Facts[k] = StrV(prev.S + "|" + ci.C.String())
		}
		if ci.TypeOf != "" {
			if val {
				if !ci.Iface {
					st.Facts["type:"+ci.TypeOf] = StrV(ci.Type)
				}
			} else {
				k := "nottype:" + ci.TypeOf
				prev := st.Facts[k]
				st.Facts[k] = StrV(prev.S + "|" + ci.Type)
			}
		}
	}
}

// resolve replaces a symbolic value by the constant the facts pin it to.
func (m *Machine) resolve(st *State, a AV) AV {
	if a.K != KSym {
		return a
	}
	if !a.Neg {
		if v, ok := st.Facts["v:"+a.S]; ok {
			return v
		}
	}
	if v, ok := st.Facts["c:"+a.S]; ok && v.K == KBool {
		if a.Neg {
			return BoolV(!v.B)
		}
		return v
	}
	return a
}

// forget drops facts and heap cells that mention a re-defined site-based name.
func (m *Machine) forget(st *State, name string) {
	for k := range st.Facts {
		if strings.Contains(k, name) {
			delete(st.Facts, k)
		}
	}
	for k := range st.Heap {
		if strings.Contains(k, name) {
			delete(st.Heap, k)
		}
	}
}

func (m *Machine) eval(st *State, fr *Frame, v ssa.Value) AV {
	switch x := v.(type) {
	case *ssa.Const:
		return constAV(x)
	case *ssa.Global:
		return Sym("global:" + x.Pkg.Pkg.Name() + "." + x.Name())
	case *ssa.Function:
		return AV{K: KFunc, Fn: x}
	case *ssa.Builtin:
		return Sym("builtin:" + x.Name())
	}
	if av, ok := fr.Vals[v]; ok {
		return av
	}
	if _, ok := v.(*ssa.FreeVar); ok {
		return Sym("free:" + v.Name())
	}
	return Unk
}

func constAV(c *ssa.Const) AV {
	if c.Value == nil {
		// zero value of the type
		return zeroAV(c.Type())
	}
	switch c.Value.Kind() {
	case constant.Bool:
		return BoolV(constant.BoolVal(c.Value))
	case constant.String:
		return StrV(constant.StringVal(c.Value))
	case constant.Int:
		if i, ok := constant.Int64Val(c.Value); ok {
			return IntV(i)
		}
	}
	return AV{K: KConst, S: c.Value.ExactString()}
}

func zeroAV(t types.Type) AV {
	switch u := t.Underlying().(type) {
	case *types.Basic:
		switch {
		case u.Info()&types.IsBoolean != 0:
			return BoolV(false)
		case u.Info()&types.IsInteger != 0:
			return IntV(0)
		case u.Info()&types.IsString != 0:
			return StrV("")
		case u.Info()&types.IsFloat != 0:
			return AV{K: KConst, S: "0"}
		case u.Kind() == types.UntypedNil:
			return NilV
		}
	case *types.Pointer, *types.Interface, *types.Slice, *types.Map, *types.Chan, *types.Signature:
		return NilV
	}
	return Unk
}

func (m *Machine) load(st *State, loc string, t types.Type) AV {
	if v, ok := st.Heap[loc]; ok {
		return v
	}
	if _, isStruct := t.Underlying().(*types.Struct); isStruct {
		return Sym(loc) // a struct value is named by where it lives; its fields are loc.f
	}
	if strings.HasPrefix(loc, "obj:") {
		return zeroAV(t)
	}
	return Sym(loc)
}

func fieldName(t types.Type, idx int) string {
	if p, ok := t.Underlying().(*types.Pointer); ok {
		t = p.Elem()
	}
	if s, ok := t.Underlying().(*types.Struct); ok && idx < s.NumFields() {
		if n, isNamed := t.(*types.Named); isNamed && n.Obj().Pkg() != nil && n.Obj().Pkg().Path() == modulePath+"/environment" && n.Obj().Name() == "Environment" {
			if c := envFieldRole(n, s, idx); c != "" {
				return c
			}
		}
		if roles, ok := scannerFieldRoles[typeStr(t)]; ok {
			if c, ok := roles[idx]; ok {
				return c
			}
		}
		return s.Field(idx).Name()
	}
	return fmt.Sprintf("f%d", idx)
}

// scannerFieldRoles: struct type (lexer.Scanner, or a struct it embeds by value) → field index → the name the rules use
// for that field (source, tokens, start, current, line), found by what the field is and does — see
// computeScannerFieldRoles.  Empty when the fields carry those names already or the roles cannot be told apart.
var scannerFieldRoles = map[string]map[int]string{}

// computeScannerFieldRoles: the scanner's five fields are known by type and use, whatever they are called: the one []rune
// is the source, the one []token.Token the token list; of the three integers, *current* is the one the source is indexed
// with, *line* the one handed to the token constructor as the line (or to GlobalError), *start* the third.
func (p *Prog) computeScannerFieldRoles() {
	scannerFieldRoles = map[string]map[int]string{}
	pk := p.Pkg("lexer")
	if pk == nil {
		return
	}
	sc, _ := pk.Members["Scanner"].(*ssa.Type)
	if sc == nil {
		return
	}
	type place struct {
		t   string
		idx int
	}
	var runes, toks, ints []place
	names := map[place]string{}
	var collect func(t types.Type, depth int)
	collect = func(t types.Type, depth int) {
		st, ok := t.Underlying().(*types.Struct)
		if !ok || depth > 2 {
			return
		}
		for i := 0; i < st.NumFields(); i++ {
			f := st.Field(i)
			pl := place{typeStr(t), i}
			names[pl] = f.Name()
			switch u := f.Type().Underlying().(type) {
			case *types.Slice:
				if b, ok := u.Elem().Underlying().(*types.Basic); ok && b.Kind() == types.Int32 {
					runes = append(runes, pl)
				} else if typeStr(u.Elem()) == "token.Token" {
					toks = append(toks, pl)
				}
			case *types.Basic:
				if u.Kind() == types.Int {
					ints = append(ints, pl)
				}
			}
			if promotedThrough(t, i) {
				collect(f.Type(), depth+1)
			}
		}
	}
	collect(sc.Type(), 0)
	if len(runes) != 1 || len(toks) != 1 || len(ints) != 3 {
		return
	}
	placeOf := func(v ssa.Value) (place, bool) {
		// a load of a field (through constant offsets)
		for hops := 0; hops < 3; hops++ {
			if bo, ok := v.(*ssa.BinOp); ok && (bo.Op == token.ADD || bo.Op == token.SUB) {
				if _, isC := bo.Y.(*ssa.Const); isC {
					v = bo.X
					continue
				}
			}
			break
		}
		u, ok := v.(*ssa.UnOp)
		if !ok || u.Op != token.MUL {
			return place{}, false
		}
		fa, ok := u.X.(*ssa.FieldAddr)
		if !ok {
			return place{}, false
		}
		return place{typeStr(derefT(fa.X.Type())), fa.Field}, true
	}
	isInt := func(pl place) bool {
		for _, q := range ints {
			if q == pl {
				return true
			}
		}
		return false
	}
	cur, line := map[place]bool{}, map[place]bool{}
	for _, fn := range p.funcs {
		if fn.Blocks == nil || fn.Package() == nil || fn.Package().Pkg.Name() != "lexer" {
			continue
		}
		instrsOf(fn, func(in ssa.Instruction) {
			switch x := in.(type) {
			case *ssa.IndexAddr:
				if src, ok := placeOf(x.X); ok && src == runes[0] {
					if pl, ok := placeOf(x.Index); ok && isInt(pl) {
						cur[pl] = true
					}
				}
			case *ssa.Call:
				sc := x.Call.StaticCallee()
				if sc == nil || sc.Package() == nil {
					return
				}
				argAt := -1
				switch {
				case sc.Package().Pkg.Name() == "token" && sc.Signature.Params().Len() == 4:
					argAt = 3
				case sc.Package().Pkg.Name() == "utils" && sc.Name() == "GlobalError":
					argAt = 0
				}
				if argAt >= 0 && argAt < len(x.Call.Args) {
					if pl, ok := placeOf(x.Call.Args[argAt]); ok && isInt(pl) {
						line[pl] = true
					}
				}
			}
		})
	}
	if len(cur) != 1 || len(line) != 1 {
		return
	}
	roles := map[place]string{runes[0]: "source", toks[0]: "tokens"}
	for pl := range cur {
		roles[pl] = "current"
	}
	for pl := range line {
		if roles[pl] != "" {
			return
		}
		roles[pl] = "line"
	}
	for _, pl := range ints {
		if roles[pl] == "" {
			roles[pl] = "start"
		}
	}
	same := true
	for pl, r := range roles {
		if names[pl] != r {
			same = false
		}
	}
	if same {
		return
	}
	for pl, r := range roles {
		if scannerFieldRoles[pl.t] == nil {
			scannerFieldRoles[pl.t] = map[int]string{}
		}
		scannerFieldRoles[pl.t][pl.idx] = r
	}
}

// envFieldRole: the two fields of a scope are known by what they are, whatever they are called — the one table from names
// to values is "Values", the one link to another Environment is "Parent" (the names the rules are written in).
func envFieldRole(n *types.Named, s *types.Struct, idx int) string {
	maps, links := 0, 0
	role := ""
	for i := 0; i < s.NumFields(); i++ {
		ft := s.Field(i).Type()
		switch u := ft.Underlying().(type) {
		case *types.Map:
			if b, ok := u.Key().Underlying().(*types.Basic); ok && b.Kind() == types.String {
				maps++
				if i == idx {
					role = "Values"
				}
			}
		case *types.Pointer:
			if types.Identical(u.Elem(), n) {
				links++
				if i == idx {
					role = "Parent"
				}
			}
		}
	}
	if (role == "Values" && maps == 1) || (role == "Parent" && links == 1) {
		return role
	}
	return ""
}

// promotedThrough: is field idx of struct t a struct embedded by value whose fields are thereby fields of t (type S
// struct { position; … })?  Such a field leaves no trace in the names the analysis gives to places: s.position.current
// is s.current, as it is in the source.
func promotedThrough(t types.Type, idx int) bool {
	if p, ok := t.Underlying().(*types.Pointer); ok {
		t = p.Elem()
	}
	s, ok := t.Underlying().(*types.Struct)
	if !ok || idx >= s.NumFields() {
		return false
	}
	f := s.Field(idx)
	if !f.Embedded() {
		return false
	}
	ft, ok := f.Type().(*types.Named)
	if !ok || ft.Obj().Pkg() == nil || !strings.HasPrefix(ft.Obj().Pkg().Path(), modulePath) {
		return false
	}
	_, isStruct := ft.Underlying().(*types.Struct)
	return isStruct
}

// embeddedOwner: a struct type of the module that exists only as the embedded part of one other struct is, for the
// who-writes and invariant tables, that other struct (lexer.position → lexer.Scanner).
var embeddedOwner = map[string]string{}

func computeEmbeddedOwners(pkgs []*types.Package) {
	owners := map[string]map[string]bool{}
	for _, pk := range pkgs {
		sc := pk.Scope()
		for _, name := range sc.Names() {
			tn, ok := sc.Lookup(name).(*types.TypeName)
			if !ok {
				continue
			}
			st, ok := tn.Type().Underlying().(*types.Struct)
			if !ok {
				continue
			}
			for i := 0; i < st.NumFields(); i++ {
				if promotedThrough(tn.Type(), i) {
					inner := typeStr(st.Field(i).Type())
					if owners[inner] == nil {
						owners[inner] = map[string]bool{}
					}
					owners[inner][typeStr(tn.Type())] = true
				}
			}
		}
	}
	for inner, os := range owners {
		if len(os) == 1 {
			for o := range os {
				embeddedOwner[inner] = o
			}
		}
	}
}

const intWindowLo, intWindowHi = -2, 6

func (m *Machine) step(st *State, fr *Frame, in ssa.Instruction) {
	set := func(v ssa.Value, a AV) { fr.Vals[v] = a }
	ev := func(v ssa.Value) AV { return m.eval(st, fr, v) }
	switch x := in.(type) {
	case *ssa.Alloc:
		name := "obj:" + fr.ID + ":" + x.Name()
		m.forget(st, name)
		set(x, Sym(name))
		m.Model.Instr(m, st, x, nil)
	case *ssa.FieldAddr:
		base := ev(x.X)
		if base.K == KSym && promotedThrough(x.X.Type(), x.Field) {
			set(x, base) // the embedded part: its fields are named as fields of the whole
			return
		}
		if base.K == KSym {
			if alias, ok := st.Heap[base.S]; ok && alias.K == KSym {
				if _, isStruct := derefT(x.X.Type()).Underlying().(*types.Struct); isStruct {
					if _, isPtrVal := x.X.Type().Underlying().(*types.Pointer); isPtrVal && !strings.HasPrefix(base.S, "obj:") {
						// pointer held in a location: keep base
					} else if _, has := st.Heap[base.S+"."+fieldName(x.X.Type(), x.Field)]; !has {
						base = alias
					}
				}
			}
			set(x, Sym(base.S+"."+fieldName(x.X.Type(), x.Field)))
		} else {
			set(x, Unk)
		}
	case *ssa.Field:
		base := ev(x.X)
		if base.K == KSym && promotedThrough(x.X.Type(), x.Field) {
			set(x, base)
			return
		}
		switch base.K {
		case KSym:
			loc := base.S + "." + fieldName(x.X.Type(), x.Field)
			set(x, m.load(st, loc, x.Type()))
		default:
			set(x, Unk)
		}
	case *ssa.IndexAddr:
		base, idx := ev(x.X), m.resolve(st, ev(x.Index))
		if base.K == KSym && idx.K == KSym && strings.HasPrefix(idx.S, "rangeidx:") {
			set(x, Sym(base.S+"[range]"))
		} else if base.K == KSym && idx.K == KInt && strings.HasSuffix(base.S, "[:]") {
			// element i of the whole-array slice of a local array is element i of the array
			set(x, Sym(strings.TrimSuffix(base.S, "[:]")+"["+idx.String()+"]"))
		} else if base.K == KSym && idx.K != KUnk {
			set(x, Sym(base.S+"["+idx.String()+"]"))
		} else if base.K == KSym {
			set(x, Sym(base.S+"[?]"))
		} else {
			set(x, Unk)
		}
		m.Model.Instr(m, st, x, []AV{base, idx})
	case *ssa.Index:
		base, idx := ev(x.X), m.resolve(st, ev(x.Index))
		if base.K == KSym && idx.K != KUnk {
			set(x, m.load(st, base.S+"["+idx.String()+"]", x.Type()))
		} else {
			set(x, Unk)
		}
		m.Model.Instr(m, st, x, []AV{base, idx})
	case *ssa.UnOp:
		a := ev(x.X)
		switch x.Op {
		case token.MUL: // load
			if g, ok := x.X.(*ssa.Global); ok {
				if vals, handled := m.Model.LoadGlobal(m, st, g); handled && len(vals) > 0 {
					// fork on additional values
					for _, alt := range vals[1:] {
						ns := st.Clone()
						ns.Top().Vals[x] = alt
						m.fork(ns)
					}
					set(x, vals[0])
					return
				}
			}
			if a.K == KSym {
				set(x, m.load(st, a.S, x.Type()))
			} else {
				set(x, Unk)
			}
		case token.NOT:
			a = m.resolve(st, a)
			switch a.K {
			case KBool:
				set(x, BoolV(!a.B))
			case KSym:
				a.Neg = !a.Neg
				set(x, a)
			default:
				set(x, Unk)
			}
		case token.SUB:
			a = m.resolve(st, a)
			if a.K == KInt {
				set(x, capInt(-a.I))
			} else if a.K == KSym {
				set(x, Sym("(-"+a.String()+")"))
			} else {
				set(x, Unk)
			}
		case token.XOR:
			if a.K == KSym {
				set(x, Sym("(^"+a.String()+")"))
			} else {
				set(x, Unk)
			}
		default:
			set(x, Unk)
		}
	case *ssa.BinOp:
		if x.Op == token.ADD && strings.HasPrefix(x.Block().Comment, "rangeindex.loop") && !m.rangeLengthKnown(st, fr, x) {
			// the hidden counter of a lowered `for range slice`: a fresh symbolic index per iteration
			name := "rangeidx:" + fr.ID + ":" + x.Name()
			m.forget(st, name)
			m.forgetRangeElement(st, fr, x.Block())
			set(x, Sym(name))
			return
		}
		if m.structEquality(st, x, ev(x.X), ev(x.Y)) {
			return
		}
		set(x, m.binop(st, x, m.resolve(st, ev(x.X)), m.resolve(st, ev(x.Y))))
	case *ssa.Store:
		addr, val := ev(x.Addr), ev(x.Val)
		if addr.K == KSym {
			if _, isStruct := x.Val.Type().Underlying().(*types.Struct); isStruct && val.K == KSym {
				// copy semantics: the fields of the stored struct value become the fields of the target
				for k := range st.Heap {
					if strings.HasPrefix(k, addr.S+".") {
						delete(st.Heap, k)
					}
				}
				copied := false
				for k, v := range st.Heap {
					if strings.HasPrefix(k, val.S+".") {
						st.Heap[addr.S+k[len(val.S):]] = v
						copied = true
					}
				}
				if !copied || !strings.HasPrefix(val.S, "obj:") {
					st.Heap[addr.S] = val // symbolic struct: remember the alias
				}
			} else {
				st.Heap[addr.S] = val
			}
		}
		m.Model.Instr(m, st, x, []AV{addr, val})
	case *ssa.MakeInterface:
		a := ev(x.X)
		if a.K == KSym && !isIfaceT(x.X.Type()) {
			// the dynamic type of the interface value is the static type of what was boxed
			if _, known := st.Facts["type:"+a.S]; !known {
				st.Facts["type:"+a.S] = StrV(typeString(x.X.Type(), func(p *types.Package) string { return p.Name() }))
			}
		}
		set(x, a)
	case *ssa.ChangeType:
		set(x, ev(x.X))
	case *ssa.ChangeInterface:
		set(x, ev(x.X))
	case *ssa.Convert:
		a := ev(x.X)
		if a.K == KSym {
			// keep identity through numeric conversions but remember the conversion in the name when it changes kind
			ft, tt := x.X.Type().Underlying(), x.Type().Underlying()
			fb, ok1 := ft.(*types.Basic)
			tb, ok2 := tt.(*types.Basic)
			if ok1 && ok2 && (fb.Info()&types.IsInteger != 0) && (tb.Info()&types.IsInteger != 0) && stdSizes.Sizeof(tb) < stdSizes.Sizeof(fb) {
				// a narrowing conversion keeps the low bits only: byte(r) equals r for some runes and not for others
				set(x, Sym("trunc:"+typeString(x.Type(), nil)+"("+a.String()+")"))
			} else if ok1 && ok2 && (fb.Info()&types.IsNumeric != 0) && (tb.Info()&types.IsNumeric != 0) && (fb.Info()&types.IsFloat) == (tb.Info()&types.IsFloat) {
				set(x, a)
			} else {
				set(x, Sym("conv:"+typeString(x.Type(), nil)+"("+a.String()+")"))
			}
		} else {
			set(x, a)
		}
	case *ssa.Extract:
		t := ev(x.Tuple)
		switch t.K {
		case KTuple:
			if x.Index < len(t.T) {
				set(x, t.T[x.Index])
			} else {
				set(x, Unk)
			}
		case KSym:
			set(x, Sym(t.S+"#"+strconv.Itoa(x.Index)))
		default:
			set(x, Unk)
		}
	case *ssa.TypeAssert:
		a := ev(x.X)
		tname := typeString(x.AssertedType, func(p *types.Package) string { return p.Name() })
		if a.K == KNil {
			if x.CommaOk {
				set(x, AV{K: KTuple, T: []AV{zeroAV(x.AssertedType), BoolV(false)}})
			} else {
				set(x, Unk)
			}
			m.Model.Instr(m, st, x, []AV{a})
			return
		}
		if a.K != KSym {
			if x.CommaOk {
				set(x, AV{K: KTuple, T: []AV{Unk, Unk}})
			} else {
				set(x, Unk)
			}
			m.Model.Instr(m, st, x, []AV{a})
			return
		}
		if x.CommaOk {
			okName := "ok:" + a.S + ".(" + tname + ")"
			var okAV AV
			if dec := m.Model.TypeTest(m, st, x, a); dec != nil {
				okAV = BoolV(*dec)
			} else if ty, known := st.Facts["type:"+a.S]; known {
				okAV = BoolV(ty.S == tname || (isInterfaceType(x.AssertedType) && implementsByName(m, ty.S, x.AssertedType)))
			} else if nt, ok := st.Facts["nottype:"+a.S]; ok && strings.Contains(nt.S+"|", "|"+tname+"|") {
				okAV = BoolV(false)
			} else if cands := m.ifaceAssertCandidates(x); m.ForkIfaceAsserts && len(cands) > 0 && len(cands) <= 16 {
				nt := st.Facts["nottype:"+a.S].S
				excluded := nt
				for _, c := range cands {
					excluded += "|" + c
					if strings.Contains(nt+"|", "|"+c+"|") {
						continue
					}
					ns := st.Clone()
					ns.Facts["type:"+a.S] = StrV(c)
					ns.Top().Vals[x] = AV{K: KTuple, T: []AV{a, BoolV(true)}}
					m.Model.Instr(m, ns, x, []AV{a})
					m.fork(ns)
				}
				st.Facts["nottype:"+a.S] = StrV(excluded)
				okAV = BoolV(false)
			} else {
				okAV = Sym(okName)
				m.conds[okName] = condInfo{TypeOf: a.S, Type: tname, Iface: isInterfaceType(x.AssertedType)}
			}
			set(x, AV{K: KTuple, T: []AV{a, okAV}})
		} else {
			set(x, a)
		}
		m.Model.Instr(m, st, x, []AV{a})
	case *ssa.Lookup:
		base, idx := ev(x.X), m.resolve(st, ev(x.Index))
		// a package-level table that nothing writes after its initialiser: the lookup of a known key is evaluated
		if u, ok := x.X.(*ssa.UnOp); ok && idx.K == KSym && !idx.Neg && m.ForkTables {
			// the key is a value the path knows by name only (the rune just consumed, say): one path per entry of the
			// table, on which the key *is* that entry's key, and one on which it is none of them
			if g, ok := u.X.(*ssa.Global); ok {
				if tab := m.P.ConstMapKeys(g); tab != nil && len(tab) <= 64 {
					consistent := func(k AV) bool {
						if v, ok := st.Facts["v:"+idx.S]; ok {
							return v.String() == k.String()
						}
						if ne, ok := st.Facts["ne:"+idx.S]; ok && strings.Contains(ne.S+"|", "|"+k.String()+"|") {
							return false
						}
						return true
					}
					for _, ent := range tab {
						if !consistent(ent.K) {
							continue
						}
						ns := st.Clone()
						ns.Facts["v:"+idx.S] = ent.K
						res := ent.V
						if x.CommaOk {
							res = AV{K: KTuple, T: []AV{ent.V, BoolV(true)}}
						}
						ns.Top().Vals[x] = res
						m.Model.Instr(m, ns, x, []AV{base, ent.K, idx})
						m.fork(ns)
					}
					// none of the keys
					prev := st.Facts["ne:"+idx.S]
					acc := prev.S
					for _, ent := range tab {
						acc += "|" + ent.K.String()
					}
					st.Facts["ne:"+idx.S] = StrV(acc)
					zv := zeroAV(x.Type())
					if tup, ok := x.Type().(*types.Tuple); ok {
						zv = zeroAV(tup.At(0).Type())
					}
					if x.CommaOk {
						set(x, AV{K: KTuple, T: []AV{zv, BoolV(false)}})
					} else {
						set(x, zv)
					}
					m.Model.Instr(m, st, x, []AV{base, idx})
					return
				}
			}
		}
		if u, ok := x.X.(*ssa.UnOp); ok && (idx.K == KInt || idx.K == KStr) {
			if g, ok := u.X.(*ssa.Global); ok {
				if tab := m.P.ConstMap(g); tab != nil {
					v, found := tab[idx.String()]
					if !found {
						v = zeroAV(x.Type())
						if tup, ok := x.Type().(*types.Tuple); ok {
							v = zeroAV(tup.At(0).Type())
						}
					}
					if x.CommaOk {
						set(x, AV{K: KTuple, T: []AV{v, BoolV(found)}})
					} else {
						set(x, v)
					}
					m.Model.Instr(m, st, x, []AV{base, idx})
					return
				}
			}
		}
		name := "?"
		if base.K == KSym {
			name = base.S + "[" + idx.String() + "]"
		}
		if x.CommaOk {
			if name == "?" {
				set(x, AV{K: KTuple, T: []AV{Unk, Unk}})
			} else {
				set(x, AV{K: KTuple, T: []AV{Sym(name), Sym("has:" + name)}})
			}
		} else if name == "?" {
			set(x, Unk)
		} else {
			set(x, m.load(st, name, x.Type()))
		}
		m.Model.Instr(m, st, x, []AV{base, idx})
	case *ssa.Slice:
		base := ev(x.X)
		if base.K == KSym {
			lo, hi := "", ""
			if x.Low != nil {
				lo = m.resolve(st, ev(x.Low)).String()
			}
			if x.High != nil {
				hi = m.resolve(st, ev(x.High)).String()
			}
			if lo == "" && hi == "" || (lo == "0" && hi == "") {
				set(x, Sym(base.S+"[:]"))
			} else {
				set(x, Sym(base.S+"["+lo+":"+hi+"]"))
			}
		} else {
			set(x, Unk)
		}
		m.Model.Instr(m, st, x, []AV{base})
	case *ssa.MakeMap, *ssa.MakeSlice, *ssa.MakeChan:
		v := in.(ssa.Value)
		name := "obj:" + fr.ID + ":" + v.Name()
		m.forget(st, name)
		set(v, Sym(name))
		m.Model.Instr(m, st, in, nil)
	case *ssa.MakeClosure:
		b := make([]AV, len(x.Bindings))
		for i, bv := range x.Bindings {
			b[i] = ev(bv)
		}
		set(x, AV{K: KFunc, Fn: x.Fn.(*ssa.Function), T: b})
	case *ssa.MapUpdate:
		mp, k, v := ev(x.Map), m.resolve(st, ev(x.Key)), ev(x.Value)
		if mp.K == KSym && k.K != KUnk {
			st.Heap[mp.S+"["+k.String()+"]"] = v
		}
		m.Model.Instr(m, st, x, []AV{mp, k, v})
	case *ssa.Range:
		a := ev(x.X)
		name := "range:" + fr.ID + ":" + x.Name()
		if a.K == KSym {
			name = "range(" + a.S + ")"
		}
		set(x, Sym(name))
		m.Model.Instr(m, st, x, []AV{a})
	case *ssa.Next:
		it := ev(x.Iter)
		nm := "next:" + fr.ID + ":" + x.Name()
		m.forget(st, nm)
		okName := nm + ".ok"
		k, v := Sym(nm+".key"), Sym(nm+".val")
		if it.K == KSym && strings.HasPrefix(it.S, "range(") {
			inner := strings.TrimSuffix(strings.TrimPrefix(it.S, "range("), ")")
			v = Sym(inner + "[range]")
			k = Sym("rangekey(" + inner + ")")
			// the element and key of this iteration are new ones: what the path found out about the previous ones is
			// not known of them
			m.forget(st, v.S)
			m.forget(st, k.S)
		}
		set(x, AV{K: KTuple, T: []AV{Sym(okName), k, v}})
		m.Model.Instr(m, st, x, []AV{it})
	case *ssa.Select, *ssa.Send, *ssa.Go, *ssa.Defer, *ssa.RunDefers:
		m.Model.Instr(m, st, in, nil)
		if v, ok := in.(ssa.Value); ok {
			set(v, Unk)
		}
	case *ssa.DebugRef:
	case *ssa.Phi:
		// handled in enterBlock
	case *ssa.SliceToArrayPointer, *ssa.MultiConvert:
		set(in.(ssa.Value), Unk)
		m.Model.Instr(m, st, in, nil)
	default:
		if v, ok := in.(ssa.Value); ok {
			set(v, Unk)
		}
	}
}

func isInterfaceType(t types.Type) bool {
	_, ok := t.Underlying().(*types.Interface)
	return ok
}

// isStdSliceSearch: the library's linear searches over a slice with a test handed in (slices.ContainsFunc / IndexFunc):
// their instantiated bodies are a loop over the slice that calls the test — looked into like a helper of the module,
// since the test is the module's own code and what it does per element is what the rules speak about.
func isStdSliceSearch(callee *ssa.Function) bool {
	if callee == nil || callee.Blocks == nil || fnPkgPath(callee) != "slices" {
		return false
	}
	name := callee.Name()
	if i := strings.Index(name, "["); i >= 0 {
		name = name[:i]
	}
	return name == "ContainsFunc" || name == "IndexFunc"
}

// forgetRangeElement: the loop headed (or tested) in block b ranges over a slice X with a fresh symbolic index per
// iteration; the element X[range] of the new iteration is a new value — facts found about the previous one are dropped.
func (m *Machine) forgetRangeElement(st *State, fr *Frame, b *ssa.BasicBlock) {
	if len(b.Instrs) == 0 {
		return
	}
	iff, ok := b.Instrs[len(b.Instrs)-1].(*ssa.If)
	if !ok {
		return
	}
	bo, ok := iff.Cond.(*ssa.BinOp)
	if !ok {
		return
	}
	la := lenArg(bo.Y)
	if la == nil {
		return
	}
	if x := m.eval(st, fr, la); x.K == KSym && x.S != "" {
		m.forget(st, x.S+"[range]")
	}
}

// baseFnName: the function's name without the type arguments of an instantiation.
func baseFnName(fn *ssa.Function) string {
	n := fnName(fn)
	if i := strings.Index(n, "["); i > 0 {
		n = n[:i]
	}
	return n
}

// siteOrdinal tells the activations of one helper apart that are entered from different call sites of the same
// function: "" for the first site in source order, "#2", "#3" … for the others — the values made inside the helper get
// names of their own per site (two optional clauses parsed by the same helper are two values).
func siteOrdinal(call ssa.CallInstruction, callee *ssa.Function) string {
	caller := call.Parent()
	var sites []ssa.CallInstruction
	for _, b := range caller.Blocks {
		for _, in := range b.Instrs {
			if c, ok := in.(ssa.CallInstruction); ok && c.Common().StaticCallee() == callee {
				sites = append(sites, c)
			}
		}
	}
	if len(sites) < 2 {
		return ""
	}
	sort.Slice(sites, func(i, j int) bool { return sites[i].Pos() < sites[j].Pos() })
	for i, c := range sites {
		if c == call && i > 0 {
			return "#" + strconv.Itoa(i+1)
		}
	}
	return ""
}

// ifaceAssertCandidates: for v.(I) with I a method-bearing interface declared in the module — the printed names of
// the module's types (T or *T) that implement both I and the static interface type of v.
func (m *Machine) ifaceAssertCandidates(x *ssa.TypeAssert) []string {
	it, ok := x.AssertedType.Underlying().(*types.Interface)
	if !ok || it.NumMethods() == 0 {
		return nil
	}
	if n, ok := x.AssertedType.(*types.Named); !ok || n.Obj().Pkg() == nil || !strings.HasPrefix(n.Obj().Pkg().Path(), modulePath) {
		return nil
	}
	from, _ := x.X.Type().Underlying().(*types.Interface)
	q := func(p *types.Package) string { return p.Name() }
	var out []string
	for _, pk := range m.P.Pkgs {
		if pk.Types == nil || !strings.HasPrefix(pk.Types.Path(), modulePath) {
			continue
		}
		scope := pk.Types.Scope()
		for _, n := range scope.Names() {
			tn, ok := scope.Lookup(n).(*types.TypeName)
			if !ok || tn.IsAlias() || isInterfaceType(tn.Type()) {
				continue
			}
			for _, t := range []types.Type{tn.Type(), types.NewPointer(tn.Type())} {
				if types.Implements(t, it) && (from == nil || types.Implements(t, from)) {
					out = append(out, typeString(t, q))
					break
				}
			}
		}
	}
	sort.Strings(out)
	return out
}

// methodByTypeName: the method `name` of the module type printed as tname (T or *T).
func (m *Machine) methodByTypeName(tname, name string) *ssa.Function {
	q := func(p *types.Package) string { return p.Name() }
	for _, pk := range m.P.Pkgs {
		if pk.Types == nil || !strings.HasPrefix(pk.Types.Path(), modulePath) {
			continue
		}
		scope := pk.Types.Scope()
		for _, n := range scope.Names() {
			tn, ok := scope.Lookup(n).(*types.TypeName)
			if !ok {
				continue
			}
			for _, t := range []types.Type{tn.Type(), types.NewPointer(tn.Type())} {
				if typeString(t, q) != tname {
					continue
				}
				sel := m.P.SSA.MethodSets.MethodSet(t).Lookup(tn.Pkg(), name)
				if sel == nil {
					return nil
				}
				fn := m.P.SSA.MethodValue(sel)
				if fn != nil && fn.Synthetic != "" {
					// a wrapper (promoted or pointer-receiver wrapper): not followed
					return nil
				}
				return fn
			}
		}
	}
	return nil
}

// implementsByName: the dynamic type is known only by its printed name; look it up in the module.
func implementsByName(m *Machine, tname string, iface types.Type) bool {
	it, ok := iface.Underlying().(*types.Interface)
	if !ok {
		return false
	}
	for _, pk := range m.P.Pkgs {
		scope := pk.Types.Scope()
		for _, n := range scope.Names() {
			tn, ok := scope.Lookup(n).(*types.TypeName)
			if !ok {
				continue
			}
			q := func(p *types.Package) string { return p.Name() }
			if typeString(tn.Type(), q) == tname {
				return types.Implements(tn.Type(), it)
			}
			if typeString(types.NewPointer(tn.Type()), q) == tname {
				return types.Implements(types.NewPointer(tn.Type()), it)
			}
		}
	}
	return false
}

func capInt(i int64) AV {
	if i < intWindowLo || i > intWindowHi {
		return Unk
	}
	return IntV(i)
}

func (m *Machine) binop(st *State, x *ssa.BinOp, a, b AV) AV {
	return m.binopT(st, x.Op, x.X.Type(), a, b)
}

// structEquality decides v == w for two struct values of a small struct type with basic fields, field by field: the
// state is split into "all fields equal" (every undecided field comparison assumed true) and, for each undecided field,
// "the fields before it equal, this one not" — so that what a comparison with a written-out struct tells about each
// field is known afterwards exactly as after a chain of && tests.  false if the comparison is not of that kind.
func (m *Machine) structEquality(st *State, x *ssa.BinOp, a, b AV) bool {
	stt, ok := x.X.Type().Underlying().(*types.Struct)
	if !ok || stt.NumFields() == 0 || stt.NumFields() > 4 || a.K != KSym || b.K != KSym || (x.Op != token.EQL && x.Op != token.NEQ) {
		return false
	}
	var conds []AV
	for i := 0; i < stt.NumFields(); i++ {
		f := stt.Field(i)
		if _, basic := f.Type().Underlying().(*types.Basic); !basic {
			return false
		}
		fa := m.resolve(st, m.load(st, a.S+"."+f.Name(), f.Type()))
		fb := m.resolve(st, m.load(st, b.S+"."+f.Name(), f.Type()))
		c := m.resolve(st, m.binopT(st, token.EQL, f.Type(), fa, fb))
		if c.K != KBool && c.K != KSym {
			return false
		}
		conds = append(conds, c)
	}
	result := func(equal bool) AV { return BoolV(equal == (x.Op == token.EQL)) }
	// a field known to differ settles it
	for _, c := range conds {
		if c.K == KBool && !c.B {
			st.Top().Vals[x] = result(false)
			return true
		}
	}
	var open []AV
	for _, c := range conds {
		if c.K == KSym {
			open = append(open, c)
		}
	}
	if len(open) == 0 {
		st.Top().Vals[x] = result(true)
		return true
	}
	// "differs at field i" for every undecided field but the last one forks; the current state goes on as "differs at
	// the last undecided field", and one more fork is "all equal"
	eq := st.Clone()
	for _, c := range open {
		m.assume(eq, c, true)
	}
	eq.Top().Vals[x] = result(true)
	m.fork(eq)
	for i := 0; i < len(open)-1; i++ {
		ns := st.Clone()
		for _, c := range open[:i] {
			m.assume(ns, c, true)
		}
		m.assume(ns, open[i], false)
		ns.Top().Vals[x] = result(false)
		m.fork(ns)
	}
	for _, c := range open[:len(open)-1] {
		m.assume(st, c, true)
	}
	m.assume(st, open[len(open)-1], false)
	st.Top().Vals[x] = result(false)
	return true
}

func (m *Machine) binopT(st *State, op token.Token, operandT types.Type, a, b AV) AV {
	if a.K == KInt && b.K == KInt {
		switch op {
		case token.ADD:
			return capInt(a.I + b.I)
		case token.SUB:
			return capInt(a.I - b.I)
		case token.MUL:
			return capInt(a.I * b.I)
		case token.EQL:
			return BoolV(a.I == b.I)
		case token.NEQ:
			return BoolV(a.I != b.I)
		case token.LSS:
			return BoolV(a.I < b.I)
		case token.LEQ:
			return BoolV(a.I <= b.I)
		case token.GTR:
			return BoolV(a.I > b.I)
		case token.GEQ:
			return BoolV(a.I >= b.I)
		}
		return Unk
	}
	if a.K == KBool && b.K == KBool {
		switch op {
		case token.EQL:
			return BoolV(a.B == b.B)
		case token.NEQ:
			return BoolV(a.B != b.B)
		}
	}
	// comparing a symbolic boolean with a constant one is the boolean itself or its negation: (x == true) ≡ x,
	// (x != true) ≡ !x, (x == false) ≡ !x, (x != false) ≡ x
	if (op == token.EQL || op == token.NEQ) && ((a.K == KSym && b.K == KBool) || (a.K == KBool && b.K == KSym)) {
		sym, k := a, b
		if a.K == KBool {
			sym, k = b, a
		}
		if bt, ok := operandT.Underlying().(*types.Basic); ok && bt.Info()&types.IsBoolean != 0 {
			same := (op == token.EQL) == k.B
			if !same {
				sym.Neg = !sym.Neg
			}
			return sym
		}
	}
	if a.K == KStr && b.K == KStr {
		switch op {
		case token.EQL:
			return BoolV(a.S == b.S)
		case token.NEQ:
			return BoolV(a.S != b.S)
		case token.ADD:
			return StrV(a.S + b.S)
		}
	}
	if a.K == KNil && b.K == KNil {
		switch op {
		case token.EQL:
			return BoolV(true)
		case token.NEQ:
			return BoolV(false)
		}
	}
	// fresh objects are never nil
	isObj := func(v AV) bool {
		return v.K == KSym && strings.HasPrefix(v.S, "obj:") && !strings.ContainsAny(v.S[4:], ".[")
	}
	// … nor is a function written out by name (or a closure made on the path)
	if (a.K == KFunc && a.Fn != nil && b.K == KNil) || (a.K == KNil && b.K == KFunc && b.Fn != nil) {
		switch op {
		case token.EQL:
			return BoolV(false)
		case token.NEQ:
			return BoolV(true)
		}
	}
	if (isObj(a) && b.K == KNil) || (a.K == KNil && isObj(b)) {
		switch op {
		case token.EQL:
			return BoolV(false)
		case token.NEQ:
			return BoolV(true)
		}
	}
	if a.K == KSym && b.K == KNil || a.K == KNil && b.K == KSym {
		sv := a
		if sv.K != KSym {
			sv = b
		}
		if _, typed := st.Facts["type:"+sv.S]; typed && !sv.Neg {
			switch op {
			case token.EQL:
				return BoolV(false)
			case token.NEQ:
				return BoolV(true)
			}
		}
	}
	if a.K == KUnk || b.K == KUnk {
		return Unk
	}
	// (x + k) - j and (x - k) + j fold their constants
	if (op == token.ADD || op == token.SUB) && b.K == KInt && a.K == KSym && !a.Neg {
		if mm := reOffset.FindStringSubmatch(a.S); mm != nil && balanced(mm[1]) {
			k, _ := strconv.ParseInt(mm[3], 10, 64)
			if mm[2] == "-" {
				k = -k
			}
			if op == token.ADD {
				k += b.I
			} else {
				k -= b.I
			}
			switch {
			case k == 0:
				return Sym(mm[1])
			case k > 0:
				return Sym("(" + mm[1] + " + " + strconv.FormatInt(k, 10) + ")")
			default:
				return Sym("(" + mm[1] + " - " + strconv.FormatInt(-k, 10) + ")")
			}
		}
	}
	// x + 0, 0 + x, x - 0 are x
	if (op == token.ADD || op == token.SUB) && b.K == KInt && b.I == 0 && a.K == KSym {
		return a
	}
	if op == token.ADD && a.K == KInt && a.I == 0 && b.K == KSym {
		return b
	}
	// symbolic
	switch op {
	case token.EQL, token.NEQ:
		l, r := a, b
		// canonical: symbolic operand first, constant second
		if l.K != KSym && r.K == KSym {
			l, r = r, l
		}
		if l.K == KSym && r.K == KSym && r.S < l.S && !l.Neg && !r.Neg {
			l, r = r, l
		}
		name := "(" + l.String() + " == " + r.String() + ")"
		if l.K == KSym && !l.Neg && r.K != KSym {
			// excluded constants decide the comparison negatively
			if ne, ok := st.Facts["ne:"+l.S]; ok && strings.Contains(ne.S+"|", "|"+r.String()+"|") {
				return BoolV(op == token.NEQ)
			}
			m.conds[name] = condInfo{X: l.S, C: r}
		}
		res := Sym(name)
		if res.K == KSym && op == token.NEQ {
			res.Neg = true
		}
		return res
	case token.LSS, token.GEQ, token.GTR, token.LEQ:
		if dec, ok := m.decideByLowerBound(st, op, a, b); ok {
			return BoolV(dec)
		}
	}
	switch op {
	case token.LSS, token.GEQ:
		res := Sym("(" + a.String() + " < " + b.String() + ")")
		if res.K == KSym && op == token.GEQ {
			res.Neg = true
		}
		return res
	case token.GTR, token.LEQ:
		res := Sym("(" + b.String() + " < " + a.String() + ")")
		if res.K == KSym && op == token.LEQ {
			res.Neg = true
		}
		return res
	default:
		return Sym("(" + a.String() + " " + op.String() + " " + b.String() + ")")
	}
}

var reLenOf = regexp.MustCompile(`^len\((.+)\)$`)
var reOffset = regexp.MustCompile(`^\((.+) ([-+]) (\d+)\)$`)

// lowerBound: a value the integer expression is known not to be below — a constant, the length of a list (never
// negative; at least n after n elements were appended to a fresh list on this path), or such a value plus or minus a
// constant.
func (m *Machine) lowerBound(st *State, v AV) (int64, bool) {
	switch v.K {
	case KInt:
		return v.I, true
	case KSym:
		if v.Neg {
			return 0, false
		}
		if f, ok := st.Facts["lb:"+v.S]; ok && f.K == KInt {
			return f.I, true
		}
		if strings.HasPrefix(v.S, "rangeidx:") && !strings.ContainsAny(v.S[len("rangeidx:"):], " ()+-") {
			return 0, true // the index of a range loop (or of a counter that starts at 0 and steps by 1)
		}
		if mm := reLenOf.FindStringSubmatch(v.S); mm != nil && balanced(mm[1]) {
			if f, ok := st.Facts["lenlb:"+mm[1]]; ok && f.K == KInt {
				return f.I, true
			}
			return 0, true
		}
		if mm := reOffset.FindStringSubmatch(v.S); mm != nil && balanced(mm[1]) {
			if base, ok := m.lowerBound(st, AV{K: KSym, S: mm[1]}); ok {
				k, _ := strconv.ParseInt(mm[3], 10, 64)
				if mm[2] == "-" {
					return base - k, true
				}
				return base + k, true
			}
		}
	}
	return 0, false
}

func balanced(s string) bool {
	d := 0
	for _, c := range s {
		switch c {
		case '(':
			d++
		case ')':
			d--
			if d < 0 {
				return false
			}
		}
	}
	return d == 0
}

// decideByLowerBound: an ordering test between a bounded-below expression and a constant that the bound already settles
// (i := len(xs) - 1; i >= 0 after an element has been appended to xs on this path).
func (m *Machine) decideByLowerBound(st *State, op token.Token, a, b AV) (bool, bool) {
	if b.K == KInt && a.K == KSym && !a.Neg {
		if ub, ok := st.Facts["ub:"+a.S]; ok && ub.K == KInt {
			switch op {
			case token.LSS:
				if ub.I < b.I {
					return true, true
				}
			case token.GEQ:
				if ub.I < b.I {
					return false, true
				}
			case token.GTR:
				if ub.I <= b.I {
					return false, true
				}
			case token.LEQ:
				if ub.I <= b.I {
					return true, true
				}
			}
		}
	}
	if b.K == KInt && a.K == KSym {
		lb, ok := m.lowerBound(st, a)
		if !ok {
			return false, false
		}
		switch op {
		case token.LSS: // a < c
			if lb >= b.I {
				return false, true
			}
		case token.GEQ:
			if lb >= b.I {
				return true, true
			}
		case token.GTR: // a > c
			if lb > b.I {
				return true, true
			}
		case token.LEQ:
			if lb > b.I {
				return false, true
			}
		}
	}
	if a.K == KInt && b.K == KSym {
		lb, ok := m.lowerBound(st, b)
		if !ok {
			return false, false
		}
		switch op {
		case token.LSS: // c < b
			if lb > a.I {
				return true, true
			}
		case token.GEQ: // c >= b
			if lb > a.I {
				return false, true
			}
		case token.GTR: // c > b
			if lb >= a.I {
				return false, true
			}
		case token.LEQ: // c <= b
			if lb >= a.I {
				return true, true
			}
		}
	}
	return false, false
}

// SliceElems reads back the constant elements of a varargs slice built in the current frame.
func (m *Machine) SliceElems(st *State, a AV) ([]AV, bool) {
	if a.K == KNil {
		return nil, true
	}
	if a.K != KSym {
		return nil, false
	}
	base := strings.TrimSuffix(a.S, "[:]")
	if base == a.S {
		return nil, false
	}
	var out []AV
	for i := 0; ; i++ {
		v, ok := st.Heap[base+"["+strconv.Itoa(i)+"]"]
		if !ok {
			break
		}
		out = append(out, v)
	}
	return out, true
}

func (m *Machine) doCall(st *State, fr *Frame, call ssa.CallInstruction) bool {
	common := call.Common()
	args := make([]AV, 0, len(common.Args)+1)
	var callee *ssa.Function
	if common.IsInvoke() {
		recv := m.eval(st, fr, common.Value)
		args = append(args, recv)
		// the path knows which type is in the interface value: the call is to that type's method
		if recv.K == KSym && m.ForkIfaceAsserts {
			if ty, known := st.Facts["type:"+recv.S]; known {
				callee = m.methodByTypeName(ty.S, common.Method.Name())
			}
		}
	} else {
		switch f := common.Value.(type) {
		case *ssa.Function:
			callee = f
		case *ssa.MakeClosure:
			callee = f.Fn.(*ssa.Function)
		default:
			fv := m.eval(st, fr, common.Value)
			if fv.K == KFunc {
				callee = fv.Fn
			}
		}
	}
	for _, a := range common.Args {
		args = append(args, m.eval(st, fr, a))
	}
	// a method value (p.f passed around as a func): the wrapper's single call is the real callee, the bound
	// receiver its first argument
	if callee != nil && strings.HasPrefix(callee.Synthetic, "bound method wrapper") {
		if fv := m.eval(st, fr, common.Value); fv.K == KFunc && len(fv.T) >= 1 {
			var target *ssa.Function
			for _, b := range callee.Blocks {
				for _, in := range b.Instrs {
					if c, ok := in.(*ssa.Call); ok && target == nil {
						target = c.Call.StaticCallee()
					}
				}
			}
			if target != nil {
				callee = target
				args = append([]AV{fv.T[0]}, args...)
			}
		}
	}
	// a method expression ((*T).m used as a func): the thunk's single call is the real callee, with the same arguments
	if callee != nil && strings.HasPrefix(callee.Synthetic, "thunk for") {
		var target *ssa.Function
		for _, b := range callee.Blocks {
			for _, in := range b.Instrs {
				if c, ok := in.(*ssa.Call); ok && target == nil {
					target = c.Call.StaticCallee()
				}
			}
		}
		if target != nil && len(target.Params) == len(args) {
			callee = target
		}
	}
	val, isVal := call.(ssa.Value)
	bind := func(s *State, res AV) {
		if isVal {
			s.Top().Vals[val] = res
		}
	}
	// builtins
	if b, ok := common.Value.(*ssa.Builtin); ok {
		res := Unk
		switch b.Name() {
		case "len":
			if elems, ok := m.SliceElems(st, args[0]); ok && args[0].K == KSym && len(elems) > 0 {
				// a list written out on this path (the arguments of a variadic call): its length is known
				res = IntV(int64(len(elems)))
			} else if args[0].K == KSym {
				res = m.load(st, "len("+args[0].S+")", types.Typ[types.Int])
			} else if args[0].K == KStr {
				res = capInt(int64(len(args[0].S)))
			} else if args[0].K == KNil {
				res = IntV(0)
			}
		case "append":
			nm := "append:" + fr.ID + ":" + val.Name()
			// how long the result is at least: the list appended to, plus the elements written out at this call
			lb := int64(0)
			if len(args) == 2 {
				if base, ok := m.lowerBound(st, AV{K: KSym, S: "len(" + args[0].S + ")"}); ok && args[0].K == KSym {
					lb = base
				}
				if elems, ok := m.SliceElems(st, args[1]); ok {
					lb += int64(len(elems))
				}
			}
			if lb > 2 {
				lb = 2 // "at least two" is all any rule asks; keeps the state space finite under loops
			}
			m.forget(st, nm)
			if lb > 0 {
				st.Facts["lenlb:"+nm] = IntV(lb)
			}
			res = Sym(nm)
		}
		m.Model.Instr(m, st, call, args)
		bind(st, res)
		return true
	}
	if _, isGo := call.(*ssa.Go); isGo {
		m.Model.Instr(m, st, call, args)
		return true
	}
	if _, isDefer := call.(*ssa.Defer); isDefer {
		m.Model.Instr(m, st, call, args)
		return true
	}
	stdSearch := isStdSliceSearch(callee)
	if outs, handled := m.Model.Call(m, st, call, callee, args); handled && !stdSearch {
		if len(outs) == 0 {
			m.Paths++
			return false // path pruned by the model
		}
		for i, o := range outs {
			s := st
			if i < len(outs)-1 {
				s = st.Clone()
			}
			if o.Label != "" {
				s.Log(o.Label)
			}
			if isVal {
				m.forget(s, "@"+fr.ID+":"+val.Name())
			}
			bind(s, o.Result)
			if o.Apply != nil {
				o.Apply(s)
			}
			if o.Stop {
				m.Paths++
				continue
			}
			if i < len(outs)-1 {
				m.fork(s)
			}
		}
		last := outs[len(outs)-1]
		if last.Stop {
			return false
		}
		return true
	}
	// a table from words to constants written as a function (switch over a string parameter): looked up like a table —
	// evaluated for a known word, one opaque result for a word known by name only (no path per case)
	if callee != nil && len(args) == 1 && m.P.InModule(callee) {
		if ws := m.P.WordSwitch(callee); ws != nil {
			switch args[0].K {
			case KStr:
				v, ok := ws.Cases[args[0].S]
				if !ok {
					v = ws.Default
				}
				m.Model.Instr(m, st, call, args)
				bind(st, v)
				return true
			case KSym:
				m.Model.Instr(m, st, call, args)
				bind(st, Sym("table:"+m.P.FuncKey(callee)+"["+args[0].S+"]"))
				return true
			}
		}
	}
	// a helper that calls itself as the last thing it does (the call's results are returned as they are) is a loop: the
	// current activation is re-entered at its first block with the new arguments — same events, and the states converge
	// as they do for a loop (only for helpers explored as part of a caller: the root function's recursion is a rule's
	// business)
	if callee != nil && callee == fr.Fn && len(st.Frames) > 1 && m.P.InModule(callee) && isSelfTailCall(call) && len(callee.FreeVars) == 0 {
		m.Model.Instr(m, st, call, args)
		for i, prm := range callee.Params {
			if i < len(args) {
				fr.Vals[prm] = args[i]
			}
		}
		if !m.enterBlock(st, callee.Blocks[0]) {
			m.Paths++
			return false
		}
		return true
	}
	// default: inline module functions
	if callee != nil && callee.Blocks != nil && (stdSearch || m.P.InModule(callee) && m.Inline(callee)) && len(st.Frames) < m.MaxDepth && !m.onStack(st, callee) {
		nf := &Frame{Fn: callee, Vals: map[ssa.Value]AV{}, Call: call, ID: fr.ID + ">" + baseFnName(callee) + siteOrdinal(call, callee)}
		for i, p := range callee.Params {
			if i < len(args) {
				nf.Vals[p] = args[i]
			}
		}
		if fvAV := m.eval(st, fr, common.Value); fvAV.K == KFunc && fvAV.Fn == callee {
			for i, fv := range callee.FreeVars {
				if i < len(fvAV.T) {
					nf.Vals[fv] = fvAV.T[i]
				}
			}
		}
		st.Frames = append(st.Frames, nf)
		nf.Block = nil
		if !m.enterBlock(st, callee.Blocks[0]) {
			m.Paths++
			return false
		}
		return true
	}
	// unknown call
	name := "call:" + fr.ID + ":"
	if isVal {
		name += val.Name()
	}
	m.forget(st, name)
	res := Unk
	if isVal {
		if tup, ok := val.Type().(*types.Tuple); ok {
			ts := make([]AV, tup.Len())
			for i := range ts {
				ts[i] = Sym(name + "#" + strconv.Itoa(i))
			}
			res = AV{K: KTuple, T: ts}
		} else {
			res = Sym(name)
		}
	}
	if callee == nil || m.P.InModule(callee) {
		// may write module state: havoc symbolic heap cells
		for k := range st.Heap {
			if !strings.HasPrefix(k, "obj:") {
				delete(st.Heap, k)
			}
		}
	}
	bind(st, res)
	return true
}

// onStack: is fn already being explored on this path?  With Unroll > 0 a function may appear that many times (a walk
// written as recursion is then unrolled like a loop; frames of the same function get distinct IDs).
func (m *Machine) onStack(st *State, fn *ssa.Function) bool {
	n := 0
	for _, f := range st.Frames {
		if f.Fn == fn {
			n++
		}
	}
	return n > m.Unroll
}

// isSelfTailCall: the call's value is returned unchanged by the instructions that follow it in its block
// (`return f(…)`, or `a, b := f(…); return a, b` as go/ssa lowers a multi-value return).
func isSelfTailCall(call ssa.CallInstruction) bool {
	cv, ok := call.(*ssa.Call)
	if !ok {
		return false
	}
	b := cv.Block()
	idx := -1
	for i, in := range b.Instrs {
		if in == ssa.Instruction(cv) {
			idx = i
		}
	}
	if idx < 0 {
		return false
	}
	extracts := map[ssa.Value]int{}
	for _, in := range b.Instrs[idx+1:] {
		switch x := in.(type) {
		case *ssa.DebugRef:
		case *ssa.Extract:
			if x.Tuple != ssa.Value(cv) {
				return false
			}
			extracts[x] = x.Index
		case *ssa.Return:
			if len(x.Results) == 1 && x.Results[0] == ssa.Value(cv) {
				return true
			}
			for i, r := range x.Results {
				if k, ok := extracts[r]; !ok || k != i {
					return false
				}
			}
			return len(x.Results) > 0
		default:
			return false
		}
	}
	return false
}

// rangeLengthKnown: the lowered range loop whose hidden counter is ctr runs over a list whose length the path knows (the
// written-out arguments of a variadic call): the counter then takes its concrete values 0, 1, … and the loop is walked
// exactly, instead of being summarised with a symbolic index.
func (m *Machine) rangeLengthKnown(st *State, fr *Frame, ctr *ssa.BinOp) bool {
	b := ctr.Block()
	if len(b.Instrs) == 0 {
		return false
	}
	iff, ok := b.Instrs[len(b.Instrs)-1].(*ssa.If)
	if !ok {
		return false
	}
	cmp, ok := iff.Cond.(*ssa.BinOp)
	if !ok || cmp.Op != token.LSS || cmp.X != ssa.Value(ctr) {
		return false
	}
	if _, defined := fr.Vals[cmp.Y]; !defined {
		return false
	}
	n := m.eval(st, fr, cmp.Y)
	return n.K == KInt && n.I <= 4
}
