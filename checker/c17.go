package main

import (
	"fmt"
	"go/token"
	"go/types"
	"regexp"
	"sort"
	"strings"

	"golang.org/x/tools/go/ssa"
)

func init() {
	register("C17", &Checker{
		Run: checkC17,
		Explain: "Decided: S1 registration table — NewInterpreter defines exactly the 17 documented built-in names, each bound to a Callable, and the parser reserves the same names (three-way table agreement; the extra reserved Latin `input` is noted). " +
			"I1 routing — each math built-in is explored path by path: the success result of পরমমান/বর্গমূল/সাইন/কসাইন/ট্যান/রাউন্ড is math.Abs/Sqrt/Sin/Cos/Tan/Round applied to toNumber(arguments[0]) (math.Round is half away from zero), ঘাত is math.Pow(toNumber(a0), toNumber(a1)) in that order — the same expression the ** clause computes (C02) — and ক্লক derives its result from time.Now() scaled to seconds; nothing else is returned on a success path. " +
			"S2 min/max loop shape — accumulator initialised from element 0, remaining elements visited by one range over the rest, update acc = x exactly under x < acc (min) / x > acc (max), a single array argument flattened, emptiness before and after flattening is an error. " +
			"S3 misuse — fixed-arity built-ins report Arity() = n consistent with their own argument-count test and with the highest argument index they use (the caller's arity test, C04/S3, enforces it); variadic ones bound len(arguments) themselves; every failed coercion or type test of an argument ends in a non-nil error result, which the call clause reports (C04/S3). " +
			"Inherited / not decided: numerical accuracy of math.*.",
		Rule:    "obligation = (built-in, rule); non-trivial: every built-in's path-set comparison, min/max loop shape, arity agreement",
		Trusted: []string{"math.Abs/Sqrt/Sin/Cos/Tan/Round/Pow contracts", "time.Now", "abstract machine"},
	})
}

var builtinSpec = map[string]string{ // Borno name → semantic tag
	"ক্লক": "clock", "লেন": "len", "এড": "append", "রিমুভ": "remove", "কি_রিমুভ": "delete", "অব্জেক্ট_কি": "keys", "অব্জেক্ট_মান": "values",
	"পরমমান": "Abs", "বর্গমূল": "Sqrt", "ঘাত": "Pow", "সাইন": "Sin", "কসাইন": "Cos", "ট্যান": "Tan",
	"সর্বনিম্ন": "min", "সর্বোচ্চ": "max", "রাউন্ড": "Round", "ইনপুট": "input",
}

// registeredBuiltins reads the globals.Define(name, impl) calls of NewInterpreter.
func registeredBuiltins(p *Prog) (map[string]types.Type, []string) {
	out := map[string]types.Type{}
	var problems []string
	fn := p.Func("interpreter.NewInterpreter")
	if fn == nil {
		return out, []string{"NewInterpreter not found"}
	}
	// table-driven registration: a local array of {name, implementation} records and one Define in a loop
	type rec struct {
		name string
		typ  types.Type
	}
	records := map[ssa.Value]*rec{} // element address → record
	recOf := func(elem ssa.Value) *rec {
		if records[elem] == nil {
			records[elem] = &rec{}
		}
		return records[elem]
	}
	instrsOf(fn, func(in ssa.Instruction) {
		st, ok := in.(*ssa.Store)
		if !ok {
			return
		}
		fa, ok := st.Addr.(*ssa.FieldAddr)
		if !ok {
			return
		}
		var elem ssa.Value
		switch x := fa.X.(type) {
		case *ssa.IndexAddr:
			elem = x
		case *ssa.Alloc:
			if _, isStruct := derefT(x.Type()).Underlying().(*types.Struct); isStruct && typeStr(derefT(x.Type())) != "interpreter.Interpreter" {
				elem = x
			}
		}
		if elem == nil {
			return
		}
		if k, ok := st.Val.(*ssa.Const); ok && k.Value != nil && k.Value.Kind().String() == "String" {
			recOf(elem).name, _ = unquoteGo(k.Value.ExactString())
		}
		if mi, ok := st.Val.(*ssa.MakeInterface); ok {
			recOf(elem).typ = mi.X.Type()
		}
	})
	collect := func(in ssa.Instruction) {
		st, ok := in.(*ssa.Store)
		if !ok {
			return
		}
		fa, ok := st.Addr.(*ssa.FieldAddr)
		if !ok {
			return
		}
		ia, ok := fa.X.(*ssa.IndexAddr)
		if !ok {
			return
		}
		if k, ok := st.Val.(*ssa.Const); ok && k.Value != nil && k.Value.Kind().String() == "String" {
			recOf(ia).name, _ = unquoteGo(k.Value.ExactString())
		}
		if mi, ok := st.Val.(*ssa.MakeInterface); ok {
			recOf(ia).typ = mi.X.Type()
		}
	}
	// a package-level table: the records are stored by the package initialiser into the array the global slices
	globalTables := map[*ssa.Global]bool{}
	instrsOf(fn, func(in ssa.Instruction) {
		if u, ok := in.(*ssa.UnOp); ok {
			if g, ok := u.X.(*ssa.Global); ok {
				if _, isSlice := derefT(g.Type()).Underlying().(*types.Slice); isSlice {
					globalTables[g] = true
				}
			}
		}
	})
	if init := fn.Pkg.Func("init"); init != nil && len(globalTables) > 0 {
		arrays := map[ssa.Value]bool{}
		instrsOf(init, func(in ssa.Instruction) {
			if st, ok := in.(*ssa.Store); ok {
				if g, ok := st.Addr.(*ssa.Global); ok && globalTables[g] {
					if sl, ok := st.Val.(*ssa.Slice); ok {
						arrays[sl.X] = true
					}
				}
			}
		})
		instrsOf(init, func(in ssa.Instruction) {
			if st, ok := in.(*ssa.Store); ok {
				if fa, ok := st.Addr.(*ssa.FieldAddr); ok {
					if ia, ok := fa.X.(*ssa.IndexAddr); ok && arrays[ia.X] {
						collect(in)
					}
				}
			}
		})
	}
	tableDefine := false
	instrsOf(fn, func(in ssa.Instruction) {
		call, ok := in.(*ssa.Call)
		if !ok {
			return
		}
		c := call.Call.StaticCallee()
		if c == nil || c.Name() != "Define" || len(call.Call.Args) != 3 {
			return
		}
		// Define(elem.name, elem.function) with both loads from the same table element
		d1, d2 := describe(call.Call.Args[1]), describe(call.Call.Args[2])
		if i1, i2 := strings.LastIndex(d1, "."), strings.LastIndex(d2, "."); i1 > 0 && i2 > 0 && d1[:i1] == d2[:i2] {
			if _, isConst := call.Call.Args[1].(*ssa.Const); !isConst {
				tableDefine = true
			}
		}
	})
	if tableDefine {
		for _, r := range records {
			if r.name == "" || r.typ == nil {
				problems = append(problems, "incomplete registration record in the built-in table")
				continue
			}
			if _, dup := out[r.name]; dup {
				problems = append(problems, "name "+r.name+" registered twice")
			}
			out[r.name] = r.typ
		}
	}
	instrsOf(fn, func(in ssa.Instruction) {
		call, ok := in.(*ssa.Call)
		if !ok {
			return
		}
		c := call.Call.StaticCallee()
		if c == nil || c.Name() != "Define" || len(call.Call.Args) != 3 {
			return
		}
		k, ok := call.Call.Args[1].(*ssa.Const)
		if !ok || k.Value == nil {
			if !tableDefine {
				problems = append(problems, "Define with a non-constant name at "+p.InstrPos(in))
			}
			return
		}
		name := strings.Trim(k.Value.ExactString(), `"`)
		if uq, err := unquoteGo(k.Value.ExactString()); err == nil {
			name = uq
		}
		mi, ok := call.Call.Args[2].(*ssa.MakeInterface)
		if !ok {
			problems = append(problems, "Define("+name+") with a value of unknown type")
			return
		}
		if _, dup := out[name]; dup {
			problems = append(problems, "name "+name+" registered twice")
		}
		out[name] = mi.X.Type()
	})
	return out, problems
}

func reservedNames(p *Prog) map[string]bool {
	out := map[string]bool{}
	pk := p.Pkg("parser")
	if pk == nil {
		return out
	}
	init := pk.Func("init")
	if init == nil {
		return out
	}
	instrsOf(init, func(in ssa.Instruction) {
		mu, ok := in.(*ssa.MapUpdate)
		if !ok {
			return
		}
		if k, ok := mu.Key.(*ssa.Const); ok && k.Value != nil {
			out[strings.Trim(k.Value.ExactString(), `"`)] = true
		}
	})
	return out
}

func callMethodOf(p *Prog, t types.Type, name string) *ssa.Function {
	ms := p.SSA.MethodSets.MethodSet(t)
	sel := ms.Lookup(nil, name)
	if sel == nil {
		// unexported lookups need the package; our methods are exported
		return nil
	}
	return p.SSA.MethodValue(sel)
}

func checkC17(p *Prog, l *Ledger) {
	reg, probs := registeredBuiltins(p)
	for _, pr := range probs {
		l.Violate("C17/S1-registration", "NewInterpreter", "", pr)
	}
	res := reservedNames(p)
	ci := p.callableIface()
	var names []string
	for n := range builtinSpec {
		names = append(names, n)
	}
	sort.Strings(names)
	for _, n := range names {
		t, ok := reg[n]
		key := "builtin:" + n
		switch {
		case !ok:
			l.Violate("C17/S1-registration", key, "", "documented built-in "+n+" ("+builtinSpec[n]+") is not registered")
		case ci == nil || !types.Implements(t, ci):
			l.Violate("C17/S1-registration", key, "", "registered value of type "+typeStr(t)+" is not callable")
		case !res[n]:
			l.Violate("C17/S1-registration", key, "", "built-in name "+n+" is not reserved in the parser: a program may redeclare it")
		default:
			l.Discharge("C17/S1-registration", key, "", "registered as "+typeStr(t)+" and reserved", true)
		}
	}
	for n := range reg {
		if _, ok := builtinSpec[n]; !ok {
			l.Violate("C17/S1-registration", "builtin:"+n, "", "undocumented built-in "+n+" registered")
		}
	}
	for n := range res {
		if _, ok := reg[n]; !ok {
			l.Note("reserved name %q has no registered built-in (harmless: it only narrows the identifiers a program may declare)", n)
		}
	}
	// ---- per built-in behaviour
	for _, n := range names {
		t, ok := reg[n]
		if !ok {
			continue
		}
		tag := builtinSpec[n]
		callFn := callMethodOf(p, t, "Call")
		arFn := callMethodOf(p, t, "Arity")
		if callFn == nil || arFn == nil {
			l.Undecide("C17/I1-routing", n, "", "Call/Arity method not found for "+typeStr(t))
			continue
		}
		l.Funcs[p.FuncKey(callFn)] = true
		arity, okA := constReturn(arFn)
		if !okA {
			l.Violate("C17/S3-misuse", n+"#Arity", p.Pos(arFn.Pos()), "Arity() does not return a constant")
			continue
		}
		m := NewInterpModel(p, "builtin/"+tag)
		m.EmitTests = true
		m.KeepAsEvent = func(c *ssa.Function) bool { return fnName(c) == "toNumber" || fnName(c) == "toInt64" }
		mc := m.Explore(callFn, []AV{Sym("n"), Sym("i"), Sym("arguments")}, nil)
		l.States += mc.States
		l.Paths += mc.Paths
		checkMisuse(p, l, n, tag, callFn, m, arity)
		switch tag {
		case "Abs", "Sqrt", "Sin", "Cos", "Tan", "Round":
			checkUnaryMath(p, l, n, tag, callFn, m)
		case "Pow":
			checkPow(p, l, n, callFn, m)
		case "clock":
			checkClock(p, l, n, callFn, m)
		case "min", "max":
			checkMinMax(p, l, n, tag, callFn, m)
		}
	}
	// the fixed-arity built-ins rely on the call clause comparing the argument count with Arity() for every callee —
	// built-in or not — before invoking it (rule shared with C04)
	if cs := getClauses(p); cs.account(l) {
		l.As(map[string]string{"C04/S3-": "C17/S3-misuse/call-clause/"}, func() { checkCallProtocol(cs, l) })
	}
}

func constReturn(fn *ssa.Function) (int64, bool) {
	var val int64
	ok := false
	n := 0
	instrsOf(fn, func(in ssa.Instruction) {
		if r, isRet := in.(*ssa.Return); isRet && len(r.Results) == 1 {
			n++
			if c, isC := constInt(r.Results[0]); isC {
				val, ok = c, true
			} else {
				ok = false
			}
		}
	})
	return val, ok && n == 1
}

func successWords(m *InterpModel) ([][]*Event, [][]*Event, bool) {
	ws, ok := m.G.Words(5000)
	var succ, fail [][]*Event
	for _, w := range ws {
		last := lastOf(w)
		if last == nil || last.Op != "return" {
			continue
		}
		if last.KV["r1"] == "nil" {
			succ = append(succ, w)
		} else {
			fail = append(fail, w)
		}
	}
	return succ, fail, ok
}

func checkUnaryMath(p *Prog, l *Ledger, name, fn string, callFn *ssa.Function, m *InterpModel) {
	succ, _, ok := successWords(m)
	if !ok {
		l.Undecide("C17/I1-routing", name, p.Pos(callFn.Pos()), "paths not enumerable")
		return
	}
	want := regexp.MustCompile(`^` + fn + `\(toNumber\(arguments\[0\]\)#0\)$`)
	var bad []string
	for _, w := range succ {
		r := normName(lastOf(w).KV["r0"])
		if !want.MatchString(r) {
			bad = append(bad, r)
		}
	}
	if len(succ) == 0 {
		bad = append(bad, "no success path")
	}
	if len(bad) == 0 {
		l.Discharge("C17/I1-routing", name, p.Pos(callFn.Pos()), fmt.Sprintf("every success path returns math.%s(toNumber(arguments[0]))", fn), true)
	} else {
		l.Violate("C17/I1-routing", name, p.Pos(callFn.Pos()), fmt.Sprintf("a success path returns %s instead of math.%s(toNumber(arguments[0]))", strings.Join(uniqStrings(sortStrings(bad)), " | "), fn))
	}
}

func checkPow(p *Prog, l *Ledger, name string, callFn *ssa.Function, m *InterpModel) {
	succ, _, ok := successWords(m)
	if !ok {
		l.Undecide("C17/I1-routing", name, p.Pos(callFn.Pos()), "paths not enumerable")
		return
	}
	var bad []string
	for _, w := range succ {
		r := normName(lastOf(w).KV["r0"])
		if r != "Pow(toNumber(arguments[0])#0,toNumber(arguments[1])#0)" {
			bad = append(bad, r)
		}
	}
	if len(succ) == 0 {
		bad = append(bad, "no success path")
	}
	if len(bad) == 0 {
		l.Discharge("C17/I1-routing", name, p.Pos(callFn.Pos()), "math.Pow(toNumber(a0), toNumber(a1)) — the expression the ** clause computes (C02)", true)
	} else {
		l.Violate("C17/I1-routing", name, p.Pos(callFn.Pos()), "power built-in returns "+strings.Join(uniqStrings(sortStrings(bad)), " | ")+" instead of math.Pow(base, exponent)")
	}
}

func checkClock(p *Prog, l *Ledger, name string, callFn *ssa.Function, m *InterpModel) {
	succ, _, _ := successWords(m)
	okAll := len(succ) > 0
	var got []string
	for _, w := range succ {
		r := normName(lastOf(w).KV["r0"])
		got = append(got, r)
		secs := strings.Contains(r, "Now()") && ((strings.Contains(r, "UnixMilli(") && strings.Contains(r, "/ const:1000)")) ||
			(strings.Contains(r, "UnixNano(") && strings.Contains(r, "/ const:1000000000)")) ||
			(strings.Contains(r, "UnixMicro(") && strings.Contains(r, "/ const:1000000)")) || regexp.MustCompile(`Unix\(Now\(\)\)\)?$`).MatchString(r))
		if !secs {
			okAll = false
		}
	}
	if okAll {
		l.Discharge("C17/I1-routing", name, p.Pos(callFn.Pos()), "time.Now() scaled to seconds: "+strings.Join(uniqStrings(got), " | "), true)
	} else {
		l.Violate("C17/I1-routing", name, p.Pos(callFn.Pos()), "the clock does not return the current Unix time in seconds: "+strings.Join(uniqStrings(got), " | "))
	}
}

// checkMisuse: argument count and argument type discipline.
func checkMisuse(p *Prog, l *Ledger, name, tag string, callFn *ssa.Function, m *InterpModel, arity int64) {
	rule := "C17/S3-misuse"
	// highest constant argument index used, and the length tests performed
	maxIdx := int64(-1)
	instrsOf(callFn, func(in ssa.Instruction) {
		var s, idx ssa.Value
		switch x := in.(type) {
		case *ssa.IndexAddr:
			s, idx = x.X, x.Index
		case *ssa.Index:
			s, idx = x.X, x.Index
		default:
			return
		}
		if prm, ok := s.(*ssa.Parameter); ok && prm.Name() == callFn.Params[len(callFn.Params)-1].Name() {
			if k, ok := constInt(idx); ok && k > maxIdx {
				maxIdx = k
			}
		}
	})
	lenTests := map[string]bool{}
	for _, e := range m.G.Events("test") {
		if strings.Contains(e.Args[0], "len(arguments)") {
			lenTests[e.Args[0]] = true
		}
	}
	key := name + "#argument-count"
	if arity >= 0 {
		if maxIdx >= arity {
			l.Violate(rule, key, p.Pos(callFn.Pos()), fmt.Sprintf("Arity() is %d but the implementation reads arguments[%d]: the caller's arity test does not protect that access", arity, maxIdx))
		} else {
			// an internal exact-count test must agree with Arity
			agree := true
			for t := range lenTests {
				if mm := regexp.MustCompile(`^\(len\(arguments\) == (\d+)\)$`).FindStringSubmatch(t); mm != nil && mm[1] != fmt.Sprint(arity) {
					agree = false
				}
			}
			if !agree {
				l.Violate(rule, key, p.Pos(callFn.Pos()), fmt.Sprintf("Arity() = %d disagrees with the built-in's own argument-count test %v: no argument count is accepted by both", arity, sortedKeysOf(lenTests)))
			} else {
				l.Discharge(rule, key, p.Pos(callFn.Pos()), fmt.Sprintf("fixed arity %d (enforced by the call clause, C04/S3); uses arguments[0..%d]", arity, maxIdx), true)
			}
		}
	} else {
		// variadic: success paths must carry a length fact that covers the indexes used; C07/P3 proves the accesses,
		// here: calling with nothing to work on must be an error
		succ, _, ok := successWords(m)
		if !ok && tag != "min" && tag != "max" {
			l.Undecide(rule, key, p.Pos(callFn.Pos()), "paths not enumerable")
		} else {
			if len(lenTests) == 0 {
				l.Violate(rule, key, p.Pos(callFn.Pos()), "variadic built-in (Arity -1) never tests len(arguments): any argument count is accepted")
			} else {
				l.Discharge(rule, key, p.Pos(callFn.Pos()), fmt.Sprintf("variadic: bounds its own argument count (%s); %d success paths", strings.Join(sortedKeysOf(lenTests), ", "), len(succ)), true)
			}
		}
	}
	// argument type discipline on the event graph: after a failed coercion / failed type test of an argument
	mon := Monitor{Init: "ok", Also: map[string]bool{"typetest": true}, Step: func(s string, ev *Event) string {
		switch s {
		case "ok":
			if ev.Op == "call" && strings.HasSuffix(ev.Out, "err") {
				return "failed|" + ev.String()
			}
			return "ok"
		}
		what := strings.TrimPrefix(s, "failed|")
		switch ev.Op {
		case "niltest", "test", "flagtest":
			return s
		case "return":
			if ev.KV["r1"] == "nil" {
				return "!after the failed coercion " + what + " the built-in still returns a value without an error"
			}
			return ""
		}
		return "!after the failed coercion " + what + " the built-in goes on with " + ev.String()
	}}
	ws := m.G.Run(mon)
	for _, w := range ws {
		l.Violate(rule, name+"#argument-type", posOf(w), w.Msg, witnessDetail(w))
	}
	// every argument read is consumed through a coercion or a comma-ok type test
	bad := ""
	instrsOf(callFn, func(in ssa.Instruction) {
		ta, ok := in.(*ssa.TypeAssert)
		if ok && !ta.CommaOk {
			bad = "non-comma-ok assertion at " + p.InstrPos(in)
		}
	})
	if bad != "" {
		l.Violate(rule, name+"#argument-type", "", bad)
	} else if len(ws) == 0 {
		l.Discharge(rule, name+"#argument-type", p.Pos(callFn.Pos()), "every failed coercion or type test of an argument ends in a non-nil error result", true)
	}
}

// checkMinMax: structural check of the fold loop.
func checkMinMax(p *Prog, l *Ledger, name, tag string, callFn *ssa.Function, m *InterpModel) {
	rule := "C17/S2-minmax"
	wantOp := token.LSS // x < acc
	if tag == "max" {
		wantOp = token.GTR
	}
	fi, whyNot := findFold(p, callFn)
	if fi == nil {
		l.Violate(rule, name, p.Pos(callFn.Pos()), whyNot)
		return
	}
	acc := fi.acc
	problems := checkFoldPaths(p, fi, wantOp)
	// result is the accumulator; empty inputs are errors (event graph)
	okRet := false
	for _, e := range m.G.Events("return") {
		if e.KV["r1"] == "nil" {
			okRet = true
		}
	}
	if !okRet {
		problems = append(problems, "no success return")
	}
	instrsOf(fi.fn, func(in ssa.Instruction) {
		if r, ok := in.(*ssa.Return); ok && len(r.Results) == 2 && isNilConst(r.Results[1]) {
			v := r.Results[0]
			if mi, ok := v.(*ssa.MakeInterface); ok {
				v = mi.X
			}
			if v != ssa.Value(acc) {
				problems = append(problems, "the value returned on success is "+describe(v)+", not the accumulator")
			}
		}
	})
	// emptiness: before flattening and after
	emptyTests := 0
	for _, e := range m.G.Events("test") {
		if regexp.MustCompile(`^\(len\(.*\) == 0\)$`).MatchString(e.Args[0]) {
			emptyTests++
		}
	}
	distinct := map[string]bool{}
	for _, e := range m.G.Events("test") {
		if regexp.MustCompile(`^\(len\(.*\) == 0\)$`).MatchString(e.Args[0]) {
			distinct[e.Site] = true
		}
	}
	if len(distinct) < 2 {
		problems = append(problems, "emptiness is not tested both before and after flattening a single array argument (an empty array would have nothing to compare)")
	}
	// the elements of an array argument are compared only when that array is the one and only argument: an element of
	// arguments[0] is converted to a number only on paths that have found len(arguments) == 1
	flat := Monitor{Init: "?", Also: map[string]bool{"typetest": true}, Step: func(s string, ev *Event) string {
		switch ev.Op {
		case "test":
			t := strings.ReplaceAll(normName(ev.Args[0]), " ", "")
			if t == "(len(arguments)==1)" || t == "(1==len(arguments))" {
				if ev.Out == "true" {
					return "single"
				}
				return "several"
			}
		case "call":
			if len(ev.Args) > 1 && strings.HasPrefix(ev.Args[1], "arguments[0][") && s != "single" {
				return "!an element of the first argument (" + ev.Args[1] + ") is taken as a comparand on a path that has not found the array to be the only argument: with an array first, the other arguments are dropped without a word"
			}
		}
		return s
	}}
	for _, w := range m.G.Run(flat) {
		problems = append(problems, w.Msg)
	}
	problems = uniqStrings(sortStrings(problems))
	if len(problems) == 0 {
		l.Discharge(rule, name, p.Pos(callFn.Pos()), "fold (in "+p.FuncKey(fi.fn)+"): every way round the loop keeps the accumulator only after finding 'element "+wantOp.String()+" accumulator' false and replaces it only after finding it true or on the first element; return acc; empty input rejected before and after flattening", true)
	} else {
		l.Violate(rule, name, p.Pos(callFn.Pos()), strings.Join(problems, " || "))
	}
}
