package main

import (
	"fmt"
	"go/types"
	"os"
	"strings"

	"golang.org/x/tools/go/ssa"
)

// debugDump prints the event graph of one scenario (developer aid):
//
//	bornocheck -debug 'clause:*ast.While'   |  func:interpreter.(*Function).Call
func debugDump(p *Prog, what string) {
	var g *Graph
	var und []string
	switch {
	case strings.HasPrefix(what, "clause:"):
		m, mc := ExploreEvalClause(p, strings.TrimPrefix(what, "clause:"), false)
		g, und = m.G, m.Undecided
		fmt.Printf("states=%d paths=%d\n", mc.States, mc.Paths)
	case strings.HasPrefix(what, "func:"):
		fn := p.Func(strings.TrimPrefix(what, "func:"))
		if fn == nil {
			fmt.Println("no such function")
			os.Exit(2)
		}
		m := NewInterpModel(p, what)
		m.EmitTests = os.Getenv("DBGTESTS") != ""
		var prms []AV
		if m.EmitTests {
			for _, prm := range fn.Params {
				prms = append(prms, Sym(prm.Name()))
			}
		}
		mc := m.Explore(fn, prms, nil)
		g, und = m.G, m.Undecided
		fmt.Printf("states=%d paths=%d\n", mc.States, mc.Paths)
	default:
		if f, ok := debugHooks[strings.SplitN(what, ":", 2)[0]]; ok {
			f(p, what)
			return
		}
		fmt.Println("unknown debug target")
		return
	}
	fmt.Println("undecided:", und)
	printGraph(g)
}

var debugHooks = map[string]func(p *Prog, what string){}

func printGraph(g *Graph) {
	// collapse ε edges for readability: print event edges between "event nodes"
	fmt.Printf("graph %s: %d nodes %d edges\n", g.Name, len(g.Out), g.NumEdges())
	// ε-closure
	var closure func(n int, seen map[int]bool, out *[]GEdge)
	closure = func(n int, seen map[int]bool, out *[]GEdge) {
		if seen[n] {
			return
		}
		seen[n] = true
		for _, e := range g.Out[n] {
			if e.Ev == nil {
				closure(e.To, seen, out)
			} else {
				*out = append(*out, e)
			}
		}
	}
	printed := map[int]bool{}
	var walk func(n int, depth int)
	walk = func(n int, depth int) {
		var es []GEdge
		closure(n, map[int]bool{}, &es)
		for _, e := range es {
			fmt.Printf("%s%d -- %s %v--> %d\n", strings.Repeat(" ", depth), n, e.Ev.String(), e.Ev.KV, e.To)
			if !printed[e.To] {
				printed[e.To] = true
				walk(e.To, depth+1)
			}
		}
	}
	walk(g.Start, 0)
}

func init() {
	debugHooks["words"] = func(p *Prog, what string) {
		fn := p.Func(strings.TrimPrefix(what, "words:"))
		if fn == nil {
			fmt.Println("no such function")
			return
		}
		m := NewInterpModel(p, what)
		var params []AV
		for _, prm := range fn.Params {
			params = append(params, Sym(prm.Name()))
		}
		m.Explore(fn, params, nil)
		ws, ok := m.G.Words(500)
		fmt.Println("ok:", ok, "words:", len(ws), "undecided:", m.Undecided)
		seen := map[string]bool{}
		for _, w := range ws {
			s := wordString(w)
			if !seen[s] {
				seen[s] = true
				fmt.Println("  ", s)
			}
		}
	}
}

func init() {
	debugHooks["main"] = func(p *Prog, what string) {
		fn := p.Func(strings.TrimPrefix(what, "main:"))
		if fn == nil {
			fmt.Println("no such function")
			return
		}
		m := NewInterpModel(p, what)
		m.MainMode = true
		var params []AV
		for _, prm := range fn.Params {
			params = append(params, Sym(prm.Name()))
		}
		m.Explore(fn, params, nil)
		ws, ok := m.G.Words(500)
		fmt.Println("ok:", ok, "words:", len(ws), "undecided:", m.Undecided)
		if !ok {
			printGraph(m.G)
			return
		}
		seen := map[string]bool{}
		for _, w := range ws {
			s := wordString(w)
			if !seen[s] {
				seen[s] = true
				fmt.Println("  ", s)
			}
		}
	}
}

func init() {
	debugHooks["cw"] = func(p *Prog, what string) {
		t := strings.TrimPrefix(what, "cw:")
		ii := p.Interp()
		m := NewInterpModel(p, "eval/"+t)
		m.EmitTests = true
		m.SignalsFor = func(types.Type) []int { return []int{0} }
		m.Explore(ii.Eval, []AV{Sym("i"), Sym("e"), Sym("env"), Sym("isRepl")}, func(st *State) {
			st.Facts["type:e"] = StrV(t)
		})
		ws, ok := m.G.Words(3000)
		fmt.Println("ok:", ok, len(ws))
		seen := map[string]bool{}
		for _, w := range ws {
			s := normName(wordStringQuiet(w))
			if !seen[s] {
				seen[s] = true
				fmt.Println("  ", s)
			}
		}
	}
}

func init() {
	debugHooks["lex"] = func(p *Prog, what string) {
		fn := p.Func("lexer.(*Scanner)." + strings.TrimPrefix(what, "lex:"))
		if fn == nil {
			fmt.Println("no such scanner method")
			return
		}
		m := NewLexModel(p, what)
		mc := m.Explore(fn, "F")
		fmt.Println("states:", mc.States, "undecided:", m.Undecided)
		ws, ok := m.G.Words(400)
		fmt.Println("acyclic:", ok, "words:", len(ws))
		if ok {
			seen := map[string]bool{}
			for _, w := range ws {
				var parts []string
				for _, e := range w {
					s := e.String()
					if e.Op == "consume" {
						s += fmt.Sprintf("{nl:%s may:%s unsafe:%v}", e.KV["newline"], e.KV["may"], e.KV["unsafe"] != "")
					}
					if e.Op == "return" {
						s += fmt.Sprintf("{first:%s tok:%s err:%s owed:%s def:%s}", e.KV["first"], e.KV["tok"], e.KV["err"], e.KV["owed"], e.KV["deferred"])
					}
					parts = append(parts, s)
				}
				s := normName(strings.Join(parts, " ; "))
				if !seen[s] {
					seen[s] = true
					fmt.Println("  ", s)
				}
			}
		} else {
			printGraph(m.G)
		}
	}
}

func init() {
	debugHooks["parse"] = func(p *Prog, what string) {
		fn := p.Func("parser.(*Parser)." + strings.TrimPrefix(what, "parse:"))
		if fn == nil {
			fmt.Println("no such parser method")
			return
		}
		m, mc := ExploreParseFn(p, fn)
		fmt.Println("states:", mc.States, "undecided:", m.Undecided)
		ws, ok := m.G.Words(300)
		fmt.Println("acyclic:", ok, "words:", len(ws))
		if ok {
			seen := map[string]bool{}
			for _, w := range ws {
				s := normName(wordString(w))
				if !seen[s] {
					seen[s] = true
					fmt.Println("  ", s)
				}
			}
		} else {
			printGraph(m.G)
		}
	}
}

func init() {
	debugHooks["fingerprints"] = func(p *Prog, what string) {
		fmt.Println("package main")
		fmt.Println()
		fmt.Println("// generated by `bornocheck -debug fingerprints` on the tree the rules were confirmed on (seeded/BASE)")
		fmt.Println("var expectedFuncs = map[string]string{")
		for _, fn := range p.ModuleFuncs() {
			if fn.Parent() != nil || strings.Contains(fn.Synthetic, "package initializer") {
				continue
			}
			fmt.Printf("\t%q: %q,\n", p.rawFuncKey(fn), fingerprint(p, fn))
		}
		fmt.Println("}")
	}
}

func init() {
	debugHooks["rets"] = func(p *Prog, what string) { debugRets(p) }
	debugHooks["children"] = func(p *Prog, what string) { debugChildren(p) }
	debugHooks["nonnil"] = func(p *Prog, what string) {
		w := p.Wiring()
		debugNonNil = true
		w.memo = map[*ssa.Function]int{}
		for _, fn := range p.ModuleFuncs() {
			if fn.Package() == nil || fn.Package().Pkg.Name() != "parser" || fn.Signature.Results().Len() != 2 {
				continue
			}
			fmt.Println(fn.Name(), w.nonNilOnSuccess(fn))
		}
		for _, k := range w.Keys() {
			fmt.Println(k, "nullable:", w.Nullable(k))
		}
	}
}

func init() {
	debugHooks["coerce"] = func(p *Prog, what string) {
		parts := strings.SplitN(strings.TrimPrefix(what, "coerce:"), "/", 2)
		fn := p.Func("interpreter." + parts[0])
		m := NewInterpModel(p, what)
		m.EmitTests = true
		m.KeepAsEvent = func(c *ssa.Function) bool { return fnName(c) == "ConvertBanglaDigitsToASCII" }
		m.Unroll = 1
		m.Explore(fn, []AV{Sym("value")}, func(st *State) { st.Facts["type:value"] = StrV(parts[1]) })
		printGraph(m.G)
	}
}

func init() {
	debugHooks["prim"] = func(p *Prog, what string) {
		for _, n := range []string{"isAtEnd", "peek", "peekNext", "advance", "match"} {
			fn := p.Func("lexer.(*Scanner)." + n)
			if fn == nil {
				continue
			}
			for _, w := range primitiveWords(p, fn) {
				fmt.Println(n, "::", w)
			}
		}
	}
}

func init() {
	debugHooks["iseq"] = func(p *Prog, what string) {
		ts := strings.TrimPrefix(what, "iseq:")
		fn := p.Func("interpreter.isEqual")
		m := NewInterpModel(p, "isEqual["+ts+"]")
		m.EmitTests = true
		m.KeepAsEvent = func(c *ssa.Function) bool { return false }
		m.Explore(fn, []AV{Sym("a"), Sym("b")}, func(st *State) { st.Facts["type:a"] = StrV(ts) })
		ws, _ := m.G.Words(100)
		for _, w := range ws {
			fmt.Println(normName(wordString(w)))
		}
	}
}

func debugChildren(p *Prog) {
	cs := getClauses(p)
	seen := map[string]bool{}
	for _, m := range cs.all() {
		for _, e := range m.G.Events("eval") {
			k := m.Scenario + " :: " + e.KV["child"] + " :: " + e.KV["env"]
			if !seen[k] {
				seen[k] = true
				fmt.Println(k)
			}
		}
	}
}

func debugRets(p *Prog) {
	pinfo := getParser(p)
	seen := map[string]bool{}
	for _, name := range pinfo.Names {
		for _, pt := range successPaths(pinfo.Models[name]) {
			k := name + " :: " + pt.ret
			if !seen[k] {
				seen[k] = true
				fmt.Println(k)
			}
		}
	}
}
