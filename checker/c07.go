package main

import (
	"fmt"
	"go/token"
	"go/types"
	"sort"
	"strconv"
	"strings"

	"golang.org/x/tools/go/ssa"
)

func init() {
	register("C07", &Checker{
		Run: checkC07,
		Explain: "Decided: every SSA instruction kind that can panic or kill a Go process is enumerated over all module functions reachable from main.main and each occurrence is discharged by a rule — P1 type assertions must be comma-ok; P2 interface ==/!= operands must not share an uncomparable dynamic type (value universe narrowed by the dominating type-switch arms); P3 every index/slice expression needs dominating facts 0 <= i < len(s) on the same expression (difference-bound reasoning over guards, executed index expressions and who-writes field invariants; the lexer/parser cursor sites by the named lemmas b, c, d which are re-proved by exploring the scanner and parser with the abstract machine; Function.Call's arguments[k] by lemma a); P4 integer division needs a non-zero divisor; P5 signed shift counts need a dominating count >= 0; P6 nil: eval never returns a nil signal, maps stored into are made, Environment values come only from the constructors; P7 no panic/log.Fatal/os.Exit reachable from run; P8 every recursive call either descends structurally into the node it was given or is reported (the eval→Function.Call→eval cycle has no depth bound: known finding, set aside by the property itself); P9 fmt %v over containers that a program can make cyclic is reported (known finding); P10 no goroutines, channels, select, unsafe, slice-to-array conversions, non-constant make sizes. " +
			"Inherited: the standard-library functions called do not panic on the arguments these sites can pass. Not decided: stack depth for deeply nested *syntax* (bounded by input length; Go's 1 GB stack assumed sufficient).",
		Rule:    "obligation = (panic class, instruction site keyed by function and operand expression); non-trivial = discharged through a guard/invariant/lemma argument rather than by constant operands",
		Trusted: []string{"go/ssa instruction semantics (which instructions can panic)", "VTA call graph for reachability", "standard library does not panic on well-typed arguments"},
	})
}

func checkC07(p *Prog, l *Ledger) {
	mainFn := p.Func("main.main")
	if mainFn == nil {
		l.Undecide("C07/anchors", "main.main", "", "not found")
		return
	}
	reach := p.Reachable(mainFn)
	runFn := p.Func("main.run")
	var fromRun map[*ssa.Function]bool
	if runFn != nil {
		fromRun = p.Reachable(runFn)
	} else {
		l.Undecide("C07/anchors", "main.run", "", "run() not found: cannot scope P7")
		fromRun = reach
	}
	u := p.BuildUniverse()
	bp := NewBoundsProver(p)
	l.Extra["field_invariants"] = bp.inv.Explain
	lem := newLemmas(p, l)
	counts := map[string]int{}
	var fns []*ssa.Function
	for _, fn := range p.ModuleFuncs() {
		if reach[fn] || (l.Tier == "thorough" && !strings.Contains(fn.Synthetic, "package initializer")) {
			fns = append(fns, fn)
		}
	}
	for _, fn := range fns {
		fk := p.FuncKey(fn)
		advisory := !reach[fn]
		l.Funcs[fk] = true
		seenKey := map[string]int{}
		mk := func(s string) string {
			seenKey[s]++
			if seenKey[s] > 1 {
				return fmt.Sprintf("%s#%d", s, seenKey[s])
			}
			return s
		}
		report := func(rule, key, pos, why string) {
			if advisory {
				l.Note("advisory (unreachable from main): %s @ %s: %s", rule, key, why)
				return
			}
			l.Violate(rule, key, pos, why)
		}
		instrsOf(fn, func(in ssa.Instruction) {
			switch x := in.(type) {
			case *ssa.TypeAssert:
				counts["P1"]++
				key := mk(fk + "#assert(" + describe(x.X) + ")." + typeStr(x.AssertedType))
				if x.CommaOk {
					l.Discharge("C07/P1-type-assert", key, p.InstrPos(in), "comma-ok form", false)
				} else {
					report("C07/P1-type-assert", key, p.InstrPos(in), "type assertion without comma-ok on an interface value panics when the dynamic type differs")
				}
			case *ssa.BinOp:
				switch x.Op {
				case token.EQL, token.NEQ:
					if !isIfaceT(x.X.Type()) || !isIfaceT(x.Y.Type()) {
						return
					}
					if isNilConst(x.X) || isNilConst(x.Y) {
						return
					}
					counts["P2"]++
					key := mk(fk + "#" + describe(x.X) + x.Op.String() + describe(x.Y))
					tx, ty := dynTypes(p, u, x.X, in), dynTypes(p, u, x.Y, in)
					var bad []string
					for ts, t := range tx {
						if _, both := ty[ts]; both && !safeComparable(t) {
							bad = append(bad, ts)
						}
					}
					sort.Strings(bad)
					if len(bad) == 0 {
						l.Discharge("C07/P2-iface-compare", key, p.InstrPos(in), fmt.Sprintf("operand dynamic types (%d × %d after narrowing by dominating type tests) share no uncomparable type", len(tx), len(ty)), true)
					} else {
						report("C07/P2-iface-compare", key, p.InstrPos(in), "interface comparison panics ('comparing uncomparable type') when both operands hold "+strings.Join(bad, " or "))
					}
				case token.QUO, token.REM:
					if !isIntegerT(x.Type()) {
						return
					}
					counts["P4"]++
					key := mk(fk + "#" + describe(x.X) + x.Op.String() + describe(x.Y))
					if ok, why := bp.ProveNonZero(in, x.Y); ok {
						l.Discharge("C07/P4-int-division", key, p.InstrPos(in), why, true)
					} else {
						report("C07/P4-int-division", key, p.InstrPos(in), "integer division/modulo: "+why)
					}
				case token.SHL, token.SHR:
					counts["P5"]++
					key := mk(fk + "#" + describe(x.X) + x.Op.String() + describe(x.Y))
					if c, ok := constInt(x.Y); ok && c >= 0 {
						l.Discharge("C07/P5-shift", key, p.InstrPos(in), "constant non-negative count", false)
						return
					}
					if ok, why := bp.ProveNonNeg(in, x.Y); ok {
						l.Discharge("C07/P5-shift", key, p.InstrPos(in), why, true)
					} else {
						report("C07/P5-shift", key, p.InstrPos(in), "shift by a signed count panics when negative: "+why)
					}
				}
			case *ssa.IndexAddr:
				counts["P3"]++
				checkIndex(p, l, bp, lem, fk, mk, report, in, x.X, x.Index)
			case *ssa.Index:
				counts["P3"]++
				checkIndex(p, l, bp, lem, fk, mk, report, in, x.X, x.Index)
			case *ssa.Slice:
				counts["P3"]++
				key := mk(fk + "#slice(" + describe(x.X) + ")[" + descOpt(x.Low) + ":" + descOpt(x.High) + "]")
				if _, isArrPtr := derefT(x.X.Type()).Underlying().(*types.Array); isArrPtr && x.Low == nil && x.High == nil {
					l.Discharge("C07/P3-index", key, p.InstrPos(in), "whole array", false)
					return
				}
				if x.Low == nil && x.High == nil {
					l.Discharge("C07/P3-index", key, p.InstrPos(in), "full slice", false)
					return
				}
				if ok, why := bp.ProveSlice(x); ok {
					l.Discharge("C07/P3-index", key, p.InstrPos(in), why, true)
				} else if ok2, why2, handled := lem.slice(fn, x); handled {
					if ok2 {
						l.Discharge("C07/P3-index", key, p.InstrPos(in), why2, true)
					} else {
						report("C07/P3-index", key, p.InstrPos(in), why2)
					}
				} else if ok3, why3 := pathSensitiveSliceProof(p, in); ok3 {
					l.Discharge("C07/P3-index", key, p.InstrPos(in), why3, true)
				} else {
					report("C07/P3-index", key, p.InstrPos(in), "slice bounds: "+why)
				}
			case *ssa.Panic:
				counts["P7"]++
				if fromRun[fn] {
					report("C07/P7-abort", mk(fk+"#panic"), p.InstrPos(in), "explicit panic reachable from run()")
				}
			case ssa.CallInstruction:
				if _, isGo := x.(*ssa.Go); isGo {
					report("C07/P10-other", mk(fk+"#go"), p.InstrPos(in), "go statement (a panic in another goroutine cannot be reported as a runtime error)")
				}
				for _, c := range p.Callees(x) {
					name := extName(c)
					if fromRun[fn] && (name == "os.Exit" || strings.HasPrefix(name, "log.Fatal") || strings.HasPrefix(name, "log.Panic") || name == "runtime.Goexit") {
						counts["P7"]++
						report("C07/P7-abort", mk(fk+"#"+name), p.InstrPos(in), name+" reachable from run(): a program could end the interpreter without the runtime-error protocol")
					}
				}
				checkFmtCycle(p, l, u, fk, mk, report, x)
			case *ssa.MakeSlice:
				counts["P10"]++
				key := mk(fk + "#make-slice")
				okLen := func(v ssa.Value) bool {
					if c, ok := constInt(v); ok {
						return c >= 0
					}
					return lenArg(v) != nil
				}
				if okLen(x.Len) && okLen(x.Cap) {
					l.Discharge("C07/P10-other", key, p.InstrPos(in), "make with constant or len()-derived size", false)
				} else {
					report("C07/P10-other", key, p.InstrPos(in), "make with a size that is neither constant nor a len(): panics when negative or huge")
				}
			case *ssa.MakeChan, *ssa.Select, *ssa.Send:
				report("C07/P10-other", mk(fk+"#chan"), p.InstrPos(in), "channel operation")
			case *ssa.SliceToArrayPointer:
				report("C07/P10-other", mk(fk+"#slice-to-array"), p.InstrPos(in), "slice to array conversion panics on short slices")
			case *ssa.Lookup:
				// a map keyed by interface values hashes the dynamic value: a slice, map or function as key panics
				// ("hash of unhashable type") exactly like comparing two of them
				if mt, isMap := x.X.Type().Underlying().(*types.Map); isMap && isIfaceT(mt.Key()) {
					counts["P2"]++
					key := mk(fk + "#key(" + describe(x.X) + ")[" + describe(x.Index) + "]")
					var bad []string
					for ts, t := range dynTypes(p, u, x.Index, in) {
						if !safeComparable(t) {
							bad = append(bad, ts)
						}
					}
					sort.Strings(bad)
					if len(bad) == 0 {
						l.Discharge("C07/P2-iface-compare", key, p.InstrPos(in), "every dynamic type the key can have is hashable", true)
					} else {
						report("C07/P2-iface-compare", key, p.InstrPos(in), "a map keyed by interface values is looked up with a key that may hold "+strings.Join(bad, " or ")+": hashing it panics ('hash of unhashable type')")
					}
				}
			case *ssa.MapUpdate:
				if mt, isMap := x.Map.Type().Underlying().(*types.Map); isMap && isIfaceT(mt.Key()) {
					counts["P2"]++
					key := mk(fk + "#key(" + describe(x.Map) + ")[" + describe(x.Key) + "]=")
					var bad []string
					for ts, t := range dynTypes(p, u, x.Key, in) {
						if !safeComparable(t) {
							bad = append(bad, ts)
						}
					}
					sort.Strings(bad)
					if len(bad) == 0 {
						l.Discharge("C07/P2-iface-compare", key, p.InstrPos(in), "every dynamic type the key can have is hashable", true)
					} else {
						report("C07/P2-iface-compare", key, p.InstrPos(in), "a map keyed by interface values is stored into with a key that may hold "+strings.Join(bad, " or ")+": hashing it panics ('hash of unhashable type')")
					}
				}
				counts["P6"]++
				key := mk(fk + "#mapstore(" + describe(x.Map) + ")")
				if ok, why := mapNonNil(p, x.Map, in.Block()); ok {
					l.Discharge("C07/P6-nil", key, p.InstrPos(in), why, true)
				} else {
					report("C07/P6-nil", key, p.InstrPos(in), "store into a map that is not provably made: "+why)
				}
			}
		})
	}
	l.CallSites = counts["P1"] + counts["P2"] + counts["P3"] + counts["P4"] + counts["P5"] + counts["P6"]
	l.Extra["class_counts"] = counts
	checkEvalNeverNilSignal(p, l)
	checkTypedNil(p, l, fns, reach)
	checkEnvConstruction(p, l)
	checkRecursion(p, l, reach)
	// Environment.Get/Assign walk along Parent: the chain is finite because Parent is fixed at construction (shared with C03)
	l.As(map[string]string{"C03/S1-environment-shape": "C07/P8-recursion/env-chain"}, func() { checkEnvConstructors(p, l) })
	lem.finish()
	// vacuity floors (anchor families that must resolve)
	if counts["P1"] < 20 {
		l.Violate("C07/vacuity", "P1-type-assertions", "", fmt.Sprintf("only %d type assertions seen (expected >= 20)", counts["P1"]))
	}
	if counts["P3"] < 25 {
		l.Violate("C07/vacuity", "P3-index-sites", "", fmt.Sprintf("only %d index/slice sites seen (expected >= 25)", counts["P3"]))
	}
	if counts["P2"] < 1 {
		l.Violate("C07/vacuity", "P2-iface-compare", "", "no interface comparison found (isEqual must exist)")
	}
	if counts["P5"] < 2 {
		l.Violate("C07/vacuity", "P5-shifts", "", "fewer than 2 shift sites found")
	}
}

func descOpt(v ssa.Value) string {
	if v == nil {
		return ""
	}
	return describe(v)
}

func isIfaceT(t types.Type) bool {
	_, ok := t.Underlying().(*types.Interface)
	return ok
}

func isNilConst(v ssa.Value) bool {
	c, ok := v.(*ssa.Const)
	return ok && c.Value == nil
}

func safeComparable(t types.Type) bool {
	if !types.Comparable(t) {
		return false
	}
	// structs/arrays with interface-typed parts are comparable statically but may panic dynamically
	var hasIface func(t types.Type, d int) bool
	hasIface = func(t types.Type, d int) bool {
		if d > 4 {
			return false
		}
		switch u := t.Underlying().(type) {
		case *types.Struct:
			for i := 0; i < u.NumFields(); i++ {
				if isIfaceT(u.Field(i).Type()) || hasIface(u.Field(i).Type(), d+1) {
					return true
				}
			}
		case *types.Array:
			return isIfaceT(u.Elem()) || hasIface(u.Elem(), d+1)
		}
		return false
	}
	return !hasIface(t, 0)
}

// dynTypes: possible dynamic types of interface value v at instruction `at`:
// the universe (for interface{}) narrowed by dominating comma-ok assertions on the same value.
func dynTypes(p *Prog, u *Universe, v ssa.Value, at ssa.Instruction) map[string]types.Type {
	out := map[string]types.Type{}
	v = stripChangeIface(v)
	if mi, ok := v.(*ssa.MakeInterface); ok {
		out[typeStr(mi.X.Type())] = mi.X.Type()
		return out
	}
	if ft, ok := fieldFlowTypes(p, u, v, map[string]bool{}); ok {
		for ts, t := range ft {
			out[ts] = t
		}
	} else if isEmptyInterface(v.Type()) {
		for _, t := range u.TypeList() {
			out[typeStr(t)] = t
		}
	} else {
		// a named interface: all module types implementing it
		it := v.Type().Underlying().(*types.Interface)
		for _, pk := range p.Pkgs {
			sc := pk.Types.Scope()
			for _, n := range sc.Names() {
				if tn, ok := sc.Lookup(n).(*types.TypeName); ok {
					if types.Implements(tn.Type(), it) {
						out[typeStr(tn.Type())] = tn.Type()
					}
					if pt := types.NewPointer(tn.Type()); types.Implements(pt, it) {
						out[typeStr(pt)] = pt
					}
				}
			}
		}
		if len(out) == 0 {
			out["<unknown "+typeStr(v.Type())+">"] = types.NewSlice(types.Typ[types.Int]) // be conservative: treat as uncomparable
		}
	}
	// narrowing by guards
	for _, g := range GuardsAt(at.Block()) {
		ex, ok := g.Cond.(*ssa.Extract)
		if !ok || ex.Index != 1 {
			continue
		}
		ta, ok := ex.Tuple.(*ssa.TypeAssert)
		if !ok || stripChangeIface(ta.X) != v {
			continue
		}
		if g.Truth {
			if isIfaceT(ta.AssertedType) {
				it := ta.AssertedType.Underlying().(*types.Interface)
				for ts, t := range out {
					if !types.Implements(t, it) {
						delete(out, ts)
					}
				}
			} else {
				out = map[string]types.Type{typeStr(ta.AssertedType): ta.AssertedType}
			}
		} else {
			if isIfaceT(ta.AssertedType) {
				it := ta.AssertedType.Underlying().(*types.Interface)
				for ts, t := range out {
					if types.Implements(t, it) {
						delete(out, ts)
					}
				}
			} else {
				delete(out, typeStr(ta.AssertedType))
			}
		}
	}
	// multi-type case arm: every predecessor edge is the success edge of an assertion on v
	b := at.Block()
	if len(b.Preds) > 1 {
		union := map[string]types.Type{}
		all := true
		for _, pr := range b.Preds {
			iff, ok := pr.Instrs[len(pr.Instrs)-1].(*ssa.If)
			if !ok || pr.Succs[0] != b {
				all = false
				break
			}
			ex, ok := iff.Cond.(*ssa.Extract)
			if !ok {
				all = false
				break
			}
			ta, ok := ex.Tuple.(*ssa.TypeAssert)
			if !ok || stripChangeIface(ta.X) != v || isIfaceT(ta.AssertedType) {
				all = false
				break
			}
			union[typeStr(ta.AssertedType)] = ta.AssertedType
		}
		if all {
			for ts := range out {
				if _, ok := union[ts]; !ok {
					delete(out, ts)
				}
			}
		}
	}
	return out
}

func stripChangeIface(v ssa.Value) ssa.Value {
	for {
		switch x := v.(type) {
		case *ssa.ChangeInterface:
			v = x.X
		case *ssa.ChangeType:
			v = x.X
		default:
			return v
		}
	}
}

func checkIndex(p *Prog, l *Ledger, bp *BoundsProver, lem *lemmas, fk string, mk func(string) string,
	report func(rule, key, pos, why string), in ssa.Instruction, s, idx ssa.Value) {
	key := mk(fk + "#" + describe(s) + "[" + describe(idx) + "]")
	switch t := derefT(s.Type()).Underlying().(type) {
	case *types.Array:
		if c, ok := constInt(idx); ok && c >= 0 && c < t.Len() {
			l.Discharge("C07/P3-index", key, p.InstrPos(in), "constant index into a fixed-size array", false)
			return
		}
	case *types.Map:
		return
	}
	if ok, why := bp.ProveIndex(in, s, idx); ok {
		l.Discharge("C07/P3-index", key, p.InstrPos(in), why, true)
		return
	} else if ok2, why2, handled := lem.index(in, s, idx); handled {
		if ok2 {
			l.Discharge("C07/P3-index", key, p.InstrPos(in), why2, true)
		} else {
			report("C07/P3-index", key, p.InstrPos(in), why2)
		}
		return
	} else if ok3, why3 := pathSensitiveIndexProof(p, in); ok3 {
		l.Discharge("C07/P3-index", key, p.InstrPos(in), why3, true)
	} else {
		report("C07/P3-index", key, p.InstrPos(in), "index not proven in range: "+why+" ("+why3+")")
	}
}

// pathSensitiveIndexProof: second prover for index sites whose guards are not dominating branch conditions
// of the same function (e.g. the bounds tests live in an extracted helper): every abstract path of the
// explored evaluator/built-in models that reaches the index instruction must carry the facts
// (idx < 0)=false and (idx < len(base))=true for the very idx and base used.
func pathSensitiveIndexProof(p *Prog, in ssa.Instruction) (bool, string) {
	pos := p.InstrPos(in)
	fn := in.Parent()
	var graphs []*Graph
	if fnPkgName(fn) == "interpreter" {
		cs := getClauses(p)
		if len(cs.Probs) > 0 {
			return false, "evaluator not explorable"
		}
		for _, m := range cs.all() {
			graphs = append(graphs, m.G)
		}
		scratch := NewLedger("tmp", "quick", 0, "")
		for _, m := range exploreNatives(p, scratch) {
			graphs = append(graphs, m.G)
		}
	}
	if len(graphs) == 0 {
		return false, "no path-sensitive model covers this function"
	}
	n := 0
	for _, g := range graphs {
		for _, es := range g.Out {
			for _, e := range es {
				if e.Ev == nil || e.Ev.Op != "index" || e.Ev.Pos != pos {
					continue
				}
				n++
				base, idx := e.Ev.Args[0], e.Ev.Args[1]
				facts := ";" + e.Ev.KV["facts"] + ";"
				lower := strings.Contains(facts, ";("+idx+" < 0)=false;")
				upper := strings.Contains(facts, ";("+idx+" < len("+base+"))=true;")
				if k, err := strconv.ParseInt(idx, 10, 64); err == nil {
					// a constant position (the k-th argument read through a cursor): the path has compared the length
					lower = k >= 0
					for _, f := range strings.Split(e.Ev.KV["facts"], ";") {
						var n int64
						switch {
						case scan(f, "(len("+base+") == %d)=true", &n) && n > k,
							scan(f, "(len("+base+") < %d)=false", &n) && n > k,
							scan(f, "(%d < len("+base+"))=true", &n) && n >= k,
							scan(f, "(len("+base+") == %d)=false", &n) && n == 0 && k == 0:
							upper = true
						}
					}
				}
				if !lower || !upper {
					return false, fmt.Sprintf("a path reaches %s[%s] without having established 0 <= index < len (facts: %s)", base, idx, e.Ev.KV["facts"])
				}
			}
		}
	}
	if n == 0 {
		return false, "the index instruction is not reached by any explored path"
	}
	return true, fmt.Sprintf("path-sensitive proof: all %d explored path states reaching this instruction carry (index < 0)=false and (index < len(array))=true for the very operands used", n)
}

// mapNonNil: the map operand of a store is a fresh make, the Values field of an Environment (made by
// both constructors, checked separately), or the payload of a successful type assertion / type switch
// (the universe only contains made maps: checked by checkEnvConstruction's sibling below).
func mapNonNil(p *Prog, m ssa.Value, at *ssa.BasicBlock) (bool, string) {
	switch x := m.(type) {
	case *ssa.MakeMap:
		return true, "fresh make"
	case *ssa.Extract:
		if ta, ok := x.Tuple.(*ssa.TypeAssert); ok && x.Index == 0 {
			_ = ta
			return mapsInUniverseAreMade(p)
		}
		// the map a helper hands back together with an error / a stop signal, used where that is known to be nil:
		// what the helper returns on those paths
		if vals, ok := correlatedReturns(p, x, at); ok && len(vals) > 0 {
			for _, v := range vals {
				in, _ := v.(ssa.Instruction)
				var blk *ssa.BasicBlock
				if in != nil {
					blk = in.Block()
				}
				if blk == nil {
					return false, "helper result " + describe(v) + " has no recognised provenance"
				}
				if ok, why := mapNonNil(p, v, blk); !ok {
					return false, why
				}
			}
			return true, "result of a helper on the paths where its error/stop result is nil: " + "a made map or the payload of a successful type test"
		}
	case *ssa.TypeAssert:
		return mapsInUniverseAreMade(p)
	case *ssa.UnOp:
		if fa, ok := x.X.(*ssa.FieldAddr); ok && x.Op == token.MUL {
			tn, f := structKey(fa.X.Type(), fa.Field)
			if tn == "environment.Environment" && f == "Values" {
				return true, "Environment.Values is made by both constructors (C07/P6-nil env-construction)"
			}
			if ok, why := fieldAlwaysMadeMap(p, tn, f); ok {
				return true, why
			}
		}
	case *ssa.Phi:
		for _, e := range x.Edges {
			if ok, why := mapNonNil(p, e, at); !ok {
				return false, why
			}
		}
		return true, "all incoming values are made maps"
	}
	return false, "operand " + describe(m) + " has no recognised provenance"
}

func mapsInUniverseAreMade(p *Prog) (bool, string) {
	u := p.BuildUniverse()
	var ok func(v ssa.Value, at *ssa.BasicBlock, seen map[ssa.Value]bool) bool
	ok = func(v ssa.Value, at *ssa.BasicBlock, seen map[ssa.Value]bool) bool {
		if seen[v] {
			return true
		}
		seen[v] = true
		switch x := v.(type) {
		case *ssa.MakeMap:
			return true
		case *ssa.Extract: // payload of a type test on a value that is itself a universe member (induction)
			if _, isTA := x.Tuple.(*ssa.TypeAssert); isTA {
				return x.Index == 0
			}
			// … or what a helper returned on the paths where its error / stop result is nil (the use is guarded by that)
			if vals, isCall := correlatedReturns(p, x, at); isCall && len(vals) > 0 {
				for _, r := range vals {
					in, _ := r.(ssa.Instruction)
					if in == nil || in.Block() == nil {
						return false
					}
					if !ok(r, in.Block(), seen) {
						return false
					}
				}
				return true
			}
			return false
		case *ssa.TypeAssert:
			return true
		case *ssa.Phi:
			for i, e := range x.Edges {
				if !ok(e, x.Block().Preds[i], seen) {
					return false
				}
			}
			return true
		}
		return false
	}
	for _, pr := range u.Producers {
		if pr.Kind != "object" {
			continue
		}
		if !ok(pr.In.X, pr.In.Block(), map[ssa.Value]bool{}) {
			return false, "object value produced at " + p.InstrPos(pr.In) + " may be a nil map"
		}
	}
	return true, "payload of a successful type test; every object value in the universe is a made map (or such a payload passed on)"
}

// checkEvalNeverNilSignal: every return of eval yields a non-nil *ControlFlowSignal (fresh allocation,
// or the signal of a nested eval) — signal.Type dereferences rely on it.
func checkEvalNeverNilSignal(p *Prog, l *Ledger) {
	ev := p.findEval()
	if ev == nil {
		l.Undecide("C07/P6-nil", "eval", "", "evaluator not found")
		return
	}
	n := 0
	bad := 0
	helperSeen := map[*ssa.Function]bool{}
	paramSeen := map[*ssa.Parameter]bool{}
	var check func(v ssa.Value, at *ssa.BasicBlock, seen map[ssa.Value]bool) bool
	blockOf := func(v ssa.Value, dflt *ssa.BasicBlock) *ssa.BasicBlock {
		if in, ok := v.(ssa.Instruction); ok && in.Block() != nil {
			return in.Block()
		}
		return dflt
	}
	check = func(v ssa.Value, at *ssa.BasicBlock, seen map[ssa.Value]bool) bool {
		if seen[v] {
			return true
		}
		seen[v] = true
		switch x := v.(type) {
		case *ssa.Alloc:
			return true
		case *ssa.Extract:
			if c, ok := x.Tuple.(*ssa.Call); ok && c.Call.StaticCallee() == ev && x.Index == 1 {
				return true
			}
			// the signal of a helper eval delegates to (evalFor …): every return of the helper that can have produced the
			// value used here (those consistent with the tests the caller made on the helper's other results) must qualify
			if c, ok := x.Tuple.(*ssa.Call); ok {
				if g := c.Call.StaticCallee(); g != nil && g != ev && p.InModule(g) && g.Blocks != nil && !helperSeen[g] {
					helperSeen[g] = true
					defer delete(helperSeen, g)
					vals, ok := correlatedReturns(p, x, at)
					if !ok || len(vals) == 0 {
						return false
					}
					for _, r := range vals {
						if !check(r, blockOf(r, g.Blocks[0]), map[ssa.Value]bool{}) {
							return false
						}
					}
					return true
				}
			}
		case *ssa.UnOp:
			// a field of a small local struct that carries the signal (settled{value, stop}): what the field holds here,
			// path by path — stored values must qualify, the edge of a `!= nil` test on the field settles that edge
			if fa, ok := x.X.(*ssa.FieldAddr); ok && x.Op == token.MUL {
				if al, ok := fa.X.(*ssa.Alloc); ok && localStructOnly(al) {
					return !localFieldMay(al, fa.Field, x.Block(), x, func(v ssa.Value, at *ssa.BasicBlock) bool {
						return !check(v, at, map[ssa.Value]bool{})
					}, map[*ssa.BasicBlock]bool{})
				}
			}
		case *ssa.Call:
			// `return nil, i.executeStatements(…)`: the signal is the single result of a helper — or of a function
			// value the helper was handed (every function the call graph finds for the call must qualify)
			var gs []*ssa.Function
			if g := x.Call.StaticCallee(); g != nil {
				gs = []*ssa.Function{g}
			} else if !x.Call.IsInvoke() {
				gs = p.Callees(x)
			}
			okAll := len(gs) > 0
			for _, g := range gs {
				if g == ev || !p.InModule(g) || g.Blocks == nil || helperSeen[g] {
					okAll = false
					break
				}
			}
			if okAll {
				for _, g := range gs {
					helperSeen[g] = true
				}
				defer func() {
					for _, g := range gs {
						delete(helperSeen, g)
					}
				}()
				all, any := true, false
				for _, g := range gs {
					instrsOf(g, func(in ssa.Instruction) {
						if ret, ok := in.(*ssa.Return); ok && len(ret.Results) == 1 {
							any = true
							if !check(ret.Results[0], in.Block(), map[ssa.Value]bool{}) {
								all = false
							}
						}
					})
				}
				return all && any
			}
		case *ssa.Phi:
			for i, e := range x.Edges {
				if !check(e, x.Block().Preds[i], seen) {
					return false
				}
			}
			return true
		case *ssa.Parameter:
			// a helper handing back the signal it was given (interrupted(signal)): every caller passes a qualifying value
			fn := x.Parent()
			if fn == nil || fn == ev || paramSeen[x] {
				return false
			}
			idx := -1
			for i, q := range fn.Params {
				if q == x {
					idx = i
				}
			}
			node := p.CG().Nodes[fn]
			if idx < 0 || node == nil || len(node.In) == 0 {
				return false
			}
			paramSeen[x] = true
			defer delete(paramSeen, x)
			for _, e := range node.In {
				if e.Site == nil || e.Site.Common().StaticCallee() != fn || idx >= len(e.Site.Common().Args) {
					return false
				}
				if !check(e.Site.Common().Args[idx], e.Site.Block(), map[ssa.Value]bool{}) {
					return false
				}
			}
			return true
		}
		// a value tested non-nil on the way to `at`
		for _, g := range GuardsAt(at) {
			if b, ok := g.Cond.(*ssa.BinOp); ok && (b.X == v && isNilConst(b.Y) || b.Y == v && isNilConst(b.X)) {
				if (b.Op == token.NEQ && g.Truth) || (b.Op == token.EQL && !g.Truth) {
					return true
				}
			}
		}
		return false
	}
	instrsOf(ev, func(in ssa.Instruction) {
		ret, ok := in.(*ssa.Return)
		if !ok || len(ret.Results) != 2 {
			return
		}
		n++
		guardedNonNil := false
		for _, g := range GuardsAt(in.Block()) {
			if b, ok := g.Cond.(*ssa.BinOp); ok && (b.X == ret.Results[1] && isNilConst(b.Y) || b.Y == ret.Results[1] && isNilConst(b.X)) {
				if (b.Op == token.NEQ && g.Truth) || (b.Op == token.EQL && !g.Truth) {
					guardedNonNil = true // `if stop != nil { return nil, stop }`
				}
			}
		}
		if !guardedNonNil && !check(ret.Results[1], in.Block(), map[ssa.Value]bool{}) {
			bad++
			l.Violate("C07/P6-nil", fmt.Sprintf("%s#return-signal(%s)", p.FuncKey(ev), describe(ret.Results[1])), p.InstrPos(in), "eval may return a nil control-flow signal here; every caller dereferences signal.Type")
		}
	})
	if bad == 0 {
		l.Discharge("C07/P6-nil", p.FuncKey(ev)+"#return-signal", "", fmt.Sprintf("all %d returns of eval yield a fresh signal or the signal of a nested eval (never nil, by induction)", n), true)
	}
	if n < 40 {
		l.Violate("C07/vacuity", "eval-returns", "", fmt.Sprintf("only %d returns found in eval", n))
	}
}

// checkEnvConstruction: Environment values are created only by the two constructors, which make Values.
func checkEnvConstruction(p *Prog, l *Ledger) {
	n := 0
	for _, fn := range p.ModuleFuncs() {
		instrsOf(fn, func(in ssa.Instruction) {
			al, ok := in.(*ssa.Alloc)
			if !ok {
				return
			}
			if typeStr(derefT(al.Type())) != "environment.Environment" {
				return
			}
			n++
			key := p.FuncKey(fn) + "#new(Environment)"
			made := false
			for _, r := range *al.Referrers() {
				if fa, ok := r.(*ssa.FieldAddr); ok && fieldName(fa.X.Type(), fa.Field) == "Values" {
					for _, r2 := range *fa.Referrers() {
						if st, ok := r2.(*ssa.Store); ok {
							if _, isMake := st.Val.(*ssa.MakeMap); isMake {
								made = true
							}
						}
					}
				}
			}
			if made {
				l.Discharge("C07/P6-nil", key, p.InstrPos(in), "constructor makes the Values table", true)
			} else {
				l.Violate("C07/P6-nil", key, p.InstrPos(in), "an Environment is created without making its Values map: Define would panic (assignment to entry in nil map)")
			}
		})
	}
	if n < 2 {
		l.Violate("C07/vacuity", "env-constructors", "", "fewer than 2 Environment allocations found")
	}
}

// checkFmtCycle (P9): fmt formatting of a value whose dynamic type can be a user-cyclable container.
func checkFmtCycle(p *Prog, l *Ledger, u *Universe, fk string, mk func(string) string, report func(rule, key, pos, why string), call ssa.CallInstruction) {
	c := call.Common().StaticCallee()
	if c == nil || fnPkgPath(c) != "fmt" {
		return
	}
	switch c.Name() {
	case "Sprintf", "Sprint", "Sprintln", "Printf", "Print", "Println", "Fprintf", "Fprint", "Fprintln", "Errorf":
	default:
		return
	}
	in := call.(ssa.Instruction)
	// %T never traverses the value
	format := ""
	for _, a := range call.Common().Args {
		if k, ok := a.(*ssa.Const); ok && k.Value != nil {
			format = k.Value.ExactString()
		}
	}
	for _, a := range call.Common().Args {
		sl, ok := a.(*ssa.Slice)
		if !ok {
			continue
		}
		al, ok := sl.X.(*ssa.Alloc)
		if !ok {
			continue
		}
		for _, r := range *al.Referrers() {
			ia, ok := r.(*ssa.IndexAddr)
			if !ok {
				continue
			}
			for _, r2 := range *ia.Referrers() {
				st, ok := r2.(*ssa.Store)
				if !ok {
					continue
				}
				v := st.Val
				if !isIfaceT(v.Type()) {
					continue
				}
				if strings.Contains(format, "%T") && !strings.Contains(format, "%v") && !strings.Contains(format, "%s") {
					continue
				}
				ts := dynTypes(p, u, v, in)
				var cyc []string
				for name, t := range ts {
					k := p.kindOf(t)
					if k == "array" || k == "object" {
						cyc = append(cyc, name)
					}
				}
				sort.Strings(cyc)
				if len(cyc) > 0 {
					key := mk(fk + "#fmt." + c.Name() + "(" + describe(v) + ")")
					report("C07/P9-cyclic-format", key, p.InstrPos(in), "fmt traverses "+strings.Join(cyc, ", ")+" recursively; a program can make such a container contain itself (a[0]=a), and fmt then recurses until the stack overflows (fatal error, not a panic)")
				}
			}
		}
	}
}

// checkRecursion (P8): every call that closes a cycle in the module call graph must descend structurally.
func checkRecursion(p *Prog, l *Ledger, reach map[*ssa.Function]bool) {
	cg := p.CG()
	// Tarjan SCC over module functions
	index := map[*ssa.Function]int{}
	low := map[*ssa.Function]int{}
	on := map[*ssa.Function]bool{}
	var stack []*ssa.Function
	comp := map[*ssa.Function]int{}
	nc := 0
	idx := 0
	var strong func(fn *ssa.Function)
	strong = func(fn *ssa.Function) {
		index[fn], low[fn] = idx, idx
		idx++
		stack = append(stack, fn)
		on[fn] = true
		if n := cg.Nodes[fn]; n != nil {
			for _, e := range n.Out {
				c := e.Callee.Func
				if !p.InModule(c) || !reach[c] {
					continue
				}
				if _, ok := index[c]; !ok {
					strong(c)
					if low[c] < low[fn] {
						low[fn] = low[c]
					}
				} else if on[c] && index[c] < low[fn] {
					low[fn] = index[c]
				}
			}
		}
		if low[fn] == index[fn] {
			for {
				w := stack[len(stack)-1]
				stack = stack[:len(stack)-1]
				on[w] = false
				comp[w] = nc
				if w == fn {
					break
				}
			}
			nc++
		}
	}
	var fns []*ssa.Function
	for fn := range reach {
		if p.InModule(fn) {
			fns = append(fns, fn)
		}
	}
	sort.Slice(fns, func(i, j int) bool { return p.FuncKey(fns[i]) < p.FuncKey(fns[j]) })
	for _, fn := range fns {
		if _, ok := index[fn]; !ok {
			strong(fn)
		}
	}
	nsites := 0
	type sameEdge struct {
		from, to *ssa.Function
		key, pos string
	}
	var sameEdges []sameEdge
	for _, fn := range fns {
		n := cg.Nodes[fn]
		if n == nil {
			continue
		}
		seen := map[string]bool{}
		for _, e := range n.Out {
			c := e.Callee.Func
			if !p.InModule(c) || !reach[c] || comp[c] != comp[fn] || e.Site == nil {
				continue
			}
			// self-loop or same SCC: a recursive edge
			if c != fn {
				// only count if fn and c are genuinely in a cycle (SCC size > 1)
			}
			key := fmt.Sprintf("%s→%s", p.FuncKey(fn), p.FuncKey(c))
			if seen[key+p.InstrPos(e.Site)] {
				continue
			}
			seen[key+p.InstrPos(e.Site)] = true
			nsites++
			ok, why := structuralDescent(p, fn, e.Site, c)
			if ok {
				l.Discharge("C07/P8-recursion", key+"#"+describeCallArg0(e.Site), p.InstrPos(e.Site), why, true)
			} else if why == sameNodeWhy && c != fn {
				sameEdges = append(sameEdges, sameEdge{fn, c, key, p.InstrPos(e.Site)})
			} else {
				l.Violate("C07/P8-recursion", key, p.InstrPos(e.Site), "recursive call without structural descent or depth bound: "+why)
			}
		}
	}
	// a call that hands the same node to a helper (eval → evalFor(e)) does not descend, but is harmless when every cycle
	// through it also contains a descending call: the graph of such edges alone must be acyclic
	adj := map[*ssa.Function][]*ssa.Function{}
	for _, se := range sameEdges {
		adj[se.from] = append(adj[se.from], se.to)
	}
	reaches := func(from, to *ssa.Function) bool {
		seen := map[*ssa.Function]bool{}
		stack := []*ssa.Function{from}
		for len(stack) > 0 {
			x := stack[len(stack)-1]
			stack = stack[:len(stack)-1]
			if x == to {
				return true
			}
			if seen[x] {
				continue
			}
			seen[x] = true
			stack = append(stack, adj[x]...)
		}
		return false
	}
	for _, se := range sameEdges {
		if reaches(se.to, se.from) {
			l.Violate("C07/P8-recursion", se.key, se.pos, "recursive call without structural descent or depth bound: the node is passed on unchanged around a whole cycle of calls")
		} else {
			l.Discharge("C07/P8-recursion", se.key+"#same-node", se.pos, "hands its own node to a helper unchanged; every cycle of calls through this edge also contains a call on a proper part of the node", true)
		}
	}
	if nsites < 30 {
		l.Violate("C07/vacuity", "recursive-call-sites", "", fmt.Sprintf("only %d recursive call sites found (eval and the parser are recursive)", nsites))
	}
}

func describeCallArg0(site ssa.CallInstruction) string {
	c := site.Common()
	if c.IsInvoke() {
		return describe(c.Value) + "." + c.Method.Name()
	}
	if len(c.Args) > 0 {
		return describe(c.Args[len(c.Args)-minInt(len(c.Args), argPosOfMeasure(site))])
	}
	return "()"
}

func minInt(a, b int) int {
	if a < b {
		return a
	}
	return b
}

func argPosOfMeasure(site ssa.CallInstruction) int { return len(site.Common().Args) }

// structuralDescent: the callee's measure argument is a proper part of the caller's own measure argument.
// Measure argument: for methods of ast nodes / Environment the receiver; for eval its expr parameter;
// parser functions are bounded by token consumption (C08/S1 proves progress), so recursion among
// parser methods is accepted with that reference.
func structuralDescent(p *Prog, caller *ssa.Function, site ssa.CallInstruction, callee *ssa.Function) (bool, string) {
	pkgName := func(fn *ssa.Function) string {
		if fn.Package() != nil {
			return fn.Package().Pkg.Name()
		}
		return ""
	}
	if pkgName(caller) == "parser" && pkgName(callee) == "parser" {
		return true, "parser recursion: depth bounded by the number of tokens (progress: C08/S1)"
	}
	// which argument is the measure?
	args := site.Common().Args
	var measure ssa.Value
	var callerMeasure []ssa.Value
	if site.Common().IsInvoke() {
		measure = site.Common().Value
	} else if callee.Signature.Recv() != nil && len(args) > 0 && pkgName(callee) != "interpreter" {
		measure = args[0]
	} else {
		// first parameter whose type is (or is a slice/pointer of) an ast node type
		for i, prm := range callee.Params {
			if (mentionsAST(prm.Type()) || carriesAST(prm.Type())) && i < len(args) {
				measure = args[i]
				break
			}
		}
	}
	if callee == caller {
		if ok, why := typeDirectedDescent(caller, site); ok {
			return true, why
		}
	}
	if measure == nil {
		return false, "no measure argument identified for " + p.FuncKey(callee)
	}
	for _, prm := range caller.Params {
		callerMeasure = append(callerMeasure, prm)
	}
	// walk back from measure through field loads / index / range / type tests (and φs: every incoming value) to a caller parameter
	_ = callerMeasure
	var derive func(v ssa.Value, d int, seen map[ssa.Value]bool) (int, string, bool, string)
	derive = func(v ssa.Value, d int, seen map[ssa.Value]bool) (int, string, bool, string) {
		if d > 14 {
			return 0, "", false, "derivation too deep"
		}
		switch x := v.(type) {
		case *ssa.Parameter:
			return 0, x.Name(), true, ""
		case *ssa.UnOp:
			if x.Op != token.MUL {
				return 0, "", false, "argument derived through " + x.Op.String()
			}
			return derive(x.X, d+1, seen)
		case *ssa.FieldAddr:
			n, r, ok, w := derive(x.X, d+1, seen)
			return n + 1, r, ok, w
		case *ssa.Field:
			n, r, ok, w := derive(x.X, d+1, seen)
			return n + 1, r, ok, w
		case *ssa.IndexAddr:
			n, r, ok, w := derive(x.X, d+1, seen)
			return n + 1, r, ok, w
		case *ssa.Index:
			n, r, ok, w := derive(x.X, d+1, seen)
			return n + 1, r, ok, w
		case *ssa.Lookup:
			n, r, ok, w := derive(x.X, d+1, seen)
			return n + 1, r, ok, w
		case *ssa.Extract:
			switch t := x.Tuple.(type) {
			case *ssa.TypeAssert:
				return derive(t.X, d+1, seen)
			case *ssa.Next:
				if r, ok := t.Iter.(*ssa.Range); ok {
					n, rt, ok2, w := derive(r.X, d+1, seen)
					return n + 1, rt, ok2, w
				}
				return 0, "", false, "range over unknown iterator"
			case *ssa.Lookup:
				n, r, ok, w := derive(t.X, d+1, seen)
				return n + 1, r, ok, w
			default:
				return 0, "", false, "argument comes from a call result (" + describe(x.Tuple) + "), not from the caller's node"
			}
		case *ssa.TypeAssert:
			return derive(x.X, d+1, seen)
		case *ssa.MakeInterface:
			return derive(x.X, d+1, seen)
		case *ssa.ChangeInterface:
			return derive(x.X, d+1, seen)
		case *ssa.ChangeType:
			return derive(x.X, d+1, seen)
		case *ssa.Alloc:
			// address of a range copy (&decl): find the single store
			var st *ssa.Store
			for _, r := range *x.Referrers() {
				if s, ok := r.(*ssa.Store); ok && s.Addr == x {
					st = s
				}
			}
			if st == nil {
				// a small struct made to pass several values along (node, callee, arguments): the node it carries
				for _, r := range *x.Referrers() {
					fa, ok := r.(*ssa.FieldAddr)
					if !ok || !mentionsAST(derefT(fa.Type())) {
						continue
					}
					for _, r2 := range *fa.Referrers() {
						if s, ok := r2.(*ssa.Store); ok && s.Addr == ssa.Value(fa) {
							return derive(s.Val, d+1, seen)
						}
					}
				}
				return 0, "", false, "argument is a fresh object"
			}
			return derive(st.Val, d+1, seen)
		case *ssa.Phi:
			if seen[x] {
				return 1 << 20, "", true, "" // loop-carried value: decided by the other edges
			}
			seen[x] = true
			best, root := 1<<20, ""
			for _, e := range x.Edges {
				n, r, ok, w := derive(e, d+1, seen)
				if !ok {
					return 0, "", false, "one value of the φ: " + w
				}
				if n < best {
					best = n
				}
				if r != "" {
					root = r
				}
			}
			return best, root, true, ""
		}
		return 0, "", false, "argument " + describe(measure) + " is not derived from the caller's own argument"
	}
	steps, root, ok, why := derive(measure, 0, map[ssa.Value]bool{})
	if !ok {
		return false, why
	}
	if steps == 0 || steps >= 1<<20 {
		return false, sameNodeWhy
	}
	return true, fmt.Sprintf("argument %s is a proper part of the caller's own argument %s (structural recursion, bounded by program size)", describe(measure), root)
}

const sameNodeWhy = "passes its own argument on unchanged"

// fieldFlowTypes: for an interface{} value loaded from a struct field, the dynamic types that the
// module ever stores into that field (following field-to-field copies, parameters to their call
// sites, and φs).  ok=false when some store has unknown provenance (caller falls back to U).
func fieldFlowTypes(p *Prog, u *Universe, v ssa.Value, seen map[string]bool) (map[string]types.Type, bool) {
	var tn, fname string
	switch x := v.(type) {
	case *ssa.UnOp:
		fa, ok := x.X.(*ssa.FieldAddr)
		if !ok || x.Op != token.MUL {
			return nil, false
		}
		tn, fname = structKey(fa.X.Type(), fa.Field)
	case *ssa.Field:
		tn, fname = structKey(x.X.Type(), x.Field)
	default:
		return nil, false
	}
	if !isEmptyInterface(v.Type()) {
		return nil, false
	}
	return storedTypes(p, u, tn+"."+fname, seen)
}

func storedTypes(p *Prog, u *Universe, key string, seen map[string]bool) (map[string]types.Type, bool) {
	if seen[key] {
		return map[string]types.Type{}, true
	}
	seen[key] = true
	out := map[string]types.Type{}
	okAll := true
	n := 0
	var valueTypes func(val ssa.Value, depth int) bool
	valueTypes = func(val ssa.Value, depth int) bool {
		if depth > 6 {
			return false
		}
		switch x := val.(type) {
		case *ssa.MakeInterface:
			out[typeStr(x.X.Type())] = x.X.Type()
			return true
		case *ssa.Const:
			return x.Value == nil // nil interface
		case *ssa.Phi:
			for _, e := range x.Edges {
				if e != val && !valueTypes(e, depth+1) {
					return false
				}
			}
			return true
		case *ssa.Parameter:
			fn := x.Parent()
			idx := -1
			for i, prm := range fn.Params {
				if prm == x {
					idx = i
				}
			}
			sites := p.CallSites(fn)
			if len(sites) == 0 {
				// never called, never taken as a value: dead code contributes no value (a constructor kept for
				// compatibility after its callers moved to a sibling)
				return !p.UsedAsValue(fn)
			}
			for _, cs := range sites {
				args := cs.Common().Args
				if cs.Common().IsInvoke() || idx >= len(args) {
					return false
				}
				if !valueTypes(args[idx], depth+1) {
					return false
				}
			}
			return true
		case *ssa.Extract:
			if lk, ok := x.Tuple.(*ssa.Lookup); ok && x.Index == 0 {
				return valueTypes(lk, depth+1)
			}
			return false
		case *ssa.Lookup:
			// an entry of a constant table of interface values: the types the table's initialiser puts in
			if ld, ok := x.X.(*ssa.UnOp); ok {
				if g, ok := ld.X.(*ssa.Global); ok && p.ConstMap(g) != nil {
					for _, t := range constMapValueTypes[g] {
						out[typeStr(t)] = t
					}
					return true
				}
			}
			return false
		case *ssa.UnOp, *ssa.Field:
			ft, ok := fieldFlowTypes(p, u, val, seen)
			if !ok {
				return false
			}
			for ts, t := range ft {
				out[ts] = t
			}
			return true
		}
		return false
	}
	for _, fn := range p.ModuleFuncs() {
		instrsOf(fn, func(in ssa.Instruction) {
			st, ok := in.(*ssa.Store)
			if !ok {
				return
			}
			fa, ok := st.Addr.(*ssa.FieldAddr)
			if !ok {
				return
			}
			tn, f := structKey(fa.X.Type(), fa.Field)
			if tn+"."+f != key {
				return
			}
			n++
			if !valueTypes(st.Val, 0) {
				okAll = false
			}
		})
	}
	if n == 0 || !okAll {
		return nil, false
	}
	return out, true
}

// carriesAST: a (pointer to a) struct of this module with a field that is an AST node — a bundle of values passed
// between the phases of one clause.
func carriesAST(t types.Type) bool {
	if pt, ok := t.Underlying().(*types.Pointer); ok {
		t = pt.Elem()
	}
	nt, ok := t.(*types.Named)
	if !ok || nt.Obj().Pkg() == nil || nt.Obj().Pkg().Name() == "ast" {
		return false
	}
	st, ok := nt.Underlying().(*types.Struct)
	if !ok {
		return false
	}
	for i := 0; i < st.NumFields(); i++ {
		if mentionsAST(st.Field(i).Type()) {
			return true
		}
	}
	return false
}

func mentionsAST(t types.Type) bool {
	for depth := 0; depth < 4; depth++ {
		if nt, ok := t.(*types.Named); ok {
			return nt.Obj().Pkg() != nil && nt.Obj().Pkg().Name() == "ast"
		}
		switch u := t.(type) {
		case *types.Pointer:
			t = u.Elem()
		case *types.Slice:
			t = u.Elem()
		case *types.Map:
			t = u.Elem()
		default:
			return false
		}
	}
	return false
}

// checkTypedNil (P6): a pointer that may be nil is converted to an interface.  The interface value is then non-nil
// (`err != nil` succeeds, a type switch selects the pointer case) while every method with a pointer receiver and every
// field access dereferences nil — the "typed nil" trap.  Provenance is followed through φ, tuple extraction, module
// function results (all returns) and parameters (all call sites), to a bounded depth; a dominating `v != nil` test
// at the conversion discharges it.
func checkTypedNil(p *Prog, l *Ledger, fns []*ssa.Function, reach map[*ssa.Function]bool) {
	type key struct {
		v     ssa.Value
		depth int
	}
	var nilPossible func(v ssa.Value, depth int, seen map[ssa.Value]bool) (bool, string)
	retNil := func(fn *ssa.Function, idx int, depth int, seen map[ssa.Value]bool) (bool, string) {
		if fn == nil || fn.Blocks == nil || !p.InModule(fn) {
			return false, ""
		}
		may, why := false, ""
		instrsOf(fn, func(in ssa.Instruction) {
			if ret, ok := in.(*ssa.Return); ok && idx < len(ret.Results) && !may {
				if m, w := nilPossible(ret.Results[idx], depth+1, seen); m {
					may, why = true, fmt.Sprintf("%s returns it at %s (%s)", p.FuncKey(fn), p.InstrPos(in), w)
				}
			}
		})
		return may, why
	}
	nilPossible = func(v ssa.Value, depth int, seen map[ssa.Value]bool) (bool, string) {
		if depth > 4 || seen[v] {
			return false, ""
		}
		seen[v] = true
		switch x := v.(type) {
		case *ssa.Const:
			if x.IsNil() {
				return true, "nil constant"
			}
		case *ssa.Phi:
			for _, e := range x.Edges {
				if m, w := nilPossible(e, depth, seen); m {
					return true, w
				}
			}
		case *ssa.ChangeType:
			return nilPossible(x.X, depth, seen)
		case *ssa.Extract:
			if c, ok := x.Tuple.(*ssa.Call); ok {
				return retNil(c.Call.StaticCallee(), x.Index, depth, seen)
			}
		case *ssa.Call:
			return retNil(x.Call.StaticCallee(), 0, depth, seen)
		case *ssa.Parameter:
			fn := x.Parent()
			idx := -1
			for i, prm := range fn.Params {
				if prm == x {
					idx = i
				}
			}
			if idx < 0 {
				return false, ""
			}
			for _, cs := range p.CallSites(fn) {
				c := cs.Common()
				if c.IsInvoke() || c.StaticCallee() != fn {
					continue
				}
				if idx < len(c.Args) {
					if m, w := nilPossible(c.Args[idx], depth+1, seen); m {
						return true, fmt.Sprintf("passed at %s (%s)", p.InstrPos(cs.(ssa.Instruction)), w)
					}
				}
			}
		}
		return false, ""
	}
	n := 0
	for _, fn := range fns {
		if !reach[fn] {
			continue
		}
		fk := p.FuncKey(fn)
		seenKey := map[string]int{}
		instrsOf(fn, func(in ssa.Instruction) {
			mi, ok := in.(*ssa.MakeInterface)
			if !ok {
				return
			}
			if _, isPtr := mi.X.Type().Underlying().(*types.Pointer); !isPtr {
				return
			}
			n++
			k := fk + "#iface(" + typeStr(mi.X.Type()) + "→" + typeStr(mi.Type()) + ")"
			seenKey[k]++
			if seenKey[k] > 1 {
				k = fmt.Sprintf("%s#%d", k, seenKey[k])
			}
			may, why := nilPossible(mi.X, 0, map[ssa.Value]bool{})
			if may {
				for _, g := range GuardsAt(in.Block()) {
					if b, ok := g.Cond.(*ssa.BinOp); ok && (b.X == mi.X && isNilConst(b.Y) || b.Y == mi.X && isNilConst(b.X)) {
						if (b.Op == token.NEQ && g.Truth) || (b.Op == token.EQL && !g.Truth) {
							may = false
						}
					}
				}
			}
			if may {
				l.Violate("C07/P6-nil", k, p.InstrPos(in), fmt.Sprintf("a %s that may be nil (%s) is converted to %s: the interface is non-nil, so nil tests pass and the first method call or field access through it dereferences nil (Go panic instead of a Borno runtime error)", typeStr(mi.X.Type()), why, typeStr(mi.Type())))
			} else {
				l.Discharge("C07/P6-nil", k, p.InstrPos(in), "pointer converted to an interface is never nil here (fresh allocation, or a nil-tested value; provenance followed through φ, results and arguments)", false)
			}
		})
	}
	if n < 30 {
		l.Violate("C07/vacuity", "pointer-to-interface conversions", "", fmt.Sprintf("only %d pointer→interface conversions seen (expected >= 30: every AST node and signal)", n))
	}
}

// typeDirectedDescent: a function that dispatches on the dynamic type of a parameter and calls itself, in the case for
// type S, with a value of a concrete type T for which no case that recurses exists (toInt64: case string → parse →
// toInt64(float64)).  The inner activation cannot reach a recursive call, so the depth is at most two.  Decided as:
// the argument at this site is a conversion from concrete T, and every self-call site of the function is dominated by
// a successful test of the same parameter against a concrete type different from T.
func typeDirectedDescent(fn *ssa.Function, site ssa.CallInstruction) (bool, string) {
	args := site.Common().Args
	for k, prm := range fn.Params {
		if k >= len(args) || !isIfaceT(prm.Type()) {
			continue
		}
		mk, ok := args[k].(*ssa.MakeInterface)
		if !ok || isIfaceT(mk.X.Type()) {
			continue
		}
		T := mk.X.Type()
		all, n := true, 0
		instrsOf(fn, func(in ssa.Instruction) {
			ci, ok := in.(ssa.CallInstruction)
			if !ok || ci.Common().StaticCallee() != fn {
				return
			}
			n++
			guarded := false
			for _, g := range GuardsAt(in.Block()) {
				ex, ok := g.Cond.(*ssa.Extract)
				if !ok || ex.Index != 1 || !g.Truth {
					continue
				}
				ta, ok := ex.Tuple.(*ssa.TypeAssert)
				if !ok || ta.X != ssa.Value(prm) || isIfaceT(ta.AssertedType) {
					continue
				}
				if !types.Identical(ta.AssertedType, T) {
					guarded = true
				}
			}
			if !guarded {
				all = false
			}
		})
		if all && n > 0 {
			return true, fmt.Sprintf("type-directed: the callee is entered with a %s in parameter %s, and each of the %d self-calls sits in a case for another concrete type — the inner activation cannot recurse (depth <= 2)", typeStr(T), prm.Name(), n)
		}
	}
	return false, ""
}

// fieldAlwaysMadeMap: a map-typed field of a module struct that is set to a freshly made map wherever a value of the
// struct is created (every allocation of the struct stores the field) and is never set to anything else.
func fieldAlwaysMadeMap(p *Prog, typeName, field string) (bool, string) {
	allocs, complete, otherStores := 0, true, false
	for _, fn := range p.ModuleFuncs() {
		instrsOf(fn, func(in ssa.Instruction) {
			switch x := in.(type) {
			case *ssa.Alloc:
				if typeStr(derefT(x.Type())) != typeName {
					return
				}
				allocs++
				set := false
				for _, r := range *x.Referrers() {
					if fa, ok := r.(*ssa.FieldAddr); ok && fieldName(fa.X.Type(), fa.Field) == field {
						for _, r2 := range *fa.Referrers() {
							if st, ok := r2.(*ssa.Store); ok && st.Addr == ssa.Value(fa) {
								if _, made := st.Val.(*ssa.MakeMap); made {
									set = true
								}
							}
						}
					}
				}
				if !set {
					complete = false
				}
			case *ssa.Store:
				fa, ok := x.Addr.(*ssa.FieldAddr)
				if !ok {
					return
				}
				if tn, f := structKey(fa.X.Type(), fa.Field); tn == typeName && f == field {
					if _, made := x.Val.(*ssa.MakeMap); !made {
						otherStores = true
					}
				}
			}
		})
	}
	if allocs == 0 || !complete || otherStores {
		return false, ""
	}
	return true, fmt.Sprintf("%s.%s is set to a fresh map at each of the %d places a %s is created and never to anything else", typeName, field, allocs, typeName)
}

// scan: does s have exactly the given form with one integer in it?
func scan(s, format string, n *int64) bool {
	pre, post, ok := strings.Cut(format, "%d")
	if !ok || !strings.HasPrefix(s, pre) || !strings.HasSuffix(s, post) || len(s) < len(pre)+len(post) {
		return false
	}
	v, err := strconv.ParseInt(s[len(pre):len(s)-len(post)], 10, 64)
	if err != nil {
		return false
	}
	*n = v
	return true
}

// pathSensitiveSliceProof: x[lo:hi] in a helper whose precondition the caller established (validIndex(i, len(x)) before
// withoutElement(x, i)): every explored path of the built-ins and evaluator clauses that reaches the instruction must
// know 0 <= lo <= hi <= len(x) — from tests of the very values used, allowing for a constant added to a tested value.
func pathSensitiveSliceProof(p *Prog, in ssa.Instruction) (bool, string) {
	if fnPkgName(in.Parent()) != "interpreter" {
		return false, ""
	}
	pos := p.InstrPos(in)
	var graphs []*Graph
	cs := getClauses(p)
	if len(cs.Probs) > 0 {
		return false, ""
	}
	for _, m := range cs.all() {
		graphs = append(graphs, m.G)
	}
	scratch := NewLedger("tmp", "quick", 0, "")
	for _, m := range exploreNatives(p, scratch) {
		graphs = append(graphs, m.G)
	}
	n := 0
	for _, g := range graphs {
		for _, es := range g.Out {
			for _, e := range es {
				if e.Ev == nil || e.Ev.Op != "slicebounds" || e.Ev.Pos != pos {
					continue
				}
				n++
				base, lo, hi := e.Ev.Args[0], e.Ev.Args[1], e.Ev.Args[2]
				has := map[string]bool{}
				for _, f := range strings.Split(e.Ev.KV["facts"], ";") {
					has[f] = true
				}
				split := func(x string) (string, int64) { // "(y + k)" → y, k
					if mm := reOffset.FindStringSubmatch(x); mm != nil && balanced(mm[1]) {
						k, _ := strconv.ParseInt(mm[3], 10, 64)
						if mm[2] == "-" {
							k = -k
						}
						return mm[1], k
					}
					return x, 0
				}
				nonNeg := func(x string) bool {
					if x == "" {
						return true
					}
					if k, err := strconv.ParseInt(x, 10, 64); err == nil {
						return k >= 0
					}
					y, k := split(x)
					return k >= 0 && has["("+y+" < 0)=false"]
				}
				leLen := func(x string) bool {
					if x == "" || x == "len("+base+")" {
						return true
					}
					y, k := split(x)
					switch {
					case k <= 0 && (has["("+y+" < len("+base+"))=true"] || has["(len("+base+") < "+y+")=false"]):
						return true
					case k == 1 && has["("+y+" < len("+base+"))=true"]:
						return true
					}
					return false
				}
				ordered := func() bool {
					if lo == "" || hi == "" || lo == hi {
						return true
					}
					yl, kl := split(lo)
					yh, kh := split(hi)
					return yl == yh && kl <= kh
				}
				if !nonNeg(lo) || !leLen(hi) || !ordered() || (hi == "" && !leLen(lo)) || (lo == "" && !nonNeg(hi)) {
					return false, fmt.Sprintf("a path reaches %s[%s:%s] without having established the bounds", base, lo, hi)
				}
			}
		}
	}
	if n == 0 {
		return false, ""
	}
	return true, fmt.Sprintf("path-sensitive proof: all %d explored path states reaching this slice expression know 0 <= low <= high <= len of the very list sliced (the caller tested the index before handing it to this helper)", n)
}
