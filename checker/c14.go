package main

import (
	"fmt"
	"go/types"
	"regexp"
	"sort"
	"strings"

	"golang.org/x/tools/go/ssa"
)

func init() {
	register("C14", &Checker{
		Run: checkC14,
		Explain: "Decided on the event graphs of eval's clauses: S1 on every abstract path that reports no error and propagates no signal, the child evaluations of a clause are exactly the reference word in source order, each once (Binary: Left·Right; Call: Callee·Arguments ascending by one range loop; ArrayLiteral: Elements ascending; ArrayAccess: Array·Index; ArrayAssignment: Array·Index·Value; PropertyAssignment: Object·Value; ObjectLiteral: properties in the literal's key order; Assignment/Var/Print/ExpressionStatement/Return/Unary/Grouping/PropertyAccess: their single operand), on all other paths a prefix of it; stores (Assign, Define, element store, property store) come after the evaluations and store the evaluated value. " +
			"S2 for each of the two logical operator token types: the right operand is evaluated exactly when the left one does not decide, and the returned value is the deciding operand's own value (same symbolic value), never a boolean. " +
			"S3 truthiness table: isTruthy explored once per dynamic type of the value universe — nil→false, bool→the value, number→v != 0, string→non-empty, arrays/objects/functions→true. S4 one notion of truthiness: if/while/for/logical decide only through isTruthy of the condition value (C05 automata + S2), and `!` returns !isTruthy(x). " +
			"Not decided: nothing structural (initialiser order of object literals is also C13's clause).",
		Rule:    "obligation = (rule, clause) or (truthiness, dynamic type); non-trivial: all",
		Trusted: []string{"abstract machine + interpreter model", "reference words from the property statement (DESIGN.md §4 C14)", "value universe (C16)"},
	})
}

// item syntax: "e.Left" mandatory, "e.Value?" optional (skipped only after niltest→nil), "e.Elements[range]*" loop
var orderSpec = map[string][]string{
	"*ast.Binary":              {"e.Left", "e.Right"},
	"*ast.Unary":               {"e.Right"},
	"*ast.Grouping":            {"e.Expression"},
	"*ast.Call":                {"e.Callee", "e.Arguments[range]*"},
	"*ast.ArrayLiteral":        {"e.Elements[range]*"},
	"*ast.ObjectLiteral":       {"e.Properties[e.Keys[range]]*"},
	"*ast.ArrayAccess":         {"e.Array", "e.Index"},
	"*ast.ArrayAssignment":     {"e.Array", "e.Index", "e.Value"},
	"*ast.PropertyAccess":      {"e.Object"},
	"*ast.PropertyAssignment":  {"e.Object", "e.Value"},
	"*ast.AssignmentStmt":      {"e.Value"},
	"*ast.VarStmt":             {"e.Initializer?"},
	"*ast.PrintStatement":      {"e.Expression"},
	"*ast.ExpressionStatement": {"e.Expression"},
	"*ast.Return":              {"e.Value?"},
	"*ast.Logical":             {"e.Left", "e.Right~"}, // ~ : may legitimately be skipped (short-circuit, S2 decides when)
	"*ast.Literal":             {},
	"*ast.Identifier":          {},
}

func monOrder(spec []string) Monitor {
	// state: "i|fresh|flags"  flags: e=error seen, s=signal seen
	return Monitor{Init: "0|1|", Step: func(s string, ev *Event) string {
		p := strings.SplitN(s, "|", 3)
		var i int
		fmt.Sscan(p[0], &i)
		fresh, flags := p[1], p[2]
		mk := func() string { return fmt.Sprintf("%d|%s|%s", i, fresh, flags) }
		base := func(it string) string { return strings.TrimRight(it, "?*~") }
		switch ev.Op {
		case "rterror":
			if !strings.Contains(flags, "e") {
				flags += "e"
			}
			return mk()
		case "next":
			if ev.Out == "true" {
				fresh = "1"
			}
			return mk()
		case "niltest":
			if ev.Out == "nil" && i < len(spec) && strings.HasSuffix(spec[i], "?") && base(spec[i]) == ev.Args[0] {
				i++
			}
			return mk()
		case "eval":
			c := ev.KV["child"]
			if ev.KV["sig"] != "0" {
				flags += "s"
			}
			if ev.KV["raises"] == "T" && !strings.Contains(flags, "e") {
				flags += "e"
			}
			// repeated loop item
			if i > 0 && i <= len(spec) && strings.HasSuffix(spec[i-1], "*") && base(spec[i-1]) == c {
				if fresh != "1" {
					return "!" + c + " is evaluated twice in one loop iteration"
				}
				fresh = "0"
				return mk()
			}
			for i < len(spec) && strings.HasSuffix(spec[i], "*") && base(spec[i]) != c {
				i++ // an empty loop
			}
			if i >= len(spec) {
				return "!" + c + " is evaluated although every operand has already been evaluated (evaluated twice, or not an operand)"
			}
			if base(spec[i]) != c {
				return "!" + c + " is evaluated where " + base(spec[i]) + " is due (left-to-right source order)"
			}
			if strings.HasSuffix(spec[i], "*") {
				if fresh != "1" {
					return "!" + c + " evaluated outside its loop iteration"
				}
				fresh = "0"
			}
			i++
			return mk()
		case "return":
			if strings.Contains(flags, "e") || strings.Contains(flags, "s") || ev.KV["raised"] == "T" {
				return ""
			}
			for j := i; j < len(spec); j++ {
				if strings.HasSuffix(spec[j], "*") || strings.HasSuffix(spec[j], "~") {
					continue
				}
				return "!the clause returns successfully without evaluating " + base(spec[j])
			}
			return ""
		}
		return mk()
	}}
}

func checkC14(p *Prog, l *Ledger) {
	cs := getClauses(p)
	if !cs.account(l) {
		return
	}
	// no rewriting of operand expressions by syntactic kind between parsing and evaluation (shared with C16/C18): a folded
	// `x || false` yields x, not the deciding operand's value
	checkNodeKindTests(p, l, "C14/S4-no-syntactic-rewrites")
	// which operand a short-circuit operator guards is decided by the documented grouping: `a || b && c` is `a || (b && c)`
	// (C01's ladder: each binary operator at its own level, each level taking its operands from the next)
	l.AsOnly(map[string]string{"C01/S1-ladder": "C14/S3-short-circuit/operator-levels", "C01/S2-associativity": "C14/S3-short-circuit/operator-levels/associativity"}, func() { checkC01(p, l) })
	// a call: callee first, then every argument once, left to right, into a list of this evaluation's own, and exactly
	// that list reaches the callee (rule shared with C04)
	l.As(map[string]string{"C04/S3-call-protocol": "C14/S2-call-arguments", "C04/S3-who-invokes": "C14/S2-call-arguments/who-invokes"}, func() { checkCallProtocol(cs, l) })
	// ---- S1
	n := 0
	for _, t := range cs.Order {
		spec, ok := orderSpec[t]
		if !ok {
			continue // statements with control flow of their own: C05
		}
		n++
		runMon(l, "C14/S1-order-once", "eval/"+short(t), cs.Clauses[t], monOrder(spec), "child evaluations = "+strings.Join(spec, " · ")+" on every success path, a prefix otherwise")
	}
	if n < 15 {
		l.Violate("C14/S1-order-once/vacuity", "expression clauses", "", fmt.Sprintf("only %d of the expression-level clauses found in eval", n))
	}
	checkStoresAfterEval(cs, l)
	// ---- S2
	checkShortCircuit(p, cs, l)
	// ---- S3
	checkTruthinessTable(p, l, "C14/S3-truthiness")
	// ---- S4 (the `!` operator)
	checkBangUsesTruthiness(p, l)
}

func checkStoresAfterEval(cs *clauseSet, l *Ledger) {
	type spec struct {
		clause, storeOp string
		valueArg        int
		valueChild      string
		afterChildren   []string
		what            string
	}
	specs := []spec{
		{"*ast.AssignmentStmt", "assign", 2, "e.Value", []string{"e.Value"}, "the assigned value is evaluated before the store and is what is stored"},
		{"*ast.VarStmt", "define", 2, "e.Initializer", []string{"e.Initializer"}, "the initialiser is evaluated before the definition and is what is bound"},
		{"*ast.ArrayAssignment", "indexstore", 1, "e.Value", []string{"e.Array", "e.Index", "e.Value"}, "array, index and value are all evaluated before the element store, which stores the value"},
		{"*ast.PropertyAssignment", "mapstore", 2, "e.Value", []string{"e.Object", "e.Value"}, "object and value are evaluated before the property store, which stores the value"},
	}
	for _, sp := range specs {
		m := cs.Clauses[sp.clause]
		if m == nil {
			l.Undecide("C14/S1-store-after-eval", "eval/"+short(sp.clause), "", "clause missing")
			continue
		}
		sp := sp
		mon := Monitor{Init: "|", Step: func(s string, ev *Event) string {
			// state: evaluated children (comma list) | res of value child
			parts := strings.SplitN(s, "|", 2)
			done, res := parts[0], parts[1]
			switch ev.Op {
			case "eval":
				done += ev.KV["child"] + ","
				if ev.KV["child"] == sp.valueChild {
					res = ev.KV["res"]
				}
			case "niltest":
				if ev.Out == "nil" && ev.Args[0] == sp.valueChild {
					done += sp.valueChild + ","
					res = "<nil>"
				}
			case sp.storeOp:
				for _, c := range sp.afterChildren {
					if !strings.Contains(done, c+",") {
						return "!the store happens before " + c + " has been evaluated"
					}
				}
				if sp.valueArg < len(ev.Args) {
					got := ev.Args[sp.valueArg]
					if res == "<nil>" {
						if got != "nil" {
							return "!without an initialiser the stored value is " + got + ", not nil"
						}
					} else if got != res+".val" {
						return "!the stored value is " + got + ", not the evaluated " + sp.valueChild
					}
				}
			}
			return done + "|" + res
		}}
		runMon(l, "C14/S1-store-after-eval", "eval/"+short(sp.clause), m, mon, sp.what)
		if len(m.G.Events(sp.storeOp)) == 0 {
			l.Violate("C14/S1-store-after-eval", "eval/"+short(sp.clause)+"#"+sp.storeOp, "", "no "+sp.storeOp+" event in the clause: the store is gone or not recognised")
		}
	}
}

func checkShortCircuit(p *Prog, cs *clauseSet, l *Ledger) {
	ii := cs.ii
	rule := "C14/S2-short-circuit"
	for _, op := range []string{"LOGICAL_OR", "LOGICAL_AND"} {
		c, ok := p.tokenConst(op)
		if !ok {
			l.Undecide(rule, "eval/Logical#"+op, "", "token constant not found")
			continue
		}
		m := NewInterpModel(p, "eval/Logical["+op+"]")
		mc := m.Explore(ii.Eval, []AV{Sym("i"), Sym("e"), Sym("env"), Sym("isRepl")}, func(st *State) {
			st.Facts["type:e"] = StrV("*ast.Logical")
			st.Facts["v:e.Operator.Type"] = IntV(c)
			st.Facts["c:(e.Left == nil)"] = BoolV(false)
			st.Facts["c:(e.Right == nil)"] = BoolV(false)
		})
		l.States += mc.States
		l.Paths += mc.Paths
		decidesWhenTruthy := op == "LOGICAL_OR"
		mon := Monitor{Init: "left", Step: func(s string, ev *Event) string {
			if ev.Op == "flagtest" || ev.Op == "typetest" || ev.Op == "niltest" {
				return s
			}
			if abortOK(ev) {
				return ""
			}
			ps := strings.Split(s, "|")
			switch ps[0] {
			case "left":
				if ev.Op == "eval" && ev.KV["child"] == "e.Left" {
					return "test|" + ev.KV["res"]
				}
				return "!expected the left operand first, found " + ev.String()
			case "test":
				if ev.Op == "truthy" && ev.Args[0] == ps[1]+".val" {
					if (ev.Out == "true") == decidesWhenTruthy {
						return "decided|" + ps[1]
					}
					return "right|" + ps[1]
				}
				return "!the decision is not taken by the truthiness of the left value: " + ev.String()
			case "decided":
				if ev.Op == "return" {
					if ev.KV["r0"] != ps[1]+".val" {
						return "!the left operand decides but the result is " + ev.KV["r0"] + ", not the left operand's own value"
					}
					if ev.KV["r1.Type"] != "0" {
						return "!short-circuit result carries a signal"
					}
					return ""
				}
				if ev.Op == "eval" {
					return "!the right operand is evaluated although the left one already decides"
				}
				return "!unexpected " + ev.String() + " after the left operand decided"
			case "right":
				if ev.Op == "eval" && ev.KV["child"] == "e.Right" {
					return "rdone|" + ev.KV["res"]
				}
				if ev.Op == "return" {
					return "!the left operand does not decide, yet the right operand is not evaluated"
				}
				return "!expected the right operand, found " + ev.String()
			case "rdone":
				if ev.Op == "return" {
					if ev.KV["r0"] != ps[1]+".val" && ev.KV["raised"] != "T" {
						return "!the result is " + ev.KV["r0"] + ", not the right operand's own value"
					}
					return ""
				}
				return "!unexpected " + ev.String() + " after the right operand"
			}
			return s
		}}
		runMon(l, rule, "eval/Logical#"+op, m, mon, "right operand evaluated iff the left does not decide; the deciding operand's own value is returned")
		if len(m.G.Events("truthy")) == 0 {
			l.Violate(rule+"/vacuity", "eval/Logical#"+op, "", "no truthiness test in the logical clause")
		}
	}
	// the two token types are all the parser can put into Logical.Operator
	w := p.Wiring()
	for _, fs := range w.Fields["ast.Logical.Operator"] {
		_ = fs
	}
}

// checkTruthinessTable explores isTruthy once per dynamic type of the universe.
func checkTruthinessTable(p *Prog, l *Ledger, rule string) {
	ii := p.Interp()
	if ii.IsTruthy == nil {
		l.Undecide(rule, "isTruthy", "", "not found")
		return
	}
	u := p.BuildUniverse()
	type row struct {
		name string
		typ  types.Type
	}
	rows := []row{{"nil", nil}}
	for _, t := range u.TypeList() {
		rows = append(rows, row{typeStr(t), t})
	}
	pname := ii.IsTruthy.Params[0].Name()
	for _, r := range rows {
		m := NewInterpModel(p, "isTruthy["+r.name+"]")
		mcModel := m
		var param AV
		if r.typ == nil {
			param = NilV
		} else {
			param = Sym(pname)
		}
		mach := NewMachine(p, mcModel)
		mcModel.Attach(mach)
		// isTruthy itself must be explored, not abstracted
		saved := ii.IsTruthy
		ii.IsTruthy = nil
		mach.Start(saved, []AV{param}, func(st *State) {
			mcModel.setNode(st, mcModel.G.Start)
			if r.typ != nil {
				st.Facts["type:"+pname] = StrV(r.name)
			}
		})
		ii.IsTruthy = saved
		l.States += mach.States
		var rets []string
		for _, e := range m.G.Events("return") {
			rets = append(rets, e.KV["r0"])
		}
		sort.Strings(rets)
		rets = uniqStrings(rets)
		got := strings.Join(rets, " | ")
		key := "isTruthy(" + r.name + ")"
		want := ""
		kind := "nil"
		if r.typ != nil {
			kind = p.kindOf(r.typ)
		}
		switch kind {
		case "nil":
			want = `^false$`
		case "bool":
			want = `^` + regexp.QuoteMeta(pname) + `$`
		case "number":
			want = `^!\(` + regexp.QuoteMeta(pname) + ` == (const:)?0\)$`
		case "string":
			want = `^!\(` + regexp.QuoteMeta(pname) + ` == ""\)$`
		case "array", "object", "function":
			want = `^true$`
		default:
			l.Violate(rule, key, "", "value of kind '"+kind+"' in the universe has no truthiness rule")
			continue
		}
		if regexp.MustCompile(want).MatchString(got) {
			l.Discharge(rule, key, p.Pos(saved.Pos()), kind+" → "+got, true)
		} else {
			l.Violate(rule, key, p.Pos(saved.Pos()), fmt.Sprintf("truthiness of a %s value of representation %s is %q; the property requires %s", kind, r.name, got, truthWords[kind]))
		}
	}
	if len(rows) < 8 {
		l.Violate(rule+"/vacuity", "universe", "", fmt.Sprintf("only %d dynamic types in the universe", len(rows)))
	}
}

var truthWords = map[string]string{"nil": "false", "bool": "the value itself", "number": "v != 0 (NaN truthy)", "string": "non-empty", "array": "true", "object": "true", "function": "true"}

func uniqStrings(xs []string) []string {
	var out []string
	for i, x := range xs {
		if i == 0 || x != xs[i-1] {
			out = append(out, x)
		}
	}
	return out
}

func checkBangUsesTruthiness(p *Prog, l *Ledger) {
	rule := "C14/S4-one-truthiness"
	fn := p.Func("interpreter.evaluateUnary")
	c, ok := p.tokenConst("BANG")
	if fn == nil || !ok {
		l.Undecide(rule, "evaluateUnary#BANG", "", "anchor not found")
		return
	}
	m := NewInterpModel(p, "evaluateUnary[BANG]")
	m.Explore(fn, []AV{Sym("operator"), Sym("right")}, func(st *State) {
		st.Facts["v:operator.Type"] = IntV(c)
	})
	ws, okw := m.G.Words(100)
	if !okw {
		l.Undecide(rule, "evaluateUnary#BANG", "", "paths not enumerable")
		return
	}
	seen := map[string]bool{}
	for _, w := range ws {
		var parts []string
		for _, e := range w {
			if e.Op == "flagtest" {
				continue
			}
			parts = append(parts, e.String())
		}
		seen[strings.Join(parts, " ; ")] = true
	}
	want := map[string]bool{"truthy(right)→true ; return(false)": true, "truthy(right)→false ; return(true)": true}
	var bad []string
	for s := range seen {
		if !want[s] {
			bad = append(bad, s)
		}
	}
	for s := range want {
		if !seen[s] {
			bad = append(bad, "missing: "+s)
		}
	}
	sort.Strings(bad)
	if len(bad) == 0 {
		l.Discharge(rule, "evaluateUnary#BANG", p.Pos(fn.Pos()), "`!x` is exactly !isTruthy(x)", true)
	} else {
		l.Violate(rule, "evaluateUnary#BANG", p.Pos(fn.Pos()), "`!` does not return the negated truthiness of its operand: "+strings.Join(bad, " || "))
	}
	// no other function maps a Borno value to bool for control: every call of isTruthy's siblings
	ii := p.Interp()
	n := 0
	for _, fnn := range p.ModuleFuncs() {
		instrsOf(fnn, func(in ssa.Instruction) {
			if call, ok := in.(*ssa.Call); ok && call.Call.StaticCallee() == ii.IsTruthy {
				n++
			}
		})
	}
	if n >= 5 {
		l.Discharge(rule, "isTruthy#callers", "", fmt.Sprintf("%d call sites (if, while, for, logical ×2, !)", n), false)
	} else {
		l.Violate(rule+"/vacuity", "isTruthy#callers", "", fmt.Sprintf("only %d call sites of isTruthy (if, while, for, logical, ! expected)", n))
	}
}
