package main

// Model of the scanner's cursor API for the abstract machine.  The cursor primitives (isAtEnd, peek,
// peekNext, advance, match) are abstracted — their bodies are checked separately against reference
// words — and the model tracks what is known about the rune under the cursor ("cur") and the one
// after it ("next"): end-of-input knowledge, the facts the explored path has established about them,
// the number of runes consumed since the token start, and the newline bookkeeping (line++ vs consumed '\n').

import (
	"fmt"
	"go/token"
	"go/types"
	"os"
	"regexp"
	"sort"
	"strconv"
	"strings"
	"unicode"

	"golang.org/x/tools/go/ssa"
)

type LexModel struct {
	BaseModel
	GraphRec
	p         *Prog
	prim      map[*ssa.Function]string
	lineField string
	Undecided []string
	Scenario  string
}

func NewLexModel(p *Prog, scenario string) *LexModel {
	m := &LexModel{p: p, prim: map[*ssa.Function]string{}, Scenario: scenario}
	m.G = NewGraph(scenario)
	for name, role := range map[string]string{"isAtEnd": "isAtEnd", "peek": "peek", "peekNext": "peekNext", "advance": "advance", "match": "match", "addToken": "addToken", "AddToken": "AddToken"} {
		if fn := p.Func("lexer.(*Scanner)." + name); fn != nil {
			m.prim[fn] = role
		} else {
			m.Undecided = append(m.Undecided, "scanner primitive not found: "+name)
		}
	}
	return m
}

func (m *LexModel) ev(in ssa.Instruction, op string, args []string, out string) *Event {
	s, pos := siteOf(m.p, in)
	return &Event{Op: op, Args: args, Out: out, Pos: pos, Site: s, KV: map[string]string{}}
}

// ---- knowledge about runes -------------------------------------------------------------------

func (m *LexModel) aliases(st *State, class string) []string {
	var out []string
	for k, v := range st.Mon {
		if strings.HasPrefix(k, "a:") && v == class {
			out = append(out, k[2:])
		}
	}
	sort.Strings(out)
	return out
}

// wordProbes: one representative of every kind of rune a word may continue with (Latin and Bangla letter, underscore,
// ASCII and Bangla digit, a combining mark).
var wordProbes = []int64{'a', 'ক', '_', '0', '9', '৫', 0x09be}

var reCmp = regexp.MustCompile(`^\((\S+) (<|==) (\S+)\)$`)
var reCall = regexp.MustCompile(`^(\w+)\((\S+)\)$`)

// consistent: could the rune named by these aliases have value v, given the facts of the path?
func (m *LexModel) consistent(st *State, names []string, v int64) bool {
	for _, n := range names {
		if ex, ok := st.Facts["v:"+n]; ok && ex.K == KInt && ex.I != v {
			return false
		}
		if ne, ok := st.Facts["ne:"+n]; ok && strings.Contains(ne.S+"|", "|"+strconv.FormatInt(v, 10)+"|") {
			return false
		}
	}
	for k, f := range st.Facts {
		if !strings.HasPrefix(k, "c:") || f.K != KBool {
			continue
		}
		cond := k[2:]
		mentions := false
		for _, n := range names {
			if strings.Contains(cond, n) {
				mentions = true
			}
		}
		if !mentions {
			continue
		}
		val, ok := evalCondWith(cond, names, v)
		if ok && val != f.B {
			return false
		}
	}
	return true
}

// runeMembership: strings.ContainsRune(<written-out text>, r) is the condition "r is one of these runes", rendered
// In_<hex>_<hex>…(r) so that the rune solvers can evaluate it like a comparison.
func runeMembership(callee *ssa.Function, args []AV) (AV, bool) {
	if extName(callee) != "strings.ContainsRune" || len(args) != 2 || args[0].K != KStr {
		return AV{}, false
	}
	set := map[int64]bool{}
	for _, r := range args[0].S {
		set[int64(r)] = true
	}
	switch args[1].K {
	case KInt:
		return BoolV(set[args[1].I]), true
	case KSym:
		var ks []int64
		for k := range set {
			ks = append(ks, k)
		}
		sort.Slice(ks, func(i, j int) bool { return ks[i] < ks[j] })
		name := "In"
		for _, k := range ks {
			name += "_" + strconv.FormatInt(k, 16)
		}
		if len(name)+len(args[1].S)+2 > 300 {
			return AV{}, false
		}
		return Sym(name + "(" + args[1].S + ")"), true
	}
	return AV{}, false
}

// membershipSet decodes the name made by runeMembership.
func membershipSet(name string) (map[int64]bool, bool) {
	if !strings.HasPrefix(name, "In_") && name != "In" {
		return nil, false
	}
	set := map[int64]bool{}
	for _, h := range strings.Split(name, "_")[1:] {
		k, err := strconv.ParseInt(h, 16, 64)
		if err != nil {
			return nil, false
		}
		set[k] = true
	}
	return set, true
}

// evalCondWith evaluates a rendered condition with every alias replaced by v.
func evalCondWith(cond string, names []string, v int64) (bool, bool) {
	isName := func(s string) bool {
		for _, n := range names {
			if s == n {
				return true
			}
		}
		return false
	}
	num := func(s string) (int64, bool) {
		if isName(s) {
			return v, true
		}
		i, err := strconv.ParseInt(s, 10, 64)
		return i, err == nil
	}
	if mm := reCmp.FindStringSubmatch(cond); mm != nil {
		a, ok1 := num(mm[1])
		b, ok2 := num(mm[3])
		if !ok1 || !ok2 {
			return false, false
		}
		if mm[2] == "<" {
			return a < b, true
		}
		return a == b, true
	}
	if mm := reCall.FindStringSubmatch(cond); mm != nil && isName(mm[2]) {
		if set, ok := membershipSet(mm[1]); ok {
			return set[v], true
		}
		switch mm[1] {
		case "IsLetter":
			return unicode.IsLetter(rune(v)), true
		case "IsMark":
			return unicode.IsMark(rune(v)), true
		case "IsDigit":
			return unicode.IsDigit(rune(v)), true
		case "IsSpace":
			return unicode.IsSpace(rune(v)), true
		case "IsNumber":
			return unicode.IsNumber(rune(v)), true
		case "IsPunct":
			return unicode.IsPunct(rune(v)), true
		}
	}
	return false, false
}

// solve: the set of values the rune named by these aliases can have (all aliases denote the same rune).
// approx=true when some fact could not be expressed as an interval constraint (the set is then a superset).
func (m *LexModel) solve(st *State, names []string) (set []ivl, approx bool) {
	set = []ivl{{0, maxRune}}
	for _, n := range names {
		if ex, ok := st.Facts["v:"+n]; ok && ex.K == KInt {
			set = intersect(set, ex.I, ex.I)
		}
		if ne, ok := st.Facts["ne:"+n]; ok {
			for _, part := range strings.Split(ne.S, "|") {
				if c, err := strconv.ParseInt(part, 10, 64); err == nil {
					set = append(intersect(set, -1, c-1), intersect(set, c+1, maxRune)...)
				}
			}
		}
	}
	for k, f := range st.Facts {
		if !strings.HasPrefix(k, "c:") || f.K != KBool {
			continue
		}
		cond := k[2:]
		hit := ""
		for _, n := range names {
			if strings.Contains(cond, n) {
				hit = n
			}
		}
		if hit == "" {
			continue
		}
		var ok bool
		set, ok = constrain(set, strings.ReplaceAll(cond, hit, "X"), f.B, "X")
		if !ok {
			approx = true
		}
	}
	return set, approx
}

func (m *LexModel) exact(st *State, names []string) (int64, bool) {
	for _, n := range names {
		if ex, ok := st.Facts["v:"+n]; ok && ex.K == KInt {
			return ex.I, true
		}
	}
	return 0, false
}

// possibleSet: which of the probe values the rune may still have.
func (m *LexModel) possible(st *State, names []string, probes []int64) []int64 {
	var out []int64
	for _, v := range probes {
		if m.consistent(st, names, v) {
			out = append(out, v)
		}
	}
	return out
}

func bump(s string, max int) string {
	n, _ := strconv.Atoi(s)
	if n < max {
		n++
	}
	return strconv.Itoa(n)
}

// consume performs the bookkeeping for one consumed rune; consumedName (if non-empty) names the rune returned.
func (m *LexModel) consume(st *State, in ssa.Instruction, consumedName string, exact *int64, how string) {
	cur := m.aliases(st, "cur")
	e := m.ev(in, "consume", []string{how}, "")
	e.KV["end"] = st.Mon["end"]
	if st.Mon["end"] != "F" {
		e.KV["unsafe"] = "the input is not known to have a rune left here (end-of-input state: '" + st.Mon["end"] + "')"
	}
	// newline accounting
	// a rune consumed earlier whose newline status was left to later tests must be settled before the next rune goes
	if d := st.Mon["deferred"]; d != "" && d != "resolved" {
		if v, ok := m.exact(st, []string{d}); ok && v == '\n' {
			e.KV["uncounted"] = "a consumed newline is not counted before the next rune is consumed"
		} else if !ok && m.consistent(st, []string{d}, '\n') {
			e.KV["uncounted"] = "a rune that may be a newline is consumed without the line counter being advanced for it"
		}
		delete(st.Mon, "deferred")
	} else if d == "resolved" {
		delete(st.Mon, "deferred")
	}
	deferTo := ""
	// closing-pair knowledge for the extent rules: may the previously consumed rune be X while this one is Y?
	h1 := st.Mon["h1"]
	histMay := func(h string, v int64) bool {
		switch {
		case h == "":
			return false
		case strings.HasPrefix(h, "="):
			x, _ := strconv.ParseInt(h[1:], 10, 64)
			return x == v
		default:
			return m.consistent(st, []string{h}, v)
		}
	}
	curMay := func(v int64) bool {
		if exact != nil {
			return *exact == v
		}
		return m.consistent(st, cur, v)
	}
	h1adv, _ := strconv.Atoi(st.Mon["h1adv"])
	h2adv, _ := strconv.Atoi(st.Mon["h2adv"])
	_ = curMay
	// what the path knows *now* (after every test made since) about the runes consumed before this one
	e.KV["h1adv"] = st.Mon["h1adv"]
	if histMay(h1, '\n') {
		e.KV["prevnl"] = "T"
	}
	if histMay(h1, '"') && h1adv >= 2 {
		e.KV["prevquote"] = "T"
	}
	if histMay(st.Mon["h2"], '*') && h2adv >= 3 && histMay(h1, '/') {
		e.KV["prevpair"] = "T"
	}
	var val int64
	known := false
	if exact != nil {
		val, known = *exact, true
	} else if v, ok := m.exact(st, cur); ok {
		val, known = v, true
	}
	switch {
	case known && val == '\n':
		if st.Mon["counted"] == "T" {
			delete(st.Mon, "counted")
			e.KV["newline"] = "counted-before"
		} else {
			st.Mon["owed"] = bump(st.Mon["owed"], 2)
			e.KV["newline"] = "owed"
		}
	case known:
		e.KV["newline"] = "no"
		if st.Mon["counted"] == "T" {
			e.KV["overcount"] = "line was incremented for a rune that is not a newline"
		}
	default:
		if m.consistent(st, cur, '\n') {
			if consumedName != "" {
				// the caller holds the consumed rune and may still test it (c := advance(); if c == '\n' { line++ })
				deferTo = consumedName
				e.KV["newline"] = "deferred"
			} else {
				e.KV["newline"] = "maybe"
				e.KV["uncounted"] = "a rune that may be a newline is consumed without the line counter being advanced for it"
			}
		} else {
			e.KV["newline"] = "no"
		}
		if st.Mon["counted"] == "T" {
			// counted requires cur to be known '\n'; cannot happen here
			delete(st.Mon, "counted")
		}
	}
	// classification of what was consumed (for literal-shape rules)
	probes := []int64{0, '\n', '"', '.', '/', '*', '0', '9', '৫', 'a', 'ক', '_', ' ', '$'}
	var poss []string
	for _, v := range m.possible(st, cur, probes) {
		if exact != nil && v != *exact {
			continue
		}
		poss = append(poss, strconv.QuoteRune(rune(v)))
	}
	e.KV["may"] = strings.Join(poss, "")
	if set, approx := m.solve(st, cur); true {
		if exact != nil {
			set = intersect(set, *exact, *exact)
		}
		e.KV["set"] = ivlString(set)
		if approx {
			e.KV["set"] += " (approx)"
		}
	}
	if set, approx := m.solve(st, m.aliases(st, "next")); true {
		e.KV["next-set"] = ivlString(set)
		if approx {
			e.KV["next-set"] += " (approx)"
		}
	}
	if os.Getenv("LEXDEBUG") != "" {
		var fs []string
		for k, v := range st.Facts {
			fs = append(fs, k+"="+v.String())
		}
		sort.Strings(fs)
		e.KV["facts"] = strings.Join(fs, " ; ") + " || cur=" + strings.Join(cur, ",")
	}
	nxt := m.aliases(st, "next")
	var nposs []string
	for _, v := range m.possible(st, nxt, probes) {
		nposs = append(nposs, strconv.QuoteRune(rune(v)))
	}
	e.KV["next-may"] = strings.Join(nposs, "")
	e.KV["nend"] = st.Mon["nend"]
	// hand the knowledge about cur to the consumed name
	if consumedName != "" {
		if known {
			st.Facts["v:"+consumedName] = IntV(val)
		} else {
			var ne []string
			for _, n := range cur {
				if f, ok := st.Facts["ne:"+n]; ok {
					ne = append(ne, f.S)
				}
			}
			if len(ne) > 0 {
				st.Facts["ne:"+consumedName] = StrV(strings.Join(ne, ""))
			}
			for k, f := range st.Facts {
				if strings.HasPrefix(k, "c:") {
					for _, n := range cur {
						if strings.Contains(k, n) {
							st.Facts[strings.ReplaceAll(k, n, consumedName)] = f
						}
					}
				}
			}
		}
		st.Mon["a:"+consumedName] = "consumed"
	}
	if deferTo != "" {
		st.Mon["deferred"] = deferTo
	}
	if consumedName != "" && st.Mon["adv"] == "0" && st.Mon["firstname"] == "" {
		st.Mon["firstname"] = consumedName
	}
	// history of the last two consumed runes (exact value or the name that carries their facts)
	st.Mon["h2"], st.Mon["h2adv"] = st.Mon["h1"], st.Mon["h1adv"]
	switch {
	case known:
		st.Mon["h1"] = "=" + strconv.FormatInt(val, 10)
	case consumedName != "":
		st.Mon["h1"] = consumedName
	default:
		st.Mon["h1"] = "?"
	}
	st.Mon["h1adv"] = bump(st.Mon["adv"], 4)
	// shift: cur aliases die, next aliases become cur
	for _, n := range cur {
		delete(st.Mon, "a:"+n)
		// knowledge about a rune that has been consumed is dead (its copy lives on under consumedName)
		for k := range st.Facts {
			if strings.Contains(k, n) {
				delete(st.Facts, k)
			}
		}
	}
	// only the most recently consumed rune keeps its facts
	for k, v := range st.Mon {
		if strings.HasPrefix(k, "a:") && v == "consumed" && k[2:] != consumedName && k[2:] != st.Mon["deferred"] && k[2:] != st.Mon["firstname"] && k[2:] != st.Mon["h1"] && k[2:] != st.Mon["h2"] {
			delete(st.Mon, k)
			for fk := range st.Facts {
				if strings.Contains(fk, k[2:]) {
					delete(st.Facts, fk)
				}
			}
		}
	}
	for _, n := range nxt {
		st.Mon["a:"+n] = "cur"
	}
	st.Mon["end"] = st.Mon["nend"]
	delete(st.Mon, "nend")
	if st.Mon["end"] == "" {
		delete(st.Mon, "end")
	}
	st.Mon["adv"] = bump(st.Mon["adv"], 4)
	e.KV["adv"] = st.Mon["adv"]
	m.Emit(st, e)
}

var histRoles = []string{"h1", "h2", "deferred", "firstname"}

func (m *LexModel) canonicalize(st *State, name string) {
	used := map[string]bool{}
	needs := false
	for _, r := range histRoles {
		used[st.Mon[r]] = true
		if st.Mon[r] == name {
			needs = true
		}
	}
	// the name may also still stand for the rune under the cursor or the one after it (a lookahead taken on every
	// iteration, before the rune it saw is consumed): what the path knows about that rune stays known
	class := st.Mon["a:"+name]
	if class == "cur" || class == "next" {
		needs = true
	} else {
		class = ""
	}
	for mk := range st.Mon {
		if strings.HasPrefix(mk, "a:K") {
			used[mk[2:]] = true
		}
	}
	if !needs {
		return
	}
	k := ""
	for i := 0; i < 8 && k == ""; i++ {
		if c := fmt.Sprintf("K%d~", i); !used[c] {
			k = c
		}
	}
	if k == "" {
		return
	}
	for fk := range st.Facts {
		if strings.Contains(fk, k) {
			delete(st.Facts, fk)
		}
	}
	for fk, f := range st.Facts {
		if strings.Contains(fk, name) {
			st.Facts[strings.ReplaceAll(fk, name, k)] = f
		}
	}
	for _, r := range histRoles {
		if st.Mon[r] == name {
			st.Mon[r] = k
		}
	}
	st.Mon["a:"+k] = "consumed"
	if class != "" {
		st.Mon["a:"+k] = class
		delete(st.Mon, "a:"+name)
	}
}

func (m *LexModel) Call(mc *Machine, st *State, call ssa.CallInstruction, callee *ssa.Function, args []AV) ([]Outcome, bool) {
	in := call.(ssa.Instruction)
	fr := st.Top()
	valName := ""
	if v, ok := call.(ssa.Value); ok {
		valName = "@" + fr.ID + ":" + v.Name()
	}
	if callee == nil {
		return nil, false
	}
	role := m.prim[callee]
	withEnd := func(key string, f func(s *State, atEnd bool) AV, lbl string) []Outcome {
		var outs []Outcome
		opts := []string{st.Mon[key]}
		if st.Mon[key] == "" {
			opts = []string{"T", "F"}
		}
		for _, o := range opts {
			o := o
			outs = append(outs, Outcome{Apply: func(s *State) {}, Label: lbl + "[" + key + "=" + o + "]", Result: Unk})
			idx := len(outs) - 1
			outs[idx].Apply = func(s *State) {
				s.Mon[key] = o
				if key == "end" && o == "T" {
					s.Mon["nend"] = "T"
				}
			}
			_ = f
		}
		return outs
	}
	_ = withEnd
	switch role {
	case "isAtEnd":
		var outs []Outcome
		opts := []string{st.Mon["end"]}
		if st.Mon["end"] == "" {
			opts = []string{"T", "F"}
		}
		for _, o := range opts {
			o := o
			outs = append(outs, Outcome{Result: BoolV(o == "T"), Apply: func(s *State) {
				s.Mon["end"] = o
				if o == "T" {
					s.Mon["nend"] = "T"
				}
				m.Emit(s, m.ev(in, "atend", nil, o))
			}})
		}
		return outs, true
	case "peek":
		var outs []Outcome
		opts := []string{st.Mon["end"]}
		if st.Mon["end"] == "" {
			opts = []string{"T", "F"}
		}
		m.canonicalize(st, "pk"+valName)
		for _, o := range opts {
			o := o
			name := "pk" + valName
			if o == "T" {
				outs = append(outs, Outcome{Result: IntV(0), Apply: func(s *State) {
					s.Mon["end"], s.Mon["nend"] = "T", "T"
					m.Emit(s, m.ev(in, "peek", nil, "end"))
				}})
			} else {
				outs = append(outs, Outcome{Result: Sym(name), Apply: func(s *State) {
					s.Mon["end"] = "F"
					s.Mon["a:"+name] = "cur"
					m.Emit(s, m.ev(in, "peek", nil, "rune"))
				}})
			}
		}
		return outs, true
	case "peekNext":
		var outs []Outcome
		opts := []string{st.Mon["nend"]}
		if st.Mon["nend"] == "" {
			opts = []string{"T", "F"}
		}
		m.canonicalize(st, "pn"+valName)
		for _, o := range opts {
			o := o
			name := "pn" + valName
			if o == "T" {
				outs = append(outs, Outcome{Result: IntV(0), Apply: func(s *State) {
					s.Mon["nend"] = "T"
					m.Emit(s, m.ev(in, "peeknext", nil, "end"))
				}})
			} else {
				outs = append(outs, Outcome{Result: Sym(name), Apply: func(s *State) {
					s.Mon["nend"] = "F"
					s.Mon["end"] = "F"
					s.Mon["a:"+name] = "next"
					m.Emit(s, m.ev(in, "peeknext", nil, "rune"))
				}})
			}
		}
		return outs, true
	case "advance":
		name := "ad" + valName
		if set, _ := m.solve(st, m.aliases(st, "cur")); len(set) == 0 {
			return []Outcome{}, true // the facts assumed along this path contradict each other: infeasible
		}
		if nx := m.aliases(st, "next"); len(nx) > 0 {
			if set, _ := m.solve(st, nx); len(set) == 0 {
				return []Outcome{}, true
			}
		}
		// the machine forgets every fact about a site-based name when its site is executed again (loop iteration);
		// knowledge about earlier runes consumed at this very site moves to a canonical name first
		m.canonicalize(st, name)
		return []Outcome{{Result: Sym(name), Apply: func(s *State) {
			m.consume(s, in, name, nil, "advance")
		}}}, true
	case "match":
		exp := mc.resolve(st, args[1])
		if exp.K != KInt {
			m.Undecided = append(m.Undecided, "match with a non-constant rune at "+m.p.InstrPos(in))
			return nil, false
		}
		var outs []Outcome
		endOpts := []string{st.Mon["end"]}
		if st.Mon["end"] == "" {
			endOpts = []string{"T", "F"}
		}
		for _, eo := range endOpts {
			eo := eo
			if eo == "T" {
				outs = append(outs, Outcome{Result: BoolV(false), Apply: func(s *State) {
					s.Mon["end"], s.Mon["nend"] = "T", "T"
					m.Emit(s, m.ev(in, "match", []string{strconv.QuoteRune(rune(exp.I))}, "end"))
				}})
				continue
			}
			cur := m.aliases(st, "cur")
			canEq := m.consistent(st, cur, exp.I)
			canNe := true
			if v, ok := m.exact(st, cur); ok && v == exp.I {
				canNe = false
			}
			if canEq {
				outs = append(outs, Outcome{Result: BoolV(true), Apply: func(s *State) {
					s.Mon["end"] = "F"
					ev := m.ev(in, "match", []string{strconv.QuoteRune(rune(exp.I))}, "true")
					m.Emit(s, ev)
					x := exp.I
					m.consume(s, in, "", &x, "match")
				}})
			}
			if canNe {
				name := "mt" + valName
				outs = append(outs, Outcome{Result: BoolV(false), Apply: func(s *State) {
					s.Mon["end"] = "F"
					s.Mon["a:"+name] = "cur"
					prev := s.Facts["ne:"+name]
					s.Facts["ne:"+name] = StrV(prev.S + "|" + strconv.FormatInt(exp.I, 10))
					m.Emit(s, m.ev(in, "match", []string{strconv.QuoteRune(rune(exp.I))}, "false"))
				}})
			}
		}
		return outs, true
	case "addToken", "AddToken":
		tt := mc.resolve(st, args[1])
		lit := "nil"
		if role == "AddToken" && len(args) > 2 {
			lit = args[2].String()
		}
		e := m.ev(in, "token", []string{tt.String(), lit}, "")
		e.KV["adv"] = st.Mon["adv"]
		// what the rune after the lexeme may still be (for the longest-piece rules): the probes consistent with
		// everything the path has tested about the rune under the cursor
		e.KV["at-end"] = st.Mon["end"]
		var after []string
		for _, v := range m.possible(st, m.aliases(st, "cur"), wordProbes) {
			after = append(after, strconv.QuoteRune(rune(v)))
		}
		e.KV["after-may"] = strings.Join(after, "")
		return []Outcome{{Result: Unk, Apply: func(s *State) {
			s.Mon["tok"] = bump(s.Mon["tok"], 2)
			m.Emit(s, e)
		}}}, true
	}
	// diagnostics
	full := m.p.FuncKey(callee)
	if full == "utils.GlobalError" || full == "utils.GlobalErrorToken" || full == "utils.report" {
		e := m.ev(in, "lexerror", argStrings(args), "")
		if len(args) > 0 {
			e.KV["line"] = args[0].String()
		}
		return []Outcome{{Result: Unk, Apply: func(s *State) {
			s.Mon["err"] = bump(s.Mon["err"], 1)
			m.Emit(s, e)
		}}}, true
	}
	if !m.p.InModule(callee) {
		ext := extName(callee)
		// unicode predicates on constants are evaluated; on symbolic runes they become named conditions
		if fnPkgPath(callee) == "unicode" && len(args) == 1 {
			a := mc.resolve(st, args[0])
			if a.K == KInt {
				if v, ok := evalCondWith(callee.Name()+"(x)", []string{"x"}, a.I); ok {
					return []Outcome{{Result: BoolV(v)}}, true
				}
			}
			if a.K == KSym {
				return []Outcome{{Result: Sym(callee.Name() + "(" + a.S + ")")}}, true
			}
		}
		{
			var ra []AV
			for _, a := range args {
				ra = append(ra, mc.resolve(st, a))
			}
			if r, ok := runeMembership(callee, ra); ok {
				return []Outcome{{Result: r}}, true
			}
		}
		res := Sym(callee.Name() + "(" + strings.Join(argStrings(args), ",") + ")")
		if v, ok := call.(ssa.Value); ok {
			if tup, ok := v.Type().(*types.Tuple); ok {
				ts := make([]AV, tup.Len())
				for i := range ts {
					ts[i] = Sym(fmt.Sprintf("%s#%d", res.S, i))
				}
				if ext == "strconv.ParseFloat" {
					// fork on the error result
					return []Outcome{
						{Result: AV{K: KTuple, T: []AV{ts[0], NilV}}, Apply: func(s *State) { m.Emit(s, m.ev(in, "parsefloat", argStrings(args), "ok")) }},
						{Result: AV{K: KTuple, T: []AV{ts[0], Sym(res.S + ".err")}}, Apply: func(s *State) {
							s.Facts["c:("+res.S+".err == nil)"] = BoolV(false)
							m.Emit(s, m.ev(in, "parsefloat", argStrings(args), "err"))
						}},
					}, true
				}
				return []Outcome{{Result: AV{K: KTuple, T: ts}}}, true
			}
		}
		return []Outcome{{Result: res}}, true
	}
	if full == "utils.ConvertBanglaDigitsToASCII" {
		return []Outcome{{Result: Sym("ConvertBanglaDigitsToASCII(" + args[0].String() + ")")}}, true
	}
	if _, isCtor := tokenConstructors(m.p)[full]; isCtor {
		return []Outcome{{Result: Sym("NewToken(" + strings.Join(argStrings(args), ",") + ")")}}, true
	}
	return nil, false // inline (scanner helpers: stringLiteral, number, identifier, predicates …)
}

func (m *LexModel) Instr(mc *Machine, st *State, in ssa.Instruction, ops []AV) {
	switch x := in.(type) {
	case *ssa.Store:
		fa, ok := x.Addr.(*ssa.FieldAddr)
		if !ok {
			return
		}
		tn, f := structKey(fa.X.Type(), fa.Field)
		if tn != "lexer.Scanner" {
			return
		}
		val := ops[1]
		switch f {
		case "line":
			e := m.ev(in, "line++", []string{val.String()}, "")
			if !strings.HasSuffix(val.S, ".line + 1)") {
				e.KV["bad"] = "the line counter is set to " + val.String() + " instead of line+1"
			}
			cur := m.aliases(st, "cur")
			if set, _ := m.solve(st, cur); len(cur) > 0 && len(set) == 0 {
				// the facts this path assumed about the rune under the cursor contradict each other (it was taken to be
				// '*' by one test and '\n' by the next): the path is infeasible and ends at the following advance
				delete(st.Heap, "s.line")
				return
			}
			switch {
			case st.Mon["owed"] != "" && st.Mon["owed"] != "0":
				n, _ := strconv.Atoi(st.Mon["owed"])
				st.Mon["owed"] = strconv.Itoa(n - 1)
				e.KV["for"] = "consumed"
			case st.Mon["deferred"] != "" && func() bool { v, ok := m.exact(st, []string{st.Mon["deferred"]}); return ok && v == '\n' }():
				st.Mon["deferred"] = "resolved"
				e.KV["for"] = "deferred"
			case func() bool { v, ok := m.exact(st, cur); return ok && v == '\n' }() && st.Mon["counted"] != "T":
				st.Mon["counted"] = "T"
				e.KV["for"] = "cur"
			default:
				e.KV["bad"] = "the line counter advances although no newline is being consumed here"
			}
			// Heap keeps the symbolic +1; reset to keep the state finite
			delete(st.Heap, "s.line")
			m.Emit(st, e)
		case "start":
			e := m.ev(in, "mark", []string{val.String()}, "")
			st.Mon["adv"] = "0"
			for _, k := range []string{"firstname", "firstknown", "h1", "h2", "h1adv", "h2adv"} {
				delete(st.Mon, k)
			}
			delete(st.Heap, "s.start")
			m.Emit(st, e)
		case "current":
			// only the primitives may move the cursor
			e := m.ev(in, "cursor-write", []string{val.String()}, "")
			delete(st.Heap, "s.current")
			m.Emit(st, e)
		default:
			m.Emit(st, m.ev(in, "fieldstore", []string{f, val.String()}, ""))
		}
	case *ssa.Slice:
		// source[lo:hi] — recorded with the number of runes consumed since the token start
		if strings.HasSuffix(ops[0].S, ".source") {
			norm := func(v ssa.Value) string {
				if v == nil {
					return ""
				}
				return strings.ReplaceAll(recvFieldExpr(in.Parent(), v), "$.", "s.")
			}
			e := m.ev(in, "slice", []string{norm(x.Low), norm(x.High)}, "")
			e.KV["adv"] = st.Mon["adv"]
			m.Emit(st, e)
		}
	case *ssa.Lookup:
		if _, isMap := x.X.Type().Underlying().(*types.Map); isMap {
			m.Emit(st, m.ev(in, "maplookup", argStrings(ops), ""))
		}
	}
}

func (m *LexModel) Branch(mc *Machine, st *State, in *ssa.If, cond AV, taken bool) {
	if d := st.Mon["firstname"]; d != "" && st.Mon["firstknown"] == "" {
		if v, ok := m.exact(st, []string{d}); ok {
			st.Mon["firstknown"] = "T"
			m.Emit(st, m.ev(in, "first", []string{strconv.QuoteRune(rune(v))}, ""))
		}
	}
	if cond.K == KSym && strings.HasPrefix(cond.S, "has:") {
		t := taken
		if cond.Neg {
			t = !t
		}
		m.Emit(st, m.ev(in, "has", []string{strings.TrimPrefix(cond.S, "has:")}, fmt.Sprint(t)))
	}
}

func (m *LexModel) BackEdge(mc *Machine, st *State, from, to *ssa.BasicBlock) {
	e := &Event{Op: "backedge", Pos: m.p.InstrPos(to.Instrs[0]), Site: fnName(to.Parent()) + ":b" + fmt.Sprint(to.Index), KV: map[string]string{"adv": st.Mon["adv"]}}
	m.Emit(st, e)
}

func (m *LexModel) Return(mc *Machine, st *State, ret *ssa.Return, results []AV) {
	e := m.ev(ret, "return", argStrings(results), "")
	e.KV["owed"] = st.Mon["owed"]
	e.KV["counted"] = st.Mon["counted"]
	e.KV["tok"] = st.Mon["tok"]
	e.KV["err"] = st.Mon["err"]
	e.KV["adv"] = st.Mon["adv"]
	if d := st.Mon["deferred"]; d != "" && d != "resolved" {
		if v, ok := m.exact(st, []string{d}); ok {
			if v == '\n' {
				e.KV["deferred"] = "newline-not-counted"
			}
		} else if m.consistent(st, []string{d}, '\n') {
			e.KV["deferred"] = "maybe-newline"
		}
	}
	if d := st.Mon["firstname"]; d != "" {
		if v, ok := m.exact(st, []string{d}); ok {
			e.KV["first"] = strconv.QuoteRune(rune(v))
		} else if m.consistent(st, []string{d}, '\n') {
			e.KV["first"] = "?"
		} else {
			e.KV["first"] = "other"
		}
	}
	// what the path knows about the last two consumed runes and about the rune under the cursor (extent rules)
	histSet := func(h string) string {
		switch {
		case h == "" || h == "?":
			return h
		case strings.HasPrefix(h, "="):
			x, _ := strconv.ParseInt(h[1:], 10, 64)
			return ivlString([]ivl{{x, x}})
		}
		set, approx := m.solve(st, []string{h})
		if approx {
			return ivlString(set) + " (approx)"
		}
		return ivlString(set)
	}
	e.KV["last1"], e.KV["last2"] = histSet(st.Mon["h1"]), histSet(st.Mon["h2"])
	e.KV["last1adv"], e.KV["last2adv"] = st.Mon["h1adv"], st.Mon["h2adv"]
	e.KV["end"] = st.Mon["end"]
	if st.Mon["end"] != "T" {
		set, approx := m.solve(st, m.aliases(st, "cur"))
		e.KV["cur"] = ivlString(set)
		if approx {
			e.KV["cur"] += " (approx)"
		}
	}
	m.Emit(st, e)
}

func (m *LexModel) LoadGlobal(mc *Machine, st *State, g *ssa.Global) ([]AV, bool) { return nil, false }

// Explore runs fn (a method of *Scanner) from the given cursor knowledge.
func (m *LexModel) Explore(fn *ssa.Function, end string) *Machine {
	mc := NewMachine(m.p, m)
	mc.ForkTables = true
	m.Attach(mc)
	params := []AV{Sym("s")}
	mc.Start(fn, params, func(st *State) {
		m.setNode(st, m.G.Start)
		if end != "" {
			st.Mon["end"] = end
		}
		st.Mon["adv"] = "0"
	})
	if mc.Aborted != "" {
		m.Undecided = append(m.Undecided, mc.Aborted)
	}
	return mc
}

var _ = token.ADD
