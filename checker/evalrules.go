package main

// Rules over the event graphs of the evaluator: C03/S2, C04, C05, C06, C14, C15/S1, C20/S4.

import (
	"fmt"
	"go/types"
	"os"
	"sort"
	"strings"

	"golang.org/x/tools/go/ssa"
)

type clauseSet struct {
	p        *Prog
	ii       *InterpInfo
	Clauses  map[string]*InterpModel // "*ast.While" → model
	Order    []string
	FCall    *InterpModel
	Interp   *InterpModel
	States   int
	Paths    int
	Probs    []string
	guardWhy string
}

var clauseCache = map[*Prog]*clauseSet{}

func getClauses(p *Prog) *clauseSet {
	if cs, ok := clauseCache[p]; ok {
		return cs
	}
	cs := &clauseSet{p: p, ii: p.Interp(), Clauses: map[string]*InterpModel{}}
	clauseCache[p] = cs
	ii := cs.ii
	if len(ii.Problems) > 0 {
		cs.Probs = append(cs.Probs, ii.Problems...)
		return cs
	}
	// is eval a guarded callee?  explore it entered dirty, node type unknown
	{
		m := NewInterpModel(p, "eval/<entered-dirty>")
		m.AssumeGuarded = false
		mc := m.Explore(ii.Eval, []AV{Sym("i"), Sym("e"), Sym("env"), Sym("isRepl")}, func(st *State) { st.Mon["raised"] = "T" })
		cs.States += mc.States
		cs.Paths += mc.Paths
		guarded := len(m.Undecided) == 0
		why := ""
		for _, es := range m.G.Out {
			for _, e := range es {
				if e.Ev == nil {
					continue
				}
				switch e.Ev.Op {
				case "flagtest":
				case "return":
					if e.Ev.KV["r0"] != "nil" || e.Ev.KV["r1.Type"] != "0" {
						guarded = false
						why = "returns " + e.Ev.String() + " when entered with the flag set"
					}
				default:
					guarded = false
					if why == "" {
						why = "performs " + e.Ev.String() + " at " + e.Ev.Pos + " when entered with the flag set"
					}
				}
			}
		}
		ii.EvalGuarded = guarded
		cs.guardWhy = why
	}
	for _, t := range ii.evalClauses() {
		m, mc := ExploreEvalClause(p, t, false)
		cs.Clauses[t] = m
		cs.Order = append(cs.Order, t)
		cs.States += mc.States
		if os.Getenv("DBGSTATES") != "" {
			fmt.Fprintln(os.Stderr, "clause", t, "states", mc.States)
		}
		cs.Paths += mc.Paths
		for _, u := range m.Undecided {
			cs.Probs = append(cs.Probs, m.Scenario+": "+u)
		}
	}
	cs.FCall = NewInterpModel(p, "Function.Call")
	mc := cs.FCall.Explore(ii.FuncCall, []AV{Sym("f"), Sym("i"), Sym("arguments")}, nil)
	cs.States += mc.States
	cs.Paths += mc.Paths
	cs.Interp = NewInterpModel(p, "Interpret")
	mc = cs.Interp.Explore(ii.Interpret, []AV{Sym("i"), Sym("statements"), Sym("isRepl")}, nil)
	cs.States += mc.States
	cs.Paths += mc.Paths
	for _, m := range []*InterpModel{cs.FCall, cs.Interp} {
		for _, u := range m.Undecided {
			cs.Probs = append(cs.Probs, m.Scenario+": "+u)
		}
	}
	return cs
}

func (cs *clauseSet) account(l *Ledger) bool {
	l.States += cs.States
	l.Paths += cs.Paths
	l.Funcs[cs.p.FuncKey(cs.ii.Eval)] = true
	if cs.ii.FuncCall != nil {
		l.Funcs[cs.p.FuncKey(cs.ii.FuncCall)] = true
	}
	if cs.ii.Interpret != nil {
		l.Funcs[cs.p.FuncKey(cs.ii.Interpret)] = true
	}
	for _, pr := range cs.Probs {
		l.Undecide("infrastructure/explorer", pr, "", "abstract exploration incomplete: "+pr)
	}
	l.Extra["eval_clauses"] = cs.Order
	l.Extra["eval_is_guarded_callee"] = cs.ii.EvalGuarded
	return len(cs.Probs) == 0
}

func short(t string) string { return strings.TrimPrefix(t, "*ast.") }

func (cs *clauseSet) all() []*InterpModel {
	var out []*InterpModel
	for _, t := range cs.Order {
		out = append(out, cs.Clauses[t])
	}
	out = append(out, cs.FCall, cs.Interp)
	return out
}

func witnessDetail(w Witness) map[string]interface{} {
	return map[string]interface{}{"path": w.Trace}
}

func isStmtChild(ev *Event) bool { return ev.KV["childtype"] == "ast.Stmt" }

// ---------------------------------------------------------------- C04

func init() {
	register("C04", &Checker{
		Run: func(p *Prog, l *Ledger) { checkC04(p, l); checkC04Shared(p, l) },
		Explain: "Decided on the event graph of every clause of eval, of Function.Call and of Interpret (finite abstract exploration: every child evaluation forks over the signals {None, Break, Continue, Return} a statement child can return and over 'raised the error flag or not'): " +
			"S1 a non-None signal that a clause does not handle (only loops handle Break/Continue, only Function.Call handles Return, only Interpret reports all three) is returned unchanged before any further evaluation, invocation, output, store or loop iteration; " +
			"S2 the Return clause carries the value of eval(e.Value) (nil when absent) and Function.Call returns the Value of the first Return signal and evaluates nothing afterwards, nil at the end of the body; " +
			"S3 call protocol: callee evaluated first, comma-ok Callable test, arity test (Arity()==-1 or len(args)==Arity()) established on every path that reaches the invocation, arguments evaluated in order by one range loop with one append each, exactly one invocation, its error reported; parameters bound as Define(Params[k].Lexeme, arguments[k]) with one shared index; Function.Arity is len(Params); " +
			"S4 the activation is a fresh child of the closure, the closure is the declaring environment (or a fresh child of it) and the function name is defined in the declaring environment. " +
			"Not decided: equivalence with an independent closure model over call histories (replaced by this by-construction argument).",
		Rule:    "obligation = (rule, clause#site); non-trivial = every obligation decided by path exploration (all of them except vacuity floors)",
		Trusted: []string{"finite-domain abstract interpreter (machine.go) and the interpreter model (interpmodel.go)", "go/ssa"},
	})
}

var loopHandles = map[int]bool{1: true, 2: true}

func handlesOf(scenario string) map[int]bool {
	switch scenario {
	case "eval/While", "eval/ForStmt":
		return loopHandles
	case "Function.Call":
		return map[int]bool{1: true, 2: true, 3: true} // Return yields the value; Break/Continue are absorbed and end the call
	case "Interpret":
		return map[int]bool{1: true, 2: true, 3: true}
	}
	return map[int]bool{}
}

var sigNames = map[string]string{"0": "None", "1": "Break", "2": "Continue", "3": "Return"}

// monSignal: an unhandled signal must be returned before anything else happens.
func monSignal(handles map[int]bool) Monitor {
	return Monitor{Init: "idle", Step: func(s string, ev *Event) string {
		if s == "idle" {
			if ev.Op == "eval" && isStmtChild(ev) && ev.KV["sig"] != "0" && ev.KV["sig"] != "" {
				var t int
				fmt.Sscan(ev.KV["sig"], &t)
				if handles[t] {
					return "idle"
				}
				return "pend|" + ev.KV["sig"] + "|" + ev.KV["res"] + "|" + ev.KV["child"]
			}
			return "idle"
		}
		parts := strings.SplitN(s, "|", 4)
		t, res, child := parts[1], parts[2], parts[3]
		switch ev.Op {
		case "flagtest", "niltest":
			return s
		case "return":
			r1 := ev.KV["r1"]
			if r1 == res+".sig" {
				return ""
			}
			if ev.KV["r1.Type"] == t && (t != "3" || ev.KV["r1.Value"] == res+".sig.Value") {
				return ""
			}
			return fmt.Sprintf("!a %s signal returned by eval(%s) is replaced by a different signal (%s, Type=%s)", sigNames[t], child, r1, ev.KV["r1.Type"])
		}
		return fmt.Sprintf("!a %s signal returned by eval(%s) is not propagated: the clause goes on with %s", sigNames[t], child, ev.String())
	}}
}

func checkC04(p *Prog, l *Ledger) {
	cs := getClauses(p)
	if !cs.account(l) {
		return
	}
	// ---- S1
	nSites := 0
	for _, m := range cs.all() {
		sites := map[string]*Event{}
		for _, e := range m.G.Events("eval") {
			if isStmtChild(e) {
				sites[e.KV["child"]] = e
			}
		}
		if len(sites) == 0 {
			continue
		}
		ws := m.G.Run(monSignal(handlesOf(m.Scenario)))
		bad := map[string]Witness{}
		for _, w := range ws {
			// attribute to the child named in the message
			for child := range sites {
				if strings.Contains(w.Msg, "eval("+child+")") {
					if _, dup := bad[child]; !dup {
						bad[child] = w
					}
				}
			}
		}
		for child, e := range sites {
			nSites++
			key := m.Scenario + "#eval(" + child + ")"
			if w, isBad := bad[child]; isBad {
				l.Violate("C04/S1-signal-propagation", key, e.Pos, w.Msg, witnessDetail(w))
			} else {
				l.Discharge("C04/S1-signal-propagation", key, e.Pos, "on every path, a signal this clause does not handle is returned unchanged before any further event", true)
			}
		}
	}
	if nSites < 7 {
		l.Violate("C04/S1-signal-propagation/vacuity", "statement-carrying eval sites", "", fmt.Sprintf("only %d statement-carrying child evaluations found (block, if arms, loop bodies, function body, top level expected)", nSites))
	}
	checkReturnClause(cs, l)
	checkFunctionCall(cs, l)
	checkCallProtocol(cs, l)
	checkClosureWiring(cs, l, "C04/S4-closure")
	checkASTReadOnly(p, l)
	checkBalancedCounters(p, l, "C04/S6-balanced-activation-state")
}

// checkASTReadOnly: after parsing, nothing writes into AST nodes — evaluations of the same node
// (recursion, re-entrant calls, closures created by different executions) cannot interfere through it.
func checkASTReadOnly(p *Prog, l *Ledger) {
	rule := "C04/S5-ast-read-only"
	n := 0
	for _, fn := range p.ModuleFuncs() {
		pk := fnPkgName(fn)
		if pk == "parser" {
			continue
		}
		instrsOf(fn, func(in ssa.Instruction) {
			var addr ssa.Value
			switch x := in.(type) {
			case *ssa.Store:
				addr = x.Addr
			case *ssa.MapUpdate:
				addr = x.Map
			default:
				return
			}
			// walk to the root object of the written location
			root := addr
			var path []string
			for depth := 0; depth < 8; depth++ {
				switch y := root.(type) {
				case *ssa.FieldAddr:
					tn, f := structKey(y.X.Type(), y.Field)
					path = append(path, tn+"."+f)
					root = y.X
					continue
				case *ssa.IndexAddr:
					root = y.X
					continue
				case *ssa.UnOp:
					root = y.X
					continue
				}
				break
			}
			for _, seg := range path {
				if strings.HasPrefix(seg, "ast.") {
					if al, ok := root.(*ssa.Alloc); ok && !al.Heap {
						continue
					}
					if _, fresh := root.(*ssa.Alloc); fresh && pk == "ast" {
						continue
					}
					n++
					l.Violate(rule, p.FuncKey(fn)+"#store("+seg+")", p.InstrPos(in), "package "+pk+" writes into an AST node ("+seg+") after parsing: state attached to the syntax tree is shared by every evaluation of that node, so recursive or re-entrant evaluations interfere")
					return
				}
			}
		})
	}
	if n == 0 {
		l.Discharge(rule, "ast.*", "", "no store into any AST node field outside the parser", true)
	}
}

// S2 (first half): the Return clause.
func checkReturnClause(cs *clauseSet, l *Ledger) {
	m := cs.Clauses["*ast.Return"]
	if m == nil {
		l.Undecide("C04/S2-return-value", "eval/Return", "", "no Return clause in eval")
		return
	}
	n := 0
	mon := Monitor{Init: "start", Step: func(s string, ev *Event) string {
		switch ev.Op {
		case "niltest":
			if ev.Args[0] == "e.Value" {
				return "nt:" + ev.Out
			}
			return s
		case "eval":
			if ev.KV["child"] != "e.Value" {
				return "!Return evaluates " + ev.KV["child"] + " instead of its value expression"
			}
			if strings.HasPrefix(s, "ev:") {
				return "!Return evaluates its value twice"
			}
			return "ev:" + ev.KV["res"] + ":" + ev.KV["sig"]
		case "flagtest":
			return s
		case "return":
			if ev.KV["raised"] == "T" && ev.KV["r1.Type"] == "0" {
				return "" // error path
			}
			if strings.HasPrefix(s, "ev:") {
				parts := strings.Split(s, ":")
				if parts[2] != "0" {
					return ""
				}
				if ev.KV["r1.Type"] != "3" {
					return "!Return clause yields signal type " + ev.KV["r1.Type"] + " instead of Return"
				}
				if ev.KV["r1.Value"] != parts[1]+".val" {
					return "!Return signal carries " + ev.KV["r1.Value"] + " instead of the evaluated value " + parts[1] + ".val"
				}
				return ""
			}
			// no value expression
			if ev.KV["r1.Type"] != "3" {
				return "!Return clause yields signal type " + ev.KV["r1.Type"] + " instead of Return"
			}
			if ev.KV["r1.Value"] != "nil" {
				return "!bare return carries " + ev.KV["r1.Value"] + " instead of nil"
			}
			if s != "nt:nil" {
				return "!return signal built without evaluating a present value expression"
			}
			return ""
		}
		return "!unexpected " + ev.String() + " in the Return clause"
	}}
	for _, w := range m.G.Run(mon) {
		n++
		l.Violate("C04/S2-return-value", "eval/Return", posOf(w), w.Msg, witnessDetail(w))
	}
	if n == 0 {
		l.Discharge("C04/S2-return-value", "eval/Return", "", "the Return signal carries exactly the value of eval(e.Value), nil when absent", true)
	}
}

func posOf(w Witness) string {
	if w.Last != nil {
		return w.Last.Pos
	}
	return ""
}

// S2 (second half) + binding part of S3: Function.Call.
func checkFunctionCall(cs *clauseSet, l *Ledger) {
	m := cs.FCall
	mon := Monitor{Init: "run", Step: func(s string, ev *Event) string {
		switch s {
		case "run":
			if ev.Op == "eval" {
				switch ev.KV["sig"] {
				case "3":
					return "ret|" + ev.KV["res"]
				case "1", "2":
					return "end"
				}
			}
			if ev.Op == "return" {
				if ev.KV["r0"] != "nil" {
					return "!Function.Call returns " + ev.KV["r0"] + " although no return statement was executed"
				}
				return ""
			}
			return "run"
		case "end":
			if ev.Op == "return" {
				return ""
			}
			if ev.Op == "flagtest" {
				return s
			}
			return "!after a stray break/continue signal the call goes on with " + ev.String()
		}
		res := strings.TrimPrefix(s, "ret|")
		switch ev.Op {
		case "flagtest":
			return s
		case "return":
			if ev.KV["r0"] != res+".sig.Value" {
				return "!the call returns " + ev.KV["r0"] + " instead of the Value of the Return signal"
			}
			if ev.KV["r1"] != "nil" {
				return "!the call reports an error for an ordinary return"
			}
			return ""
		}
		return "!statements after the executed return are not skipped: " + ev.String()
	}}
	ws := m.G.Run(mon)
	for _, w := range ws {
		l.Violate("C04/S2-return-value", "Function.Call#body", posOf(w), w.Msg, witnessDetail(w))
	}
	if len(ws) == 0 {
		l.Discharge("C04/S2-return-value", "Function.Call#body", "", "the first Return signal ends the call with its Value; nothing is evaluated afterwards; nil at the end of the body", true)
	}
	// parameter binding
	defs := m.G.Events("define")
	okSelf, okParam := false, false
	for _, d := range defs {
		if len(d.Args) != 3 {
			continue
		}
		if strings.HasSuffix(d.Args[1], "Params[range].Lexeme") {
			if d.Args[2] == "arguments[range]" {
				okParam = true
				l.Discharge("C04/S3-binding", "Function.Call#define(param)", d.Pos, "Define(Params[k].Lexeme, arguments[k]) with the single range index k", true)
			} else {
				l.Violate("C04/S3-binding", "Function.Call#define(param)", d.Pos, "parameter bound to "+d.Args[2]+" instead of arguments[k] for the same k")
				okParam = true
			}
		} else if strings.HasSuffix(d.Args[1], "Name.Lexeme") {
			okSelf = true
		} else {
			l.Violate("C04/S3-binding", "Function.Call#define("+d.Args[1]+")", d.Pos, "unexpected binding in the activation: "+d.String())
		}
	}
	if !okParam {
		l.Violate("C04/S3-binding", "Function.Call#define(param)", "", "no positional parameter binding found")
	}
	if okSelf {
		l.Discharge("C04/S3-binding", "Function.Call#define(self)", "", "the activation binds the function's own name to the function value (the body's references to its name, and a `ধরি` of that name in the body, resolve in the activation)", true)
	} else {
		l.Violate("C04/S3-binding", "Function.Call#define(self)", "", "the activation no longer binds the function's own name: inside the body the name resolves through the closure instead (a rebound or aliased function recurses into the wrong function, an assignment to the name in the body escapes the call, `ধরি` of the name is no longer a redeclaration)")
	}
	// order of the bindings: the own name first, the parameters over it (a parameter spelled like the function must
	// denote the argument), and all of them before the first statement of the body runs
	order := Monitor{Init: "start", Step: func(s string, ev *Event) string {
		switch ev.Op {
		case "define":
			if len(ev.Args) != 3 {
				return s
			}
			if strings.HasSuffix(ev.Args[1], "Params[range].Lexeme") {
				if s == "body" {
					return "!a parameter is bound after a statement of the body has run"
				}
				return "params"
			}
			if strings.HasSuffix(ev.Args[1], "Name.Lexeme") {
				if s == "params" {
					return "!the function's own name is bound after the parameters: a parameter with the same name as the function is overwritten by the function value"
				}
				if s == "body" {
					return "!the function's own name is bound after a statement of the body has run"
				}
			}
		case "eval":
			return "body"
		}
		return s
	}}
	ows := m.G.Run(order)
	for _, w := range ows {
		l.Violate("C04/S3-binding", "Function.Call#order", posOf(w), w.Msg, witnessDetail(w))
	}
	if len(ows) == 0 {
		l.Discharge("C04/S3-binding", "Function.Call#order", "", "own name, then parameters, then the body", true)
	}
	// Arity = len(Params)
	ar := cs.p.Func("interpreter.(*Function).Arity")
	if ar == nil {
		l.Undecide("C04/S3-arity", "Function.Arity", "", "not found")
	} else {
		ok := false
		instrsOf(ar, func(in ssa.Instruction) {
			if ret, isRet := in.(*ssa.Return); isRet && len(ret.Results) == 1 {
				if la := lenArg(ret.Results[0]); la != nil && strings.HasSuffix(describe(la), "Declaration.Params") {
					ok = true
				}
			}
		})
		if ok {
			l.Discharge("C04/S3-arity", "Function.Arity", cs.p.Pos(ar.Pos()), "returns len(Declaration.Params)", true)
		} else {
			l.Violate("C04/S3-arity", "Function.Arity", cs.p.Pos(ar.Pos()), "a user function's arity is not the number of its parameters")
		}
	}
}

// S3: the Call clause.
func checkCallProtocol(cs *clauseSet, l *Ledger) {
	m := cs.Clauses["*ast.Call"]
	if m == nil {
		l.Undecide("C04/S3-call-protocol", "eval/Call", "", "no Call clause")
		return
	}
	mon := Monitor{Init: "callee", Step: func(s string, ev *Event) string {
		if ev.Op == "return" && ev.KV["raised"] == "T" && ev.KV["r1.Type"] == "0" && !strings.HasPrefix(s, "invoked") {
			return "" // error exit before the invocation
		}
		if ev.Op == "niltest" {
			return s
		}
		switch s {
		case "callee":
			if ev.Op == "eval" {
				if ev.KV["child"] != "e.Callee" {
					return "!the first evaluation of a call is " + ev.KV["child"] + ", not the callee"
				}
				return "checks|" + ev.KV["res"]
			}
			if ev.Op == "flagtest" {
				return s
			}
			return "!" + ev.String() + " before the callee is evaluated"
		}
		parts := strings.Split(s, "|")
		switch parts[0] {
		case "checks": // callable test and arity test, then the argument loop
			switch ev.Op {
			case "arity", "rterror", "flagtest", "call":
				return s
			case "next":
				if ev.Args[0] != "e.Arguments" {
					return "!argument loop ranges over " + ev.Args[0]
				}
				if ev.Out == "true" {
					return "arg|" + parts[1] + "|nil"
				}
				return "invoke|" + parts[1] + "|nil"
			case "invoke":
				return "!invocation without an argument loop"
			case "return":
				// leaving before the invocation is an error exit (reported here or by the callee expression) or the
				// propagation of the callee expression's signal — never a silent success
				if ev.KV["raised"] == "T" || ev.KV["r1"] == parts[1]+".sig" {
					return ""
				}
				return "!the call clause returns " + ev.KV["r0"] + " without invoking anything and without a runtime error having been reported (a callee that is not a function must be an error, whatever its value)"
			}
			return "!unexpected " + ev.String() + " between callee evaluation and argument evaluation"
		case "arg": // expecting eval of this iteration's argument
			if ev.Op == "eval" {
				if ev.KV["child"] != "e.Arguments[range]" {
					return "!argument loop evaluates " + ev.KV["child"]
				}
				return "app|" + parts[1] + "|" + parts[2] + "|" + ev.KV["res"]
			}
			if ev.Op == "flagtest" {
				return s
			}
			return "!argument not evaluated in its loop iteration: " + ev.String()
		case "app": // expecting append(acc, thisval)
			switch ev.Op {
			case "flagtest":
				return s
			case "return":
				if ev.KV["raised"] == "T" || ev.KV["r1"] == parts[3]+".sig" {
					return ""
				}
				return "!the call clause gives up after evaluating an argument without an error having been reported"
			case "append":
				if len(ev.Args) != 2 || ev.Args[1] != parts[3]+".val" {
					return "!the evaluated argument is not what is appended: " + ev.String()
				}
				if parts[2] == "nil" && ev.Args[0] != "nil" && !strings.HasPrefix(ev.Args[0], "obj:") {
					return "!the argument list is accumulated in storage that outlives this evaluation (" + ev.Args[0] + "): a re-entrant evaluation of the same call site overwrites it"
				}
				if parts[2] == "acc" && !strings.HasPrefix(ev.Args[0], "append:") {
					return "!an argument is appended to " + ev.Args[0] + " instead of the list built so far"
				}
				return "loop|" + parts[1] + "|acc"
			}
			return "!evaluated argument not appended: " + ev.String()
		case "loop":
			switch ev.Op {
			case "backedge", "flagtest":
				return s
			case "next":
				if ev.Out == "true" {
					return "arg|" + parts[1] + "|acc"
				}
				return "invoke|" + parts[1] + "|acc"
			}
			return "!unexpected " + ev.String() + " in the argument loop"
		case "invoke":
			switch ev.Op {
			case "flagtest":
				return s
			case "return":
				if ev.KV["raised"] == "T" {
					return ""
				}
				return "!the call clause returns without invoking the function"
			case "invoke":
				if ev.Args[0] != parts[1]+".val" {
					return "!the invoked value " + ev.Args[0] + " is not the evaluated callee"
				}
				af := ev.KV["arityfacts"]
				okArity := strings.Contains(af, "== -1)=true") || strings.Contains(af, " == len(e.Arguments))=true")
				if !okArity {
					return "!invocation reachable without the arity test having succeeded (facts: " + af + ")"
				}
				if parts[2] == "acc" && !strings.HasPrefix(ev.Args[2], "append:") {
					return "!the invocation does not receive the evaluated arguments: " + ev.Args[2]
				}
				return "invoked|" + ev.KV["res"] + "|" + ev.Out
			}
			return "!unexpected " + ev.String() + " before the invocation"
		case "invoked":
			switch ev.Op {
			case "flagtest":
				return s
			case "rterror":
				if parts[2] != "err" {
					return "!error reported although the built-in succeeded"
				}
				return "invoked|" + parts[1] + "|reported"
			case "return":
				if parts[2] == "err" {
					return "!the error returned by the callee is dropped"
				}
				if parts[2] == "ok" && ev.KV["r0"] != parts[1]+".val" && ev.KV["raised"] != "T" {
					return "!the call's value is " + ev.KV["r0"] + ", not the callee's result"
				}
				return ""
			case "invoke":
				return "!the function is invoked twice"
			case "eval":
				return "!an operand is evaluated after the invocation"
			}
			return "!unexpected " + ev.String() + " after the invocation"
		}
		return s
	}}
	ws := m.G.Run(mon)
	for _, w := range ws {
		l.Violate("C04/S3-call-protocol", "eval/Call", posOf(w), w.Msg, witnessDetail(w))
	}
	if len(ws) == 0 {
		l.Discharge("C04/S3-call-protocol", "eval/Call", "", "callee → callable test → arity test → arguments in order → one invocation → error reported, on every path", true)
	}
	if len(m.G.Events("invoke")) == 0 {
		l.Violate("C04/S3-call-protocol/vacuity", "eval/Call#invoke", "", "no invocation event in the Call clause")
	}
	// who may invoke Callable.Call: only this clause
	n := 0
	for _, fn := range cs.p.ModuleFuncs() {
		instrsOf(fn, func(in ssa.Instruction) {
			c, ok := in.(ssa.CallInstruction)
			if !ok || !c.Common().IsInvoke() || c.Common().Method.Name() != "Call" {
				return
			}
			if nt := namedOf(c.Common().Value.Type()); nt == nil || nt.Obj().Name() != "Callable" {
				return
			}
			n++
			if fn != cs.ii.Eval && !cs.p.OwnedBy(fn, cs.p.FuncKey(cs.ii.Eval)) {
				l.Violate("C04/S3-who-invokes", cs.p.FuncKey(fn)+"#invoke", cs.p.InstrPos(in), "a Callable is invoked outside the call clause of eval: the arity protocol (and the index safety of arguments[k]) does not cover this site")
			}
		})
	}
	if n == 1 {
		l.Discharge("C04/S3-who-invokes", "Callable.Call", "", "the only invocation site is the call clause (or a helper only it calls, explored as part of it)", true)
	} else if n == 0 {
		l.Violate("C04/S3-who-invokes", "Callable.Call", "", "no invocation site found")
	}
}

// S4 / C03 rows FunctionStmt and Function.Call.
func checkClosureWiring(cs *clauseSet, l *Ledger, rule string) {
	m := cs.Clauses["*ast.FunctionStmt"]
	if m == nil {
		l.Undecide(rule, "eval/FunctionStmt", "", "no FunctionStmt clause")
	} else {
		var newFn, def *Event
		for _, e := range m.G.Events("") {
			if e.Op == "call" && strings.HasSuffix(e.Args[0], "NewFunction") {
				newFn = e
			}
			if e.Op == "define" {
				def = e
			}
		}
		switch {
		case newFn == nil:
			l.Undecide(rule, "eval/FunctionStmt#closure", "", "function value construction not recognised")
		case len(newFn.Args) < 3 || !(newFn.Args[2] == "env" || strings.HasPrefix(newFn.Args[2], "child(env)")):
			l.Violate(rule, "eval/FunctionStmt#closure", newFn.Pos, "the closure captured is "+strings.Join(newFn.Args[1:], ", ")+", not the declaring environment (or a fresh child of it)")
		case newFn.Args[1] != "e":
			l.Violate(rule, "eval/FunctionStmt#closure", newFn.Pos, "function value built from "+newFn.Args[1]+" instead of this declaration")
		default:
			l.Discharge(rule, "eval/FunctionStmt#closure", newFn.Pos, "closure = "+newFn.Args[2]+" (captured by reference)", true)
		}
		switch {
		case def == nil:
			l.Violate(rule, "eval/FunctionStmt#define", "", "the function name is never defined")
		case def.Args[0] != "env" || def.Args[1] != "e.Name.Lexeme":
			l.Violate(rule, "eval/FunctionStmt#define", def.Pos, "function bound as "+def.String()+" instead of Define(env, own name, function)")
		default:
			l.Discharge(rule, "eval/FunctionStmt#define", def.Pos, "name defined in the declaring environment", true)
		}
	}
	fc := cs.FCall
	news := fc.G.Events("newenv")
	if len(news) != 1 || news[0].Args[0] != "f.Closure" {
		pos := ""
		desc := "no environment created"
		if len(news) > 0 {
			pos, desc = news[0].Pos, news[0].String()
		}
		l.Violate(rule, "Function.Call#activation", pos, "the activation record is not one fresh child of the closure: "+desc)
	} else {
		act := news[0].Out
		bad := ""
		for _, e := range fc.G.Events("eval") {
			if e.KV["env"] != act {
				bad = "body statement evaluated in " + e.KV["env"]
			}
			if e.KV["repl"] != "false" {
				bad = "body statement evaluated with isRepl=" + e.KV["repl"]
			}
			if !strings.HasPrefix(e.KV["child"], "f.Declaration.Body") {
				bad = "the call evaluates " + e.KV["child"] + " rather than the statements of the declaration's body (a wrapper node puts a scope between the activation — parameters, own name — and the body's own declarations)"
			}
		}
		for _, e := range fc.G.Events("define") {
			if e.Args[0] != act {
				bad = "binding made in " + e.Args[0]
			}
		}
		if bad != "" {
			l.Violate(rule, "Function.Call#activation", news[0].Pos, bad+" instead of the fresh activation "+act)
		} else {
			l.Discharge(rule, "Function.Call#activation", news[0].Pos, "one fresh child of f.Closure per call; parameters, self-name and every body statement use it", true)
		}
	}
}

// ---------------------------------------------------------------- C03 / S2 scope wiring

func checkScopeWiring(cs *clauseSet, l *Ledger) {
	rule := "C03/S2-scope-wiring"
	n := 0
	nNameOps := 0
	for _, t := range cs.Order {
		m := cs.Clauses[t]
		evals := m.G.Events("eval")
		news := m.G.Events("newenv")
		want := "env"
		switch t {
		case "*ast.BlockStmt", "*ast.ForStmt":
			if len(news) != 1 || news[0].Args[0] != "env" {
				l.Violate(rule, m.Scenario+"#scope", firstPos(news), fmt.Sprintf("%s must open exactly one fresh scope whose parent is the current one; found %d (%v)", short(t), len(news), eventStrings(news)))
				continue
			}
			want = news[0].Out
		case "*ast.FunctionStmt":
			continue // closure row: checkClosureWiring
		default:
			if len(news) != 0 {
				l.Violate(rule, m.Scenario+"#scope", news[0].Pos, short(t)+" opens a scope of its own: "+news[0].String())
				continue
			}
		}
		// every operation on names in this clause addresses the clause's own scope: a lookup that starts anywhere else
		// (the globals, a remembered scope) skips the bindings in between
		for _, op := range []string{"get", "getlocal", "assign", "define"} {
			seenOp := map[string]bool{}
			for _, e := range m.G.Events(op) {
				if len(e.Args) == 0 || seenOp[e.Args[0]] {
					continue
				}
				seenOp[e.Args[0]] = true
				nNameOps++
				key := m.Scenario + "#" + op + "@" + normName(e.Args[0])
				if e.Args[0] != want {
					l.Violate(rule, key, e.Pos, fmt.Sprintf("%s addresses the scope %s instead of the current one (%s): the bindings of the scopes in between are skipped", e.String(), e.Args[0], want))
				} else {
					l.Discharge(rule, key, e.Pos, "name operation on the current scope", false)
				}
			}
		}
		if len(evals) == 0 {
			continue
		}
		bad := ""
		pos := ""
		for _, e := range evals {
			n++
			if e.KV["env"] != want {
				bad = fmt.Sprintf("eval(%s) runs in %s, expected %s", e.KV["child"], e.KV["env"], want)
				pos = e.Pos
			}
		}
		if bad != "" {
			l.Violate(rule, m.Scenario+"#env", pos, bad)
		} else {
			l.Discharge(rule, m.Scenario+"#env", evals[0].Pos, fmt.Sprintf("all %d child evaluations use %s", len(evals), want), true)
		}
	}
	// Interpret: one fresh child of the globals
	news := cs.Interp.G.Events("newenv")
	if len(news) != 1 || !strings.HasSuffix(news[0].Args[0], "i."+interpreterGlobalsField(cs.p)) {
		l.Violate(rule, "Interpret#scope", firstPos(news), "the program scope is not one fresh child of the globals: "+strings.Join(eventStrings(news), "; "))
	} else {
		bad := ""
		for _, e := range cs.Interp.G.Events("eval") {
			n++
			if e.KV["env"] != news[0].Out {
				bad = "statement evaluated in " + e.KV["env"]
			}
		}
		if bad != "" {
			l.Violate(rule, "Interpret#scope", news[0].Pos, bad)
		} else {
			l.Discharge(rule, "Interpret#scope", news[0].Pos, "all top-level statements run in one fresh child of the globals", true)
		}
	}
	if nNameOps < 4 {
		l.Violate(rule+"/vacuity", "name operations", "", fmt.Sprintf("only %d name operations classified (expected >= 4: read, assignment, declaration test, declaration)", nNameOps))
	}
	if n < 30 {
		l.Violate(rule+"/vacuity", "eval call sites", "", fmt.Sprintf("only %d child-evaluation sites classified (expected >= 30)", n))
	}
	// name operations
	checkNameOp := func(t, op string, wantArgs []string, what string) {
		m := cs.Clauses[t]
		if m == nil {
			l.Undecide(rule, "eval/"+short(t)+"#"+op, "", "clause missing")
			return
		}
		es := m.G.Events(op)
		if len(es) == 0 {
			l.Violate(rule, m.Scenario+"#"+op, "", what+": no "+op+" on the environment")
			return
		}
		for _, e := range es {
			ok := len(e.Args) >= len(wantArgs)
			for i, w := range wantArgs {
				if ok && w != "*" && e.Args[i] != w {
					ok = false
				}
			}
			if ok {
				l.Discharge(rule, m.Scenario+"#"+op, e.Pos, what+": "+e.String(), true)
			} else {
				l.Violate(rule, m.Scenario+"#"+op, e.Pos, what+" expected "+op+"("+strings.Join(wantArgs, ", ")+") but found "+e.String())
			}
		}
	}
	checkNameOp("*ast.Identifier", "get", []string{"env", "e.Name.Lexeme"}, "a read resolves the node's own name from the current scope outwards")
	checkNameOp("*ast.AssignmentStmt", "assign", []string{"env", "e.Name", "*"}, "an assignment updates the binding a read would find")
	checkNameOp("*ast.VarStmt", "getlocal", []string{"env", "e.Name.Lexeme"}, "redeclaration is tested in the current scope only")
	checkNameOp("*ast.VarStmt", "define", []string{"env", "e.Name.Lexeme", "*"}, "a declaration binds in the current scope")
	// no Get in VarStmt (a redeclaration test that consults outer scopes would reject shadowing)
	if m := cs.Clauses["*ast.VarStmt"]; m != nil {
		for _, e := range m.G.Events("get") {
			l.Violate(rule, m.Scenario+"#get", e.Pos, "the declaration clause consults outer scopes ("+e.String()+"): shadowing an outer name would be treated as redeclaration")
		}
		// define only when the local lookup failed
		mon := Monitor{Init: "s", Step: func(s string, ev *Event) string {
			switch ev.Op {
			case "getlocal":
				return "gl:" + ev.Out
			case "define":
				if s != "gl:absent" {
					return "!Define reached without the same-scope lookup having failed (state " + s + ")"
				}
				return "defined"
			case "rterror":
				if s == "gl:absent" {
					return "!redeclaration error although the name is not bound in this scope"
				}
			case "return":
				if s == "gl:found" && ev.KV["raised"] != "T" {
					return "!a redeclaration in the same scope is not reported"
				}
				if s == "gl:absent" {
					return "!declaration returns without binding the name"
				}
			}
			return s
		}}
		ws := m.G.Run(mon)
		for _, w := range ws {
			l.Violate(rule, m.Scenario+"#redeclare", posOf(w), w.Msg, witnessDetail(w))
		}
		if len(ws) == 0 {
			l.Discharge(rule, m.Scenario+"#redeclare", "", "bind iff absent in the current scope, error iff present", true)
		}
	}
}

func firstPos(es []*Event) string {
	if len(es) > 0 {
		return es[0].Pos
	}
	return ""
}

func eventStrings(es []*Event) []string {
	var out []string
	for _, e := range es {
		out = append(out, e.String())
	}
	return out
}

func sortedStrings(m map[string]bool) []string {
	var out []string
	for k := range m {
		out = append(out, k)
	}
	sort.Strings(out)
	return out
}

// interpreterGlobalsField: the name of the field in which the interpreter keeps its global environment — the one field of
// type *environment.Environment that Interpreter has (directly, or through a struct it embeds by value); "globals" if that
// cannot be told.
func interpreterGlobalsField(p *Prog) string {
	pk := p.TPkg("interpreter")
	if pk == nil {
		return "globals"
	}
	o := pk.Types.Scope().Lookup("Interpreter")
	if o == nil {
		return "globals"
	}
	var found []string
	var walk func(t types.Type, depth int)
	walk = func(t types.Type, depth int) {
		st, ok := t.Underlying().(*types.Struct)
		if !ok || depth > 2 {
			return
		}
		for i := 0; i < st.NumFields(); i++ {
			f := st.Field(i)
			if pt, ok := f.Type().(*types.Pointer); ok && typeStr(pt.Elem()) == "environment.Environment" {
				found = append(found, f.Name())
			}
			if promotedThrough(t, i) {
				walk(f.Type(), depth+1)
			}
		}
	}
	walk(o.Type(), 0)
	if len(found) == 1 {
		return found[0]
	}
	return "globals"
}
