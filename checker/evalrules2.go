package main

// C05 (control-construct automata), C06 (error discipline), C14 (order / short-circuit / truthiness),
// C15/S1 (print clause), C20/S4 (REPL echo) over the evaluator's event graphs.

import (
	"fmt"
	"go/token"
	"go/types"
	"sort"
	"strings"

	"golang.org/x/tools/go/ssa"
)

// ---------------------------------------------------------------- C05

func init() {
	register("C05", &Checker{
		Run: checkC05,
		Explain: "Decided: the clause of each control construct, abstracted to the events it performs (child evaluations with their abstract outcome None/Break/Continue/Return, truthiness tests, nil tests of optional children, returns), is compared by product search with the deterministic reference automaton of the construct: " +
			"if = condition, then exactly one arm chosen by isTruthy(condition value), else arm only when present; while = (condition, body)* leaving on a falsy condition or Break, continuing on None/Continue, propagating Return; for = initializer once, then (condition, body, increment)* with Continue still running the increment, Break leaving only this loop; Break/Continue clauses yield exactly their signal; Interpret reports any stray signal as a runtime error and stops. " +
			"Every deviation (an extra, missing, reordered or repeated event on some abstract path) is reported with the path. Loop back-edges are deliberately not part of the alphabet, so an equivalent loop restructuring is accepted. " +
			"Not decided: iteration counts for concrete programs (they follow from the automaton plus C02/C14).",
		Rule:    "obligation = (construct automaton, clause); non-trivial: all (each is a language-inclusion check over the explored event graph)",
		Trusted: []string{"abstract machine + interpreter model", "reference automata written from the property statement (DESIGN.md §4 C05)"},
	})
}

func abortOK(ev *Event) bool {
	return ev.Op == "return" && ev.KV["raised"] == "T" && ev.KV["r1.Type"] == "0"
}

// retOf: a return event passing on signal `res` (same object or same Type/Value)
func returnsSignal(ev *Event, res, t string) bool {
	if ev.KV["r1"] == res+".sig" {
		return true
	}
	return ev.KV["r1.Type"] == t && (t != "3" || ev.KV["r1.Value"] == res+".sig.Value")
}

func ignorable(ev *Event) bool {
	if ev.Op == "niltest" && !strings.HasPrefix(ev.Args[0], "e.") {
		return true
	}
	return ev.Op == "backedge" || ev.Op == "flagtest" || ev.Op == "newenv"
}

func monIf() Monitor {
	return Monitor{Init: "cond", Step: func(s string, ev *Event) string {
		if ignorable(ev) {
			return s
		}
		if abortOK(ev) {
			return ""
		}
		p := strings.Split(s, "|")
		switch p[0] {
		case "cond":
			if ev.Op == "eval" && ev.KV["child"] == "e.Condition" {
				return "test|" + ev.KV["res"]
			}
			return "!if: expected the condition to be evaluated first, found " + ev.String()
		case "test":
			if ev.Op == "truthy" && ev.Args[0] == p[1]+".val" {
				if ev.Out == "true" {
					return "then"
				}
				return "else?"
			}
			return "!if: the arm is not chosen by the truthiness of the condition value: " + ev.String()
		case "then":
			if ev.Op == "eval" && ev.KV["child"] == "e.ThenBranch" {
				return "armdone|" + ev.KV["res"] + "|" + ev.KV["sig"]
			}
			return "!if: truthy condition but next event is " + ev.String()
		case "else?":
			if ev.Op == "niltest" && ev.Args[0] == "e.ElseBranch" {
				if ev.Out == "nil" {
					return "end"
				}
				return "else"
			}
			if ev.Op == "eval" && ev.KV["child"] == "e.ElseBranch" {
				return "!if: the else arm is evaluated without testing that it exists"
			}
			return "!if: falsy condition but next event is " + ev.String()
		case "else":
			if ev.Op == "eval" && ev.KV["child"] == "e.ElseBranch" {
				return "armdone|" + ev.KV["res"] + "|" + ev.KV["sig"]
			}
			return "!if: else arm present and condition falsy, but next event is " + ev.String()
		case "armdone":
			if ev.Op == "return" {
				if p[2] != "0" {
					if returnsSignal(ev, p[1], p[2]) {
						return ""
					}
					return "!if: arm signal not propagated"
				}
				if ev.KV["r1.Type"] != "0" {
					return "!if: returns a " + sigNames[ev.KV["r1.Type"]] + " signal of its own"
				}
				return ""
			}
			return "!if: a second arm or further event after the chosen arm: " + ev.String()
		case "end":
			if ev.Op == "return" {
				if ev.KV["r1.Type"] != "0" {
					return "!if: returns a signal of its own"
				}
				return ""
			}
			return "!if: no arm should run, found " + ev.String()
		}
		return s
	}}
}

func monWhile() Monitor {
	return Monitor{Init: "cond", Step: func(s string, ev *Event) string {
		if ignorable(ev) {
			return s
		}
		if abortOK(ev) {
			return ""
		}
		p := strings.Split(s, "|")
		switch p[0] {
		case "cond":
			if ev.Op == "eval" && ev.KV["child"] == "e.Condition" {
				return "test|" + ev.KV["res"]
			}
			return "!while: expected the condition, found " + ev.String()
		case "test":
			if ev.Op == "truthy" && ev.Args[0] == p[1]+".val" {
				if ev.Out == "true" {
					return "body"
				}
				return "exit"
			}
			return "!while: loop decision not taken by the truthiness of the condition value: " + ev.String()
		case "body":
			if ev.Op == "eval" && ev.KV["child"] == "e.Body" {
				switch ev.KV["sig"] {
				case "0", "2":
					return "cond"
				case "1":
					return "exit"
				default:
					return "ret|" + ev.KV["res"] + "|" + ev.KV["sig"]
				}
			}
			return "!while: truthy condition but next event is " + ev.String()
		case "exit":
			if ev.Op == "return" {
				if ev.KV["r1.Type"] != "0" {
					return "!while: a " + sigNames[ev.KV["r1.Type"]] + " signal leaves the loop construct (break must end only this loop)"
				}
				return ""
			}
			return "!while: the loop should be left, found " + ev.String()
		case "ret":
			if ev.Op == "return" && returnsSignal(ev, p[1], p[2]) {
				return ""
			}
			return "!while: a Return signal from the body is not propagated: next event " + ev.String()
		}
		return s
	}}
}

func monFor() Monitor {
	return Monitor{Init: "init?", Step: func(s string, ev *Event) string {
		if ignorable(ev) {
			return s
		}
		if abortOK(ev) {
			return ""
		}
		p := strings.Split(s, "|")
		switch p[0] {
		case "init?":
			if ev.Op == "niltest" && ev.Args[0] == "e.Initializer" {
				if ev.Out == "nil" {
					return "cond?"
				}
				return "init"
			}
			if ev.Op == "eval" && ev.KV["child"] == "e.Initializer" {
				return "!for: initializer evaluated without testing that it exists"
			}
			return "!for: expected the initializer first, found " + ev.String()
		case "init":
			if ev.Op == "eval" && ev.KV["child"] == "e.Initializer" {
				if ev.KV["sig"] != "0" {
					return "ret|" + ev.KV["res"] + "|" + ev.KV["sig"]
				}
				return "cond?"
			}
			return "!for: expected the initializer, found " + ev.String()
		case "cond?":
			if ev.Op == "niltest" && ev.Args[0] == "e.Condition" {
				if ev.Out == "nil" {
					return "body"
				}
				return "cond"
			}
			if ev.Op == "eval" && ev.KV["child"] == "e.Condition" {
				return "test|" + ev.KV["res"]
			}
			if ev.Op == "eval" && ev.KV["child"] == "e.Initializer" {
				return "!for: the initializer is evaluated again"
			}
			return "!for: expected the condition, found " + ev.String()
		case "cond":
			if ev.Op == "eval" && ev.KV["child"] == "e.Condition" {
				return "test|" + ev.KV["res"]
			}
			return "!for: expected the condition, found " + ev.String()
		case "test":
			if ev.Op == "truthy" && ev.Args[0] == p[1]+".val" {
				if ev.Out == "true" {
					return "body"
				}
				return "exit"
			}
			return "!for: loop decision not taken by the truthiness of the condition value: " + ev.String()
		case "body":
			if ev.Op == "eval" && ev.KV["child"] == "e.Body" {
				switch ev.KV["sig"] {
				case "0", "2":
					return "incr?"
				case "1":
					return "exit"
				default:
					return "ret|" + ev.KV["res"] + "|" + ev.KV["sig"]
				}
			}
			return "!for: expected the body, found " + ev.String()
		case "incr?":
			if ev.Op == "niltest" && ev.Args[0] == "e.Increment" {
				if ev.Out == "nil" {
					return "cond?"
				}
				return "incr"
			}
			if ev.Op == "eval" && ev.KV["child"] == "e.Increment" {
				return "cond?"
			}
			return "!for: after the body (None or Continue) the increment must come next, found " + ev.String()
		case "incr":
			if ev.Op == "eval" && ev.KV["child"] == "e.Increment" {
				return "cond?"
			}
			return "!for: expected the increment, found " + ev.String()
		case "exit":
			if ev.Op == "return" {
				if ev.KV["r1.Type"] != "0" {
					return "!for: a " + sigNames[ev.KV["r1.Type"]] + " signal leaves the loop construct"
				}
				return ""
			}
			return "!for: the loop should be left, found " + ev.String()
		case "ret":
			if ev.Op == "return" && returnsSignal(ev, p[1], p[2]) {
				return ""
			}
			return "!for: signal not propagated: next event " + ev.String()
		}
		return s
	}}
}

func monInterpret() Monitor {
	return Monitor{Init: "loop", Step: func(s string, ev *Event) string {
		if ev.Op == "backedge" || ev.Op == "newenv" || ev.Op == "append" {
			return s
		}
		p := strings.Split(s, "|")
		switch p[0] {
		case "loop":
			switch ev.Op {
			case "next":
				if ev.Out == "true" {
					return "stmt"
				}
				return "end"
			case "flagtest":
				return s
			}
			return "!Interpret: unexpected " + ev.String()
		case "stmt":
			if ev.Op == "eval" {
				if ev.KV["sig"] != "0" {
					return "stray|" + ev.KV["res"] + "|" + ev.KV["sig"]
				}
				if ev.KV["raises"] == "T" {
					return "raised"
				}
				return "after"
			}
			if ev.Op == "flagtest" {
				return s
			}
			return "!Interpret: expected the statement to be evaluated, found " + ev.String()
		case "after":
			if ev.Op == "flagtest" {
				if ev.Out == "true" {
					return "!flag read as set on a clean path"
				}
				return "loop"
			}
			if ev.Op == "next" {
				return "!Interpret: next statement started without consulting the error flag"
			}
			return s
		case "raised":
			switch ev.Op {
			case "flagtest":
				return s
			case "return":
				return ""
			}
			return "!Interpret: execution continues after a statement raised the error flag: " + ev.String()
		case "stray":
			switch ev.Op {
			case "rterror":
				if ev.KV["line"] != p[1]+".sig.LineNumber" {
					return "!Interpret: stray " + sigNames[p[2]] + " reported with line " + ev.KV["line"] + " instead of the signal's line"
				}
				return "reported"
			case "flagtest":
				return s
			}
			return "!Interpret: a stray " + sigNames[p[2]] + " signal at top level is not reported as a runtime error: " + ev.String()
		case "reported":
			if ev.Op == "return" {
				return ""
			}
			if ev.Op == "flagtest" {
				return s
			}
			return "!Interpret: execution continues after a stray signal: " + ev.String()
		case "end":
			if ev.Op == "return" {
				return ""
			}
		}
		return s
	}}
}

func runMon(l *Ledger, rule, construct string, m *InterpModel, mon Monitor, okWhy string) {
	if m == nil {
		l.Undecide(rule, construct, "", "clause not found in eval")
		return
	}
	runMonG(l, rule, construct, m.G, mon, okWhy)
}

func runMonG(l *Ledger, rule, construct string, g *Graph, mon Monitor, okWhy string) {
	m := struct{ G *Graph }{g}
	ws := m.G.Run(mon)
	for _, w := range ws {
		l.Violate(rule, construct, posOf(w), w.Msg, witnessDetail(w))
	}
	if len(ws) == 0 {
		l.Discharge(rule, construct, "", okWhy+fmt.Sprintf(" (%d graph nodes, %d events)", len(m.G.Out), len(m.G.Events(""))), true)
	}
}

func checkC05(p *Prog, l *Ledger) {
	// a condition means what the documented grouping says (`a বা b এবং c` is `a বা (b এবং c)`): C01's ladder
	l.AsOnly(map[string]string{"C01/S1-ladder": "C05/S5-condition-grouping"}, func() { checkC01(p, l) })
	// a loop counter is the variable the loop declared: an assignment updates the innermost binding of the name, the one
	// a read finds (C03's shape rules of the environment) — otherwise nested loops over one name step each other's counter
	l.AsOnly(map[string]string{"C03/S1-environment-shape": "C05/S6-loop-variables/environment-shape"}, func() { checkC03(p, l) })
	cs := getClauses(p)
	if !cs.account(l) {
		return
	}
	// the parser hands every statement of a body or block to the tree, none dropped, reordered or spliced (shared with C03)
	checkTreeLinks(p, l, "C05/S4-tree-links")
	// which arm runs and whether a loop goes on depends on the condition only through isTruthy: its table is part of C05
	checkTruthinessTable(p, l, "C05/S2-truthiness-table")
	runMon(l, "C05/S1-automaton", "eval/IfStmt", cs.Clauses["*ast.IfStmt"], monIf(), "condition · truthiness · exactly one arm (else only if present)")
	runMon(l, "C05/S1-automaton", "eval/While", cs.Clauses["*ast.While"], monWhile(), "(condition · body)*, Break/falsy leaves, Continue/None repeats, Return propagates")
	runMon(l, "C05/S1-automaton", "eval/ForStmt", cs.Clauses["*ast.ForStmt"], monFor(), "initializer once · (condition · body · increment)*, Continue still increments, Break leaves only this loop")
	runMon(l, "C05/S1-automaton", "Interpret", cs.Interp, monInterpret(), "each statement evaluated; stray Break/Continue/Return reported with the signal's line and execution stops")
	// Break / Continue clauses
	for t, want := range map[string]string{"*ast.BreakStmt": "1", "*ast.ContinueStmt": "2"} {
		m := cs.Clauses[t]
		if m == nil {
			l.Undecide("C05/S1-automaton", "eval/"+short(t), "", "clause missing")
			continue
		}
		evs := m.G.Events("")
		ok := len(evs) >= 1
		nret := 0
		for _, e := range evs {
			if e.Op == "flagtest" || quietOps[e.Op] {
				continue
			}
			if e.Op != "return" || e.KV["r1.Type"] != want {
				ok = false
			}
			nret++
		}
		ok = ok && nret >= 1
		if ok {
			l.Discharge("C05/S1-automaton", "eval/"+short(t), evs[0].Pos, "yields exactly a "+sigNames[want]+" signal and nothing else", true)
		} else {
			l.Violate("C05/S1-automaton", "eval/"+short(t), firstPos(evs), "the clause does something other than returning a "+sigNames[want]+" signal: "+strings.Join(eventStrings(evs), "; "))
		}
	}
	// S3 parser side: a missing for-condition can never make the loop exit on the condition
	checkForConditionDefault(p, l)
}

// a missing `for` condition becomes a constant-true literal (or stays nil, which eval skips)
func checkForConditionDefault(p *Prog, l *Ledger) {
	fn := p.Func("parser.(*Parser).forStatement")
	if fn == nil {
		l.Undecide("C05/S3-for-default", "parser.forStatement", "", "not found")
		return
	}
	// find the store into ForStmt.Condition and inspect the φ feeding it
	found := false
	instrsOf(fn, func(in ssa.Instruction) {
		st, ok := in.(*ssa.Store)
		if !ok {
			return
		}
		fa, ok := st.Addr.(*ssa.FieldAddr)
		if !ok {
			return
		}
		tn, f := structKey(fa.X.Type(), fa.Field)
		if tn != "ast.ForStmt" || f != "Condition" {
			return
		}
		found = true
		okAll := true
		var walk func(v ssa.Value, seen map[ssa.Value]bool)
		walk = func(v ssa.Value, seen map[ssa.Value]bool) {
			if seen[v] {
				return
			}
			seen[v] = true
			switch x := v.(type) {
			case *ssa.Phi:
				for _, e := range x.Edges {
					walk(e, seen)
				}
			case *ssa.Const:
				if x.Value == nil {
					// nil condition: accepted only if eval skips nil conditions (checked by the for automaton: niltest)
				}
			case *ssa.MakeInterface:
				if al, ok := x.X.(*ssa.Alloc); ok && typeStr(derefT(al.Type())) == "ast.Literal" {
					// must be Literal{Value: true}
					isTrue := false
					for _, r := range *al.Referrers() {
						if fa2, ok := r.(*ssa.FieldAddr); ok && fieldName(fa2.X.Type(), fa2.Field) == "Value" {
							for _, r2 := range *fa2.Referrers() {
								if s2, ok := r2.(*ssa.Store); ok {
									if mi, ok := s2.Val.(*ssa.MakeInterface); ok {
										if c, ok := mi.X.(*ssa.Const); ok && c.Value != nil && c.Value.String() == "true" {
											isTrue = true
										}
									}
								}
							}
						}
					}
					if !isTrue {
						okAll = false
					}
				}
			}
		}
		walk(st.Val, map[ssa.Value]bool{})
		if okAll {
			l.Discharge("C05/S3-for-default", "parser.forStatement#Condition", p.InstrPos(in), "a missing condition is replaced by the literal true (or left nil, which the loop skips)", true)
		} else {
			l.Violate("C05/S3-for-default", "parser.forStatement#Condition", p.InstrPos(in), "a missing for-condition defaults to a literal that is not `true`")
		}
	})
	if !found {
		l.Undecide("C05/S3-for-default", "parser.forStatement#Condition", "", "store into ForStmt.Condition not found")
	}
}

// ---------------------------------------------------------------- C06

func init() {
	register("C06", &Checker{
		Run: checkC06,
		Explain: "Decided: S1 the error flag utils.HadRuntimeError is written only by utils.RuntimeError (and the REPL reset), RuntimeError writes its message and '[line N]' to stderr and sets the flag on its only path, nothing else reachable from Interpret writes to stderr, and every error returned by a built-in invocation is handed to RuntimeError (C04/S3 monitor). " +
			"S2 typestate clean/dirty over every clause of eval, Function.Call, Interpret and every built-in: after an event that may raise the flag, no observable effect — stdout write, stdin read, invocation of a built-in, evaluation of a child by a callee that is not itself guarded at entry — is reachable before the path returns; " +
			"S3 no cycle of the event graph that contains an unbounded-loop back-edge can be traversed entirely in the dirty state (so a failing statement inside a loop cannot spin); " +
			"S4 the line handed to every RuntimeError call is data-derived from the AST node of the current clause (or from the signal's LineNumber for stray signals, which every non-None signal constructor must set from its node) — never a constant — and every such Line field is written by the parser from a token's line. " +
			"S5 exit status: see C19. Not decided: that the wording of a diagnostic describes the operation; which line of a multi-line expression a reader would choose.",
		Rule:    "obligation = (rule, clause#event site) for S2/S3/S4, (rule, writer) for S1; non-trivial: every site whose discharge needed the dirty-state exploration or a provenance argument",
		Trusted: []string{"abstract machine + interpreter model (eval forks over 'raised or not'; callees that cannot reach RuntimeError do not raise)", "VTA call graph for the may-raise and may-have-effect summaries"},
	})
}

func isEffect(ev *Event, guarded bool) (bool, string) {
	switch ev.Op {
	case "print":
		return true, "writes to stdout"
	case "io":
		return true, "performs I/O (" + ev.KV["fn"] + ")"
	case "invoke":
		return true, "invokes a function value (possibly a built-in that reads input or prints)"
	case "eval":
		if ev.Out == "guarded-noop" {
			return false, ""
		}
		return true, "evaluates " + ev.KV["child"] + " (eval is not guarded at entry, so the child runs and may print, read or call)"
	case "fprint":
		if strings.Contains(ev.KV["dest"], "Stdout") {
			return true, "writes to stdout"
		}
	}
	return false, ""
}

func checkC06(p *Prog, l *Ledger) {
	cs := getClauses(p)
	if !cs.account(l) {
		return
	}
	ii := cs.ii
	// ---- S0 the faults are detected: an invalid operation can only be reported if the evaluator tests for it on every
	// path to the operation (rules shared with C03 — undefined name, redeclaration — and C04 — callee kind, arity)
	l.As(map[string]string{"C03/S2-scope-wiring": "C06/S0-fault-detected/names", "C04/S3-": "C06/S0-fault-detected/"}, func() {
		checkScopeWiring(cs, l)
		checkClosureWiring(cs, l, "C03/S2-scope-wiring")
		checkDeclarationBinding(cs, l, "C03/S2-scope-wiring/declaration")
		checkCallProtocol(cs, l)
	})
	// … and C02's operator table (type mismatch, zero divisor, negative shift count are reported before the operation)
	l.As(map[string]string{"C02/": "C06/S0-fault-detected/operators/"}, func() { checkC02(p, l) })
	// an invalid operation ends in a diagnostic, not in a Go panic: the panic-site rules of C07 (assertions, comparisons,
	// indexes, division, shifts, nil maps and pointers) for the evaluator and the built-ins
	l.AsOnlyWhere(map[string]string{"C07/P1-": "C06/S0-fault-detected/no-panic/P1-", "C07/P2-": "C06/S0-fault-detected/no-panic/P2-", "C07/P3-": "C06/S0-fault-detected/no-panic/P3-",
		"C07/P4-": "C06/S0-fault-detected/no-panic/P4-", "C07/P5-": "C06/S0-fault-detected/no-panic/P5-", "C07/P6-": "C06/S0-fault-detected/no-panic/P6-", "C07/P7-": "C06/S0-fault-detected/no-panic/P7-"},
		func(o *Obligation) bool {
			return strings.HasPrefix(o.Pos, "interpreter/") || strings.HasPrefix(o.Pos, "environment/")
		}, func() { checkC07(p, l) })
	// the line a diagnostic names is the line of the construct: each node's Line is fed from the token the grammar
	// associates with it (C01's wiring table) — a declarator's line is its own name's line, not where the statement began
	l.AsOnlyWhere(map[string]string{"C01/S5-wiring": "C06/S4-parser-line/node-wiring"}, func(o *Obligation) bool { return o.Status == Discharged || strings.Contains(o.Why, "Line") }, func() { checkC01(p, l) })
	// ---- S1 single reporter
	checkFlagWriters(p, l, "C06/S1-single-reporter")
	// ---- S2 / S3
	if ii.EvalGuarded {
		l.Discharge("C06/S2-guarded-eval", p.FuncKey(ii.Eval)+"#entry", p.Pos(ii.Eval.Pos()), "entered with the flag set, eval returns (nil, None) without any event: calling it dirty is harmless", true)
	} else {
		l.Note("eval is not a guarded callee: %s", cs.guardWhy)
	}
	nSites := 0
	models := cs.all()
	natives := exploreNatives(p, l)
	models = append(models, natives...)
	// ---- S0 a failing read is a fault: a built-in that performs I/O hands every error of it on
	nIO := 0
	for _, m := range natives {
		ios := m.G.Events("io")
		if len(ios) == 0 {
			continue
		}
		nIO += len(ios)
		mon := Monitor{Init: "idle", Step: func(s string, ev *Event) string {
			switch ev.Op {
			case "io":
				if ev.KV["haserr"] != "T" {
					return s
				}
				return "pending|"
			case "niltest":
				if strings.HasPrefix(s, "pending|") && len(ev.Args) > 0 && strings.HasPrefix(ev.Args[0], "io@") && strings.HasSuffix(ev.Args[0], "#1") {
					if ev.Out == "nonnil" {
						return "failed"
					}
					return "idle"
				}
			case "return":
				if s == "failed" && ev.KV["r1"] == "nil" {
					return "!the built-in returns a value (" + ev.KV["r0"] + ") although its read failed: end of input or a read error is not reported, the program goes on with made-up data"
				}
				if strings.HasPrefix(s, "pending|") && ev.KV["r1"] == "nil" {
					return "!the built-in returns without looking at the error of its read"
				}
			}
			return s
		}}
		ws := m.G.Run(mon)
		for _, w := range ws {
			l.Violate("C06/S0-fault-detected/builtin-io", m.Scenario, posOf(w), w.Msg, witnessDetail(w))
		}
		if len(ws) == 0 {
			l.Discharge("C06/S0-fault-detected/builtin-io", m.Scenario, ios[0].Pos, "every failed read ends the call with an error (which eval/Call reports)", true)
		}
	}
	if nIO == 0 {
		l.Violate("C06/S0-fault-detected/vacuity", "builtin-io", "", "no built-in performing input found (ইনপুট reads a line)")
	}
	for _, m := range models {
		// S2: effects while dirty
		seen := map[string]bool{}
		sites := map[string]*Event{}
		for _, e := range m.G.Events("") {
			if eff, _ := isEffect(e, ii.EvalGuarded); eff || e.Op == "eval" {
				label := e.Op
				if e.Op == "eval" {
					label = "eval(" + e.KV["child"] + ")"
				} else if e.Op == "print" || e.Op == "io" {
					label = e.Op + "(" + e.KV["fn"] + ")"
				}
				key := m.Scenario + "#" + label
				if prev, ok := sites[key]; !ok || (e.KV["dirty"] == "T" && prev.KV["dirty"] != "T") {
					sites[key] = e
				}
				if e.KV["dirty"] == "T" {
					if eff, what := isEffect(e, ii.EvalGuarded); eff && !seen[key] {
						seen[key] = true
						l.Violate("C06/S2-effect-after-error", key, e.Pos, "reachable after a runtime error has been reported in this construct: "+what)
					}
				}
			}
		}
		for key, e := range sites {
			nSites++
			if !seen[key] {
				l.Discharge("C06/S2-effect-after-error", key, e.Pos, "never reached with the error flag raised (every path from a possibly-failing event to here passes a flag test that returns, or the callee is guarded)", true)
			}
		}
		// S3: dirty cycles through an unbounded loop back-edge
		loopName := loopNamer(m.G)
		for _, cyc := range dirtyLoopCycles(m.G) {
			l.Violate("C06/S3-bounded-after-error", m.Scenario+"#"+loopName(cyc.Site), cyc.Pos, "this loop can keep iterating after a runtime error: a cycle through its back-edge is traversable entirely with the error flag set (no flag test or falsy guarded condition leaves it)")
		}
		for _, e := range m.G.Events("backedge") {
			if e.KV["kind"] == "loop" {
				key := m.Scenario + "#" + loopName(e.Site)
				l.Discharge("C06/S3-bounded-after-error", key, e.Pos, "no cycle through this back-edge stays in the dirty state", true)
			}
		}
	}
	if nSites < 40 {
		l.Violate("C06/S2-effect-after-error/vacuity", "effect sites", "", fmt.Sprintf("only %d evaluation/effect sites classified (expected >= 40)", nSites))
	}
	// ---- S4 line provenance
	nLines := 0
	for _, m := range models {
		for _, e := range m.G.Events("rterror") {
			nLines++
			key := m.Scenario + "#rterror(" + e.KV["msg"] + ")"
			line := e.KV["line"]
			switch {
			case line == "":
				l.Undecide("C06/S4-line-provenance", key, e.Pos, "token argument of RuntimeError not understood: "+e.Args[0])
			case strings.HasPrefix(line, "e.") || strings.HasPrefix(line, "$") || strings.Contains(line, ".sig.LineNumber") || strings.HasPrefix(line, "operator.") || strings.HasPrefix(line, "name."):
				l.Discharge("C06/S4-line-provenance", key, e.Pos, "line = "+line+" (data of the current node / signal)", true)
			case strings.HasPrefix(line, "getLineNumber("):
				// the unknown-node default clause
				l.Discharge("C06/S4-line-provenance", key, e.Pos, "line computed from the node by getLineNumber (default clause, unreachable for parser-built trees: exhaustiveness)", true)
			default:
				l.Violate("C06/S4-line-provenance", key, e.Pos, "the diagnostic's line is "+line+", not taken from the node being evaluated")
			}
		}
	}
	// leaf functions that report errors themselves (operators, Environment.Assign)
	for _, fn := range p.ModuleFuncs() {
		if fn == ii.Eval || fn == ii.Interpret || fn == ii.FuncCall || ii.Effectful[fn] {
			continue
		}
		instrsOf(fn, func(in ssa.Instruction) {
			c, ok := in.(*ssa.Call)
			if !ok || c.Call.StaticCallee() != ii.RuntimeErr {
				return
			}
			nLines++
			key := p.FuncKey(fn) + "#rterror(" + describe(c.Call.Args[1]) + ")"
			tok := c.Call.Args[0]
			// where the token comes from: through loads, address-taken copies (&operator), fields of a struct that
			// carries it (an operand-pair handed in as a parameter) and the variables a function literal captured
			root := tok
			for hops := 0; hops < 12; hops++ {
				switch x := root.(type) {
				case *ssa.UnOp:
					if x.Op == token.MUL {
						root = x.X
						continue
					}
				case *ssa.FieldAddr:
					root = x.X
					continue
				case *ssa.Field:
					root = x.X
					continue
				case *ssa.Alloc:
					var stored ssa.Value
					n := 0
					for _, r := range *x.Referrers() {
						if s, ok := r.(*ssa.Store); ok && s.Addr == ssa.Value(x) {
							stored = s.Val
							n++
						}
					}
					if n == 1 {
						if _, lit := stored.(*ssa.Const); !lit {
							root = stored
							continue
						}
					}
				case *ssa.FreeVar:
					// the variable of the enclosing function that the literal closes over
					if par := x.Parent().Parent(); par != nil {
						idx := -1
						for i, fv := range x.Parent().FreeVars {
							if fv == x {
								idx = i
							}
						}
						var bound ssa.Value
						nmk := 0
						instrsOf(par, func(pin ssa.Instruction) {
							if mk, ok := pin.(*ssa.MakeClosure); ok && mk.Fn == ssa.Value(x.Parent()) && idx >= 0 && idx < len(mk.Bindings) {
								bound = mk.Bindings[idx]
								nmk++
							}
						})
						if nmk == 1 && bound != nil {
							root = bound
							continue
						}
					}
				}
				break
			}
			if _, isParam := root.(*ssa.Parameter); isParam {
				l.Discharge("C06/S4-line-provenance", key, p.InstrPos(in), "token parameter "+describe(tok)+" passed through (callers pass the node's operator/name token)", true)
			} else if al, ok := root.(*ssa.Alloc); ok && lineFieldFromParam(al) {
				l.Discharge("C06/S4-line-provenance", key, p.InstrPos(in), "token built with a Line taken from a parameter", true)
			} else {
				l.Violate("C06/S4-line-provenance", key, p.InstrPos(in), "RuntimeError called with token "+describe(tok)+" that is not derived from the operation's own token")
			}
		})
	}
	if nLines < 30 {
		l.Violate("C06/S4-line-provenance/vacuity", "RuntimeError sites", "", fmt.Sprintf("only %d RuntimeError call sites classified (expected >= 30)", nLines))
	}
	// signal constructors carry their node's line
	for _, t := range cs.Order {
		m := cs.Clauses[t]
		for _, e := range m.G.Events("return") {
			ty := e.KV["r1.Type"]
			if ty == "" || ty == "0" || !strings.HasPrefix(e.KV["r1"], "obj:") {
				continue
			}
			key := m.Scenario + "#signal(" + sigNames[ty] + ")"
			ln := e.KV["r1.LineNumber"]
			if strings.HasPrefix(ln, "e.") {
				l.Discharge("C06/S4-signal-line", key, e.Pos, "signal LineNumber = "+ln, true)
			} else {
				l.Violate("C06/S4-signal-line", key, e.Pos, "a "+sigNames[ty]+" signal is created with LineNumber "+ln+" instead of its statement's line: a stray one is reported as '[line "+ln+"]'")
			}
		}
	}
	checkParserLines(p, l)
	// the lines the parser copies are the tokens' lines: they are true lines only if the scanner counts every
	// consumed newline exactly once (the C09/S4 rule, re-run here because the diagnostic's line depends on it)
	scratch := NewLedger("C09", "quick", 0, "")
	checkC09(p, scratch)
	nl := 0
	for _, o := range scratch.Obls {
		if strings.HasPrefix(o.Rule, "C09/S4") || strings.HasPrefix(o.Rule, "C09/S0") || strings.HasPrefix(o.Rule, "C09/S1") {
			if o.Status != Discharged {
				nl++
				l.Violate("C06/S4-token-lines", o.Construct, o.Pos, "token line numbers are wrong, so the diagnostic names the wrong line: "+o.Why)
			}
		}
	}
	if nl == 0 {
		l.Discharge("C06/S4-token-lines", "scanner#newline-accounting", "", "every consumed newline advances the line counter exactly once (C09/S4), so token lines — and the node lines derived from them — are true source lines", true)
	}
}

type cycleInfo struct{ Site, Pos string }

// dirtyLoopCycles: back-edges of unbounded loops lying on a cycle all of whose event edges are dirty.
func dirtyLoopCycles(g *Graph) []cycleInfo {
	// dirty subgraph: event edges with dirty:T or events that cannot clean (ε edges are kept only between
	// nodes reached after a dirty event; we approximate by forward reachability from dirty back-edges
	// using edges that are ε or dirty).
	isDirtyEdge := func(e GEdge) bool {
		if e.Ev == nil {
			return true
		}
		if e.Ev.KV["dirty"] == "T" {
			return true
		}
		// events without a dirty annotation (truthy, next, flagtest, niltest, return, append, define …) do not clean the flag
		switch e.Ev.Op {
		case "truthy", "next", "niltest", "append", "define", "mapstore", "indexstore", "arity", "getlocal", "get", "newenv":
			return true
		case "flagtest":
			return e.Ev.Out == "true"
		case "eval":
			return e.Ev.Out == "guarded-noop"
		}
		return false
	}
	var out []cycleInfo
	seenSite := map[string]bool{}
	for n, es := range g.Out {
		for _, e := range es {
			if e.Ev == nil || e.Ev.Op != "backedge" || e.Ev.KV["kind"] != "loop" || e.Ev.KV["dirty"] != "T" {
				continue
			}
			// can we get from e.To back to n through dirty edges?
			seen := map[int]bool{}
			stack := []int{e.To}
			found := false
			for len(stack) > 0 && !found {
				x := stack[len(stack)-1]
				stack = stack[:len(stack)-1]
				if seen[x] {
					continue
				}
				seen[x] = true
				if x == n {
					found = true
					break
				}
				for _, e2 := range g.Out[x] {
					if isDirtyEdge(e2) {
						stack = append(stack, e2.To)
					}
				}
			}
			if found && !seenSite[e.Ev.Site] {
				seenSite[e.Ev.Site] = true
				out = append(out, cycleInfo{Site: e.Ev.Site, Pos: e.Ev.Pos})
			}
		}
	}
	return out
}

func lineFieldFromParam(al *ssa.Alloc) bool {
	for _, r := range *al.Referrers() {
		fa, ok := r.(*ssa.FieldAddr)
		if !ok || fieldName(fa.X.Type(), fa.Field) != "Line" {
			continue
		}
		for _, r2 := range *fa.Referrers() {
			if st, ok := r2.(*ssa.Store); ok {
				v := st.Val
				for {
					switch x := v.(type) {
					case *ssa.UnOp:
						v = x.X
						continue
					case *ssa.FieldAddr:
						v = x.X
						continue
					case *ssa.Field:
						v = x.X
						continue
					}
					break
				}
				if _, ok := v.(*ssa.Parameter); ok {
					return true
				}
			}
		}
	}
	return false
}

// checkFlagWriters: who writes the two flags, who writes stderr.
func checkFlagWriters(p *Prog, l *Ledger, rule string) {
	ii := p.Interp()
	for _, fn := range p.ModuleFuncs() {
		fk := p.FuncKey(fn)
		instrsOf(fn, func(in ssa.Instruction) {
			st, ok := in.(*ssa.Store)
			if !ok {
				return
			}
			g, ok := st.Addr.(*ssa.Global)
			if !ok || (g != ii.FlagRT && g != ii.FlagErr) {
				return
			}
			key := fk + "#store(" + g.Name() + ")"
			c, isConst := st.Val.(*ssa.Const)
			val := "?"
			if isConst && c.Value != nil {
				val = c.Value.String()
			}
			switch {
			case strings.Contains(fn.Synthetic, "package initializer"):
				l.Discharge(rule, key, p.InstrPos(in), "initialiser", false)
			case g == ii.FlagRT && fn == ii.RuntimeErr && val == "true":
				l.Discharge(rule, key, p.InstrPos(in), "RuntimeError raises the runtime-error flag", true)
			case g == ii.FlagErr && fk == "utils.report" && val == "true":
				l.Discharge(rule, key, p.InstrPos(in), "report raises the syntax-error flag", true)
			case fk == "main.runPrompt" && val == "false":
				l.Discharge(rule, key, p.InstrPos(in), "REPL reset between lines (C20)", true)
			default:
				l.Violate(rule, key, p.InstrPos(in), fmt.Sprintf("error flag %s written (value %s) outside its owner: the flag no longer means 'a diagnostic was reported'", g.Name(), val))
			}
		})
	}
	// RuntimeError: on its only path writes to stderr with the line, then sets the flag
	if ii.RuntimeErr != nil {
		var wrote, set bool
		ok := len(ii.RuntimeErr.Blocks) == 1
		instrsOf(ii.RuntimeErr, func(in ssa.Instruction) {
			if c, isCall := in.(*ssa.Call); isCall {
				if sc := c.Call.StaticCallee(); sc != nil && extName(sc) == "fmt.Fprintf" && strings.Contains(describe(c.Call.Args[0]), "os.Stderr") {
					if k, isK := c.Call.Args[1].(*ssa.Const); isK && strings.Contains(k.Value.ExactString(), "[line %d]") {
						wrote = true
					}
				}
			}
			if st, isSt := in.(*ssa.Store); isSt {
				if g, isG := st.Addr.(*ssa.Global); isG && g == ii.FlagRT {
					set = true
				}
			}
		})
		if ok && wrote && set {
			l.Discharge(rule, "utils.RuntimeError#protocol", p.Pos(ii.RuntimeErr.Pos()), "single path: message and [line N] to stderr, then flag := true", true)
		} else {
			l.Violate(rule, "utils.RuntimeError#protocol", p.Pos(ii.RuntimeErr.Pos()), fmt.Sprintf("RuntimeError no longer unconditionally writes '[line N]' to stderr and sets the flag (straight-line=%v wrote=%v set=%v)", ok, wrote, set))
		}
	}
	// stderr writers reachable from Interpret
	if ii.Interpret != nil {
		reach := p.Reachable(ii.Interpret)
		for fn := range reach {
			if !p.InModule(fn) || fn == ii.RuntimeErr {
				continue
			}
			instrsOf(fn, func(in ssa.Instruction) {
				u, ok := in.(*ssa.UnOp)
				if !ok {
					return
				}
				if g, ok := u.X.(*ssa.Global); ok && g.Pkg.Pkg.Path() == "os" && g.Name() == "Stderr" {
					l.Violate(rule, p.FuncKey(fn)+"#os.Stderr", p.InstrPos(in), "the interpreter writes to stderr outside utils.RuntimeError: a diagnostic that does not raise the error flag (exit status and stopping rule would not see it)")
				}
			})
		}
	}
}

// checkParserLines: every AST node Line field read by the interpreter is written by the parser from a token line.
func checkParserLines(p *Prog, l *Ledger) {
	n := 0
	kinds := map[string]bool{}
	for _, fn := range p.ModuleFuncs() {
		// the parser's own functions, and node-building helpers that package ast offers to it
		if fn.Package() == nil || (fn.Package().Pkg.Name() != "parser" && fn.Package().Pkg.Name() != "ast") {
			continue
		}
		fn := fn
		instrsOf(fn, func(in ssa.Instruction) {
			st, ok := in.(*ssa.Store)
			if !ok {
				return
			}
			fa, ok := st.Addr.(*ssa.FieldAddr)
			if !ok {
				return
			}
			tn, f := structKey(fa.X.Type(), fa.Field)
			if !strings.HasPrefix(tn, "ast.") || f != "Line" {
				return
			}
			n++
			kinds[tn] = true
			key := p.FuncKey(fn) + "#" + tn + ".Line"
			d := describe(st.Val)
			if prm, isParam := st.Val.(*ssa.Parameter); isParam && (p.OnlyCalled(fn) || (fn.Parent() != nil && len(p.CallSites(fn)) > 0)) {
				// (a function literal handed to a helper that calls it: the call graph knows the sites that call it)
				// the line is handed in: what every caller hands in decides
				idx := -1
				for i, q := range fn.Params {
					if q == prm {
						idx = i
					}
				}
				css := p.CallSites(fn)
				var ds []string
				for _, cs := range css {
					c := cs.Common()
					j := idx
					if c.IsInvoke() {
						j--
					}
					if j < 0 || j >= len(c.Args) {
						ds = append(ds, "?")
						continue
					}
					ds = append(ds, describe(c.Args[j]))
				}
				sort.Strings(ds)
				if len(ds) > 0 {
					d = ds[0]
					for _, x := range ds {
						if !strings.HasSuffix(x, ".Line") {
							d = x
						}
					}
				}
			}
			if strings.HasSuffix(d, ".Line") {
				l.Discharge("C06/S4-parser-line", key, p.InstrPos(in), "Line := "+d, true)
			} else {
				l.Violate("C06/S4-parser-line", key, p.InstrPos(in), "node Line set from "+d+", not from a token's line")
			}
		})
	}
	if len(kinds) < 12 {
		l.Violate("C06/S4-parser-line/vacuity", "parser Line stores", "", fmt.Sprintf("the parser sets the Line of only %d node kinds (%d stores)", len(kinds), n))
	}
}

// exploreNatives explores the Call method of every built-in under the interpreter model.
func exploreNatives(p *Prog, l *Ledger) []*InterpModel {
	var out []*InterpModel
	ci := p.callableIface()
	if ci == nil {
		return nil
	}
	for _, fn := range p.ModuleFuncs() {
		if fn.Name() != "Call" || fn.Signature.Recv() == nil || fn == p.Interp().FuncCall {
			continue
		}
		if !types.Implements(fn.Signature.Recv().Type(), ci) {
			continue
		}
		nt := namedOf(fn.Signature.Recv().Type())
		if nt == nil {
			continue
		}
		m := NewInterpModel(p, "builtin/"+nt.Obj().Name())
		mc := m.Explore(fn, []AV{Sym("n"), Sym("i"), Sym("arguments")}, nil)
		l.States += mc.States
		l.Paths += mc.Paths
		l.Funcs[p.FuncKey(fn)] = true
		for _, u := range m.Undecided {
			l.Undecide("infrastructure/explorer", m.Scenario, "", u)
		}
		out = append(out, m)
	}
	sort.Slice(out, func(i, j int) bool { return out[i].Scenario < out[j].Scenario })
	return out
}

// loopNamer gives the unbounded loops of a scenario stable names: loop1, loop2 … in source order.
func loopNamer(g *Graph) func(site string) string {
	type lp struct{ site, pos string }
	var loops []lp
	seen := map[string]bool{}
	for _, e := range g.Events("backedge") {
		if e.KV["kind"] == "loop" && !seen[e.Site] {
			seen[e.Site] = true
			loops = append(loops, lp{e.Site, e.Pos})
		}
	}
	sort.Slice(loops, func(i, j int) bool { return loops[i].pos < loops[j].pos })
	idx := map[string]int{}
	for i, x := range loops {
		idx[x.site] = i + 1
	}
	return func(site string) string {
		if len(loops) == 1 {
			return "loop"
		}
		return fmt.Sprintf("loop%d", idx[site])
	}
}
