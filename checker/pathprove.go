package main

// Path-wise proof of a value fact at an instruction, for functions whose guard is not a dominating test but a
// combination of tests that only together cover the use:
//
//	isShift := op == SHL || op == SHR
//	if isShift && n < 0 { return }
//	switch op { case SHL: x << n … }
//
// Every acyclic path of the control-flow graph from the entry to the use is enumerated (the part of the graph between
// entry and use must be loop-free, otherwise the prover gives up); along a path φ-nodes are resolved to the operand of
// the edge taken, the branch conditions met are recorded, a path whose recorded (in)equalities with constants
// contradict each other is infeasible, and every feasible path must have passed a test establishing the fact.  Two
// reads of the same field of the same parameter are the same value (a struct parameter whose address is never taken
// cannot change); everything else is identified by its SSA name.

import (
	"fmt"
	"go/constant"
	"go/token"

	"golang.org/x/tools/go/ssa"
)

const pathProveMax = 20000

type pathCtx struct {
	phi map[*ssa.Phi]ssa.Value
	eq  map[string]string
	ne  map[string]map[string]bool
}

func (c *pathCtx) resolve(v ssa.Value) ssa.Value {
	for i := 0; i < 20; i++ {
		switch x := v.(type) {
		case *ssa.Phi:
			r, ok := c.phi[x]
			if !ok {
				return v
			}
			v = r
			continue
		case *ssa.ChangeType:
			v = x.X
			continue
		}
		break
	}
	return v
}

func (c *pathCtx) key(v ssa.Value) string {
	v = c.resolve(v)
	switch x := v.(type) {
	case *ssa.Parameter:
		return "$" + x.Name()
	case *ssa.Field:
		if _, ok := c.resolve(x.X).(*ssa.Parameter); ok {
			return c.key(x.X) + "." + fieldName(x.X.Type(), x.Field)
		}
	case *ssa.UnOp:
		// a parameter kept in a local that is written once, at entry (go/ssa spills a struct parameter whose address is
		// taken for a field selection), read whole or by field
		if x.Op == token.MUL {
			switch a := x.X.(type) {
			case *ssa.Alloc:
				if pr := spilledParam(a); pr != nil {
					return "$" + pr.Name()
				}
			case *ssa.FieldAddr:
				if al, ok := a.X.(*ssa.Alloc); ok {
					if pr := spilledParam(al); pr != nil {
						return "$" + pr.Name() + "." + fieldName(a.X.Type(), a.Field)
					}
				}
			}
		}
	case *ssa.Const:
		if x.Value != nil {
			return "#" + x.Value.ExactString()
		}
		return "#nil"
	}
	return "%" + v.Name()
}

// spilledParam: the local holds a parameter and nothing else — one store (of the parameter), every other use a read.
func spilledParam(al *ssa.Alloc) *ssa.Parameter {
	if al.Heap || al.Referrers() == nil {
		return nil
	}
	var pr *ssa.Parameter
	for _, r := range *al.Referrers() {
		switch x := r.(type) {
		case *ssa.Store:
			if x.Addr != ssa.Value(al) || pr != nil {
				return nil
			}
			p, ok := x.Val.(*ssa.Parameter)
			if !ok {
				return nil
			}
			pr = p
		case *ssa.UnOp:
			if x.Op != token.MUL {
				return nil
			}
		case *ssa.FieldAddr:
			for _, r2 := range *x.Referrers() {
				if u, ok := r2.(*ssa.UnOp); !ok || u.Op != token.MUL {
					return nil
				}
			}
		case *ssa.DebugRef:
		default:
			return nil
		}
	}
	return pr
}

// record a branch condition with its outcome; false: the path is infeasible.
func (c *pathCtx) record(cond ssa.Value, truth bool) bool {
	cond = c.resolve(cond)
	switch x := cond.(type) {
	case *ssa.Const:
		if x.Value != nil && x.Value.Kind() == constant.Bool {
			return constant.BoolVal(x.Value) == truth
		}
	case *ssa.UnOp:
		if x.Op == token.NOT {
			return c.record(x.X, !truth)
		}
	case *ssa.BinOp:
		if x.Op != token.EQL && x.Op != token.NEQ {
			return true
		}
		a, b := c.resolve(x.X), c.resolve(x.Y)
		if _, ok := a.(*ssa.Const); ok {
			a, b = b, a
		}
		kb, ok := b.(*ssa.Const)
		if !ok || kb.Value == nil {
			return true
		}
		k, val := c.key(a), kb.Value.ExactString()
		if (x.Op == token.EQL) == truth {
			if old, ok := c.eq[k]; ok && old != val {
				return false
			}
			if c.ne[k][val] {
				return false
			}
			c.eq[k] = val
		} else {
			if old, ok := c.eq[k]; ok && old == val {
				return false
			}
			if c.ne[k] == nil {
				c.ne[k] = map[string]bool{}
			}
			c.ne[k][val] = true
		}
	}
	return true
}

func (c *pathCtx) clone() *pathCtx {
	n := &pathCtx{phi: map[*ssa.Phi]ssa.Value{}, eq: map[string]string{}, ne: map[string]map[string]bool{}}
	for k, v := range c.phi {
		n.phi[k] = v
	}
	for k, v := range c.eq {
		n.eq[k] = v
	}
	for k, m := range c.ne {
		n.ne[k] = map[string]bool{}
		for v := range m {
			n.ne[k][v] = true
		}
	}
	return n
}

// provePathwise: establishes(cond, truth, ctx) says whether taking the branch `cond == truth` gives the wanted fact.
func provePathwise(at ssa.Instruction, establishes func(cond ssa.Value, truth bool, c *pathCtx) bool) (bool, string) {
	fn := at.Parent()
	target := at.Block()
	// the blocks between entry and target
	canReach := map[*ssa.BasicBlock]bool{target: true}
	for changed := true; changed; {
		changed = false
		for _, b := range fn.Blocks {
			if canReach[b] {
				continue
			}
			for _, s := range b.Succs {
				if canReach[s] {
					canReach[b] = true
					changed = true
					break
				}
			}
		}
	}
	if !canReach[fn.Blocks[0]] {
		return false, "the use is not reachable from the entry"
	}
	// loop-free between entry and use (a cycle would let a value differ between iterations)
	state := map[*ssa.BasicBlock]int{}
	cyclic := false
	var dfs func(b *ssa.BasicBlock)
	dfs = func(b *ssa.BasicBlock) {
		state[b] = 1
		for _, s := range b.Succs {
			if !canReach[s] || (b == target) {
				continue
			}
			if state[s] == 1 {
				cyclic = true
			} else if state[s] == 0 {
				dfs(s)
			}
		}
		state[b] = 2
	}
	dfs(fn.Blocks[0])
	for _, s := range target.Succs {
		if canReach[s] && reaches(s, target) {
			cyclic = true
		}
	}
	if cyclic {
		return false, "the use lies in or after a loop"
	}
	paths, feasible := 0, 0
	var bad string
	var walk func(b *ssa.BasicBlock, c *pathCtx, have bool, trail []int) bool
	walk = func(b *ssa.BasicBlock, c *pathCtx, have bool, trail []int) bool {
		if b == target {
			paths++
			if paths > pathProveMax {
				bad = "too many paths"
				return false
			}
			feasible++
			if !have {
				bad = fmt.Sprintf("the path through blocks %v reaches the use without a test that establishes it", trail)
				return false
			}
			return true
		}
		iff, _ := b.Instrs[len(b.Instrs)-1].(*ssa.If)
		for i, s := range b.Succs {
			if !canReach[s] {
				continue
			}
			if iff != nil && len(b.Succs) == 2 && b.Succs[0] == b.Succs[1] && i == 1 {
				continue
			}
			c2 := c.clone()
			h2 := have
			if iff != nil && b.Succs[0] != b.Succs[1] {
				if !c2.record(iff.Cond, i == 0) {
					continue // infeasible
				}
				if establishes(iff.Cond, i == 0, c2) {
					h2 = true
				}
			}
			// φ-nodes of s take the operand of this edge
			for pi, pr := range s.Preds {
				if pr != b {
					continue
				}
				for _, in := range s.Instrs {
					ph, ok := in.(*ssa.Phi)
					if !ok {
						break
					}
					c2.phi[ph] = c2.resolve(ph.Edges[pi])
				}
				break
			}
			if !walk(s, c2, h2, append(trail[:len(trail):len(trail)], s.Index)) {
				return false
			}
		}
		return true
	}
	c0 := &pathCtx{phi: map[*ssa.Phi]ssa.Value{}, eq: map[string]string{}, ne: map[string]map[string]bool{}}
	if !walk(fn.Blocks[0], c0, false, []int{0}) {
		return false, bad
	}
	if feasible == 0 {
		return false, "no feasible path to the use"
	}
	return true, fmt.Sprintf("every one of the %d feasible entry-to-use paths passes a test that establishes it (path-wise: φ resolved per edge, contradictory constant comparisons pruned)", feasible)
}

// relWithConst: cond (after resolution) is `v op k` or `k op v` for the given value; returns op normalised to `v op k`.
func relWithConst(cond ssa.Value, v ssa.Value, c *pathCtx) (token.Token, int64, bool) {
	bo, ok := c.resolve(cond).(*ssa.BinOp)
	if !ok {
		return 0, 0, false
	}
	want := c.key(v)
	if k, ok := constInt(c.resolve(bo.Y)); ok && c.key(bo.X) == want {
		return bo.Op, k, true
	}
	if k, ok := constInt(c.resolve(bo.X)); ok && c.key(bo.Y) == want {
		switch bo.Op {
		case token.LSS:
			return token.GTR, k, true
		case token.LEQ:
			return token.GEQ, k, true
		case token.GTR:
			return token.LSS, k, true
		case token.GEQ:
			return token.LEQ, k, true
		}
		return bo.Op, k, true
	}
	return 0, 0, false
}

func nonNegPathwise(at ssa.Instruction, v ssa.Value) (bool, string) {
	return provePathwise(at, func(cond ssa.Value, truth bool, c *pathCtx) bool {
		op, k, ok := relWithConst(cond, v, c)
		if !ok {
			return false
		}
		if !truth {
			op = negateOp(op)
		}
		switch op {
		case token.GEQ:
			return k >= 0
		case token.GTR:
			return k >= -1
		case token.EQL:
			return k >= 0
		}
		return false
	})
}

func nonZeroPathwise(at ssa.Instruction, v ssa.Value) (bool, string) {
	return provePathwise(at, func(cond ssa.Value, truth bool, c *pathCtx) bool {
		op, k, ok := relWithConst(cond, v, c)
		if !ok {
			return false
		}
		if !truth {
			op = negateOp(op)
		}
		switch op {
		case token.NEQ:
			return k == 0
		case token.GTR:
			return k >= 0
		case token.GEQ:
			return k >= 1
		case token.LSS:
			return k <= 0
		case token.LEQ:
			return k <= -1
		case token.EQL:
			return k != 0
		}
		return false
	})
}
