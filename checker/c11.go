package main

import (
	"fmt"
	"go/types"
	"regexp"
	"sort"
	"strings"

	"golang.org/x/tools/go/ssa"
)

func init() {
	register("C11", &Checker{
		Run: checkC11,
		Explain: "Decided: S1 bounds — the indexed read, the indexed write and রিমুভ are explored path by path and must equal the reference: comma-ok array test on the evaluated array, index through toInt64 (which rejects fractional and non-numeric values), error on index < 0 and on index >= len(array) with both tests on the very index and array that are then used, and the read/store touches exactly array[index] (so length and other elements are unchanged; indexing never grows, wraps or truncates an array). " +
			"S2 fresh results (ownership) — no built-in returns a slice that shares storage with a caller-visible slice: every slice-typed result is rooted, through its append chain, at storage allocated in that activation; এড is copy(a) followed by the extra arguments in order, রিমুভ is copy(a[:i]) followed by a[i+1:]; array literals allocate per evaluation and append their elements in order. " +
			"S3 length is an ordinary number (float64 of len: value universe, C16). S4 reference semantics — nothing on the variable/parameter/element/property paths copies an array: append/copy occur only in the array-literal clause, the argument list of a call and the two copying built-ins. " +
			"Not decided: the list-model equivalence over operation histories (replaced by this by-construction argument).",
		Rule:    "obligation = (rule, clause or built-in); non-trivial: all path-set and ownership obligations",
		Trusted: []string{"Go slice semantics (append onto a fresh slice copies)", "abstract machine"},
	})
}

// clauseWordsFor explores one eval clause with test events and returns its clean (error-flag untouched by
// children, None-signal) words, rendered without the dispatch type tests.
func clauseWordsFor(p *Prog, nodeType string) ([]string, bool, *InterpModel) {
	ii := p.Interp()
	m := NewInterpModel(p, "eval/"+short(nodeType))
	m.EmitTests = true
	m.SignalsFor = func(types.Type) []int { return []int{0} }
	m.Explore(ii.Eval, []AV{Sym("i"), Sym("e"), Sym("env"), Sym("isRepl")}, func(st *State) {
		st.Facts["type:e"] = StrV(nodeType)
	})
	ws, ok := m.G.Words(5000)
	seen := map[string]bool{}
	var out []string
	for _, w := range ws {
		skip := false
		var parts []string
		for _, e := range w {
			if e.KV["raises"] == "T" || e.KV["dirty"] == "T" {
				skip = true
			}
			if e.Op == "flagtest" || e.Op == "index" || (e.Op == "typetest" && e.Args[0] == "e") || trivialNilTest(e) {
				continue
			}
			parts = append(parts, e.String())
		}
		if skip {
			continue
		}
		s := normName(strings.Join(parts, " ; "))
		s = regexp.MustCompile(`obj:[A-Za-z0-9_>$.*()#]+:t\d+`).ReplaceAllString(s, "obj")
		if !seen[s] {
			seen[s] = true
			out = append(out, s)
		}
	}
	sort.Strings(out)
	return out, ok && len(m.Undecided) == 0, m
}

// matchWordSet compares rendered words against reference patterns (each word must match one, each pattern be used).
func matchWordSet(l *Ledger, rule, construct, pos string, words []string, patterns map[string]string) {
	used := map[string]bool{}
	var bad []string
	for _, w := range words {
		matched := false
		for n, pat := range patterns {
			if regexp.MustCompile("^" + pat + "$").MatchString(w) {
				matched = true
				used[n] = true
			}
		}
		if !matched {
			bad = append(bad, w)
		}
	}
	var missing []string
	for n := range patterns {
		if !used[n] {
			missing = append(missing, n)
		}
	}
	sort.Strings(missing)
	switch {
	case len(bad) > 0:
		l.Violate(rule, construct, pos, "behaviour outside the reference: "+strings.Join(bad, "  ||  "), map[string]interface{}{"unexpected": bad, "reference": patterns})
	case len(missing) > 0:
		l.Violate(rule, construct, pos, "reference behaviour missing: "+strings.Join(missing, ", "), map[string]interface{}{"reference": patterns, "words": words})
	default:
		l.Discharge(rule, construct, pos, fmt.Sprintf("all %d abstract paths match the %d reference words", len(words), len(patterns)), true)
	}
}

func nativeWords(p *Prog, l *Ledger, typeName string) ([]string, *ssa.Function, bool) {
	fn := p.Func("interpreter." + typeName + ".Call")
	if fn == nil {
		fn = p.Func("interpreter.(*" + typeName + ").Call") // the same method on a pointer receiver
	}
	if fn == nil {
		return nil, nil, false
	}
	m := NewInterpModel(p, "builtin/"+typeName)
	m.EmitTests = true
	m.KeepAsEvent = func(c *ssa.Function) bool {
		return fnName(c) == "toNumber" || fnName(c) == "toInt64" || fnName(c) == "sortedKeys"
	}
	mc := m.Explore(fn, []AV{Sym("n"), Sym("i"), Sym("arguments")}, nil)
	l.States += mc.States
	l.Funcs[p.FuncKey(fn)] = true
	ws, ok := m.G.Words(5000)
	seen := map[string]bool{}
	var out []string
	for _, w := range ws {
		s := normName(wordString(w))
		s = regexp.MustCompile(`obj:[A-Za-z0-9_>$.*()#]+:t\d+`).ReplaceAllString(s, "obj")
		if !seen[s] {
			seen[s] = true
			out = append(out, s)
		}
	}
	sort.Strings(out)
	return out, fn, ok && len(m.Undecided) == 0
}

func checkC11(p *Prog, l *Ledger) {
	q := regexp.QuoteMeta
	// লেন(a) is the element count of what a denotes *now*: a call is evaluated where and when it is written — nothing
	// outside eval's dispatch looks at the syntactic kind of an expression to hoist, cache or pre-compute it (C16/C18's rule)
	checkNodeKindTests(p, l, "C11/S3-no-syntactic-rewrites")
	// the array built-ins work on the argument values of their own call: the call clause hands each callee a list
	// built during this evaluation from the evaluated arguments, in order (rule shared with C04)
	if cs := getClauses(p); cs.account(l) {
		l.As(map[string]string{"C04/S3-call-protocol": "C11/S0-arguments-delivered", "C04/S3-who-invokes": "C11/S0-arguments-delivered/who-invokes"}, func() { checkCallProtocol(cs, l) })
	}
	ARR, IDX, VAL := q("ev[e.Array].val"), q("toInt64(ev[e.Index].val)#0"), q("ev[e.Value].val")
	pre := q("eval(e.Array, env, isRepl)→sig=0 ; eval(e.Index, env, isRepl)→sig=0 ; ")
	errTail := ` ; rterror\(obj, ".*"\) ; return\(nil, obj\)`
	// ---- S1 indexed read
	if ws, ok, _ := clauseWordsFor(p, "*ast.ArrayAccess"); !ok {
		l.Undecide("C11/S1-bounds", "eval/ArrayAccess", "", "paths not enumerable")
	} else {
		isArr := q("typetest(ev[e.Array].val, []interface{})→true ; ")
		coerce := q("call(interpreter.toInt64, ev[e.Index].val) ; ")
		matchWordSet(l, "C11/S1-bounds", "eval/ArrayAccess", "", ws, map[string]string{
			"read":        pre + isArr + coerce + `test\(\(` + IDX + ` < 0\)\)→false ; test\(\(` + IDX + ` < len\(` + ARR + `\)\)\)→true ; return\(` + ARR + `\[` + IDX + `\], obj\)`,
			"negative":    pre + isArr + coerce + `test\(\(` + IDX + ` < 0\)\)→true` + errTail,
			"too-large":   pre + isArr + coerce + `test\(\(` + IDX + ` < 0\)\)→false ; test\(\(` + IDX + ` < len\(` + ARR + `\)\)\)→false` + errTail,
			"not-integer": pre + isArr + q("call(interpreter.toInt64, ev[e.Index].val)→err ; niltest(toInt64(ev[e.Index].val).err)→nonnil") + errTail,
			"not-array":   pre + q("typetest(ev[e.Array].val, []interface{})→false") + errTail,
		})
	}
	// ---- S1 indexed write
	if ws, ok, _ := clauseWordsFor(p, "*ast.ArrayAssignment"); !ok {
		l.Undecide("C11/S1-bounds", "eval/ArrayAssignment", "", "paths not enumerable")
	} else {
		pre3 := pre + q("eval(e.Value, env, isRepl)→sig=0 ; ")
		isArr := q("typetest(ev[e.Array].val, []interface{})→true ; ")
		coerce := q("call(interpreter.toInt64, ev[e.Index].val) ; ")
		matchWordSet(l, "C11/S1-bounds", "eval/ArrayAssignment", "", ws, map[string]string{
			"write":       pre3 + isArr + coerce + `test\(\(` + IDX + ` < 0\)\)→false ; test\(\(` + IDX + ` < len\(` + ARR + `\)\)\)→true ; indexstore\(` + ARR + `\[` + IDX + `\], ` + VAL + `\) ; return\(` + VAL + `, obj\)`,
			"negative":    pre3 + isArr + coerce + `test\(\(` + IDX + ` < 0\)\)→true` + errTail,
			"too-large":   pre3 + isArr + coerce + `test\(\(` + IDX + ` < 0\)\)→false ; test\(\(` + IDX + ` < len\(` + ARR + `\)\)\)→false` + errTail,
			"not-integer": pre3 + isArr + q("call(interpreter.toInt64, ev[e.Index].val)→err ; niltest(toInt64(ev[e.Index].val).err)→nonnil") + errTail,
			"not-array":   pre3 + q("typetest(ev[e.Array].val, []interface{})→false") + errTail,
		})
	}
	// ---- রিমুভ / এড / লেন
	reg, _ := registeredBuiltins(p)
	tn := func(borno string) string {
		if t, ok := reg[borno]; ok {
			if nt := namedOf(t); nt != nil {
				return nt.Obj().Name()
			}
		}
		return ""
	}
	A0, I1 := q("arguments[0]"), q("toInt64(arguments[1])#0")
	errRet := `return\(nil, (Errorf|New)\(.*\)\)`
	if ws, fn, ok := nativeWords(p, l, tn("রিমুভ")); fn == nil || !ok {
		l.Undecide("C11/S2-pure-sequence-ops", "রিমুভ", "", "built-in not found or paths not enumerable")
	} else {
		cnt := `(test\(\(len\(arguments\) == 2\)\)→true ; )?`
		isArr := q("typetest(arguments[0], []interface{})→true ; ")
		coerce := q("call(interpreter.toInt64, arguments[1]) ; ")
		matchWordSet(l, "C11/S2-pure-sequence-ops", "রিমুভ", p.Pos(fn.Pos()), ws, map[string]string{
			"remove": cnt + isArr + coerce + `test\(\(` + I1 + ` < 0\)\)→false ; test\(\(` + I1 + ` < len\(` + A0 + `\)\)\)→true ; ` +
				`append\(obj\[:\], ` + A0 + `\[:` + I1 + `\]\) ; append\(append, ` + A0 + `\[\(` + I1 + ` \+ 1\):\]\) ; return\(append, nil\)`,
			"negative":    cnt + isArr + coerce + `test\(\(` + I1 + ` < 0\)\)→true ; ` + errRet,
			"too-large":   cnt + isArr + coerce + `test\(\(` + I1 + ` < 0\)\)→false ; test\(\(` + I1 + ` < len\(` + A0 + `\)\)\)→false ; ` + errRet,
			"not-integer": cnt + isArr + q("call(interpreter.toInt64, arguments[1])→err ; niltest(toInt64(arguments[1]).err)→nonnil ; ") + errRet,
			"not-array":   cnt + q("typetest(arguments[0], []interface{})→false ; ") + errRet,
			"count":       `test\(\(len\(arguments\) == 2\)\)→false ; ` + errRet,
		})
	}
	if ws, fn, ok := nativeWords(p, l, tn("এড")); fn == nil || !ok {
		l.Undecide("C11/S2-pure-sequence-ops", "এড", "", "built-in not found or paths not enumerable")
	} else {
		matchWordSet(l, "C11/S2-pure-sequence-ops", "এড", p.Pos(fn.Pos()), ws, map[string]string{
			"append":    `test\(\(len\(arguments\) < 2\)\)→false ; ` + q("typetest(arguments[0], []interface{})→true ; ") + `append\(obj\[:\], ` + A0 + `\) ; append\(append, arguments\[1:\]\) ; return\(append, nil\)`,
			"not-array": `test\(\(len\(arguments\) < 2\)\)→false ; ` + q("typetest(arguments[0], []interface{})→false ; ") + errRet,
			"count":     `test\(\(len\(arguments\) < 2\)\)→true ; ` + errRet,
		})
	}
	if ws, fn, ok := nativeWords(p, l, tn("লেন")); fn == nil || !ok {
		l.Undecide("C11/S3-length", "লেন", "", "built-in not found or paths not enumerable")
	} else {
		cnt := `(test\(\(len\(arguments\) == 1\)\)→true ; )?`
		matchWordSet(l, "C11/S3-length", "লেন", p.Pos(fn.Pos()), ws, map[string]string{
			"length":    cnt + q("typetest(arguments[0], []interface{})→true ; ") + `return\(conv:float64\(len\(` + A0 + `\)\), nil\)`,
			"not-array": cnt + q("typetest(arguments[0], []interface{})→false ; ") + errRet,
			"count":     `test\(\(len\(arguments\) == 1\)\)→false ; ` + errRet,
		})
	}
	// the index coercion itself: fractional and non-numeric indexes are rejected
	checkCoercionsRule(p, l, "C11/S1-index-coercion")
	// ---- S2 ownership of every slice-typed result of every built-in
	checkFreshSliceResults(p, l)
	// ---- array literal: fresh per evaluation, elements appended in order
	cs := getClauses(p)
	if m := cs.Clauses["*ast.ArrayLiteral"]; m != nil {
		mon := Monitor{Init: "start|", Step: func(s string, ev *Event) string {
			ps := strings.SplitN(s, "|", 2)
			switch ev.Op {
			case "eval":
				return "val|" + ev.KV["res"]
			case "append":
				if ps[0] != "val" || len(ev.Args) != 2 || ev.Args[1] != ps[1]+".val" {
					return "!the array literal appends " + strings.Join(ev.Args, ", ") + " instead of the element just evaluated"
				}
				if !strings.HasPrefix(ev.Args[0], "obj:") && !strings.HasPrefix(ev.Args[0], "append:") && ev.Args[0] != "nil" {
					return "!array literal elements are accumulated in " + ev.Args[0] + ", which outlives this evaluation (the literal must yield a fresh array each time)"
				}
				return "acc|"
			case "return":
				if ev.KV["raised"] == "T" || ev.KV["r1.Type"] != "0" {
					return ""
				}
				r := ev.KV["r0"]
				if !strings.HasPrefix(r, "obj:") && !strings.HasPrefix(r, "append:") {
					return "!the array literal returns " + r + ", not the array built in this evaluation"
				}
				return ""
			}
			return s
		}}
		runMon(l, "C11/S2-fresh-literal", "eval/ArrayLiteral", m, mon, "a fresh array per evaluation; each element appended right after it is evaluated")
	}
	// ---- S4 no copying on value paths
	n := 0
	allowed := map[string]bool{"eval/ArrayLiteral": true, "eval/Call": true}
	for _, m := range cs.all() {
		for _, e := range m.G.Events("append") {
			n++
			if !allowed[m.Scenario] && m.Scenario != "Interpret" {
				l.Violate("C11/S4-reference-semantics", m.Scenario+"#append", e.Pos, "a slice is extended/copied in "+m.Scenario+": arrays must travel by reference through variables, parameters, elements and properties")
			}
		}
	}
	for _, fn := range p.ModuleFuncs() {
		if pk := fnPkgName(fn); pk != "interpreter" && pk != "environment" {
			continue
		}
		instrsOf(fn, func(in ssa.Instruction) {
			if c, ok := in.(*ssa.Call); ok {
				if b, ok := c.Call.Value.(*ssa.Builtin); ok && b.Name() == "copy" {
					l.Violate("C11/S4-reference-semantics", p.FuncKey(fn)+"#copy", p.InstrPos(in), "copy() of a slice in the evaluator")
				}
			}
		})
	}
	l.Discharge("C11/S4-reference-semantics", "value-paths", "", fmt.Sprintf("append occurs only in the array-literal and call clauses (%d sites); no copy()", n), true)
}

// checkFreshSliceResults: every []interface{} a built-in returns is rooted at storage it allocated itself.
func checkFreshSliceResults(p *Prog, l *Ledger) {
	ci := p.callableIface()
	for _, fn := range p.ModuleFuncs() {
		if fn.Name() != "Call" || fn.Signature.Recv() == nil || ci == nil || !types.Implements(fn.Signature.Recv().Type(), ci) {
			continue
		}
		if fn == p.Interp().FuncCall {
			continue
		}
		nt := namedOf(fn.Signature.Recv().Type())
		instrsOf(fn, func(in ssa.Instruction) {
			ret, ok := in.(*ssa.Return)
			if !ok || len(ret.Results) != 2 {
				return
			}
			mi, ok := ret.Results[0].(*ssa.MakeInterface)
			if !ok {
				return
			}
			if _, isSlice := mi.X.Type().Underlying().(*types.Slice); !isSlice {
				return
			}
			key := nt.Obj().Name() + "#result"
			if ok, why := freshSlice(mi.X, map[ssa.Value]bool{}); ok {
				l.Discharge("C11/S2-fresh-results", key, p.InstrPos(in), "the returned array is built in storage allocated by this call ("+why+")", true)
			} else {
				l.Violate("C11/S2-fresh-results", key, p.InstrPos(in), "the returned array shares storage with a caller-visible array: "+why+" — later writes or appends through one are seen through the other")
			}
		})
	}
}

func freshSlice(v ssa.Value, seen map[ssa.Value]bool) (bool, string) {
	if seen[v] {
		return true, "cycle"
	}
	seen[v] = true
	switch x := v.(type) {
	case *ssa.Const:
		return x.Value == nil, "nil"
	case *ssa.MakeSlice:
		return true, "make"
	case *ssa.Call:
		if b, ok := x.Call.Value.(*ssa.Builtin); ok && b.Name() == "append" {
			return freshSlice(x.Call.Args[0], seen)
		}
		if c := x.Call.StaticCallee(); c != nil && fnName(c) == "sortedKeys" {
			return true, "helper result"
		}
		// a helper of the module whose every return hands back storage it allocated itself
		if c := x.Call.StaticCallee(); c != nil && c.Blocks != nil && fnPkgName(c) == "interpreter" && c.Signature.Results().Len() == 1 {
			all, any := true, false
			instrsOf(c, func(in ssa.Instruction) {
				if r, ok := in.(*ssa.Return); ok && len(r.Results) == 1 {
					any = true
					if ok, _ := freshSlice(r.Results[0], seen); !ok {
						all = false
					}
				}
			})
			if all && any {
				return true, "result of " + fnName(c) + ", which builds it in storage of its own"
			}
		}
		return false, "result of " + describe(v)
	case *ssa.Slice:
		if al, ok := x.X.(*ssa.Alloc); ok {
			_ = al
			return true, "literal"
		}
		ok, why := freshSlice(x.X, seen)
		if !ok {
			return false, "a reslice of " + describe(x.X)
		}
		return ok, why
	case *ssa.Phi:
		for _, e := range x.Edges {
			if ok, why := freshSlice(e, seen); !ok {
				return false, why
			}
		}
		return true, "all branches fresh"
	case *ssa.Extract:
		return false, describe(v) + " (the argument itself)"
	}
	return false, describe(v)
}
