package main

// Parser wiring: which values the parser stores into the fields of the AST nodes it builds
// (writer side of the writer/reader agreement between parser and evaluator).

import (
	"fmt"
	"go/token"
	"go/types"
	"sort"
	"strings"

	"golang.org/x/tools/go/ssa"
)

type FieldStore struct {
	Fn     *ssa.Function
	Store  *ssa.Store
	MayNil bool
	Desc   string
}

type Wiring struct {
	p      *Prog
	Fields map[string][]FieldStore // "ast.ForStmt.Condition" → stores
	Built  map[string]bool         // node types the parser constructs ("ast.ForStmt")
	memo   map[*ssa.Function]int   // 0 unknown, 1 in progress, 2 non-nil on success, 3 may be nil
}

var debugNonNil bool

var wiringCache = map[*Prog]*Wiring{}

func (p *Prog) Wiring() *Wiring {
	if w, ok := wiringCache[p]; ok {
		return w
	}
	w := &Wiring{p: p, Fields: map[string][]FieldStore{}, Built: map[string]bool{}, memo: map[*ssa.Function]int{}}
	wiringCache[p] = w
	for _, fn := range p.ModuleFuncs() {
		if fn.Package() == nil || fn.Package().Pkg.Name() != "parser" {
			continue
		}
		instrsOf(fn, func(in ssa.Instruction) {
			if al, ok := in.(*ssa.Alloc); ok {
				if nt := namedOf(al.Type()); nt != nil && nt.Obj().Pkg() != nil && nt.Obj().Pkg().Name() == "ast" {
					w.Built["ast."+nt.Obj().Name()] = true
				}
			}
			st, ok := in.(*ssa.Store)
			if !ok {
				return
			}
			fa, ok := st.Addr.(*ssa.FieldAddr)
			if !ok {
				return
			}
			tn, f := structKey(fa.X.Type(), fa.Field)
			if !strings.HasPrefix(tn, "ast.") {
				return
			}
			key := tn + "." + f
			fs := FieldStore{Fn: fn, Store: st, Desc: describe(st.Val)}
			if isIfaceT(st.Val.Type()) {
				fs.MayNil = w.mayNil(st.Val, st.Block(), map[ssa.Value]bool{})
			}
			w.Fields[key] = append(w.Fields[key], fs)
		})
	}
	return w
}

// Nullable: can the parser leave this interface-typed field nil?  (fields never stored are nil)
func (w *Wiring) Nullable(key string) bool {
	ss, ok := w.Fields[key]
	if !ok {
		return true
	}
	for _, s := range ss {
		if s.MayNil {
			return true
		}
	}
	// a composite literal that omits the field leaves it nil: every construction site of the node
	// must store the field
	node := key[:strings.LastIndex(key, ".")]
	fld := key[strings.LastIndex(key, ".")+1:]
	complete := true
	for _, fn := range w.p.ModuleFuncs() {
		if fn.Package() == nil || fn.Package().Pkg.Name() != "parser" {
			continue
		}
		instrsOf(fn, func(in ssa.Instruction) {
			al, ok := in.(*ssa.Alloc)
			if !ok || typeStr(derefT(al.Type())) != node {
				return
			}
			has := false
			for _, r := range *al.Referrers() {
				if fa, ok := r.(*ssa.FieldAddr); ok && fieldName(fa.X.Type(), fa.Field) == fld {
					for _, r2 := range *fa.Referrers() {
						if _, ok := r2.(*ssa.Store); ok {
							has = true
						}
					}
				}
			}
			if !has {
				complete = false
			}
		})
	}
	return !complete
}

func (w *Wiring) mayNil(v ssa.Value, at *ssa.BasicBlock, seen map[ssa.Value]bool) bool {
	if seen[v] {
		return false
	}
	seen[v] = true
	switch x := v.(type) {
	case *ssa.Const:
		return x.Value == nil
	case *ssa.MakeInterface:
		if _, ok := x.X.(*ssa.Alloc); ok {
			return false
		}
		if c, ok := x.X.(*ssa.Const); ok {
			return c.Value == nil && isPointerT(c.Type())
		}
		return false
	case *ssa.ChangeInterface:
		return w.mayNil(x.X, at, seen)
	case *ssa.ChangeType:
		return w.mayNil(x.X, at, seen)
	case *ssa.Extract:
		if call, ok := x.Tuple.(*ssa.Call); ok && x.Index == 0 {
			if c := call.Call.StaticCallee(); c != nil && w.p.InModule(c) {
				// non-nil on success — provided the use is dominated by the err == nil check
				if !w.nonNilOnSuccess(c) {
					return true
				}
				return !errCheckedBefore(call, at)
			}
		}
		return true
	case *ssa.Phi:
		for i, e := range x.Edges {
			pred := x.Block().Preds[i]
			if edgeImpliesNonNil(pred, x.Block(), e) {
				continue
			}
			if ex, ok := e.(*ssa.Extract); ok && ex.Index == 0 {
				// `v, err = f(); if err != nil { return }` whose success edge is this φ edge
				if call, ok := ex.Tuple.(*ssa.Call); ok && errNilOnEdge(call, pred, x.Block()) {
					if c := call.Call.StaticCallee(); c != nil && w.p.InModule(c) && w.nonNilOnSuccess(c) {
						continue
					}
				}
			}
			if w.mayNil(e, pred, seen) {
				if debugNonNil {
					fmt.Println("    phi edge:", x.Name(), "<-", e.Name(), e.String(), "from block", pred.Index)
				}
				return true
			}
		}
		return false
	case *ssa.UnOp:
		if x.Op == token.MUL {
			// load of a field of a local struct that never leaves the function (a parse result kept in a small struct):
			// what the field holds at this load, path by path
			if fa, ok := x.X.(*ssa.FieldAddr); ok {
				if al, ok := fa.X.(*ssa.Alloc); ok && localStructOnly(al) {
					return localFieldMay(al, fa.Field, x.Block(), x, func(v ssa.Value, at *ssa.BasicBlock) bool { return w.mayNil(v, at, seen) }, map[*ssa.BasicBlock]bool{})
				}
			}
			// load of a local variable: union over its stores
			if al, ok := x.X.(*ssa.Alloc); ok {
				for _, r := range *al.Referrers() {
					if st, ok := r.(*ssa.Store); ok && st.Addr == al {
						if w.mayNil(st.Val, st.Block(), seen) {
							return true
						}
					}
				}
				return false
			}
		}
		return true
	}
	return true
}

// localStructOnly: the struct variable is used only through its fields and as a whole value (loaded, stored) — its
// address goes nowhere else, so only the stores of this function write it.
func localStructOnly(al *ssa.Alloc) bool {
	if _, ok := derefT(al.Type()).Underlying().(*types.Struct); !ok || al.Referrers() == nil {
		return false
	}
	for _, r := range *al.Referrers() {
		switch u := r.(type) {
		case *ssa.FieldAddr:
			if u.Referrers() == nil {
				return false
			}
			for _, rr := range *u.Referrers() {
				switch q := rr.(type) {
				case *ssa.UnOp, *ssa.DebugRef:
				case *ssa.Store:
					if q.Addr != ssa.Value(u) {
						return false
					}
				default:
					return false
				}
			}
		case *ssa.UnOp, *ssa.DebugRef:
		case *ssa.Store:
			if u.Addr != ssa.Value(al) {
				return false
			}
		default:
			return false
		}
	}
	return true
}

// localFieldMay: may field `field` of the local struct al be nil just before instruction `before` of block b (nil:
// at the end of b)?  Walks back to the stores that reach this point; an edge taken because a load of the same field
// was found non-nil settles that edge.
func localFieldMay(al *ssa.Alloc, field int, b *ssa.BasicBlock, before ssa.Instruction, valMay func(v ssa.Value, at *ssa.BasicBlock) bool, visited map[*ssa.BasicBlock]bool) bool {
	idx := len(b.Instrs)
	if before != nil {
		for i, in := range b.Instrs {
			if in == before {
				idx = i
			}
		}
	}
	for i := idx - 1; i >= 0; i-- {
		st, ok := b.Instrs[i].(*ssa.Store)
		if !ok {
			continue
		}
		if fa, ok := st.Addr.(*ssa.FieldAddr); ok && fa.X == ssa.Value(al) && fa.Field == field {
			return valMay(st.Val, b)
		}
		if st.Addr == ssa.Value(al) {
			return true // the whole struct replaced by a value whose fields are not followed
		}
	}
	if before == nil && visited[b] {
		return false // a way round a loop: settled by the ways into it
	}
	visited[b] = true
	if len(b.Preds) == 0 {
		return true // the zero value
	}
	for _, pred := range b.Preds {
		if fieldEdgeNonNil(pred, b, al, field) {
			continue
		}
		if localFieldMay(al, field, pred, nil, valMay, visited) {
			return true
		}
	}
	return false
}

// fieldEdgeNonNil: pred ends in `if al.field ==/!= nil` (tested on a load that no store to the field follows) and the
// edge to blk is the one on which it is not nil.
func fieldEdgeNonNil(pred, blk *ssa.BasicBlock, al *ssa.Alloc, field int) bool {
	if len(pred.Instrs) == 0 {
		return false
	}
	iff, ok := pred.Instrs[len(pred.Instrs)-1].(*ssa.If)
	if !ok {
		return false
	}
	bo, ok := iff.Cond.(*ssa.BinOp)
	if !ok || (bo.Op != token.EQL && bo.Op != token.NEQ) {
		return false
	}
	var other ssa.Value
	if isNilConst(bo.Y) {
		other = bo.X
	} else if isNilConst(bo.X) {
		other = bo.Y
	}
	ld, ok := other.(*ssa.UnOp)
	if !ok || ld.Op != token.MUL || ld.Block() != pred {
		return false
	}
	fa, ok := ld.X.(*ssa.FieldAddr)
	if !ok || fa.X != ssa.Value(al) || fa.Field != field {
		return false
	}
	after := false
	for _, in := range pred.Instrs {
		if in == ssa.Instruction(ld) {
			after = true
			continue
		}
		if st, ok := in.(*ssa.Store); ok && after {
			if sfa, ok := st.Addr.(*ssa.FieldAddr); (ok && sfa.X == ssa.Value(al) && sfa.Field == field) || st.Addr == ssa.Value(al) {
				return false
			}
		}
	}
	nonNilSucc := pred.Succs[1]
	if bo.Op == token.NEQ {
		nonNilSucc = pred.Succs[0]
	}
	return nonNilSucc == blk && pred.Succs[0] != pred.Succs[1]
}

func isPointerT(t types.Type) bool {
	_, ok := t.Underlying().(*types.Pointer)
	return ok
}

// edgeImpliesNonNil: pred ends in `if v == nil` / `if v != nil` and the edge pred→blk is the non-nil side.
func edgeImpliesNonNil(pred, blk *ssa.BasicBlock, v ssa.Value) bool {
	if len(pred.Instrs) == 0 {
		return false
	}
	iff, ok := pred.Instrs[len(pred.Instrs)-1].(*ssa.If)
	if !ok {
		return false
	}
	bo, ok := iff.Cond.(*ssa.BinOp)
	if !ok || (bo.Op != token.EQL && bo.Op != token.NEQ) {
		return false
	}
	var other ssa.Value
	if isNilConst(bo.Y) {
		other = bo.X
	} else if isNilConst(bo.X) {
		other = bo.Y
	}
	if other != v {
		return false
	}
	nonNilSucc := pred.Succs[1] // false edge of ==
	if bo.Op == token.NEQ {
		nonNilSucc = pred.Succs[0]
	}
	return nonNilSucc == blk && pred.Succs[0] != pred.Succs[1]
}

// errCheckedBefore: block `at` is dominated by the failing side of `err != nil` for this call's error.
func errCheckedBefore(call *ssa.Call, at *ssa.BasicBlock) bool {
	for _, g := range GuardsAt(at) {
		bo, ok := g.Cond.(*ssa.BinOp)
		if !ok {
			continue
		}
		var other ssa.Value
		if isNilConst(bo.Y) {
			other = bo.X
		} else if isNilConst(bo.X) {
			other = bo.Y
		}
		ex, ok := other.(*ssa.Extract)
		if !ok || ex.Tuple != ssa.Value(call) || ex.Index != 1 {
			continue
		}
		if (bo.Op == token.NEQ && !g.Truth) || (bo.Op == token.EQL && g.Truth) {
			return true
		}
	}
	return false
}

// errNilOnEdge: pred ends in a test of the call's error result and pred→blk is the side on which it is nil.
func errNilOnEdge(call *ssa.Call, pred, blk *ssa.BasicBlock) bool {
	if len(pred.Instrs) == 0 || len(pred.Succs) != 2 || pred.Succs[0] == pred.Succs[1] {
		return false
	}
	iff, ok := pred.Instrs[len(pred.Instrs)-1].(*ssa.If)
	if !ok {
		return false
	}
	bo, ok := iff.Cond.(*ssa.BinOp)
	if !ok || (bo.Op != token.EQL && bo.Op != token.NEQ) {
		return false
	}
	var other ssa.Value
	if isNilConst(bo.Y) {
		other = bo.X
	} else if isNilConst(bo.X) {
		other = bo.Y
	}
	ex, ok := other.(*ssa.Extract)
	if !ok || ex.Tuple != ssa.Value(call) || ex.Index != 1 {
		return false
	}
	if bo.Op == token.NEQ {
		return pred.Succs[1] == blk
	}
	return pred.Succs[0] == blk
}

// nonNilOnSuccess: every `return x, nil` of fn has a non-nil x.
func (w *Wiring) nonNilOnSuccess(fn *ssa.Function) bool {
	switch w.memo[fn] {
	case 1, 2:
		return true // optimistic for recursion (least fixpoint of "may be nil")
	case 3:
		return false
	}
	w.memo[fn] = 1
	ok := true
	if fn.Signature.Results().Len() != 2 {
		w.memo[fn] = 3
		return false
	}
	instrsOf(fn, func(in ssa.Instruction) {
		ret, isRet := in.(*ssa.Return)
		if !isRet || len(ret.Results) != 2 {
			return
		}
		if !isNilConst(ret.Results[1]) {
			// tail call passing both results through
			if ex, isEx := ret.Results[1].(*ssa.Extract); isEx && ex.Index == 1 {
				if ex0, isEx0 := ret.Results[0].(*ssa.Extract); isEx0 && ex0.Tuple == ex.Tuple && ex0.Index == 0 {
					if call, isCall := ex.Tuple.(*ssa.Call); isCall {
						if c := call.Call.StaticCallee(); c != nil && w.p.InModule(c) {
							if !w.nonNilOnSuccess(c) {
								if debugNonNil {
									fmt.Println("  tail call:", fn.Name(), "->", c.Name())
								}
								ok = false
							}
							return
						}
					}
				}
			}
			// error return: the error is a fresh one (a call result) or was tested non-nil on the way here
			if _, isCall := ret.Results[1].(*ssa.Call); isCall {
				return
			}
			if _, isMk := ret.Results[1].(*ssa.MakeInterface); isMk {
				return
			}
			for _, g := range GuardsAt(ret.Block()) {
				if bo, isBo := g.Cond.(*ssa.BinOp); isBo && (bo.Op == token.NEQ || bo.Op == token.EQL) {
					var other ssa.Value
					if isNilConst(bo.Y) {
						other = bo.X
					} else if isNilConst(bo.X) {
						other = bo.Y
					}
					if other == ret.Results[1] && ((bo.Op == token.NEQ && g.Truth) || (bo.Op == token.EQL && !g.Truth)) {
						return
					}
				}
			}
			// the error may be nil here: the value returned with it counts as a success result
		}
		if w.mayNil(ret.Results[0], ret.Block(), map[ssa.Value]bool{}) {
			if debugNonNil {
				fmt.Println("  mayNil:", fn.Name(), w.p.InstrPos(ret), ret.Results[0].Name(), ret.Results[0].String())
			}
			ok = false
		}
	})
	if ok {
		w.memo[fn] = 2
	} else {
		w.memo[fn] = 3
	}
	return ok
}

func (w *Wiring) Keys() []string {
	var out []string
	for k := range w.Fields {
		out = append(out, k)
	}
	sort.Strings(out)
	return out
}
