package main

// Event graphs: the abstract machine records, for one scenario of one function, the finite graph of
// abstract states it visited; edges carry the events the model emitted.  Rules are small
// deterministic monitors run over this graph by product search (regular-language inclusion).

import (
	"fmt"
	"sort"
	"strings"

	"golang.org/x/tools/go/ssa"
)

type Event struct {
	Op   string            // eval, truthy, rterror, print, invoke, arity, define, assign, get, getlocal, newenv, flagtest, flagset, mapstore, indexstore, call, return, backedge, next, assert, …
	Args []string          // rendered abstract arguments
	Out  string            // outcome label
	Pos  string            // file:line
	Site string            // stable site key
	KV   map[string]string // further attributes
}

func (e *Event) String() string {
	if e == nil {
		return "ε"
	}
	s := e.Op + "(" + strings.Join(e.Args, ", ") + ")"
	if e.Out != "" {
		s += "→" + e.Out
	}
	return s
}

type GEdge struct {
	To int
	Ev *Event
}

type Graph struct {
	Name   string
	Out    [][]GEdge
	Start  int
	Labels []string // block label of node (diagnostics)
}

func NewGraph(name string) *Graph {
	g := &Graph{Name: name}
	g.Start = g.NewNode("start")
	return g
}

func (g *Graph) NewNode(label string) int {
	g.Out = append(g.Out, nil)
	g.Labels = append(g.Labels, label)
	return len(g.Out) - 1
}

func (g *Graph) AddEdge(from, to int, ev *Event) {
	g.Out[from] = append(g.Out[from], GEdge{To: to, Ev: ev})
}

func (g *Graph) NumEdges() int {
	n := 0
	for _, o := range g.Out {
		n += len(o)
	}
	return n
}

// Monitor is a deterministic automaton over events.  Step returns the next monitor state; a state
// starting with "!" is a violation (its text is the message) and stops the search on that path.
// Returning "" drops the path (monitor not interested any more).
type Monitor struct {
	Init string
	Step func(state string, ev *Event) string
	// Also: event kinds that are invisible to most monitors (type tests of the dispatch) unless asked for
	Also map[string]bool
}

var quietOps = map[string]bool{"typetest": true, "has": true, "maplookup": true, "index": true}

type Witness struct {
	Msg   string
	Trace []string
	Last  *Event
}

// Run explores the product of the graph and the monitor; it returns one witness per distinct
// violation message (shortest first, BFS).
func (g *Graph) Run(mon Monitor) []Witness {
	type pstate struct {
		node int
		ms   string
	}
	type item struct {
		ps     pstate
		parent int
		ev     *Event
	}
	start := pstate{g.Start, mon.Init}
	seen := map[pstate]bool{start: true}
	queue := []item{{ps: start, parent: -1}}
	var out []Witness
	seenMsg := map[string]bool{}
	for qi := 0; qi < len(queue); qi++ {
		it := queue[qi]
		for _, e := range g.Out[it.ps.node] {
			ms := it.ps.ms
			if e.Ev != nil && (!quietOps[e.Ev.Op] || mon.Also[e.Ev.Op]) {
				ms = mon.Step(ms, e.Ev)
			}
			if ms == "" {
				continue
			}
			if strings.HasPrefix(ms, "!") {
				key := ms
				if e.Ev != nil {
					key += "@" + e.Ev.Site
				}
				if seenMsg[key] {
					continue
				}
				seenMsg[key] = true
				// reconstruct trace
				var tr []string
				if e.Ev != nil {
					tr = append(tr, e.Ev.String()+" @"+e.Ev.Pos)
				}
				for k := qi; k >= 0 && queue[k].parent >= -1; k = queue[k].parent {
					if queue[k].ev != nil {
						tr = append(tr, queue[k].ev.String()+" @"+queue[k].ev.Pos)
					}
					if queue[k].parent < 0 {
						break
					}
				}
				for i, j := 0, len(tr)-1; i < j; i, j = i+1, j-1 {
					tr[i], tr[j] = tr[j], tr[i]
				}
				out = append(out, Witness{Msg: ms[1:], Trace: tr, Last: e.Ev})
				continue
			}
			ns := pstate{e.To, ms}
			if !seen[ns] {
				seen[ns] = true
				queue = append(queue, item{ps: ns, parent: qi, ev: e.Ev})
			}
		}
	}
	return out
}

// Events returns all distinct events of the graph matching op (sorted by site).
func (g *Graph) Events(op string) []*Event {
	var out []*Event
	seen := map[string]bool{}
	for _, es := range g.Out {
		for _, e := range es {
			if e.Ev != nil && (op == "" || e.Ev.Op == op) {
				k := e.Ev.Site + "|" + e.Ev.String() + "|" + kvString(e.Ev.KV)
				if !seen[k] {
					seen[k] = true
					out = append(out, e.Ev)
				}
			}
		}
	}
	sort.Slice(out, func(i, j int) bool { return out[i].Site+out[i].String() < out[j].Site+out[j].String() })
	return out
}

// ---- graph-recording model base -----------------------------------------------------------

// GraphRec is embedded by models; it ties machine states to graph nodes.
type GraphRec struct {
	G       *Graph
	visited map[string]int
}

const nodeKey = "\x00node"

func (r *GraphRec) node(st *State) int {
	var n int
	fmt.Sscanf(st.Mon[nodeKey], "%d", &n)
	return n
}

func (r *GraphRec) setNode(st *State, n int) { st.Mon[nodeKey] = fmt.Sprint(n) }

// Emit appends an event edge and advances the state's node.
func (r *GraphRec) Emit(st *State, ev *Event) {
	n := r.G.NewNode("")
	r.G.AddEdge(r.node(st), n, ev)
	r.setNode(st, n)
	st.Log(ev.String())
}

func siteOf(p *Prog, in ssa.Instruction) (string, string) {
	return site(in), p.InstrPos(in)
}

// Attach wires the recorder into a machine.
func (r *GraphRec) Attach(m *Machine) {
	m.OnVisit = func(st *State, b *ssa.BasicBlock) int {
		n := r.G.NewNode(fmt.Sprintf("%s.b%d", fnName(b.Parent()), b.Index))
		r.G.AddEdge(r.node(st), n, nil)
		r.setNode(st, n)
		return n
	}
	m.OnRevisit = func(st *State, node int) {
		r.G.AddEdge(r.node(st), node, nil)
	}
}

// Words enumerates the event words of an acyclic graph (ε edges collapsed).  ok=false when the graph
// has a cycle or more than limit words.
func (g *Graph) Words(limit int) ([][]*Event, bool) {
	var out [][]*Event
	onPath := map[int]bool{}
	ok := true
	var walk func(n int, cur []*Event)
	walk = func(n int, cur []*Event) {
		if !ok {
			return
		}
		if onPath[n] {
			ok = false
			return
		}
		if len(g.Out[n]) == 0 {
			w := make([]*Event, len(cur))
			copy(w, cur)
			out = append(out, w)
			if len(out) > limit {
				ok = false
			}
			return
		}
		onPath[n] = true
		for _, e := range g.Out[n] {
			if e.Ev == nil {
				walk(e.To, cur)
			} else {
				walk(e.To, append(cur, e.Ev))
			}
		}
		onPath[n] = false
	}
	walk(g.Start, nil)
	return out, ok
}

func wordString(w []*Event) string {
	var parts []string
	for _, e := range w {
		if e.Op == "index" || e.Op == "slicebounds" {
			continue // bookkeeping for the path-sensitive bounds proof
		}
		if trivialNilTest(e) {
			continue
		}
		parts = append(parts, e.String())
	}
	return strings.Join(parts, " ; ")
}

func kvString(kv map[string]string) string {
	keys := make([]string, 0, len(kv))
	for k := range kv {
		keys = append(keys, k)
	}
	sort.Strings(keys)
	var sb strings.Builder
	for _, k := range keys {
		sb.WriteString(k + "=" + kv[k] + ";")
	}
	return sb.String()
}

// SimplePaths enumerates event words along paths that never revisit a graph node and end in a sink
// (for cyclic graphs this unrolls every loop as far as the abstract states differ — typically two iterations).
func (g *Graph) SimplePaths(limit int) [][]*Event {
	var out [][]*Event
	on := map[int]bool{}
	var walk func(n int, cur []*Event)
	walk = func(n int, cur []*Event) {
		if len(out) >= limit || on[n] {
			return
		}
		if len(g.Out[n]) == 0 {
			w := make([]*Event, len(cur))
			copy(w, cur)
			out = append(out, w)
			return
		}
		on[n] = true
		for _, e := range g.Out[n] {
			if e.Ev == nil {
				walk(e.To, cur)
			} else {
				walk(e.To, append(cur, e.Ev))
			}
		}
		on[n] = false
	}
	walk(g.Start, nil)
	return out
}

// trivialNilTest: a nil test of a value made on this very path (a fresh error, a fresh object) can only answer
// "non-nil": a helper handing such a value to its caller, which then tests it, adds nothing to the behaviour.
func trivialNilTest(e *Event) bool {
	if e.Op != "niltest" || e.Out != "nonnil" || len(e.Args) == 0 {
		return false
	}
	a := e.Args[0]
	if strings.HasPrefix(a, "Errorf(") || strings.HasPrefix(a, "New(") {
		return true
	}
	return strings.HasPrefix(a, "obj") && !strings.ContainsAny(a, ".[")
}
