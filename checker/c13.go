package main

import (
	"fmt"
	"go/token"
	"go/types"
	"sort"
	"strings"

	"golang.org/x/tools/go/ssa"
)

func init() {
	register("C13", &Checker{
		Run: checkC13,
		Explain: "Decided: a single-goroutine Go program is a deterministic function of its inputs unless it uses one of a finite list of nondeterminism sources, so the checker enumerates them over every module function reachable from main.main (thorough: every module function, advisory). " +
			"S1: every range over a Go map must be order-insensitive (only stores into another map keyed by the range key) or collect into a slice that is sorted before any other use; anything else — calls with effects such as eval, appends that escape unsorted, string building, early exits — is reported with the loop's function. " +
			"S2: no call of time/rand/os-identity/runtime-introspection functions (time.Now only inside the clock built-in), no go statements, channel operations, select, unsafe; every pointer/func-typed member of the value universe implements String() so that %v never prints an address. " +
			"S3: the only package-level variables written outside package initialisers are the two error flags, and no other package-level variable can reach a container type that any reachable function mutates (type-based may-alias), so no hidden state survives between statements or runs. " +
			"Inherited: fmt prints map keys sorted. Not decided: nothing further — modulo the trusted base these conditions are determinism.",
		Rule:    "obligation = (source class, site): each map range, each call site of a listed nondeterministic API, each package-level variable, each pointer-like universe type; non-trivial = map ranges, global variables with mutable reachable types, and universe pointer types",
		Trusted: []string{"go/ssa, VTA call graph", "the list of nondeterministic standard-library APIs in c13.go", "fmt sorts map keys when printing", "sort.Strings/sort.Slice/slices.Sort produce a deterministic order"},
	})
}

var nondetPkgs = map[string]bool{"math/rand": true, "math/rand/v2": true, "crypto/rand": true, "hash/maphash": true, "unsafe": true, "runtime/debug": true, "runtime/pprof": true}
var nondetFuncs = map[string]bool{
	"os.Getpid": true, "os.Getppid": true, "os.Environ": true, "os.Getenv": true, "os.LookupEnv": true, "os.Hostname": true, "os.Getwd": true,
	"os.Getuid": true, "os.Geteuid": true, "os.Getgid": true, "os.TempDir": true, "os.UserHomeDir": true, "os.Executable": true, "os.MkdirTemp": true, "os.CreateTemp": true,
	"time.Now": true, "time.Since": true, "time.Until": true, "time.After": true, "time.Tick": true, "time.Sleep": true, "time.NewTimer": true, "time.NewTicker": true, "time.AfterFunc": true,
	"runtime.NumGoroutine": true, "runtime.Caller": true, "runtime.Callers": true, "runtime.Stack": true, "runtime.NumCPU": true, "runtime.GOMAXPROCS": true, "runtime.ReadMemStats": true, "runtime.GC": true, "runtime.SetFinalizer": true,
}

// mapIterSorted: is the call maps.Keys / maps.Values / maps.All (an iterator in the map's own order), and is every use
// of its result the argument of slices.Sorted (which collects and sorts: the order no longer shows)?
func mapIterSorted(call ssa.CallInstruction) (isIter bool, ok bool, why string) {
	c := call.Common().StaticCallee()
	if c == nil || fnPkgPath(c) != "maps" || len(call.Common().Args) != 1 {
		return false, false, ""
	}
	base := c.Name()
	if i := strings.Index(base, "["); i >= 0 {
		base = base[:i]
	}
	if base != "Keys" && base != "Values" && base != "All" {
		return false, false, ""
	}
	v, isVal := call.(ssa.Value)
	if !isVal || v.Referrers() == nil {
		return true, false, "the iterator is not a value whose uses can be followed"
	}
	n := 0
	for _, r := range *v.Referrers() {
		switch u := r.(type) {
		case *ssa.DebugRef:
		case *ssa.Call:
			sc := u.Call.StaticCallee()
			name := ""
			if sc != nil {
				name = sc.Name()
				if i := strings.Index(name, "["); i >= 0 {
					name = name[:i]
				}
			}
			if sc == nil || fnPkgPath(sc) != "slices" || name != "Sorted" || len(u.Call.Args) != 1 || u.Call.Args[0] != v {
				return true, false, "maps." + base + " feeds " + describe(u) + " — its order is the map's"
			}
			n++
		default:
			return true, false, "maps." + base + " is used by " + describe(v) + " outside slices.Sorted"
		}
	}
	if n == 0 {
		return true, true, "maps." + base + " whose result is not used"
	}
	return true, true, "maps." + base + " handed straight to slices.Sorted: collected and sorted, the map's order does not show"
}

func checkC13(p *Prog, l *Ledger) {
	// side effects happen in source order: the initialisers of an object literal run in the order they are written (C12's
	// literal rule), not in passes chosen by what they look like
	l.AsOnlyWhere(map[string]string{"C12/S1-literal": "C13/S1-listing-order/literal-order"}, func(o *Obligation) bool { return o.Construct == "eval/ObjectLiteral" }, func() { checkObjectLiteral(p, l) })
	// "listing the keys of an unmodified object gives the same sequence every time": one pass over the shared ordering
	// function on every call, nothing remembered between calls (rule of C12)
	l.AsOnly(map[string]string{"C12/S2-listing": "C13/S1-listing-order"}, func() { checkC12(p, l) })
	mainPkg := p.Pkg("main")
	if mainPkg == nil || mainPkg.Func("main") == nil {
		l.Undecide("C13/anchors", "main.main", "", "main.main not found")
		return
	}
	reach := p.Reachable(mainPkg.Func("main"))
	scope := func(fn *ssa.Function) bool {
		return reach[fn] || strings.Contains(fn.Synthetic, "package initializer")
	}
	var rangeSites, funcs []string
	nCalls := 0
	for _, fn := range p.ModuleFuncs() {
		inScope := scope(fn)
		if !inScope && l.Tier != "thorough" {
			continue
		}
		fk := p.FuncKey(fn)
		funcs = append(funcs, fk)
		l.Funcs[fk] = true
		nRange := 0
		instrsOf(fn, func(in ssa.Instruction) {
			switch x := in.(type) {
			case *ssa.Range:
				if _, isMap := x.X.Type().Underlying().(*types.Map); !isMap {
					return
				}
				nRange++
				key := fmt.Sprintf("%s#range(%s)", fk, describe(x.X))
				if nRange > 1 {
					key += fmt.Sprintf("#%d", nRange)
				}
				ok, why := mapRangeOrderInsensitive(p, x)
				if !inScope {
					if !ok {
						l.Note("advisory (unreachable from main): observable map range in %s: %s", key, why)
					}
					return
				}
				rangeSites = append(rangeSites, key)
				if ok {
					l.Discharge("C13/S1-map-range", key, p.InstrPos(x), why, true)
				} else {
					l.Violate("C13/S1-map-range", key, p.InstrPos(x), "iteration order of a Go map is observable here: "+why)
				}
			case ssa.CallInstruction:
				nCalls++
				if _, isGo := x.(*ssa.Go); isGo && inScope {
					l.Violate("C13/S2-source", fk+"#go", p.InstrPos(in), "go statement: scheduling becomes an input")
				}
				if isIter, ok, why := mapIterSorted(x); isIter {
					// the library's iterator over a map is a map range by another spelling
					key := fmt.Sprintf("%s#range(%s)", fk, describe(x.Common().Args[0]))
					if inScope {
						rangeSites = append(rangeSites, key)
						if ok {
							l.Discharge("C13/S1-map-range", key, p.InstrPos(in), why, true)
						} else {
							l.Violate("C13/S1-map-range", key, p.InstrPos(in), "iteration order of a Go map is observable here: "+why)
						}
					}
				}
				for _, c := range p.Callees(x) {
					if p.InModule(c) {
						continue
					}
					name := extName(c)
					pk := fnPkgPath(c)
					bad := nondetPkgs[pk] || nondetFuncs[name]
					if pk == "time" && c.Signature.Recv() != nil {
						bad = false // methods on time.Time values are pure; the source is time.Now
					}
					if !bad || !inScope {
						continue
					}
					key := fk + "#" + name
					if name == "time.Now" && isClockBuiltin(p, fn) {
						l.Discharge("C13/S2-source", key, p.InstrPos(in), "time.Now inside the clock built-in (the property's documented exception)", true)
						continue
					}
					l.Violate("C13/S2-source", key, p.InstrPos(in), "call of nondeterministic API "+name)
				}
			case *ssa.Select:
				if inScope {
					l.Violate("C13/S2-source", fk+"#select", p.InstrPos(in), "select statement")
				}
			case *ssa.Send:
				if inScope {
					l.Violate("C13/S2-source", fk+"#chan-send", p.InstrPos(in), "channel send")
				}
			case *ssa.UnOp:
				if x.Op == token.ARROW && inScope {
					l.Violate("C13/S2-source", fk+"#chan-recv", p.InstrPos(in), "channel receive")
				}
			case *ssa.MakeChan:
				if inScope {
					l.Violate("C13/S2-source", fk+"#make-chan", p.InstrPos(in), "channel creation")
				}
			case *ssa.Convert:
				if b, ok := x.Type().Underlying().(*types.Basic); ok && b.Kind() == types.UnsafePointer && inScope {
					l.Violate("C13/S2-source", fk+"#unsafe", p.InstrPos(in), "conversion to unsafe.Pointer")
				}
				if b, ok := x.Type().Underlying().(*types.Basic); ok && b.Kind() == types.Uintptr {
					if _, isPtr := x.X.Type().Underlying().(*types.Pointer); isPtr && inScope {
						l.Violate("C13/S2-source", fk+"#uintptr", p.InstrPos(in), "pointer converted to integer")
					}
				}
			}
		})
	}
	l.CallSites = nCalls
	l.Discharge("C13/S2-source", "all-reachable-calls", "", fmt.Sprintf("%d call sites in %d functions inspected; none resolves to a listed nondeterministic API except those reported", nCalls, len(funcs)), true)
	l.RequireMin("C13/S1-map-range", 1, rangeSites, "map ranges reachable from main")
	if len(funcs) < 60 {
		l.Violate("C13/vacuity", "reachable-functions", "", fmt.Sprintf("only %d module functions reachable from main.main (expected >= 60)", len(funcs)))
	}

	// %p and %v of addresses
	checkFormatVerbs(p, l, scope)
	checkUniverseStringers(p, l)
	checkGlobals(p, l, "C13/S3-global", reach)
}

func isClockBuiltin(p *Prog, fn *ssa.Function) bool {
	// the Callable whose Call reads the clock: a method named Call on a type implementing Callable with Arity()==0
	if fn.Name() != "Call" || fn.Signature.Recv() == nil {
		return false
	}
	ci := p.callableIface()
	return ci != nil && types.Implements(fn.Signature.Recv().Type(), ci)
}

// mapRangeOrderInsensitive decides whether the order in which a map range visits entries can
// influence anything observable.
func mapRangeOrderInsensitive(p *Prog, r *ssa.Range) (bool, string) {
	var next *ssa.Next
	for _, ref := range *r.Referrers() {
		if n, ok := ref.(*ssa.Next); ok {
			if next != nil {
				return false, "range iterator used by several next instructions"
			}
			next = n
		}
	}
	if next == nil {
		return true, "iterator never advanced"
	}
	head := next.Block()
	loop := naturalLoop(head)
	// every exit of the loop must be the iterator's own exhaustion test
	var okVal ssa.Value
	for _, ref := range *next.Referrers() {
		if ex, ok := ref.(*ssa.Extract); ok && ex.Index == 0 {
			okVal = ex
		}
	}
	for b := range loop {
		for _, s := range b.Succs {
			if loop[s] {
				continue
			}
			iff, isIf := b.Instrs[len(b.Instrs)-1].(*ssa.If)
			if b == head && isIf && iff.Cond == okVal {
				continue
			}
			return false, "the loop can be left early (return/break inside a map range): which entry triggers the exit depends on iteration order"
		}
		if _, isRet := b.Instrs[len(b.Instrs)-1].(*ssa.Return); isRet {
			return false, "return inside a map range"
		}
	}
	var keyVal ssa.Value
	for _, ref := range *next.Referrers() {
		if ex, ok := ref.(*ssa.Extract); ok && ex.Index == 1 {
			keyVal = ex
		}
	}
	var accum []*ssa.Phi
	for b := range loop {
		for _, in := range b.Instrs {
			switch x := in.(type) {
			case *ssa.Call:
				if bi, ok := x.Call.Value.(*ssa.Builtin); ok {
					switch bi.Name() {
					case "len", "cap":
						continue
					case "append":
						// must extend a loop-carried accumulator
						ph, ok := x.Call.Args[0].(*ssa.Phi)
						if !ok || ph.Block() != head {
							return false, "append inside the loop onto a value that is not a loop accumulator"
						}
						accum = append(accum, ph)
						continue
					}
					return false, "builtin " + bi.Name() + " inside a map range"
				}
				callees := p.Callees(x)
				if len(callees) == 0 {
					return false, "unresolved call inside a map range"
				}
				for _, c := range callees {
					if !pureExternal(c) {
						return false, fmt.Sprintf("call of %s inside the loop (its effects happen in map order)", calleeName(p, c))
					}
				}
			case *ssa.MapUpdate:
				if k := stripIface(x.Key); k != keyVal {
					return false, "map store under a key that is not the range key (last writer wins depends on order)"
				}
				if loopDefined(loop, x.Map) {
					continue
				}
			case *ssa.Store:
				if al, ok := rootAlloc(x.Addr); ok && loop[al.Block()] {
					continue // temporary created inside the iteration (varargs arrays)
				}
				return false, "store to memory that outlives the iteration"
			case *ssa.BinOp:
				if x.Op == token.ADD {
					if b, ok := x.Type().Underlying().(*types.Basic); ok && b.Info()&types.IsString != 0 {
						for _, ref := range *x.Referrers() {
							if ph, ok := ref.(*ssa.Phi); ok && ph.Block() == head {
								return false, "string built up across iterations"
							}
						}
					}
				}
			case *ssa.Send, *ssa.Go, *ssa.Defer, *ssa.Panic:
				return false, "effectful instruction inside a map range"
			}
		}
	}
	// loop-carried values other than the recognised accumulators
	for _, in := range head.Instrs {
		ph, ok := in.(*ssa.Phi)
		if !ok {
			break
		}
		isAcc := false
		for _, a := range accum {
			if a == ph {
				isAcc = true
			}
		}
		if !isAcc {
			if _, isSlice := ph.Type().Underlying().(*types.Slice); !isSlice {
				return false, "value " + ph.Name() + " carried across iterations (result may depend on order)"
			}
			return false, "slice carried across iterations without append"
		}
	}
	for _, a := range accum {
		if ok, why := sortedBeforeUse(loop, a); !ok {
			return false, "entries are appended to a slice in map order and " + why
		}
	}
	if len(accum) > 0 {
		return true, "collects into a slice that is sorted before any other use"
	}
	return true, "body only stores into another map under the range key (commutative)"
}

func stripIface(v ssa.Value) ssa.Value {
	for {
		switch x := v.(type) {
		case *ssa.MakeInterface:
			v = x.X
		case *ssa.ChangeType:
			v = x.X
		default:
			return v
		}
	}
}

func loopDefined(loop map[*ssa.BasicBlock]bool, v ssa.Value) bool {
	if in, ok := v.(ssa.Instruction); ok {
		return loop[in.Block()]
	}
	return false
}

func rootAlloc(v ssa.Value) (*ssa.Alloc, bool) {
	for {
		switch x := v.(type) {
		case *ssa.Alloc:
			return x, true
		case *ssa.IndexAddr:
			v = x.X
		case *ssa.FieldAddr:
			v = x.X
		default:
			return nil, false
		}
	}
}

func calleeName(p *Prog, c *ssa.Function) string {
	if p.InModule(c) {
		return p.FuncKey(c)
	}
	return extName(c)
}

var purePkgs = map[string]bool{"strings": true, "unicode": true, "unicode/utf8": true, "strconv": true, "math": true, "golang.org/x/text/unicode/norm": true}

func pureExternal(c *ssa.Function) bool {
	return purePkgs[fnPkgPath(c)]
}

// naturalLoop returns the blocks of the natural loop(s) with the given header.
func naturalLoop(head *ssa.BasicBlock) map[*ssa.BasicBlock]bool {
	loop := map[*ssa.BasicBlock]bool{head: true}
	var stack []*ssa.BasicBlock
	for _, p := range head.Preds {
		if head.Dominates(p) {
			stack = append(stack, p)
		}
	}
	for len(stack) > 0 {
		b := stack[len(stack)-1]
		stack = stack[:len(stack)-1]
		if loop[b] {
			continue
		}
		loop[b] = true
		for _, p := range b.Preds {
			stack = append(stack, p)
		}
	}
	return loop
}

var sortFuncs = map[string]bool{"sort.Strings": true, "sort.Slice": true, "sort.SliceStable": true, "sort.Sort": true, "sort.Stable": true, "sort.Ints": true, "sort.Float64s": true, "slices.Sort": true, "slices.SortFunc": true, "slices.SortStableFunc": true}

// sortedBeforeUse: every use of the accumulator outside the loop is dominated by a sort call on it.
func sortedBeforeUse(loop map[*ssa.BasicBlock]bool, acc *ssa.Phi) (bool, string) {
	var sortCall *ssa.Call
	var outside []ssa.Instruction
	for _, ref := range *acc.Referrers() {
		if loop[ref.Block()] {
			continue
		}
		if _, dbg := ref.(*ssa.DebugRef); dbg {
			continue
		}
		outside = append(outside, ref)
		if c, ok := ref.(*ssa.Call); ok {
			if sc := c.Call.StaticCallee(); sc != nil && sortFuncs[extName(sc)] {
				if sortCall == nil || c.Block().Dominates(sortCall.Block()) {
					sortCall = c
				}
			}
		}
		// sort.Slice takes interface{}: the accumulator is wrapped by MakeInterface first
		if mi, ok := ref.(*ssa.MakeInterface); ok {
			for _, r2 := range *mi.Referrers() {
				if c, ok := r2.(*ssa.Call); ok {
					if sc := c.Call.StaticCallee(); sc != nil && sortFuncs[extName(sc)] {
						if sortCall == nil || c.Block().Dominates(sortCall.Block()) {
							sortCall = c
						}
					}
				}
			}
		}
	}
	if sortCall == nil {
		return false, "used without being sorted"
	}
	for _, u := range outside {
		if u == ssa.Instruction(sortCall) {
			continue
		}
		if mi, ok := u.(*ssa.MakeInterface); ok {
			onlySort := true
			for _, r2 := range *mi.Referrers() {
				if r2 != ssa.Instruction(sortCall) {
					onlySort = false
				}
			}
			if onlySort {
				continue
			}
		}
		if !instrDominates(sortCall, u) {
			return false, "used at a point not dominated by the sort"
		}
	}
	return true, ""
}

func instrDominates(a, b ssa.Instruction) bool {
	if a.Block() == b.Block() {
		for _, in := range a.Block().Instrs {
			if in == a {
				return true
			}
			if in == b {
				return false
			}
		}
	}
	return a.Block().Dominates(b.Block())
}

// checkFormatVerbs: no %p in any constant format string handed to fmt.
func checkFormatVerbs(p *Prog, l *Ledger, scope func(*ssa.Function) bool) {
	n := 0
	for _, fn := range p.ModuleFuncs() {
		if !scope(fn) {
			continue
		}
		instrsOf(fn, func(in ssa.Instruction) {
			call, ok := in.(ssa.CallInstruction)
			if !ok {
				return
			}
			c := call.Common().StaticCallee()
			if c == nil || fnPkgPath(c) != "fmt" {
				return
			}
			for _, a := range call.Common().Args {
				if k, ok := a.(*ssa.Const); ok && k.Value != nil && strings.Contains(k.Value.ExactString(), "%p") {
					l.Violate("C13/S2-source", p.FuncKey(fn)+"#%p", p.InstrPos(in), "format verb %p prints an address")
				}
			}
			n++
		})
	}
	l.Discharge("C13/S2-format", "fmt-call-sites", "", fmt.Sprintf("%d fmt call sites: no %%p verb", n), false)
}

// checkUniverseStringers: pointer-like members of the value universe must print through String().
func checkUniverseStringers(p *Prog, l *Ledger) {
	u := p.BuildUniverse()
	stringer := types.NewInterfaceType([]*types.Func{types.NewFunc(token.NoPos, nil, "String",
		types.NewSignatureType(nil, nil, nil, nil, types.NewTuple(types.NewVar(token.NoPos, nil, "", types.Typ[types.String])), false))}, nil)
	stringer.Complete()
	for _, t := range u.TypeList() {
		ts := typeStr(t)
		if containsAddress(t, map[types.Type]bool{}) {
			if types.Implements(t, stringer) {
				l.Discharge("C13/S2-address", "universe:"+ts, "", "pointer-bearing value type prints through its String() method", true)
			} else {
				l.Violate("C13/S2-address", "universe:"+ts, "", "a value of type "+ts+" reaches %v without a String() method: fmt would print a memory address")
			}
		} else {
			l.Discharge("C13/S2-address", "universe:"+ts, "", "no address reachable by fmt", false)
		}
	}
}

// containsAddress: would fmt's %v print a pointer value for this type (at any depth)?
func containsAddress(t types.Type, seen map[types.Type]bool) bool {
	if seen[t] {
		return false
	}
	seen[t] = true
	switch u := t.Underlying().(type) {
	case *types.Pointer:
		return true
	case *types.Signature, *types.Chan:
		return true
	case *types.Basic:
		return u.Kind() == types.UnsafePointer || u.Kind() == types.Uintptr
	case *types.Struct:
		for i := 0; i < u.NumFields(); i++ {
			if containsAddress(u.Field(i).Type(), seen) {
				return true
			}
		}
	case *types.Slice:
		if isEmptyInterface(u.Elem()) {
			return false // elements are universe members themselves
		}
		return containsAddress(u.Elem(), seen)
	case *types.Array:
		return containsAddress(u.Elem(), seen)
	case *types.Map:
		if isEmptyInterface(u.Elem()) {
			return containsAddress(u.Key(), seen)
		}
		return containsAddress(u.Key(), seen) || containsAddress(u.Elem(), seen)
	}
	return false
}

// checkGlobals: who writes package-level state (S3).  Shared with C20.
func checkGlobals(p *Prog, l *Ledger, rule string, reach map[*ssa.Function]bool) {
	type ginfo struct {
		g       *ssa.Global
		writers []string
	}
	var globals []*ginfo
	byG := map[*ssa.Global]*ginfo{}
	for _, pk := range p.SSA.AllPackages() {
		if !strings.HasPrefix(pk.Pkg.Path(), modulePath) {
			continue
		}
		for _, m := range pk.Members {
			if g, ok := m.(*ssa.Global); ok && !strings.HasPrefix(g.Name(), "init$") {
				gi := &ginfo{g: g}
				globals = append(globals, gi)
				byG[g] = gi
			}
		}
	}
	sort.Slice(globals, func(i, j int) bool { return globals[i].g.String() < globals[j].g.String() })
	// direct writers and the set of container types mutated outside initialisers
	mutated := map[string][]string{} // type string → writer function keys
	for _, fn := range p.ModuleFuncs() {
		isInit := strings.Contains(fn.Synthetic, "package initializer")
		if !isInit && !reach[fn] {
			continue
		}
		fk := p.FuncKey(fn)
		instrsOf(fn, func(in ssa.Instruction) {
			switch x := in.(type) {
			case *ssa.Store:
				if g, ok := x.Addr.(*ssa.Global); ok {
					if gi := byG[g]; gi != nil && !isInit {
						gi.writers = append(gi.writers, fk+"@"+p.InstrPos(in))
					}
					return
				}
				if isInit {
					return
				}
				switch a := x.Addr.(type) {
				case *ssa.FieldAddr:
					if al, ok := rootAlloc(a); ok && !escapes(al) {
						return
					}
					mutated[typeStr(derefT(a.X.Type()))] = append(mutated[typeStr(derefT(a.X.Type()))], fk)
				case *ssa.IndexAddr:
					if al, ok := rootAlloc(a); ok && !escapes(al) {
						return
					}
					mutated[typeStr(derefT(a.X.Type()))] = append(mutated[typeStr(derefT(a.X.Type()))], fk)
				}
			case *ssa.MapUpdate:
				if !isInit {
					mutated[typeStr(x.Map.Type())] = append(mutated[typeStr(x.Map.Type())], fk)
				}
			case *ssa.Call:
				if b, ok := x.Call.Value.(*ssa.Builtin); ok && b.Name() == "delete" && !isInit {
					mutated[typeStr(x.Call.Args[0].Type())] = append(mutated[typeStr(x.Call.Args[0].Type())], fk)
				}
			}
		})
	}
	for _, gi := range globals {
		key := "global:" + gi.g.Pkg.Pkg.Name() + "." + gi.g.Name()
		elem := derefT(gi.g.Type())
		isFlag := false
		if b, ok := elem.Underlying().(*types.Basic); ok && b.Info()&types.IsBoolean != 0 && gi.g.Pkg.Pkg.Name() == "utils" {
			isFlag = true
		}
		if len(gi.writers) > 0 && !isFlag {
			l.Violate(rule, key, p.Pos(gi.g.Pos()), "package-level variable written outside its initialiser by "+strings.Join(gi.writers, ", ")+": state that survives between statements, lines and (in one process) runs")
			continue
		}
		if isFlag {
			l.Discharge(rule, key, p.Pos(gi.g.Pos()), fmt.Sprintf("error flag; writers: %s (ownership and reset are checked by C06/C19/C20)", strings.Join(gi.writers, ", ")), true)
			continue
		}
		// can a reachable function mutate something this variable points to?
		reachT := map[string]bool{}
		collectReachTypes(elem, reachT, 0)
		var hits []string
		for t := range reachT {
			if ws, ok := mutated[t]; ok {
				hits = append(hits, t+" ← "+uniqJoin(ws))
			}
		}
		sort.Strings(hits)
		if len(hits) > 0 {
			l.Violate(rule, key, p.Pos(gi.g.Pos()), "package-level variable can reach a container that reachable code mutates (type-based may-alias): "+strings.Join(hits, "; ")+" — shared mutable state outliving a statement/line")
		} else {
			l.Discharge(rule, key, p.Pos(gi.g.Pos()), "never written after initialisation and no reachable code mutates a container type it can reach", len(reachT) > 0)
		}
	}
	if len(globals) < 4 {
		l.Violate(rule+"/vacuity", "module-globals", "", fmt.Sprintf("only %d package-level variables found (expected the 2 flags and the keyword/reserved tables)", len(globals)))
	}
}

func uniqJoin(xs []string) string {
	seen := map[string]bool{}
	var out []string
	for _, x := range xs {
		if !seen[x] {
			seen[x] = true
			out = append(out, x)
		}
	}
	sort.Strings(out)
	return strings.Join(out, ",")
}

func derefT(t types.Type) types.Type {
	if p, ok := t.Underlying().(*types.Pointer); ok {
		return p.Elem()
	}
	return t
}

// escapes: conservative — an alloc whose address is only used for field/index addressing,
// loads and stores within the function does not escape.
func escapes(al *ssa.Alloc) bool {
	if al.Heap {
		return true
	}
	return false
}

// collectReachTypes gathers the mutable container types reachable from t.
func collectReachTypes(t types.Type, out map[string]bool, depth int) {
	if depth > 6 {
		return
	}
	switch u := t.Underlying().(type) {
	case *types.Pointer:
		out[typeStr(u.Elem())] = true
		collectReachTypes(u.Elem(), out, depth+1)
	case *types.Map:
		out[typeStr(t)] = true
		collectReachTypes(u.Elem(), out, depth+1)
	case *types.Slice:
		out[typeStr(t)] = true
		collectReachTypes(u.Elem(), out, depth+1)
	case *types.Array:
		collectReachTypes(u.Elem(), out, depth+1)
	case *types.Struct:
		if _, named := t.(*types.Named); named {
			out[typeStr(t)] = true
		}
		for i := 0; i < u.NumFields(); i++ {
			collectReachTypes(u.Field(i).Type(), out, depth+1)
		}
	case *types.Interface:
		// interface-typed cells may hold anything: be conservative for empty interface only when non-empty containers exist
	}
}
