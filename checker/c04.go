package main

// C04/S6 — balanced activation state.  "Each call gets a fresh activation that does not interfere with other calls" also
// covers bookkeeping the interpreter keeps per activation: a counter that a function raises (a call-depth guard, a
// nesting level) must be lowered again on every way out of that function, otherwise finished calls leave a residue
// that later, unrelated calls observe.  Classic pairing rule, decided per function on its CFG: the set of net changes
// a path can have applied to the counter when it returns must be {0}.

import (
	"fmt"
	"go/token"
	"go/types"
	"sort"
	"strings"

	"golang.org/x/tools/go/ssa"
)

type counterLoc struct{ key, desc string }

// counterDelta: is this store `loc = loc ± c`?  Returns the location and the signed constant.
func counterDelta(st *ssa.Store) (counterLoc, int64, bool) {
	bo, ok := st.Val.(*ssa.BinOp)
	if !ok || (bo.Op != token.ADD && bo.Op != token.SUB) {
		return counterLoc{}, 0, false
	}
	c, ok := constInt(bo.Y)
	if !ok {
		return counterLoc{}, 0, false
	}
	ld, ok := bo.X.(*ssa.UnOp)
	if !ok || ld.Op != token.MUL {
		return counterLoc{}, 0, false
	}
	loc, ok := locOf(st.Addr)
	if !ok {
		return counterLoc{}, 0, false
	}
	if l2, ok2 := locOf(ld.X); !ok2 || l2.key != loc.key {
		return counterLoc{}, 0, false
	}
	if bo.Op == token.SUB {
		c = -c
	}
	return loc, c, true
}

func locOf(addr ssa.Value) (counterLoc, bool) {
	switch a := addr.(type) {
	case *ssa.Global:
		return counterLoc{"global:" + a.String(), a.Name()}, true
	case *ssa.FieldAddr:
		tn, f := structKey(a.X.Type(), a.Field)
		if bt, ok := derefT(a.Type()).Underlying().(*types.Basic); ok && bt.Info()&types.IsInteger != 0 {
			return counterLoc{"field:" + tn + "." + f, tn + "." + f}, true
		}
	}
	return counterLoc{}, false
}

// checkC04Shared: closures capture by reference and see later updates only if the environment operations are the plain
// scope-chain walk (C03's shape rules: no memo of where a name was found, no copy).
func checkC04Shared(p *Prog, l *Ledger) {
	// closures capture scopes: a scope is fresh for every execution of a block or loop body and names are looked up
	// under the node's own lexeme everywhere (C03's wiring rules) — a recycled body scope makes closures of different
	// iterations share variables, a name normalised at some sites and not at others binds and reads different keys
	l.AsOnly(map[string]string{"C03/S1-environment-shape": "C04/S4-closure/environment-shape", "C03/S2-scope-wiring": "C04/S4-closure/scope-wiring"}, func() { checkC03(p, l) })
}

func checkBalancedCounters(p *Prog, l *Ledger, rule string) {
	// counters: integer locations with a `loc = loc ± const` store in module code outside package initialisers and
	// outside the scanner/parser cursors (those are positions, not paired state: C08/C09 own them)
	type site struct {
		fn    *ssa.Function
		st    *ssa.Store
		delta int64
	}
	byLoc := map[string][]site{}
	desc := map[string]string{}
	persistent := persistentStructs(p)
	for _, fn := range p.ModuleFuncs() {
		if strings.Contains(fn.Synthetic, "package initializer") {
			continue
		}
		if pk := fnPkgName(fn); pk == "lexer" || pk == "parser" {
			continue
		}
		instrsOf(fn, func(in ssa.Instruction) {
			if st, ok := in.(*ssa.Store); ok {
				if loc, d, ok := counterDelta(st); ok {
					if strings.HasPrefix(loc.key, "field:") && !persistent[strings.TrimPrefix(loc.key[:strings.LastIndex(loc.key, ".")], "field:")] {
						return // a position inside a short-lived helper object (an argument cursor), not interpreter state
					}
					byLoc[loc.key] = append(byLoc[loc.key], site{fn, st, d})
					desc[loc.key] = loc.desc
				}
			}
		})
	}
	var keys []string
	for k := range byLoc {
		keys = append(keys, k)
	}
	sort.Strings(keys)
	if len(keys) == 0 {
		l.Discharge(rule, "activation-counters", "", "the interpreter keeps no counter that is raised and lowered around calls or blocks: nothing to balance", false)
		return
	}
	for _, k := range keys {
		fns := map[*ssa.Function]bool{}
		for _, s := range byLoc[k] {
			fns[s.fn] = true
		}
		for fn := range fns {
			if fn.Parent() != nil {
				continue // a closure: accounted for where it is deferred
			}
			// forward dataflow: set of net deltas at block entry (capped)
			const cap = 4
			// state = (net change so far, change the deferred calls registered so far will apply at the exit)
			type cst struct{ d, pend int64 }
			in := map[*ssa.BasicBlock]map[cst]bool{fn.Blocks[0]: {cst{0, 0}: true}}
			work := []*ssa.BasicBlock{fn.Blocks[0]}
			unbounded := false
			var bad []string
			seenRet := map[string]bool{}
			for len(work) > 0 && !unbounded {
				b := work[len(work)-1]
				work = work[:len(work)-1]
				cur := map[cst]bool{}
				for d := range in[b] {
					cur[d] = true
				}
				for _, ins := range b.Instrs {
					switch x := ins.(type) {
					case *ssa.Store:
						if loc, dd, ok := counterDelta(x); ok && loc.key == k {
							nxt := map[cst]bool{}
							for d := range cur {
								nxt[cst{d.d + dd, d.pend}] = true
							}
							cur = nxt
						}
					case *ssa.Defer:
						if dd := deferDeltaOf(x, k); dd != 0 {
							nxt := map[cst]bool{}
							for d := range cur {
								nxt[cst{d.d, d.pend + dd}] = true
							}
							cur = nxt
						}
					case *ssa.RunDefers:
						nxt := map[cst]bool{}
						for d := range cur {
							nxt[cst{d.d + d.pend, 0}] = true
						}
						cur = nxt
					case *ssa.Return:
						for st := range cur {
							d := st.d
							if d != 0 {
								msg := fmt.Sprintf("%s returns at %s with %s changed by %+d", p.FuncKey(fn), p.InstrPos(x), desc[k], d)
								if !seenRet[msg] {
									seenRet[msg] = true
									bad = append(bad, msg)
								}
							}
						}
					}
				}
				for d := range cur {
					if d.d > cap || d.d < -cap || d.pend > cap || d.pend < -cap {
						unbounded = true
					}
				}
				for _, s := range b.Succs {
					if in[s] == nil {
						in[s] = map[cst]bool{}
					}
					grew := false
					for d := range cur {
						if !in[s][d] {
							in[s][d] = true
							grew = true
						}
					}
					if grew {
						work = append(work, s)
					}
				}
			}
			key := p.FuncKey(fn) + "#" + desc[k]
			sort.Strings(bad)
			switch {
			case unbounded:
				l.Violate(rule, key, p.Pos(fn.Pos()), desc[k]+" is changed inside a loop of "+p.FuncKey(fn)+" without being restored: the net change is unbounded")
			case len(bad) > 0:
				l.Violate(rule, key, p.Pos(fn.Pos()), strings.Join(bad, " | ")+": a finished call leaves a residue that later, unrelated calls observe (every exit must restore the counter — a deferred decrement does)")
			default:
				l.Discharge(rule, key, p.Pos(fn.Pos()), "every return path of the function has restored "+desc[k]+" (net change 0 on all paths)", true)
			}
		}
	}
}

// deferDeltaOf: the change a deferred closure applies to counter k when it runs.
func deferDeltaOf(d *ssa.Defer, k string) int64 {
	total := int64(0)
	var cl *ssa.Function
	switch v := d.Call.Value.(type) {
	case *ssa.MakeClosure:
		cl, _ = v.Fn.(*ssa.Function)
	case *ssa.Function:
		cl = v
	}
	if cl == nil || cl.Blocks == nil {
		return 0
	}
	instrsOf(cl, func(in ssa.Instruction) {
		if st, ok := in.(*ssa.Store); ok {
			if loc, dd, ok := counterDelta(st); ok && loc.key == k {
				total += dd
			}
		}
	})
	return total
}

// persistentStructs: the struct types of the module whose values outlive one built-in call or one evaluation step —
// everything reachable through field, element and pointer types from the package-level variables, from the types that
// implement Callable, and from Interpreter, Environment, ControlFlowSignal and the AST node types; plus any struct a
// value of which is stored into an interface, a map, a slice or a field (it may then be kept).  A struct that is only
// ever a local of the function that makes it (an iterator over the arguments) is not in the set.
func persistentStructs(p *Prog) map[string]bool {
	out := map[string]bool{}
	var visit func(t types.Type, depth int)
	visit = func(t types.Type, depth int) {
		if depth > 8 || t == nil {
			return
		}
		switch u := t.(type) {
		case *types.Named:
			if _, isStruct := u.Underlying().(*types.Struct); isStruct {
				k := typeStr(u)
				if out[k] {
					return
				}
				out[k] = true
			}
			visit(u.Underlying(), depth+1)
		case *types.Pointer:
			visit(u.Elem(), depth+1)
		case *types.Slice:
			visit(u.Elem(), depth+1)
		case *types.Array:
			visit(u.Elem(), depth+1)
		case *types.Map:
			visit(u.Key(), depth+1)
			visit(u.Elem(), depth+1)
		case *types.Struct:
			for i := 0; i < u.NumFields(); i++ {
				visit(u.Field(i).Type(), depth+1)
			}
		}
	}
	for _, pk := range p.SSA.AllPackages() {
		if !p.InModulePkg(pk) {
			continue
		}
		for _, mem := range pk.Members {
			switch m := mem.(type) {
			case *ssa.Global:
				visit(derefT(m.Type()), 0)
			case *ssa.Type:
				name := m.Object().Name()
				if pk.Pkg.Name() == "ast" || name == "Interpreter" || name == "Environment" || name == "ControlFlowSignal" || name == "Function" {
					visit(m.Type(), 0)
				}
				if ci := p.callableIface(); ci != nil && (types.Implements(m.Type(), ci) || types.Implements(types.NewPointer(m.Type()), ci)) {
					visit(m.Type(), 0)
				}
			}
		}
	}
	// stored somewhere that can keep it
	for _, fn := range p.ModuleFuncs() {
		instrsOf(fn, func(in ssa.Instruction) {
			switch x := in.(type) {
			case *ssa.MakeInterface:
				visit(x.X.Type(), 0)
			case *ssa.MapUpdate:
				visit(x.Value.Type(), 0)
			case *ssa.Store:
				switch x.Addr.(type) {
				case *ssa.FieldAddr, *ssa.IndexAddr, *ssa.Global:
					visit(x.Val.Type(), 0)
				}
			}
		})
	}
	return out
}
