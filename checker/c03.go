package main

import (
	"fmt"
	"go/types"
	"regexp"
	"sort"
	"strings"

	"golang.org/x/tools/go/ssa"
)

func init() {
	register("C03", &Checker{
		Run: checkC03,
		Explain: "Decided by construction: S1 the five Environment operations have exactly the reference behaviour, established by enumerating every abstract path of each method (event words) and matching the set against the reference words — Define stores only into the receiver's own table; GetInCurrentScope reads only it; Get and Assign are the decision list 'own table has the key → use it, else parent non-nil → the same method on exactly e.Parent with the same arguments, else error' (Assign's error is a reported runtime error); both constructors make a fresh table, NewEnvironmentWithParent(p).Parent == p, and no other code constructs an Environment, ranges over or copies a Values table, or writes Parent/Values after construction. " +
			"S2 scope wiring on the evaluator's event graphs: a block and a for statement open exactly one fresh child scope of the current one and evaluate all their parts in it; every other clause evaluates its children in the current scope; the program runs in one fresh child of the globals; an activation is one fresh child of the closure; declarations test redeclaration with the same-scope lookup and bind in the current scope; reads/assignments use Get/Assign with the node's own name. " +
			"S3 no dynamic scoping: Callable.Call receives no environment, Interpreter.globals is written only by NewInterpreter, no package-level variable holds an environment. " +
			"Together these are lexical block scoping; the equivalence with an independent scope model over histories is not executed.",
		Rule:    "obligation = (rule, method or clause); non-trivial: all word-set and wiring obligations",
		Trusted: []string{"abstract machine; Go map semantics"},
	})
}

// matchWords explores fn and compares its set of event words with reference patterns.
func matchWords(p *Prog, l *Ledger, rule, construct string, fn *ssa.Function, patterns map[string]string) {
	if fn == nil {
		l.Undecide(rule, construct, "", "function not found")
		return
	}
	m := NewInterpModel(p, construct)
	var params []AV
	// the reference words name the receiver e and the parameters name, value by position, however the source spells them
	positional := []string{"e", "name", "value"}
	for i, prm := range fn.Params {
		if i < len(positional) {
			params = append(params, Sym(positional[i]))
		} else {
			params = append(params, Sym(prm.Name()))
		}
	}
	mc := m.Explore(fn, params, nil)
	l.States += mc.States
	l.Paths += mc.Paths
	l.Funcs[p.FuncKey(fn)] = true
	ws, ok := m.G.Words(2000)
	if !ok || len(m.Undecided) > 0 {
		l.Undecide(rule, construct, p.Pos(fn.Pos()), "the function's paths could not be enumerated (cycle or too many): "+strings.Join(m.Undecided, "; "))
		return
	}
	used := map[string]bool{}
	var bad []string
	seen := map[string]bool{}
	for _, w := range ws {
		s := wordString(w)
		if seen[s] {
			continue
		}
		seen[s] = true
		matched := false
		for name, pat := range patterns {
			re := regexp.MustCompile("^" + pat + "$")
			if re.MatchString(s) {
				matched = true
				used[name] = true
			}
		}
		if !matched {
			bad = append(bad, s)
		}
	}
	sort.Strings(bad)
	var missing []string
	for name := range patterns {
		if !used[name] {
			missing = append(missing, name)
		}
	}
	sort.Strings(missing)
	switch {
	case len(bad) > 0:
		l.Violate(rule, construct, p.Pos(fn.Pos()), "behaviour outside the reference: "+strings.Join(bad, "  ||  "), map[string]interface{}{"unexpected_words": bad, "reference": patterns})
	case len(missing) > 0:
		l.Violate(rule, construct, p.Pos(fn.Pos()), "reference behaviour missing: "+strings.Join(missing, ", "), map[string]interface{}{"reference": patterns})
	default:
		l.Discharge(rule, construct, p.Pos(fn.Pos()), fmt.Sprintf("all %d abstract paths match the %d reference words", len(seen), len(patterns)), true)
	}
}

func checkC03(p *Prog, l *Ledger) {
	cs := getClauses(p)
	if !cs.account(l) {
		return
	}
	q := regexp.QuoteMeta
	env := "environment.(*Environment)."
	matchWords(p, l, "C03/S1-environment-shape", "Environment.Define", p.Func(env+"Define"), map[string]string{
		"store-own": q("mapstore(e.Values, name, value) ; return()"),
	})
	matchWords(p, l, "C03/S1-environment-shape", "Environment.GetInCurrentScope", p.Func(env+"GetInCurrentScope"), map[string]string{
		"own-hit":  q("maplookup(e.Values, name) ; has(e.Values[name])→true ; return(e.Values[name], nil)"),
		"own-miss": q("maplookup(e.Values, name) ; has(e.Values[name])→false ; return(nil, ") + `(Errorf|New)\(.*\)\)`,
	})
	checkEnvWalk(p, l, "Get", p.Func(env+"Get"))
	checkEnvWalk(p, l, "Assign", p.Func(env+"Assign"))
	checkEnvConstructors(p, l)
	checkScopeWiring(cs, l)
	checkClosureWiring(cs, l, "C03/S2-scope-wiring")
	checkNoDynamicScoping(p, l)
	checkTreeLinks(p, l, "C03/S3-tree-links")
	checkDeclarationBinding(cs, l, "C03/S2-scope-wiring/declaration")
	// the function activation is one of the scopes: what Function.Call binds in it (own name, parameters by position) is
	// decided by C04's rule and reported here under C03's name
	if cs := getClauses(p); cs.account(l) {
		l.As(map[string]string{"C04/": "C03/S2-scope-wiring/activation/"}, func() { checkFunctionCall(cs, l) })
	}
}

var envCtorCache = map[*Prog]map[*ssa.Function]string{}

// EnvCtors: the functions of package environment that make a scope, found by what they do: on their only path they
// allocate one Environment, store a table made on the spot in Values and — "child" — their one parameter (or receiver)
// in Parent, or — "root" — nothing (or nil) there, and hand that Environment back; or they hand back what another such
// function makes for their own one parameter.
func (p *Prog) EnvCtors() map[*ssa.Function]string {
	if m, ok := envCtorCache[p]; ok {
		return m
	}
	out := map[*ssa.Function]string{}
	envCtorCache[p] = out
	isEnvPtr := func(t types.Type) bool {
		pt, ok := t.(*types.Pointer)
		return ok && typeStr(pt.Elem()) == "environment.Environment"
	}
	var cands []*ssa.Function
	for _, fn := range p.ModuleFuncs() {
		if fnPkgName(fn) != "environment" || fn.Parent() != nil || len(fn.Blocks) != 1 || len(fn.Params) > 1 {
			continue
		}
		res := fn.Signature.Results()
		if res.Len() != 1 || !isEnvPtr(res.At(0).Type()) {
			continue
		}
		if len(fn.Params) == 1 && !isEnvPtr(fn.Params[0].Type()) {
			continue
		}
		cands = append(cands, fn)
	}
	for _, fn := range cands {
		var alloc *ssa.Alloc
		kind, ok := "root", true
		nValues := 0
		for _, in := range fn.Blocks[0].Instrs {
			switch x := in.(type) {
			case *ssa.Alloc:
				if alloc != nil || typeStr(derefT(x.Type())) != "environment.Environment" {
					ok = false
				}
				alloc = x
			case *ssa.FieldAddr, *ssa.MakeMap, *ssa.DebugRef:
			case *ssa.Store:
				fa, isFA := x.Addr.(*ssa.FieldAddr)
				if !isFA || alloc == nil || fa.X != ssa.Value(alloc) {
					ok = false
					break
				}
				switch _, f := structKey(fa.X.Type(), fa.Field); f {
				case "Values":
					if _, fresh := x.Val.(*ssa.MakeMap); !fresh {
						ok = false
					}
					nValues++
				case "Parent":
					if prm, isP := x.Val.(*ssa.Parameter); isP && len(fn.Params) == 1 && prm == fn.Params[0] {
						kind = "child"
					} else if c, isC := x.Val.(*ssa.Const); !isC || !c.IsNil() {
						ok = false
					}
				default:
					ok = false
				}
			case *ssa.Return:
				if alloc == nil || len(x.Results) != 1 || x.Results[0] != ssa.Value(alloc) {
					ok = false
				}
			default:
				ok = false
			}
		}
		if ok && alloc != nil && nValues == 1 && (kind == "child") == (len(fn.Params) == 1) {
			out[fn] = kind
		}
	}
	// delegation: return ctor(own parameter) / return ctor()
	for changed := true; changed; {
		changed = false
		for _, fn := range cands {
			if out[fn] != "" {
				continue
			}
			var call *ssa.Call
			ok := true
			for _, in := range fn.Blocks[0].Instrs {
				switch x := in.(type) {
				case *ssa.Call:
					if call != nil {
						ok = false
					}
					call = x
				case *ssa.Return:
					if call == nil || len(x.Results) != 1 || x.Results[0] != ssa.Value(call) {
						ok = false
					}
				case *ssa.DebugRef:
				default:
					ok = false
				}
			}
			if !ok || call == nil {
				continue
			}
			c := call.Call.StaticCallee()
			k := out[c]
			if k == "" || len(call.Call.Args) != len(fn.Params) {
				continue
			}
			if len(fn.Params) == 1 && call.Call.Args[0] != ssa.Value(fn.Params[0]) {
				continue
			}
			out[fn] = k + " (through " + fnName(c) + ")"
			changed = true
		}
	}
	return out
}

// EnvCtorKind: "root", "child" or "" for callee.
func (p *Prog) EnvCtorKind(callee *ssa.Function) string {
	k := p.EnvCtors()[callee]
	if i := strings.Index(k, " "); i > 0 {
		k = k[:i]
	}
	return k
}

func checkEnvConstructors(p *Prog, l *Ledger) {
	rule := "C03/S1-environment-shape"
	named := map[*ssa.Function]bool{}
	kinds := map[string]int{}
	var others []*ssa.Function
	for fn, k := range p.EnvCtors() {
		kinds[strings.SplitN(k, " ", 2)[0]]++
		others = append(others, fn)
	}
	sort.Slice(others, func(i, j int) bool { return p.FuncKey(others[i]) < p.FuncKey(others[j]) })
	for _, name := range []string{"NewEnvironment", "NewEnvironmentWithParent"} {
		fn := p.Func("environment." + name)
		if fn == nil {
			want := "root"
			if name == "NewEnvironmentWithParent" {
				want = "child"
			}
			if kinds[want] == 0 {
				l.Undecide(rule, "environment."+name, "", "constructor not found")
			}
			continue
		}
		named[fn] = true
		if k := p.EnvCtors()[fn]; strings.Contains(k, "through") {
			l.Discharge(rule, "environment."+name, p.Pos(fn.Pos()), "hands back what another constructor makes for the same parent: "+k, true)
			continue
		}
		m := NewInterpModel(p, name)
		var params []AV
		for _, prm := range fn.Params {
			params = append(params, Sym(prm.Name()))
		}
		m.Explore(fn, params, nil)
		rets := m.G.Events("return")
		ok := len(rets) == 1
		why := ""
		for _, r := range rets {
			if !strings.HasPrefix(r.KV["r0"], "obj:") {
				ok, why = false, "does not return a fresh Environment"
			}
			if !strings.HasPrefix(r.KV["r0.Values"], "obj:") {
				ok, why = false, "Values is not a fresh table (found "+r.KV["r0.Values"]+")"
			}
			wantParent := ""
			if len(fn.Params) == 1 {
				wantParent = fn.Params[0].Name()
			}
			got := r.KV["r0.Parent"]
			if wantParent == "" && got != "" && got != "nil" {
				ok, why = false, "root environment has parent "+got
			}
			if wantParent != "" && got != wantParent {
				ok, why = false, "Parent is "+got+" instead of the argument"
			}
		}
		if ok {
			l.Discharge(rule, "environment."+name, p.Pos(fn.Pos()), "fresh table; Parent = the argument (nil for the root)", true)
		} else {
			l.Violate(rule, "environment."+name, p.Pos(fn.Pos()), "constructor: "+why)
		}
	}
	for _, fn := range others {
		if !named[fn] {
			l.Discharge(rule, p.FuncKey(fn), p.Pos(fn.Pos()), "a constructor by what it does: fresh table; Parent = its one argument (nil for the root): "+p.EnvCtors()[fn], true)
		}
	}
	// who constructs / who writes the fields / who ranges over Values
	n := 0
	for _, fn := range p.ModuleFuncs() {
		fk := p.FuncKey(fn)
		inEnvCtor := fk == "environment.NewEnvironment" || fk == "environment.NewEnvironmentWithParent" || p.EnvCtors()[fn] != ""
		instrsOf(fn, func(in ssa.Instruction) {
			switch x := in.(type) {
			case *ssa.Alloc:
				if typeStr(derefT(x.Type())) == "environment.Environment" {
					n++
					if !inEnvCtor {
						l.Violate(rule, fk+"#new(Environment)", p.InstrPos(in), "an Environment is constructed outside the two constructors (its table/parent invariants are not covered)")
					}
				}
			case *ssa.Store:
				if fa, ok := x.Addr.(*ssa.FieldAddr); ok {
					tn, f := structKey(fa.X.Type(), fa.Field)
					if tn == "environment.Environment" && !inEnvCtor {
						l.Violate(rule, fk+"#store(Environment."+f+")", p.InstrPos(in), "Environment."+f+" is rewritten after construction: the scope chain is no longer fixed at creation")
					}
				}
			case *ssa.Range:
				if isEnvValues(x.X) {
					l.Violate(rule, fk+"#range(Environment.Values)", p.InstrPos(in), "a scope's table is iterated (copied?) — bindings must be shared by reference, never copied")
				}
			}
		})
	}
	if n >= 2 {
		l.Discharge(rule, "who-constructs(Environment)", "", "only the constructors allocate environments; fields are never rewritten; tables are never iterated", true)
	} else if n < 2 {
		l.Violate(rule+"/vacuity", "who-constructs(Environment)", "", fmt.Sprintf("%d Environment allocations found", n))
	}
}

func isEnvValues(v ssa.Value) bool {
	u, ok := v.(*ssa.UnOp)
	if !ok {
		return false
	}
	fa, ok := u.X.(*ssa.FieldAddr)
	if !ok {
		return false
	}
	tn, f := structKey(fa.X.Type(), fa.Field)
	return tn == "environment.Environment" && f == "Values"
}

func checkNoDynamicScoping(p *Prog, l *Ledger) {
	rule := "C03/S3-no-dynamic-scope"
	ci := p.callableIface()
	if ci == nil {
		l.Undecide(rule, "Callable", "", "interface not found")
		return
	}
	for i := 0; i < ci.NumMethods(); i++ {
		m := ci.Method(i)
		sig := m.Type().(*types.Signature)
		for j := 0; j < sig.Params().Len(); j++ {
			if strings.Contains(typeStr(sig.Params().At(j).Type()), "Environment") {
				l.Violate(rule, "Callable."+m.Name(), "", "the call interface passes an environment to the callee: the caller's scope becomes reachable")
				return
			}
		}
	}
	l.Discharge(rule, "Callable.Call", "", "the callee receives the interpreter and the argument values only", true)
	// what a clause evaluates is part of the construct it is the clause of: a clause that evaluates a node it got hold of
	// some other way (the body of the function being called, say) runs that node in the scope of the current construct —
	// the callee would see the caller's variables.  Function bodies are evaluated by Function.Call only.
	if cs := getClauses(p); len(cs.Probs) == 0 {
		n := 0
		for _, m := range cs.all() {
			if m == nil {
				continue
			}
			own := "e"
			switch m {
			case cs.FCall:
				own = "f.Declaration"
			case cs.Interp:
				own = "statements"
			}
			bad := map[string]*Event{}
			for _, e := range m.G.Events("eval") {
				n++
				c := e.KV["child"]
				if strings.HasPrefix(c, own+".") || strings.HasPrefix(c, own+"[") || strings.HasPrefix(c, "obj:") {
					continue
				}
				bad[c] = e
			}
			var cs2 []string
			for c := range bad {
				cs2 = append(cs2, c)
			}
			sort.Strings(cs2)
			for _, c := range cs2 {
				l.Violate(rule, m.Scenario+"#evaluates("+c+")", bad[c].Pos, "the clause evaluates "+c+", which is not a part of the construct being evaluated, in "+bad[c].KV["env"]+": code from elsewhere (a function's body) would run in the scope of this construct and see its variables")
			}
			if len(bad) == 0 {
				l.Discharge(rule, m.Scenario+"#own-subtree", "", "every nested evaluation is of a part of the construct itself", len(m.G.Events("eval")) > 0)
			}
		}
		if n < 30 {
			l.Violate(rule+"/vacuity", "nested evaluations", "", fmt.Sprintf("only %d nested evaluations seen in the clauses (expected >= 30)", n))
		}
	}
	// Interpreter fields of environment type are written only in NewInterpreter
	for _, fn := range p.ModuleFuncs() {
		fk := p.FuncKey(fn)
		instrsOf(fn, func(in ssa.Instruction) {
			st, ok := in.(*ssa.Store)
			if !ok {
				return
			}
			fa, ok := st.Addr.(*ssa.FieldAddr)
			if !ok {
				return
			}
			tn, f := structKey(fa.X.Type(), fa.Field)
			if tn != "interpreter.Interpreter" {
				return
			}
			if fk == "interpreter.NewInterpreter" {
				l.Discharge(rule, "Interpreter."+f, p.InstrPos(in), "set once by NewInterpreter", true)
			} else if bt, isBasic := derefT(fa.Type()).Underlying().(*types.Basic); isBasic && bt.Info()&(types.IsNumeric|types.IsBoolean) != 0 {
				// a number or flag cannot carry a scope (a call-depth counter, say); whether it is kept balanced is C04/S6
				l.Discharge(rule, fk+"#store(Interpreter."+f+")", p.InstrPos(in), "a "+bt.Name()+" field cannot make a scope reachable", false)
			} else {
				l.Violate(rule, fk+"#store(Interpreter."+f+")", p.InstrPos(in), "interpreter state is rewritten during evaluation: a callee could observe its caller's scope through it")
			}
		})
	}
	// Function values keep exactly the closure given at creation
	for _, fn := range p.ModuleFuncs() {
		fk := p.FuncKey(fn)
		instrsOf(fn, func(in ssa.Instruction) {
			st, ok := in.(*ssa.Store)
			if !ok {
				return
			}
			fa, ok := st.Addr.(*ssa.FieldAddr)
			if !ok {
				return
			}
			tn, f := structKey(fa.X.Type(), fa.Field)
			if tn != "interpreter.Function" {
				return
			}
			if fk == "interpreter.NewFunction" {
				if _, isParam := st.Val.(*ssa.Parameter); isParam {
					l.Discharge(rule, "Function."+f, p.InstrPos(in), "set once, from NewFunction's argument", true)
				} else {
					l.Violate(rule, "Function."+f, p.InstrPos(in), "NewFunction stores "+describe(st.Val)+" instead of its argument")
				}
			} else {
				l.Violate(rule, fk+"#store(Function."+f+")", p.InstrPos(in), "a function value's declaration/closure is rewritten after creation")
			}
		})
	}
}

// checkEnvWalk: Get / Assign are the decision list "own table has the key → use it; else parent non-nil → the
// same operation on exactly the parent; else error" — accepted in recursive form (a call of the same method on
// e.Parent) and in iterative form (a loop advancing along Parent); the walk is checked for the first three levels.
func checkEnvWalk(p *Prog, l *Ledger, which string, fn *ssa.Function) {
	rule := "C03/S1-environment-shape"
	construct := "Environment." + which
	if fn == nil {
		l.Undecide(rule, construct, "", "method not found")
		return
	}
	m := NewInterpModel(p, construct)
	m.Unroll = 3       // a helper that walks the chain by calling itself is unrolled like the loop it is
	m.StateCap = 30000 // the reference walk needs a few hundred states
	params := []AV{Sym("e"), Sym("name")}
	key := "name"
	if which == "Assign" {
		params = append(params, Sym("value"))
		key = "name.Lexeme"
	}
	mc := m.Explore(fn, params, nil)
	l.States += mc.States
	l.Funcs[p.FuncKey(fn)] = true
	if len(m.Undecided) > 0 {
		l.Undecide(rule, construct, p.Pos(fn.Pos()), strings.Join(m.Undecided, "; "))
		return
	}
	op := "get"
	if which == "Assign" {
		op = "assign"
	}
	const maxDepth = 3
	mon := Monitor{Init: "at|e|0", Also: map[string]bool{"has": true, "maplookup": true}, Step: func(s string, ev *Event) string {
		ps := strings.Split(s, "|")
		cur := ps[1]
		var depth int
		fmt.Sscan(ps[2], &depth)
		if depth >= maxDepth {
			return "" // deeper levels repeat the same loop body
		}
		switch ps[0] {
		case "at":
			switch ev.Op {
			case "maplookup":
				if ev.Args[0] != cur+".Values" || ev.Args[1] != key {
					return "!the lookup is " + ev.String() + ", expected the table of scope " + cur + " under the given name"
				}
				return "looked|" + cur + "|" + ps[2]
			case "backedge":
				return s
			case "niltest":
				// a walk that accepts a nil scope (nil-receiver helper): nil here is the end of the chain
				if ev.Args[0] == cur {
					if ev.Out == "nil" {
						return "end|" + cur + "|" + ps[2]
					}
					return s
				}
			}
			return "!expected the scope's own table to be consulted first, found " + ev.String()
		case "looked":
			if ev.Op == "has" {
				if ev.Out == "true" {
					return "hit|" + cur + "|" + ps[2]
				}
				return "miss|" + cur + "|" + ps[2]
			}
			return "!unexpected " + ev.String() + " after the table lookup"
		case "hit":
			switch ev.Op {
			case "niltest":
				if ev.Args[0] == cur && ev.Out == "nonnil" {
					return s // the caller of a lookup helper testing the scope it got back
				}
			case "maplookup":
				if ev.Args[0] == cur+".Values" && ev.Args[1] == key {
					return s // reading the binding again in the scope that was found
				}
			case "has":
				if ev.Out == "true" {
					return s
				}
			case "mapstore":
				if which != "Assign" || ev.Args[0] != cur+".Values" || ev.Args[1] != key || ev.Args[2] != "value" {
					return "!" + ev.String() + ": an existing binding must be updated in the scope that holds it, under its own name, with the given value"
				}
				return "stored|" + cur + "|" + ps[2]
			case "return":
				if which == "Assign" {
					return "!Assign finds the binding but returns without updating it"
				}
				if ev.KV["r0"] != cur+".Values["+key+"]" || ev.KV["r1"] != "nil" {
					return "!a found binding must be returned as is: " + ev.String()
				}
				return ""
			}
			return "!unexpected " + ev.String() + " after finding the binding"
		case "stored":
			if ev.Op == "return" {
				return ""
			}
			return "!unexpected " + ev.String() + " after updating the binding"
		case "miss":
			if ev.Op == "niltest" {
				if ev.Args[0] != cur+".Parent" {
					return "!after a miss in " + cur + " the walk tests " + ev.Args[0] + " instead of " + cur + ".Parent"
				}
				if ev.Out == "nil" {
					return "end|" + cur + "|" + ps[2]
				}
				return "up|" + cur + "|" + ps[2]
			}
			if ev.Op == "mapstore" {
				return "!a binding is created/updated in a scope that does not hold the name (" + ev.String() + ")"
			}
			if ev.Op == "backedge" {
				return s // the walk written as a loop (or as a helper calling itself last): the test of the parent follows
			}
			return "!after a miss the enclosing scope must be tested next, found " + ev.String()
		case "up":
			switch ev.Op {
			case "niltest":
				if ev.Args[0] == cur+".Parent" && ev.Out == "nonnil" {
					return s
				}
			case op: // recursive form
				if ev.Args[0] != cur+".Parent" || ev.Args[1] != "name" || (which == "Assign" && ev.Args[2] != "value") {
					return "!the recursion is " + ev.String() + ", expected the same operation on exactly " + cur + ".Parent with the same arguments"
				}
				return "rec|" + ev.Out + "|" + ps[2]
			case "backedge":
				return s
			case "maplookup": // iterative form: next level
				next := cur + ".Parent"
				if ev.Args[0] != next+".Values" || ev.Args[1] != key {
					return "!the walk continues with " + ev.String() + " instead of the table of " + next
				}
				return fmt.Sprintf("looked|%s|%d", next, depth+1)
			}
			return "!with an enclosing scope present the walk must continue there, found " + ev.String()
		case "rec":
			if ev.Op == "return" {
				if which == "Get" {
					okRet := (ps[1] == "found" && strings.HasSuffix(ev.KV["r0"], ".val") && ev.KV["r1"] == "nil") || (ps[1] == "absent" && ev.KV["r0"] == "nil" && strings.HasSuffix(ev.KV["r1"], ".err"))
					if !okRet {
						return "!the enclosing scope's answer is not passed on unchanged: " + ev.String()
					}
				}
				return ""
			}
			return "!unexpected " + ev.String() + " after delegating to the enclosing scope"
		case "end":
			switch ev.Op {
			case "niltest":
				if ev.Out == "nil" {
					return s
				}
			case "rterror":
				if which != "Assign" {
					return "!Get reports a runtime error itself"
				}
				return "reported|" + cur + "|" + ps[2]
			case "return":
				if which == "Assign" {
					return "!assigning an undefined name is not reported"
				}
				if ev.KV["r0"] != "nil" || ev.KV["r1"] == "nil" {
					return "!an undefined name must yield (nil, error): " + ev.String()
				}
				return ""
			}
			return "!unexpected " + ev.String() + " at the outermost scope"
		case "reported":
			if ev.Op == "return" {
				return ""
			}
		}
		return s
	}}
	runMon(l, rule, construct, m, mon, "own table → else exactly the parent (recursively or by a loop along Parent) → else error; checked for the first three scope levels")
	if len(m.G.Events("maplookup")) == 0 {
		l.Violate(rule+"/vacuity", construct, "", "no table lookup in "+which)
	}
}

// checkTreeLinks (S3): scopes follow the syntax tree, so the tree must keep every block where the text has one.  Decided
// on the parser's event graphs: a parse function that returns a statement or expression *list* returns exactly the
// results of its sub-parser calls, in order (no flattening, dropping, reordering or splicing of another node's list);
// and a child link of a node built by the parser (a field holding a statement, an expression or a list of them) is a
// sub-parser result, a node built on the same path, a list of those, or — where the path has tested the node kind of
// a sub-parser result — a child taken over from that very node (assignment targets).
func checkTreeLinks(p *Prog, l *Ledger, rule string) {
	pi := getParser(p)
	astPkg := p.TPkg("ast")
	if astPkg == nil {
		l.Undecide(rule, "ast", "", "package ast not found")
		return
	}
	isChildT := func(t types.Type) bool {
		if sl, ok := t.Underlying().(*types.Slice); ok {
			t = sl.Elem()
		}
		nt := namedOf(t)
		if nt == nil || nt.Obj().Pkg() == nil || nt.Obj().Pkg().Name() != "ast" {
			return false
		}
		_, isIface := nt.Underlying().(*types.Interface)
		return isIface
	}
	childField := func(kind, field string) bool {
		obj := astPkg.Types.Scope().Lookup(kind)
		if obj == nil {
			return false
		}
		st, ok := obj.Type().Underlying().(*types.Struct)
		if !ok {
			return false
		}
		for i := 0; i < st.NumFields(); i++ {
			if st.Field(i).Name() == field {
				return isChildT(st.Field(i).Type())
			}
		}
		return false
	}
	atom := regexp.MustCompile(`^(\w+#\d+|node:\w+#\d+|nil|<nil>)$`)
	okValue := func(d string, params map[string]bool, tested map[string]bool) bool {
		if atom.MatchString(d) || params[d] || d == "list[]" {
			return true
		}
		if strings.HasPrefix(d, "list[") && strings.HasSuffix(d, "]") {
			for _, x := range strings.Split(d[5:len(d)-1], ",") {
				if !atom.MatchString(x) && !params[x] {
					return false
				}
			}
			return true
		}
		// child taken over from a sub-parser result whose node kind the path has tested
		if i := strings.Index(d, "."); i > 0 && tested[d[:i]] {
			return true
		}
		return false
	}
	nLists, nLinks := 0, 0
	var found []string
	for _, name := range pi.Names {
		m := pi.Models[name]
		params := map[string]bool{}
		for _, prm := range m.Fn.Params[1:] {
			params[prm.Name()] = true
		}
		res := m.Fn.Signature.Results()
		_, retList := res.At(0).Type().Underlying().(*types.Slice)
		retList = retList && isChildT(res.At(0).Type())
		var problems []string
		seenP := map[string]bool{}
		add := func(s string) {
			if !seenP[s] {
				seenP[s] = true
				problems = append(problems, s)
			}
		}
		links := 0
		for _, path := range successPaths(m) {
			tested := map[string]bool{}
			for _, e := range path.events {
				if e.Op == "typetest" && e.Out == "true" {
					tested[resolveDesc(path.desc, e.Args[0])] = true
				}
			}
			if retList {
				want := "list["
				for i, c := range callResults(path) {
					if i > 0 {
						want += ","
					}
					want += c
				}
				want += "]"
				got := path.ret
				if strings.HasPrefix(got, "obj:") || got == "nil" {
					got = "list[]"
				}
				if got != want && !(len(params) > 0 && strings.HasPrefix(got, "list[")) {
					add(fmt.Sprintf("returns %s although the statements/expressions parsed on the path are %s: the list is not the sequence of its parts", got, want))
				}
			}
			for _, n := range path.nodes {
				for f, d := range n.fields {
					if !childField(n.kind, f) {
						continue
					}
					links++
					if !okValue(d, params, tested) {
						add(fmt.Sprintf("%s.%s is set to %s, which is neither a sub-parser result nor a node built here", n.kind, f, d))
					}
				}
			}
		}
		if retList {
			nLists++
		}
		nLinks += links
		if links == 0 && !retList {
			continue
		}
		found = append(found, name)
		if len(problems) > 0 {
			sort.Strings(problems)
			l.Violate(rule, "parser."+name, p.Pos(m.Fn.Pos()), strings.Join(problems, " || "))
		} else {
			l.Discharge(rule, "parser."+name, "", fmt.Sprintf("%d child links on the explored paths are sub-parser results or nodes built there; list result intact: %v", links, retList), true)
		}
	}
	l.RequireMin(rule, 12, found, "parse functions building child links or lists")
	if nLists < 2 {
		l.Violate(rule+"/vacuity", "list-returning parse functions", "", fmt.Sprintf("only %d list-returning parse functions seen (block and Parse expected)", nLists))
	}
}

// callResults: descriptors of the successful sub-parser calls of a path whose results are appended to a list, in order.
func callResults(pi *pathInfo) []string {
	var out []string
	for _, e := range pi.events {
		if e.Op == "append" && len(e.Args) == 2 {
			if x, ok := pi.appended[e]; ok {
				out = append(out, x)
			} else {
				out = append(out, resolveDesc(pi.desc, e.Args[1]))
			}
		}
	}
	// results that were parsed but never appended
	appended := map[string]bool{}
	for _, x := range out {
		appended[x] = true
	}
	var all []string
	cnt := map[string]int{}
	for _, e := range pi.events {
		if e.Op == "call" && e.Out == "ok" {
			cnt[e.Args[0]]++
			d := fmt.Sprintf("%s#%d", e.Args[0], cnt[e.Args[0]])
			all = append(all, d)
		}
	}
	if len(all) != len(out) {
		return all
	}
	return out
}

// checkDeclarationBinding: a declaration binds its name to the value of *its own* initialiser, evaluated just before, or
// to nil when it has none — in the single-name form and, per declarator, in the list form (which may hand each
// declarator to the single-name clause or bind it itself).  A name bound first and initialised later (all names of a
// list reserved before any initialiser runs) makes an initialiser that mentions the name, or a later one of the list,
// see a placeholder instead of the binding of the enclosing scope.
func checkDeclarationBinding(cs *clauseSet, l *Ledger, rule string) {
	for _, t := range []string{"*ast.VarStmt", "*ast.VarListStmt"} {
		m := cs.Clauses[t]
		if m == nil {
			continue
		}
		defs := 0
		mon := Monitor{Init: "||", Step: func(s string, ev *Event) string {
			ps := strings.SplitN(s, "|", 3) // nil-test outcome of this declarator | result name of its initialiser | defined?
			switch ev.Op {
			case "next":
				return "||" // the next declarator of a list
			case "niltest":
				if strings.HasSuffix(ev.Args[0], "Initializer") {
					return ev.Out + "|" + ps[1] + "|" + ps[2]
				}
			case "eval":
				if strings.HasSuffix(ev.KV["child"], "Initializer") {
					if ps[2] == "T" {
						return "!an initialiser is evaluated after the name of its declarator has already been bound in this round: the initialiser sees the placeholder, not the enclosing binding"
					}
					return ps[0] + "|" + ev.KV["res"] + "|" + ps[2]
				}
				return s // the list form handing a declarator to the single-name clause
			case "define":
				defs++
				if len(ev.Args) != 3 {
					return s
				}
				v := ev.Args[2]
				switch {
				case v == "nil":
					if ps[0] != "nil" {
						return "!a name is bound to nil although its declarator was not found to lack an initialiser (bound first, initialised later?)"
					}
				case ps[1] != "" && v == ps[1]+".val":
				default:
					return "!a declaration binds its name to " + v + ", which is not the value of its initialiser evaluated just before"
				}
				return ps[0] + "|" + ps[1] + "|T"
			}
			return s
		}}
		ws := m.G.Run(mon)
		for _, w := range ws {
			l.Violate(rule, m.Scenario+"#binding", posOf(w), w.Msg, witnessDetail(w))
		}
		if len(ws) == 0 {
			l.Discharge(rule, m.Scenario+"#binding", "", fmt.Sprintf("each name is bound to the value of its own initialiser evaluated just before, or to nil when it has none (%d binding events)", defs), defs > 0)
		}
	}
}
