package main

import (
	"fmt"
	"sort"
	"strings"
)

func init() {
	register("C16", &Checker{
		Run: func(p *Prog, l *Ledger) {
			checkC16(p, l)
			// a number that comes out of a numeric built-in is the number Go's math function gives (C17's routing rule):
			// a hand-written replacement differs from it exactly on the values that only show in some contexts (-0, NaN, ±Inf)
			l.AsOnly(map[string]string{"C17/I1-routing": "C16/S5-builtin-numbers", "C17/S2-minmax": "C16/S5-builtin-numbers/minmax"}, func() { checkC17(p, l) })
		},
		Explain: "Decided (S1): origin can influence behaviour only through the Go representation of a value, so the checker computes the value universe U — every Go dynamic type that a MakeInterface instruction of the module can put into a Borno value position (results of eval / built-ins, environment and container stores, literals) — groups it by Borno kind (number, string, bool, array, object, function) and requires exactly one representation per kind; every producer of an extra representation is reported with its producing site. " +
			"Also decided: no value of a non-Borno Go type ('other' kind) enters the universe; and (S3) no code outside eval's dispatch tests the syntactic kind of an operand node (documented parser sites excepted), so a literal and a computed value of the same content cannot be told apart by syntax. Not decided: behaviour of equal representations with different content (that is C02/C14/C15); a tree that keeps two representations but treats them uniformly at every consumer would be rejected (sufficient-condition rule, stated in DESIGN.md).",
		Rule:    "obligation = (kind, representation, producing MakeInterface site); non-trivial when the site creates a numeric or string value (the kinds that can have several Go representations)",
		Trusted: []string{"go/types, go/ssa (x/tools v0.29.0)", "classification of MakeInterface consumers: values passed only to fmt/errors variadics are not Borno values"},
	})
}

var canonicalRep = map[string]string{"number": "float64", "string": "string", "bool": "bool", "array": "[]interface{}", "object": "map[string]interface{}"}

func checkC16(p *Prog, l *Ledger) {
	u := p.BuildUniverse()
	l.Extra["universe"] = u.Types()
	l.CallSites = len(u.Producers)
	kinds := []string{}
	for k := range u.ByKind {
		kinds = append(kinds, k)
	}
	sort.Strings(kinds)
	var found []string
	for _, k := range kinds {
		reps := u.ByKind[k]
		var names []string
		for t := range reps {
			names = append(names, t)
		}
		sort.Strings(names)
		if k == "other" {
			for _, t := range names {
				for _, pr := range reps[t] {
					l.Violate("C16/S1-foreign-type", p.FuncKey(pr.Fn)+"→"+t, p.InstrPos(pr.In),
						fmt.Sprintf("a value of Go type %s, which is no Borno kind, enters a value position", t))
				}
			}
			continue
		}
		if k == "function" {
			for _, t := range names {
				for _, pr := range reps[t] {
					l.Funcs[p.FuncKey(pr.Fn)] = true
				}
				l.Discharge("C16/S1-representation", "function:"+t, "", "callable representation (identity is the value)", false)
				found = append(found, "function:"+t)
			}
			continue
		}
		canon := canonicalRep[k]
		if len(names) == 1 {
			canon = names[0]
		} else if _, ok := reps[canon]; !ok {
			// choose the representation with most producers as canonical
			best := 0
			for _, t := range names {
				if len(reps[t]) > best {
					best, canon = len(reps[t]), t
				}
			}
		}
		for _, t := range names {
			for _, pr := range reps[t] {
				l.Funcs[p.FuncKey(pr.Fn)] = true
				key := fmt.Sprintf("%s→%s:%s", p.FuncKey(pr.Fn), k, t)
				found = append(found, key)
				if t == canon {
					l.Discharge("C16/S1-representation", key, p.InstrPos(pr.In), fmt.Sprintf("produces the canonical %s representation %s", k, canon), k == "number" || k == "string")
				} else {
					l.Violate("C16/S1-representation", key, p.InstrPos(pr.In),
						fmt.Sprintf("produces a second representation of kind %s: Go type %s beside %s (all: %s) — a %s made here is distinguishable from an equal one made elsewhere (type switches, ==, %%v)", k, t, canon, strings.Join(names, ", "), k))
				}
			}
		}
	}
	l.RequireMin("C16/S1-representation", 20, found, "value producers (MakeInterface into a Borno value position)")
	// S3: origin can also leak through syntax — the evaluator must not look at the syntactic form of an operand
	// (a literal 0 and a computed 0 must behave alike); node-kind tests exist only in eval's dispatch and at the
	// documented parser sites
	checkNodeKindTests(p, l, "C16/S3-syntactic-origin")
	// S2: what an operator yields depends on the operand values only (C02's table: `"" + 5` is the text "5" like every
	// other concatenation), and a string literal denotes exactly the text between its quotes, like text from any other
	// producer (C09/S6) — otherwise equal texts from different origins differ
	l.AsOnly(map[string]string{"C02/I1-operator-table": "C16/S2-operators-by-value"}, func() { checkC02(p, l) })
	if run := exploreScanToken(p); run != nil {
		l.As(map[string]string{"C09/S6-string-value": "C16/S2-literal-text"}, func() { checkStringValue(p, l, run.m.G) })
	}
	for _, k := range []string{"number", "string", "bool", "array", "object", "function"} {
		if len(u.ByKind[k]) == 0 {
			l.Violate("C16/S1-kinds", "kind:"+k, "", "no producer of kind "+k+" found: universe extraction no longer matches the code")
		} else {
			l.Discharge("C16/S1-kinds", "kind:"+k, "", fmt.Sprintf("%d representation(s)", len(u.ByKind[k])), false)
		}
	}
}
