package main

import (
	"fmt"
	"os"
	"regexp"
	"strings"

	"golang.org/x/tools/go/ssa"
)

// Named relational lemmas for index sites the generic prover cannot discharge (DESIGN.md C07/P3 a–d).
// Each is re-proved on every run from the explored models; nothing is assumed.
type lemmas struct {
	p        *Prog
	l        *Ledger
	lexOK    *bool
	lexWhy   string
	parseOK  *bool
	parseWhy string
}

func newLemmas(p *Prog, l *Ledger) *lemmas { return &lemmas{p: p, l: l} }

// lemma (b): every advance() of the scanner happens where a rune is known to be left.
func (lm *lemmas) lexerAdvanceSafe() (bool, string) {
	if lm.lexOK != nil {
		return *lm.lexOK, lm.lexWhy
	}
	ok := true
	var why []string
	scratch := NewLedger("lemma", "quick", 0, "")
	if !checkLexPrimitives(lm.p, scratch, "prim") {
		ok = false
		why = append(why, "the cursor primitives deviate from their reference words")
	}
	for _, o := range scratch.Obls {
		if o.Status != Discharged {
			ok = false
			why = append(why, o.Construct+": "+o.Why)
		}
	}
	run := exploreScanToken(lm.p)
	if run == nil || len(run.m.Undecided) > 0 {
		ok = false
		why = append(why, "scanToken could not be explored")
	} else {
		n := 0
		for _, e := range run.m.G.Events("consume") {
			n++
			if e.KV["unsafe"] != "" {
				ok = false
				why = append(why, "advance at "+e.Pos+": "+e.KV["unsafe"])
			}
		}
		if n < 8 {
			ok = false
			why = append(why, fmt.Sprintf("only %d consumption sites explored", n))
		}
	}
	// scanToken is entered only under !isAtEnd, and advance/match are called only from code explored under scanToken
	scratch2 := NewLedger("lemma", "quick", 0, "")
	checkScanTokensLoop(lm.p, scratch2)
	for _, o := range scratch2.Obls {
		if o.Status != Discharged {
			ok = false
			why = append(why, "ScanTokens: "+o.Why)
		}
	}
	scanTok := lm.p.Func("lexer.(*Scanner).scanToken")
	if scanTok != nil {
		under := lm.p.Reachable(scanTok)
		for _, prim := range []string{"advance", "match"} {
			fn := lm.p.Func("lexer.(*Scanner)." + prim)
			if fn == nil {
				continue
			}
			for _, cs := range lm.p.CallSites(fn) {
				if !under[cs.Parent()] {
					ok = false
					why = append(why, prim+"() is also called from "+lm.p.FuncKey(cs.Parent())+", outside the explored token scan")
				}
			}
		}
		for _, cs := range lm.p.CallSites(scanTok) {
			if lm.p.FuncKey(cs.Parent()) != "lexer.(*Scanner).ScanTokens" {
				ok = false
				why = append(why, "scanToken is also called from "+lm.p.FuncKey(cs.Parent()))
			}
		}
	}
	lm.lexOK = &ok
	lm.lexWhy = strings.Join(why, "; ")
	if ok {
		lm.lexWhy = "lemma b: every advance() site of the explored scanner is reached with 'not at end' established (by !isAtEnd(), by a peek()/peekNext() that returned a rune, or by the ScanTokens loop guard); the primitives match their reference words; advance/match have no other callers"
	}
	return ok, lm.lexWhy
}

// recvFieldExpr renders v with the receiver written as "$": "$.source", "($.current-1)" — independent of how the source
// names the receiver.
func recvFieldExpr(fn *ssa.Function, v ssa.Value) string {
	d := describe(v)
	if len(fn.Params) == 0 || fn.Signature.Recv() == nil {
		return d
	}
	r := fn.Params[0].Name()
	return regexp.MustCompile(`(^|[^\w.])`+regexp.QuoteMeta(r)+`\.`).ReplaceAllString(d, "${1}$$.")
}

// callArgumentsParam: is s the argument-list parameter of Function.Call, or the parameter of a helper method of
// *Function that every caller — Function.Call itself — hands its own argument list and receiver on to?
func (lm *lemmas) callArgumentsParam(fn *ssa.Function, s ssa.Value) bool {
	prm, ok := s.(*ssa.Parameter)
	if !ok || fn.Signature.Recv() == nil || typeStr(fn.Signature.Recv().Type()) != "*interpreter.Function" {
		return false
	}
	if fn.Name() == "Call" {
		return true
	}
	idx := -1
	for i, q := range fn.Params {
		if q == prm {
			idx = i
		}
	}
	css := lm.p.CallSites(fn)
	if idx < 0 || len(css) == 0 {
		return false
	}
	for _, cs := range css {
		caller := cs.Parent()
		c := cs.Common()
		if c.StaticCallee() != fn || lm.p.FuncKey(caller) != "interpreter.(*Function).Call" || idx >= len(c.Args) {
			return false
		}
		if a, ok := c.Args[idx].(*ssa.Parameter); !ok || a.Parent() != caller {
			return false
		}
		if r, ok := c.Args[0].(*ssa.Parameter); !ok || r != caller.Params[0] {
			return false
		}
	}
	return true
}

func (lm *lemmas) index(in ssa.Instruction, s, idx ssa.Value) (ok bool, why string, handled bool) {
	fn := in.Parent()
	fk := lm.p.FuncKey(fn)
	ds, di := recvFieldExpr(fn, s), recvFieldExpr(fn, idx)
	switch {
	// (the rune advance hands back is source[current] read before the step, or source[current-1] read after it: which of
	// the two the code means is settled by the reference words of the primitive, part of lemma b)
	case fk == "lexer.(*Scanner).advance" && ds == "$.source" && (di == "$.current" || di == "($.current-1)"):
		ok, why = lm.lexerAdvanceSafe()
		return ok, why, true
	case lm.parserCursorIndex(fn, fk, ds, di):
		ok, why = lm.parserCursorSafe()
		return ok, why, true
	case lm.callArgumentsParam(fn, s):
		ok, why = lm.argumentsIndexSafe(in, idx)
		return ok, why, true
	}
	return false, "", false
}

func (lm *lemmas) slice(fn *ssa.Function, x *ssa.Slice) (ok bool, why string, handled bool) {
	if fnPkgName(fn) != "lexer" || recvFieldExpr(fn, x.X) != "$.source" {
		return false, "", false
	}
	// lemma (c): start+klo <= current+khi needs that many consumed runes; the rest (0 <= start, current <= len) are field invariants
	if okb, w := lm.lexerAdvanceSafe(); !okb {
		return false, "lemma c needs lemma b: " + w, true
	}
	run := exploreScanToken(lm.p)
	if run == nil {
		return false, "scanner not explored", true
	}
	good, bad := sliceObligations(run.m.G)
	pos := lm.p.InstrPos(x)
	for _, b := range bad {
		if strings.HasPrefix(b, pos+":") {
			return false, "lemma c fails: " + b, true
		}
	}
	for _, g := range good {
		if strings.HasPrefix(g, pos+":") {
			return true, "lemma c: " + g + "; start <= current <= len(source) by the who-writes invariants of the scanner fields", true
		}
	}
	if os.Getenv("DBGSOLE") != "" {
		fmt.Fprintln(os.Stderr, "lemma c", pos, len(good), len(bad), run.m.Undecided)
		for i, g := range good {
			if i < 3 {
				fmt.Fprintln(os.Stderr, "  ", g)
			}
		}
	}
	return false, "lemma c: the slice at " + pos + " was not reached by the scanner exploration", true
}

func (lm *lemmas) finish() {}

// lemma (a): Function.Call's arguments[k], k ranging over Declaration.Params.
func (lm *lemmas) argumentsIndexSafe(in ssa.Instruction, idx ssa.Value) (bool, string) {
	p := lm.p
	// 1. the index is the counter of a range over f.Declaration.Params
	cn := &Canon{p: p}
	li := cn.expr(idx)
	blk := in.Block()
	var rangedOver ssa.Value
	if ph, ok := idx.(*ssa.Phi); ok && rangeLikeCounter(ph.Block()) == ph {
		// `for k := 0; k < len(params); k++ { … arguments[k] … }`
		if iff, ok := ph.Block().Instrs[len(ph.Block().Instrs)-1].(*ssa.If); ok {
			if bo, ok := iff.Cond.(*ssa.BinOp); ok {
				rangedOver = lenArg(bo.Y)
			}
		}
		blk = nil
	} else if !strings.HasPrefix(li.base, "v:") || li.off != 1 {
		return false, "lemma a: index " + describe(idx) + " is not a range counter"
	}
	for b := blk; b != nil; b = b.Idom() {
		if strings.HasPrefix(b.Comment, "rangeindex.loop") {
			if iff, ok := b.Instrs[len(b.Instrs)-1].(*ssa.If); ok {
				if bo, ok := iff.Cond.(*ssa.BinOp); ok {
					rangedOver = lenArg(bo.Y)
				}
			}
			break
		}
	}
	if rangedOver == nil || !strings.HasSuffix(describe(rangedOver), "Declaration.Params") {
		return false, "lemma a: the loop does not range over Declaration.Params (" + descOpt(rangedOver) + ")"
	}
	// 2. Arity() == len(Declaration.Params), the only invoker is the call clause, and the call clause passes
	//    exactly len(e.Arguments) values after the arity test — C04/S3 monitors; re-run them here
	scratch := NewLedger("lemma", "quick", 0, "")
	cs := getClauses(p)
	if len(cs.Probs) > 0 {
		return false, "lemma a: evaluator could not be explored"
	}
	checkCallProtocol(cs, scratch)
	checkFunctionCall(cs, scratch)
	for _, o := range scratch.Obls {
		if o.Status != Discharged && (strings.HasPrefix(o.Rule, "C04/S3") || o.Rule == "C04/S3-arity") {
			return false, "lemma a needs the call protocol: " + o.Rule + " @ " + o.Construct + ": " + o.Why
		}
	}
	return true, "lemma a: Callable.Call is invoked only by the call clause, after 'Arity()==-1 or len(Arguments)==Arity()' succeeded, with one appended value per argument expression; Function.Arity() is len(Declaration.Params) >= 0, so len(arguments) == len(Params) and k < len(Params)"
}

// lemma (d): filled in by the parser rules (c08.go)
func (lm *lemmas) parserCursorSafe() (bool, string) {
	if lm.parseOK != nil {
		return *lm.parseOK, lm.parseWhy
	}
	ok, why := parserCursorLemma(lm.p)
	lm.parseOK, lm.parseWhy = &ok, why
	return ok, why
}

// parserCursorIndex: the index expression reads the parser's token list at its position (peek) or one before it
// (previous) — in the primitive itself or in a helper only that primitive uses (a cursor type's current()/last()).
func (lm *lemmas) parserCursorIndex(fn *ssa.Function, fk, ds, di string) bool {
	cp := parserCursor(lm.p)
	if cp == nil || fnPkgName(fn) != "parser" || fn.Signature.Recv() == nil {
		return false
	}
	recv := typeStr(derefT(fn.Signature.Recv().Type()))
	var toks, pos string
	switch recv {
	case cp.toksType:
		toks, pos = "$."+cp.toksField, "$."+cp.posField
	case "parser.Parser":
		toks, pos = "$"+cp.path+"."+cp.toksField, "$"+cp.path+"."+cp.posField
	default:
		return false
	}
	if ds != toks {
		return false
	}
	switch di {
	case pos:
		// 0 <= position < len(tokens) is an invariant of the cursor: reading the token at the position is safe anywhere
		return true
	case "(" + pos + "-1)":
		// the token before the position: only through previous() (whose uses follow a consumption — checked on the
		// parse functions) or advance() (which has just moved, or is at the end having moved before)
		return lm.reachedOnlyThrough(fn, map[string]bool{"parser.(*Parser).previous": true, "parser.(*Parser).advance": true}, 0)
	}
	return false
}

// reachedOnlyThrough: fn is one of the named functions, or every call of it sits in a function that is.
func (lm *lemmas) reachedOnlyThrough(fn *ssa.Function, roots map[string]bool, depth int) bool {
	if roots[lm.p.FuncKey(fn)] {
		return true
	}
	if depth > 3 {
		return false
	}
	if _, existing := expectedFuncs[lm.p.FuncKey(fn)]; existing {
		return false
	}
	css := lm.p.CallSites(fn)
	n := 0
	for _, cs := range css {
		if cs.Parent() == fn {
			continue
		}
		n++
		if cs.Common().StaticCallee() != fn || !lm.reachedOnlyThrough(cs.Parent(), roots, depth+1) {
			return false
		}
	}
	return n > 0
}
