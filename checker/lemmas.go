package main

import "golang.org/x/tools/go/ssa"

// Named relational lemmas for index sites the generic prover cannot discharge (DESIGN.md C07/P3 a–d).
type lemmas struct {
	p *Prog
	l *Ledger
}

func newLemmas(p *Prog, l *Ledger) *lemmas { return &lemmas{p: p, l: l} }

func (lm *lemmas) index(in ssa.Instruction, s, idx ssa.Value) (ok bool, why string, handled bool) {
	return false, "", false
}

func (lm *lemmas) slice(fn *ssa.Function, x *ssa.Slice) (ok bool, why string, handled bool) {
	return false, "", false
}

func (lm *lemmas) finish() {}
