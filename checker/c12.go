package main

import (
	"fmt"
	"go/types"
	"regexp"
	"strings"

	"golang.org/x/tools/go/ssa"
)

func init() {
	register("C12", &Checker{
		Run: checkC12,
		Explain: "Decided: S1 access discipline, path by path — property read: comma-ok object test on the evaluated object, comma-ok lookup under the node's own property name, absent → runtime error, present → exactly that entry; property write: object test, then the value, then one store under the node's own name of the value just evaluated, result is that value, nothing else written; কি_রিমুভ: object and key tests, existence test dominates the delete of the same key on the same map, absent → error; object literal: a fresh map per evaluation with exactly one store per listed name (in the literal's recorded order) of the value just evaluated. " +
			"S2 listing consistency: অব্জেক্ট_কি and অব্জেক্ট_মান both iterate the result of one and the same deterministic ordering function applied to the object (every key once, sorted — shape-checked), the former appending the key and the latter the entry under that key, so the i-th value is the value of the i-th key and both list every property exactly once; the parser records each distinct literal name exactly once. " +
			"Objects travel by reference (no copy of a map on any value path). Inherited: fmt prints every map entry. Not decided: the map-model equivalence over histories.",
		Rule:    "obligation = (rule, clause or built-in); non-trivial: all",
		Trusted: []string{"Go map semantics", "fmt %v prints all entries of a map", "abstract machine"},
	})
}

func checkC12(p *Prog, l *Ledger) {
	q := regexp.QuoteMeta
	// a property read or write happens where it is written, whatever surrounds it: nothing outside eval's dispatch looks
	// at the syntactic kind of an expression (to skip a read whose value is not used, say — a read of an absent property
	// is an error wherever it stands), and every clause evaluates its operands on every successful path (C14's rule)
	checkNodeKindTests(p, l, "C12/S0-evaluated-where-written")
	l.AsOnly(map[string]string{"C14/S1-order-once": "C12/S0-evaluated-where-written/operands"}, func() { checkC14(p, l) })
	OBJ, VAL, NAME := q("ev[e.Object].val"), q("ev[e.Value].val"), q("e.Property.Lexeme")
	errTail := ` ; rterror\(obj, .*\) ; return\(nil, obj\)`
	if ws, ok, _ := clauseWordsFor(p, "*ast.PropertyAccess"); !ok {
		l.Undecide("C12/S1-access", "eval/PropertyAccess", "", "paths not enumerable")
	} else {
		pre := q("eval(e.Object, env, isRepl)→sig=0 ; ")
		isObj := q("typetest(ev[e.Object].val, map[string]interface{})→true ; ")
		look := `maplookup\(` + OBJ + `, ` + NAME + `\) ; `
		matchWordSet(l, "C12/S1-access", "eval/PropertyAccess", "", ws, map[string]string{
			"present":    pre + isObj + look + `has\(` + OBJ + `\[` + NAME + `\]\)→true ; return\(` + OBJ + `\[` + NAME + `\], obj\)`,
			"absent":     pre + isObj + look + `has\(` + OBJ + `\[` + NAME + `\]\)→false` + errTail,
			"not-object": pre + q("typetest(ev[e.Object].val, map[string]interface{})→false") + errTail,
		})
	}
	if ws, ok, _ := clauseWordsFor(p, "*ast.PropertyAssignment"); !ok {
		l.Undecide("C12/S1-access", "eval/PropertyAssignment", "", "paths not enumerable")
	} else {
		pre := q("eval(e.Object, env, isRepl)→sig=0 ; ")
		matchWordSet(l, "C12/S1-access", "eval/PropertyAssignment", "", ws, map[string]string{
			"write": pre + q("typetest(ev[e.Object].val, map[string]interface{})→true ; eval(e.Value, env, isRepl)→sig=0 ; ") +
				`mapstore\(` + OBJ + `, ` + NAME + `, ` + VAL + `\) ; return\(` + VAL + `, obj\)`,
			"not-object": pre + q("typetest(ev[e.Object].val, map[string]interface{})→false") + errTail,
		})
	}
	// ---- built-ins
	reg, _ := registeredBuiltins(p)
	tn := func(borno string) string {
		if t, ok := reg[borno]; ok {
			if nt := namedOf(t); nt != nil {
				return nt.Obj().Name()
			}
		}
		return ""
	}
	errRet := `return\(nil, (Errorf|New)\(.*\)\)`
	A0 := q("arguments[0]")
	if ws, fn, ok := nativeWords(p, l, tn("কি_রিমুভ")); fn == nil || !ok {
		l.Undecide("C12/S1-access", "কি_রিমুভ", "", "built-in not found or paths not enumerable")
	} else {
		cnt := `(test\(\(len\(arguments\) == 2\)\)→true ; )?`
		isObj := q("typetest(arguments[0], map[string]interface{})→true ; ")
		isStr := q("typetest(arguments[1], string)→true ; ")
		K := q("arguments[1]")
		matchWordSet(l, "C12/S1-access", "কি_রিমুভ", p.Pos(fn.Pos()), ws, map[string]string{
			"delete":     cnt + isObj + isStr + `maplookup\(` + A0 + `, ` + K + `\) ; has\(` + A0 + `\[` + K + `\]\)→true ; delete\(` + A0 + `, ` + K + `\) ; return\(` + A0 + `, nil\)`,
			"absent":     cnt + isObj + isStr + `maplookup\(` + A0 + `, ` + K + `\) ; has\(` + A0 + `\[` + K + `\]\)→false ; ` + errRet,
			"bad-key":    cnt + isObj + q("typetest(arguments[1], string)→false ; ") + `(typetest\(arguments\[1\], \[\](rune|int32)\)→false ; )?` + errRet,
			"not-object": cnt + q("typetest(arguments[0], map[string]interface{})→false ; ") + errRet,
			"count":      `test\(\(len\(arguments\) == 2\)\)→false ; ` + errRet,
		})
	}
	checkListing(p, l, tn("অব্জেক্ট_কি"), tn("অব্জেক্ট_মান"))
	// printing an object shows all of its properties: the print statement hands the whole value to the shared text
	// function (fmt %v), no hand-written traversal that could cut parts short (rule shared with C15)
	if cs := getClauses(p); cs.account(l) {
		checkPrintClause(cs, l, "C12/S4-print-whole-value")
	}
	checkObjectLiteral(p, l)
	// objects by reference: no map is ranged over / copied on value paths (eval, environment, Function.Call)
	bad := false
	for _, fn := range p.ModuleFuncs() {
		if fn != p.Interp().Eval && fn != p.Interp().FuncCall && fnPkgName(fn) != "environment" {
			continue
		}
		instrsOf(fn, func(in ssa.Instruction) {
			if r, ok := in.(*ssa.Range); ok {
				if mt, ok := r.X.Type().Underlying().(*types.Map); ok && isEmptyInterface(mt.Elem()) {
					bad = true
					l.Violate("C12/S3-reference-semantics", p.FuncKey(fn)+"#range(object)", p.InstrPos(in), "an object's entries are iterated (copied?) on a value path: objects must be shared by reference")
				}
			}
		})
	}
	if !bad {
		l.Discharge("C12/S3-reference-semantics", "value-paths", "", "no object is iterated or copied by eval, Function.Call or the environment", true)
	}
	// a literal yields its listed properties whatever they are called: the functions that parse object syntax reject
	// nothing of their own (C08's filter rule, restricted to them) — a refused property name is a literal that yields
	// no object at all, and makes `{k: v}` and `o.k = v` disagree
	pi := getParser(p)
	l.AsOnlyWhere(map[string]string{"C08/S3-filters": "C12/S0-literal-accepted"}, func(o *Obligation) bool {
		for _, f := range []string{"parser.objectLiteral", "parser.call", "parser.primary"} {
			if strings.HasPrefix(o.Construct, f+"#") {
				return true
			}
		}
		return false
	}, func() { checkSemanticFilters(p, l, pi) })
}

// checkListing: keys and values derive their order from one source.
func checkListing(p *Prog, l *Ledger, keysT, valuesT string) {
	rule := "C12/S2-listing"
	type info struct {
		source string
		elems  map[string]bool
		fn     *ssa.Function
	}
	explore := func(tn string) *info {
		fn := p.Func("interpreter." + tn + ".Call")
		if fn == nil {
			fn = p.Func("interpreter.(*" + tn + ").Call") // the same method on a pointer receiver
		}
		if fn == nil {
			return nil
		}
		m := NewInterpModel(p, "builtin/"+tn)
		m.EmitTests = true
		m.KeepAsEvent = func(c *ssa.Function) bool { return fnName(c) == "sortedKeys" }
		m.Explore(fn, []AV{Sym("n"), Sym("i"), Sym("arguments")}, nil)
		inf := &info{elems: map[string]bool{}, fn: fn}
		for _, e := range m.G.Events("next") {
			inf.source = normName(e.Args[0])
		}
		for _, e := range m.G.Events("append") {
			if len(e.Args) == 2 {
				inf.elems[normName(e.Args[1])] = true
			}
		}
		// filling a pre-sized result by position is the same listing: result[i] = element i
		for _, e := range m.G.Events("indexstore") {
			if len(e.Args) == 2 && strings.HasSuffix(e.Args[0], "[range]") && strings.HasPrefix(e.Args[0], "obj:") {
				inf.elems[normName(e.Args[1])] = true
			}
		}
		// one append per iteration, result is the accumulator
		mon := Monitor{Init: "out", Step: func(s string, ev *Event) string {
			switch ev.Op {
			case "next":
				if ev.Out == "true" {
					if s == "in" {
						return "!an entry is skipped: an iteration ends without appending"
					}
					return "in"
				}
				if s == "in" {
					return "!an entry is skipped: the last iteration ends without appending"
				}
				return "done"
			case "append", "indexstore":
				if s != "in" {
					return "!an entry is listed twice (two stores in one iteration) or outside the loop"
				}
				return "appended"
			case "backedge":
				if s == "in" {
					return "!an entry is skipped: an iteration ends without appending"
				}
				return "out"
			case "return":
				if ev.KV["r1"] == "nil" && !strings.HasPrefix(ev.KV["r0"], "append:") && !strings.HasPrefix(ev.KV["r0"], "obj:") {
					return "!the listing returned is " + ev.KV["r0"] + ", not the list built"
				}
			}
			return s
		}}
		for _, w := range m.G.Run(mon) {
			l.Violate(rule, tn+"#once", posOf(w), w.Msg, witnessDetail(w))
		}
		return inf
	}
	k, v := explore(keysT), explore(valuesT)
	if k == nil || v == nil {
		l.Undecide(rule, "keys/values", "", "listing built-ins not found")
		return
	}
	src := "sortedKeys(arguments[0])"
	okK := k.source == src && len(k.elems) == 1 && k.elems[src+"[range]"]
	okV := v.source == src && len(v.elems) == 1 && v.elems["arguments[0]["+src+"[range]]"]
	if okK {
		l.Discharge(rule, keysT, p.Pos(k.fn.Pos()), "appends each element of "+src+" once, in that order", true)
	} else {
		l.Violate(rule, keysT, p.Pos(k.fn.Pos()), fmt.Sprintf("key listing iterates %q and appends %v; expected one pass over the shared ordering function of the object, appending the key", k.source, sortedKeysOf(k.elems)))
	}
	if okV {
		l.Discharge(rule, valuesT, p.Pos(v.fn.Pos()), "appends object[key] for each key of "+src+", in that order: the i-th value belongs to the i-th key", true)
	} else {
		l.Violate(rule, valuesT, p.Pos(v.fn.Pos()), fmt.Sprintf("value listing iterates %q and appends %v; expected the same key order as the key listing, appending the entry under each key", v.source, sortedKeysOf(v.elems)))
	}
	// the shared ordering function: every key once, sorted, nothing else
	sk := p.Func("interpreter.sortedKeys")
	if sk == nil {
		// the same function as a method of a named map type, or under another name: the one function of the interpreter
		// that takes an object (map[string]interface{}) and returns []string
		for _, fn := range p.ModuleFuncs() {
			if fnPkgName(fn) != "interpreter" || len(fn.Params) != 1 || fn.Signature.Results().Len() != 1 || fn.Blocks == nil {
				continue
			}
			mt, isMap := fn.Params[0].Type().Underlying().(*types.Map)
			rt, isSl := fn.Signature.Results().At(0).Type().Underlying().(*types.Slice)
			if isMap && isSl && isEmptyInterface(mt.Elem()) && typeStr(mt.Key()) == "string" && typeStr(rt.Elem()) == "string" {
				if sk != nil {
					sk = nil
					break
				}
				sk = fn
			}
		}
	}
	if sk == nil {
		l.Undecide(rule, "sortedKeys", "", "ordering function not found")
		return
	}
	// the library spelling of the same thing: return slices.Sorted(maps.Keys(object))
	if len(sk.Blocks) == 1 {
		var iter, sorted *ssa.Call
		other := false
		for _, in := range sk.Blocks[0].Instrs {
			switch x := in.(type) {
			case *ssa.Call:
				if isIter, ok, _ := mapIterSorted(x); isIter && ok && iter == nil && strings.HasPrefix(x.Call.StaticCallee().Name(), "Keys") && x.Call.Args[0] == ssa.Value(sk.Params[0]) {
					iter = x
				} else if iter != nil && sorted == nil && len(x.Call.Args) == 1 && x.Call.Args[0] == ssa.Value(iter) {
					sorted = x
				} else {
					other = true
				}
			case *ssa.Return:
				if sorted == nil || len(x.Results) != 1 || x.Results[0] != ssa.Value(sorted) {
					other = true
				}
			case *ssa.DebugRef:
			default:
				other = true
			}
		}
		if iter != nil && sorted != nil && !other {
			l.Discharge(rule, "sortedKeys", p.Pos(sk.Pos()), "slices.Sorted(maps.Keys(object)): every key of the object once, sorted", true)
			return
		}
	}
	var problems []string
	nRange := 0
	instrsOf(sk, func(in ssa.Instruction) {
		switch x := in.(type) {
		case *ssa.Range:
			nRange++
			if _, ok := x.X.(*ssa.Parameter); !ok {
				problems = append(problems, "ranges over "+describe(x.X)+" instead of its argument")
			}
			if ok, why := mapRangeOrderInsensitive(p, x); !ok {
				problems = append(problems, why)
			}
		case *ssa.UnOp:
			if _, isG := x.X.(*ssa.Global); isG {
				problems = append(problems, "reads package-level state ("+describe(x.X)+"): the listing may not reflect the object's current properties")
			}
		case *ssa.Store:
			if _, isG := x.Addr.(*ssa.Global); isG {
				problems = append(problems, "writes package-level state")
			}
		case *ssa.If:
			// only the loop test may branch
			if !strings.HasPrefix(in.Block().Comment, "rangeiter") {
				problems = append(problems, "conditional logic in the ordering function (a key may be skipped or a stale list returned)")
			}
		}
	})
	if nRange != 1 {
		problems = append(problems, fmt.Sprintf("%d map ranges", nRange))
	}
	problems = uniqStrings(sortStrings(problems))
	if len(problems) == 0 {
		l.Discharge(rule, "sortedKeys", p.Pos(sk.Pos()), "one unconditional pass over the object's keys, collected and sorted", true)
	} else {
		l.Violate(rule, "sortedKeys", p.Pos(sk.Pos()), strings.Join(problems, " || "))
	}
}

// checkObjectLiteral: evaluator side (fresh map, one store per recorded name) and parser side (each distinct name recorded once).
func checkObjectLiteral(p *Prog, l *Ledger) {
	rule := "C12/S1-literal"
	cs := getClauses(p)
	m := cs.Clauses["*ast.ObjectLiteral"]
	if m == nil {
		l.Undecide(rule, "eval/ObjectLiteral", "", "clause missing")
		return
	}
	mon := Monitor{Init: "out|", Step: func(s string, ev *Event) string {
		ps := strings.SplitN(s, "|", 2)
		switch ev.Op {
		case "next":
			if ev.Args[0] != "e.Keys" {
				return "!the literal iterates " + ev.Args[0] + " instead of its recorded names"
			}
			if ev.Out == "true" {
				return "in|"
			}
			return "done|"
		case "eval":
			if ev.KV["child"] != "e.Properties[e.Keys[range]]" {
				return "!the literal evaluates " + ev.KV["child"] + " instead of the initialiser of the current name"
			}
			return "val|" + ev.KV["res"]
		case "mapstore":
			if ps[0] != "val" {
				return "!a property is stored without its initialiser having been evaluated in this iteration"
			}
			if !strings.HasPrefix(ev.Args[0], "obj:") {
				return "!properties are stored into " + ev.Args[0] + ", not into a map created by this evaluation"
			}
			if ev.Args[1] != "e.Keys[range]" {
				return "!the value is stored under " + ev.Args[1] + " instead of the current name"
			}
			if ev.Args[2] != ps[1]+".val" {
				return "!the stored value " + ev.Args[2] + " is not the initialiser's value"
			}
			return "stored|"
		case "backedge":
			if ps[0] == "val" || ps[0] == "in" {
				return "!a listed property is not stored"
			}
			return "out|"
		case "return":
			if ev.KV["raised"] == "T" || ev.KV["r1.Type"] != "0" {
				return ""
			}
			if !strings.HasPrefix(ev.KV["r0"], "obj:") {
				return "!the literal yields " + ev.KV["r0"] + ", not the map built in this evaluation"
			}
			if ps[0] == "val" {
				return "!a listed property is not stored"
			}
		}
		return s
	}}
	runMon(l, rule, "eval/ObjectLiteral", m, mon, "fresh map; for each recorded name: evaluate its initialiser, store it under that name")
	// parser: Keys gets each distinct name once — append guarded by 'not yet in properties', Properties[name] stored unconditionally
	fn := p.Func("parser.(*Parser).objectLiteral")
	if fn == nil {
		l.Undecide(rule, "parser.objectLiteral", "", "not found")
		return
	}
	var appendKeys *ssa.Call
	var mapStore *ssa.MapUpdate
	// the literal's parser and the helpers only it uses (a phase function, a small collecting type's methods)
	scope := []*ssa.Function{fn}
	for _, f := range p.ModuleFuncs() {
		if f != fn && fnPkgName(f) == "parser" && p.OwnedBy(f, p.FuncKey(fn)) {
			scope = append(scope, f)
		}
	}
	for _, f := range scope {
		instrsOf(f, func(in ssa.Instruction) {
			if c, ok := in.(*ssa.Call); ok {
				if b, ok := c.Call.Value.(*ssa.Builtin); ok && b.Name() == "append" {
					if st, ok := c.Type().Underlying().(*types.Slice); ok {
						if bt, ok := st.Elem().Underlying().(*types.Basic); ok && bt.Kind() == types.String {
							appendKeys = c
						}
					}
				}
			}
			if mu, ok := in.(*ssa.MapUpdate); ok {
				mapStore = mu
			}
		})
	}
	if appendKeys == nil || mapStore == nil {
		l.Violate(rule, "parser.objectLiteral#names", p.Pos(fn.Pos()), "the parser does not record the literal's property names and initialisers as expected (name list append / map store not found)")
		return
	}
	// the append must be guarded by a failed lookup of the same name in the same map that is stored into
	guarded := false
	for _, g := range GuardsAt(appendKeys.Block()) {
		ex, ok := g.Cond.(*ssa.Extract)
		if !ok || ex.Index != 1 {
			continue
		}
		lk, ok := ex.Tuple.(*ssa.Lookup)
		if !ok || !lk.CommaOk {
			continue
		}
		if (lk.X == mapStore.Map || (describe(lk.X) == describe(mapStore.Map) && lk.Parent() == mapStore.Parent())) && !g.Truth && sameKeyValue(lk.Index, mapStore.Key) {
			guarded = true
		}
	}
	// the map store must not be conditional on that lookup
	storeUncond := true
	for _, g := range GuardsAt(mapStore.Block()) {
		if ex, ok := g.Cond.(*ssa.Extract); ok {
			if _, isLk := ex.Tuple.(*ssa.Lookup); isLk {
				storeUncond = false
			}
		}
	}
	switch {
	case !guarded:
		l.Violate(rule, "parser.objectLiteral#names", p.InstrPos(appendKeys), "a property name is appended to the name list without testing that this literal's own table does not hold it yet: duplicate or missing names")
	case !storeUncond:
		l.Violate(rule, "parser.objectLiteral#names", p.InstrPos(mapStore), "a property initialiser is only recorded conditionally")
	default:
		l.Discharge(rule, "parser.objectLiteral#names", p.InstrPos(appendKeys), "each distinct name is recorded once (append guarded by absence in this literal's own table); the initialiser is always recorded", true)
	}
}

func sameKeyValue(a, b ssa.Value) bool {
	return a == b || describe(a) == describe(b)
}
