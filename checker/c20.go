package main

import (
	"fmt"
	"strings"

	"golang.org/x/tools/go/ssa"
)

func init() {
	register("C20", &Checker{
		Run: checkC20,
		Explain: "Decided: S1 in the REPL loop every path from a run(line, true) call back to the next read passes stores of false to both error flags, the only exit of the loop is end of input followed by a normal return, and no os.Exit/panic/log.Fatal is reachable from run (so a failed line cannot end the session). " +
			"S2 nothing a line leaves behind can reach a later line: run builds a new scanner, parser and interpreter per call; no value other than the input scanner is carried round the loop; the only package-level variables written after initialisation are the two flags, and no package-level variable can reach a container that reachable code mutates (type-based may-alias — this is what makes a shared built-in table or an output buffer that outlives a line visible). " +
			"S3 exactly one prompt per iteration, written before the read. S4 echo: in the expression-statement clause a value is echoed exactly when isRepl holds and the error flag is clear; isRepl is the constant true from the REPL, false from file mode and inside function calls, and is passed unchanged to every nested evaluation. " +
			"Not decided: byte-level interleaving of prompt and output (buffering), over-long lines.",
		Rule:    "obligation = (rule, function or clause#site); non-trivial: loop automaton, global-state and echo obligations",
		Trusted: []string{"abstract machine (main mode)", "type-based may-alias for package-level state", "VTA call graph"},
	})
}

func checkC20(p *Prog, l *Ledger) {
	// "a line that fails … does not terminate the session": a Go panic or fatal error while a line runs ends the whole
	// REPL process, so every rule of C07 (no reachable panic site) is a necessary condition here too — including its two
	// known findings, which are listed for C20 as well in known_findings.json
	l.AsOnly(map[string]string{"C07/P": "C20/S1-session-survives/P"}, func() { checkC07(p, l) })
	// every line gets its response: a line that fails at run time must still end (rules of C06: eval is a no-op once the
	// flag is set, no loop cycles in that state), or the session never answers another line
	l.AsOnly(map[string]string{"C06/S2-guarded-eval": "C20/S1-line-ends-after-error/guarded-eval", "C06/S3-bounded-after-error": "C20/S1-line-ends-after-error/loops", "C06/S2-effect-after-error": "C20/S1-line-ends-after-error/effects"}, func() { checkC06(p, l) })
	// ---- S1 + S3: the prompt loop
	fn := p.Func("main.runPrompt")
	if fn == nil {
		l.Undecide("C20/anchors", "main.runPrompt", "", "not found")
		return
	}
	m := NewInterpModel(p, "main.runPrompt")
	m.MainMode = true
	mc := m.Explore(fn, nil, nil)
	l.States += mc.States
	l.Paths += mc.Paths
	l.Funcs["main.runPrompt"] = true
	isRead := func(e *Event) bool { return e.Op == "io" && strings.HasSuffix(e.KV["fn"], ".Scan") }
	isRun := func(e *Event) bool { return e.Op == "call" && e.Args[0] == "main.run" }
	mon := Monitor{Init: "prompt|", Step: func(s string, ev *Event) string {
		ps := strings.SplitN(s, "|", 2)
		switch ps[0] {
		case "prompt": // before the read of an iteration: exactly one prompt
			switch {
			case ev.Op == "print":
				if ps[1] == "p" {
					return "!two prompts are written for one input line"
				}
				return "prompt|p"
			case isRead(ev):
				if ps[1] != "p" {
					return "!a line is read without a prompt having been written"
				}
				return "read|"
			case ev.Op == "io" || ev.Op == "backedge":
				return s
			case isRun(ev):
				return "!run() is called before a line has been read"
			case ev.Op == "return" || ev.Op == "exit":
				return "!the session ends without end of input"
			}
			return s
		case "read": // outcome of the read
			switch {
			case ev.Op == "test":
				if ev.Out == "true" {
					return "line|"
				}
				return "eof|"
			}
			return s
		case "eof":
			switch ev.Op {
			case "return":
				return ""
			case "exit":
				if ev.Args[0] != "0" {
					return "!end of input ends the session with status " + ev.Args[0]
				}
				return ""
			case "print", "io":
				return s
			}
			return "!after end of input the loop goes on with " + ev.String()
		case "line":
			switch {
			case isRun(ev):
				if len(ev.Args) != 3 || runReplFlag(p, ev.Args[2]) != "true" {
					return "!the REPL runs a line with isRepl=" + ev.Args[len(ev.Args)-1]
				}
				return "ran|"
			case ev.Op == "io":
				return s
			case ev.Op == "return" || ev.Op == "exit":
				return "!a line was read but the loop exits without running it"
			case isRead(ev):
				return "!a line was read and dropped"
			}
			return s
		case "ran": // both flags must be reset before the next read / exit
			switch {
			case ev.Op == "globalstore":
				if ev.Args[1] != "false" {
					return "!flag " + ev.Args[0] + " is set to " + ev.Args[1] + " by the REPL"
				}
				if !strings.Contains(ps[1], ev.Args[0]+",") {
					ps[1] += ev.Args[0] + ","
				}
				return "ran|" + ps[1]
			case ev.Op == "backedge" || ev.Op == "print" || isRead(ev):
				if !strings.Contains(ps[1], "HadError,") || !strings.Contains(ps[1], "HadRuntimeError,") {
					return "!the next line is started without both error flags having been reset (reset so far: " + ps[1] + ")"
				}
				if ev.Op == "print" {
					return "prompt|p"
				}
				if isRead(ev) {
					return "!a line is read without a prompt having been written"
				}
				return "prompt|"
			case ev.Op == "return" || ev.Op == "exit":
				return "!the session ends after a line although input has not ended"
			case ev.Op == "flagtest" || ev.Op == "test":
				return s
			case isRun(ev):
				return "!a line is run twice"
			}
			return s
		}
		return s
	}}
	runMon(l, "C20/S1-loop", "main.runPrompt", m, mon, "prompt · read · (eof → return | run(line,true) · reset both flags · next iteration)")
	if len(m.G.Events("globalstore")) < 2 {
		l.Violate("C20/S1-loop/vacuity", "main.runPrompt#reset", "", "fewer than two flag resets in the REPL loop")
	}
	// loop-carried values in runPrompt
	instrsOf(fn, func(in ssa.Instruction) {
		if ph, ok := in.(*ssa.Phi); ok {
			l.Violate("C20/S2-no-carried-state", "main.runPrompt#φ("+ph.Comment+")", p.InstrPos(in), "a value ("+typeStr(ph.Type())+") is carried from one REPL line to the next")
		}
	})
	// no abnormal exit reachable from run
	runFn := p.Func("main.run")
	if runFn == nil {
		l.Undecide("C20/anchors", "main.run", "", "not found")
		return
	}
	reach := p.Reachable(runFn)
	bad := false
	for f := range reach {
		if !p.InModule(f) {
			continue
		}
		instrsOf(f, func(in ssa.Instruction) {
			if _, ok := in.(*ssa.Panic); ok {
				bad = true
				l.Violate("C20/S1-no-exit", p.FuncKey(f)+"#panic", p.InstrPos(in), "a panic reachable from run() would end the session on a failed line")
			}
			if c, ok := in.(ssa.CallInstruction); ok {
				if sc := c.Common().StaticCallee(); sc != nil {
					n := extName(sc)
					if n == "os.Exit" || strings.HasPrefix(n, "log.Fatal") || strings.HasPrefix(n, "log.Panic") {
						bad = true
						l.Violate("C20/S1-no-exit", p.FuncKey(f)+"#"+n, p.InstrPos(in), n+" reachable from run(): a failed line would terminate the session")
					}
				}
			}
		})
	}
	if !bad {
		l.Discharge("C20/S1-no-exit", "run()", "", fmt.Sprintf("no exit/panic in the %d module functions reachable from run", len(reach)), true)
	}
	// ---- S2 fresh pipeline per line
	_, ws, _ := exploreMain(p, l, "main.run")
	fresh := map[string]bool{}
	for _, w := range ws {
		made := map[string]bool{} // interpreters created earlier on this path (in run or a helper inlined into it)
		for _, e := range w {
			if e.Op == "call" {
				for _, ctor := range []string{"lexer.NewScanner", "parser.NewParser", "interpreter.NewInterpreter"} {
					if e.Args[0] == ctor {
						fresh[ctor] = true
						if ctor == "interpreter.NewInterpreter" && e.KV["res"] != "" {
							made[e.KV["res"]] = true
						}
					}
				}
				if strings.HasSuffix(e.Args[0], ").Interpret") && len(e.Args) > 1 && !strings.HasPrefix(e.Args[1], "r@run:") && !made[e.Args[1]] {
					l.Violate("C20/S2-fresh-session", "main.run#interpreter", e.Pos, "the interpreter used for a line ("+e.Args[1]+") is not created in this call of run")
				}
			}
		}
	}
	for _, ctor := range []string{"lexer.NewScanner", "parser.NewParser", "interpreter.NewInterpreter"} {
		if fresh[ctor] {
			l.Discharge("C20/S2-fresh-session", "main.run#"+ctor, "", "constructed anew for every line", true)
		} else {
			l.Violate("C20/S2-fresh-session", "main.run#"+ctor, "", ctor+" is not called by run(): state of a previous line may be reused")
		}
	}
	mainFn := p.Func("main.main")
	if mainFn != nil {
		checkGlobals(p, l, "C20/S2-global-state", p.Reachable(mainFn))
	}
	checkFlagWriters(p, l, "C20/S2-flag-writers")
	// ---- S4 echo
	checkEcho(p, l)
}

func checkEcho(p *Prog, l *Ledger) {
	rule := "C20/S4-echo"
	cs := getClauses(p)
	if !cs.account(l) {
		return
	}
	m := cs.Clauses["*ast.ExpressionStatement"]
	if m == nil {
		l.Undecide(rule, "eval/ExpressionStatement", "", "clause missing")
		return
	}
	mon := Monitor{Init: "start|", Step: func(s string, ev *Event) string {
		ps := strings.SplitN(s, "|", 2)
		switch ev.Op {
		case "eval":
			if ev.KV["sig"] != "0" {
				return "sig|"
			}
			return "val|" + ev.KV["res"]
		case "print":
			if ps[0] != "val" {
				return "!echo without an evaluated value"
			}
			if ev.KV["dirty"] == "T" {
				return "!a value is echoed although evaluating it reported an error"
			}
			if ev.KV["isRepl"] != "true" {
				return "!a value is echoed in file mode (isRepl is not known to be true on this path)"
			}
			if !strings.Contains(strings.Join(ev.Args, ","), ps[1]+".val") {
				return "!the echo prints " + strings.Join(ev.Args, ",") + ", not the statement's value"
			}
			if !strings.HasSuffix(ev.KV["fn"], "Println") {
				return "!the echo is not newline-terminated (" + ev.KV["fn"] + ")"
			}
			return "echoed|" + ps[1]
		case "return":
			if ps[0] == "val" && ev.KV["isRepl"] == "true" && ev.KV["raised"] != "T" {
				return "!in the REPL the value of an expression statement is not echoed"
			}
			if ps[0] == "echoed" || ps[0] == "val" {
				if ev.KV["r0"] != ps[1]+".val" && ev.KV["raised"] != "T" {
					return "!the statement's result is " + ev.KV["r0"] + ", not the value of its expression"
				}
			}
			return ""
		}
		if ps[0] == "echoed" && ev.Op == "print" {
			return "!the value is echoed twice"
		}
		return s
	}}
	runMon(l, rule, "eval/ExpressionStatement", m, mon, "echo iff isRepl and no error; the echoed text is the value's; result is the value")
	// isRepl is passed on unchanged by every clause; Function.Call passes false; Interpret passes its parameter
	bad := false
	n := 0
	for _, t := range cs.Order {
		for _, e := range cs.Clauses[t].G.Events("eval") {
			n++
			if e.KV["repl"] != "isRepl" {
				bad = true
				l.Violate(rule, cs.Clauses[t].Scenario+"#isRepl", e.Pos, "nested evaluation of "+e.KV["child"]+" receives isRepl="+e.KV["repl"]+" instead of the clause's own flag")
			}
		}
	}
	for _, e := range cs.Interp.G.Events("eval") {
		n++
		if e.KV["repl"] != "isRepl" {
			bad = true
			l.Violate(rule, "Interpret#isRepl", e.Pos, "top-level statements receive isRepl="+e.KV["repl"])
		}
	}
	for _, e := range cs.FCall.G.Events("eval") {
		n++
		if e.KV["repl"] != "false" {
			bad = true
			l.Violate(rule, "Function.Call#isRepl", e.Pos, "statements of a function body receive isRepl="+e.KV["repl"]+" (their values would be echoed)")
		}
	}
	if !bad {
		l.Discharge(rule, "isRepl-flow", "", fmt.Sprintf("%d nested evaluation sites pass the flag on unchanged; function bodies run with false", n), true)
	}
	// print events elsewhere in eval must not depend on / require REPL mode: the print clause prints in both modes
	if pm := cs.Clauses["*ast.PrintStatement"]; pm != nil {
		for _, e := range pm.G.Events("print") {
			if e.KV["isRepl"] != "" {
				l.Violate(rule, "eval/PrintStatement#mode", e.Pos, "the print statement's output depends on REPL mode")
			}
		}
	}
}
