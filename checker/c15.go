package main

import (
	"fmt"
	"go/token"
	"go/types"
	"regexp"
	"sort"
	"strings"

	"golang.org/x/tools/go/ssa"
)

func init() {
	register("C15", &Checker{
		Run: checkC15,
		Explain: "Decided: S1 the print clause performs, on every path that reports no error and propagates no signal, exactly one stdout write — fmt.Println of one operand, NFC-normalised text of the evaluated value — and none on error or signal paths. " +
			"S2 one text function: every place that turns a Borno value into text for output or for `+` (stringify, the number arm of handleAddition, stringifyOperand and whatever they call) formats with fmt's %v applied to the value's single Go representation, so concatenation splices in character-for-character what printing shows; stringify(nil) is the constant \"nil\". " +
			"S3 strings inside containers: the only string representation in the value universe is Go string (which %v renders as its characters at any depth). " +
			"Inherited: shortest round-trip digits and the exponent switch at 1e21/1e-5… are fmt/strconv's contract for %v on float64 — note that fmt prints 1e+06 for one million, so 'integers below one million without exponent' holds and the routing is what is checked, not the digits; one trailing newline is Println's contract; canonical equivalence is norm.NFC's. Not decided: digit correctness, NFC of arbitrary strings.",
		Rule:    "obligation = (rule, clause or formatting site); non-trivial: print-clause automaton, each formatting site, universe string representations",
		Trusted: []string{"fmt %v on float64/string/bool", "fmt.Println appends exactly one newline", "golang.org/x/text/unicode/norm NFC"},
	})
}

func checkC15(p *Prog, l *Ledger) {
	cs := getClauses(p)
	if !cs.account(l) {
		return
	}
	// ---- S1
	checkPrintClause(cs, l, "C15/S1-one-line")
	// ---- S2
	checkTextSites(p, l)
	checkNoSecondNumberText(p, l, "C15/S2-text-function/one-routine")
	// %v renders a float64 and an int64 of the same value differently above 1e6 (and `+` renders through float64): the
	// text of a number is well defined only if every number has the one representation (C16's universe rule)
	l.AsOnly(map[string]string{"C16/S1-": "C15/S2-text-function/one-representation/"}, func() { checkC16(p, l) })
	// what `+` splices in for a text operand is that text itself, and for a number the %v rendering: the `+` row of
	// C02's operator table (text(left) + text(right), operands unchanged)
	l.AsOnlyWhere(map[string]string{"C02/I1-operator-table": "C15/S3-concatenation-operands"}, func(o *Obligation) bool { return o.Construct == "Binary#PLUS" }, func() { checkC02(p, l) })
	// stringify(nil) == "nil"
	if fn := p.Func("interpreter.stringify"); fn != nil {
		mm := NewInterpModel(p, "stringify[nil]")
		mm.Explore(fn, []AV{NilV}, nil)
		rets := mm.G.Events("return")
		if len(rets) == 1 && rets[0].KV["r0"] == `"nil"` {
			l.Discharge("C15/S2-text-function", "stringify(nil)", p.Pos(fn.Pos()), `the text of nil is the constant "nil"`, true)
		} else {
			l.Violate("C15/S2-text-function", "stringify(nil)", p.Pos(fn.Pos()), "nil prints as "+strings.Join(eventStrings(rets), "; "))
		}
	} else {
		l.Undecide("C15/S2-text-function", "stringify", "", "not found")
	}
	// ---- S3
	u := p.BuildUniverse()
	var reps []string
	for t := range u.ByKind["string"] {
		reps = append(reps, t)
	}
	sort.Strings(reps)
	if len(reps) == 1 && reps[0] == "string" {
		l.Discharge("C15/S3-strings-in-containers", "universe:string", "", "the only string representation is Go string: %v shows its characters, also inside arrays and objects", true)
	} else {
		l.Violate("C15/S3-strings-in-containers", "universe:string", "", "string values have representations "+strings.Join(reps, ", ")+": a []rune inside a printed array shows as code points")
	}
}

// checkNoSecondNumberText: no function of the module outside the text functions turns a number into text with a
// strconv routine — a parser that joins `"n=" + 1234567` at parse time with FormatFloat(…, 'f', …) spells the number
// differently from what `+` and দেখাও produce at run time (1.234567e+06).
func checkNoSecondNumberText(p *Prog, l *Ledger, rule string) {
	n := 0
	for _, fn := range p.ModuleFuncs() {
		instrsOf(fn, func(in ssa.Instruction) {
			c, ok := in.(ssa.CallInstruction)
			if !ok {
				return
			}
			sc := c.Common().StaticCallee()
			if sc == nil || fnPkgPath(sc) != "strconv" {
				return
			}
			name := sc.Name()
			if !(strings.HasPrefix(name, "Format") || strings.HasPrefix(name, "Append") || name == "Itoa") {
				return
			}
			numeric := false
			for i := 0; i < sc.Signature.Params().Len(); i++ {
				if b, ok := sc.Signature.Params().At(i).Type().Underlying().(*types.Basic); ok && b.Info()&types.IsNumeric != 0 && (i == 0 || (i == 1 && strings.HasPrefix(name, "Append"))) {
					numeric = true
				}
			}
			if !numeric {
				return
			}
			n++
			l.Violate(rule, p.FuncKey(fn)+"#"+name, p.InstrPos(in), "a number is turned into text with strconv."+name+": a second number-to-text routine beside fmt %v — the same number is spelt differently depending on which path produced the text")
		})
	}
	if n == 0 {
		l.Discharge(rule, "module", "", "no strconv number formatter anywhere in the module: fmt %v is the only number-to-text routine", true)
	}
}

// checkTextSites: every fmt formatting call that produces program-visible text uses %v on one operand.
func checkTextSites(p *Prog, l *Ledger) {
	rule := "C15/S2-text-function"
	roots := []string{"interpreter.stringify", "interpreter.stringifyOperand", "interpreter.handleAddition"}
	if p.Func("interpreter.handleAddition") == nil {
		// the text arm of `+` under another name or shape (a method of an operand-pair type, say): the function that
		// evaluateBinary reaches and that itself asks stringifyOperand for the text of an operand
		if evb, so := p.Func("interpreter.evaluateBinary"), p.Func("interpreter.stringifyOperand"); evb != nil && so != nil {
			var found []string
			visited := map[*ssa.Function]bool{}
			var walk func(fn *ssa.Function)
			walk = func(fn *ssa.Function) {
				if fn == nil || visited[fn] || fn.Blocks == nil || fnPkgName(fn) != "interpreter" {
					return
				}
				visited[fn] = true
				calls := false
				instrsOf(fn, func(in ssa.Instruction) {
					if c, ok := in.(ssa.CallInstruction); ok {
						if sc := c.Common().StaticCallee(); sc != nil {
							if sc == so {
								calls = true
							} else {
								walk(sc)
							}
						}
					}
				})
				if calls && fn != evb {
					found = append(found, p.FuncKey(fn))
				}
			}
			walk(evb)
			if len(found) > 0 {
				sort.Strings(found)
				roots = append(roots[:2], found...)
			}
		}
	}
	seen := map[*ssa.Function]bool{}
	var fns []*ssa.Function
	var add func(fn *ssa.Function)
	add = func(fn *ssa.Function) {
		if fn == nil || seen[fn] || !p.InModule(fn) || fn.Blocks == nil {
			return
		}
		seen[fn] = true
		fns = append(fns, fn)
		instrsOf(fn, func(in ssa.Instruction) {
			if c, ok := in.(ssa.CallInstruction); ok {
				if sc := c.Common().StaticCallee(); sc != nil && fnPkgName(sc) == "interpreter" {
					add(sc)
				}
			}
		})
	}
	for _, r := range roots {
		fn := p.Func(r)
		if fn == nil {
			l.Undecide(rule, r, "", "text function not found")
			continue
		}
		add(fn)
	}
	n := 0
	for _, fn := range fns {
		fk := p.FuncKey(fn)
		if fk == "interpreter.toNumber" || fk == "interpreter.toInt64" {
			continue // their fmt.Errorf texts are diagnostics, not program-visible value text
		}
		cnt := 0
		instrsOf(fn, func(in ssa.Instruction) {
			c, ok := in.(*ssa.Call)
			if !ok {
				return
			}
			sc := c.Call.StaticCallee()
			if sc == nil {
				return
			}
			name := extName(sc)
			switch {
			case name == "fmt.Sprintf":
				cnt++
				n++
				key := fmt.Sprintf("%s#Sprintf#%d", fk, cnt)
				f, _ := c.Call.Args[0].(*ssa.Const)
				if f == nil || f.Value == nil || f.Value.ExactString() != `"%v"` {
					l.Violate(rule, key, p.InstrPos(in), "value text is produced with format "+describe(c.Call.Args[0])+" instead of %v: printing and concatenation would show different text")
					return
				}
				l.Discharge(rule, key, p.InstrPos(in), "%v on the value's Go representation", true)
			case name == "fmt.Sprint" || name == "fmt.Sprintln":
				cnt++
				n++
				l.Violate(rule, fmt.Sprintf("%s#%s#%d", fk, sc.Name(), cnt), p.InstrPos(in), "value text produced with "+name+" (spacing/newline rules differ from %v)")
			case strings.HasPrefix(name, "strconv.Format") || name == "strconv.Itoa" || strings.HasPrefix(name, "strconv.Append"):
				cnt++
				n++
				numeric := false
				for i := 0; i < sc.Signature.Params().Len(); i++ {
					if b, ok := sc.Signature.Params().At(i).Type().Underlying().(*types.Basic); ok && b.Info()&types.IsNumeric != 0 && (i == 0 || (i == 1 && strings.HasPrefix(name, "strconv.Append"))) {
						numeric = true
					}
				}
				if !numeric {
					// FormatBool / AppendBool: "true"/"false", the text %v gives for a bool
					l.Discharge(rule, fmt.Sprintf("%s#%s#%d", fk, sc.Name(), cnt), p.InstrPos(in), name+" renders a bool exactly as %v does", true)
					return
				}
				l.Violate(rule, fmt.Sprintf("%s#%s#%d", fk, sc.Name(), cnt), p.InstrPos(in), "value text produced with "+name+": a second number-to-text routine beside fmt %v")
			case name == "fmt.Errorf":
				// diagnostics only
			}
		})
	}
	if n < 3 {
		l.Violate(rule+"/vacuity", "formatting sites", "", fmt.Sprintf("only %d value-formatting sites found (print, number+string, string+operand expected)", n))
	}
	// the text of a value is a function of the value alone: the text functions read and write no package-level state
	// (a cache keyed by the number conflates values that compare equal but print differently, such as 0 and -0)
	for _, fn := range fns {
		cnt := map[string]int{}
		instrsOf(fn, func(in ssa.Instruction) {
			var g *ssa.Global
			what := ""
			switch x := in.(type) {
			case *ssa.UnOp:
				if gl, ok := x.X.(*ssa.Global); ok && x.Op == token.MUL && p.InModule(fn) && gl.Pkg != nil && p.InModulePkg(gl.Pkg) {
					g, what = gl, "reads"
				}
			case *ssa.Store:
				if gl, ok := x.Addr.(*ssa.Global); ok && gl.Pkg != nil && p.InModulePkg(gl.Pkg) {
					g, what = gl, "writes"
				}
			}
			if g == nil {
				return
			}
			k := p.FuncKey(fn) + "#" + what + ":" + g.Name()
			cnt[k]++
			if cnt[k] > 1 {
				return
			}
			l.Violate(rule, k, p.InstrPos(in), fmt.Sprintf("a text function %s the package-level variable %s: the text of a value then depends on what the program did before, not on the value alone", what, g.Name()))
		})
	}
	// the print path and the concatenation path must not pre-process numbers differently: no arithmetic/rounding
	// calls (math.*) inside the text functions
	for _, fn := range fns {
		instrsOf(fn, func(in ssa.Instruction) {
			if c, ok := in.(*ssa.Call); ok {
				if sc := c.Call.StaticCallee(); sc != nil && fnPkgPath(sc) == "math" {
					l.Violate(rule, p.FuncKey(fn)+"#math."+sc.Name(), p.InstrPos(in), "a text function pre-processes the number with math."+sc.Name()+" before formatting")
				}
			}
		})
	}
}

// checkPrintClause: the print statement writes exactly one line, NFC(text(value)), where text is the shared text
// function (stringify → fmt %v), on success paths only.
func checkPrintClause(cs *clauseSet, l *Ledger, rule string) {
	m := cs.Clauses["*ast.PrintStatement"]
	reText := regexp.MustCompile(`^NFC\((stringify\((ev\[[^\]]*\]@\S+)\.val\)@\S+|conv:string\((ev\[[^\]]*\]@\S+)\.val\))\)$`)
	mon := Monitor{Init: "start|", Step: func(s string, ev *Event) string {
		ps := strings.SplitN(s, "|", 2)
		switch ev.Op {
		case "eval":
			if ev.KV["child"] != "e.Expression" {
				return "!the print clause evaluates " + ev.KV["child"]
			}
			if ev.KV["sig"] != "0" {
				return "sig|"
			}
			return "val|" + ev.KV["res"]
		case "print", "fprint", "io":
			if ev.Op != "print" {
				return "!the print clause performs " + ev.String()
			}
			switch ps[0] {
			case "sig":
				return "!output although the operand propagated a signal"
			case "printed":
				return "!a second stdout write in one print statement: " + ev.String()
			case "start":
				return "!output before the operand is evaluated"
			}
			if ev.KV["dirty"] == "T" {
				return "!output although evaluating the operand reported an error"
			}
			if ev.KV["fn"] != "fmt.Println" || len(ev.Args) != 1 {
				return "!the value is written with " + ev.KV["fn"] + "(" + strings.Join(ev.Args, ", ") + "): exactly one operand followed by exactly one newline is required (fmt.Println of one operand)"
			}
			mm := reText.FindStringSubmatch(ev.Args[0])
			if mm == nil {
				return "!what is printed (" + ev.Args[0] + ") is not NFC(text(value))"
			}
			if mm[2] != ps[1] && mm[3] != ps[1] {
				return "!the printed text is derived from " + mm[2] + mm[3] + ", not from the statement's operand"
			}
			return "printed|" + ps[1]
		case "return":
			if ps[0] == "val" && ev.KV["raised"] != "T" {
				return "!the print statement finishes without writing its value"
			}
			return ""
		}
		return s
	}}
	runMon(l, rule, "eval/PrintStatement", m, mon, "exactly one fmt.Println(NFC(text(value))) on success paths, none otherwise")
}
