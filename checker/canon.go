package main

// Rename tolerance.  Many rules find "the function that …" by its name (eval's helpers, the scanner's sub-scanners, the
// parse functions of the grammar).  A pure rename of such a function changes no behaviour and must not change a verdict.
// Every module function of the tree the rules were confirmed on has a recorded *fingerprint* — a hash of what the
// function is made of that does not depend on any name chosen in the module's function declarations or local variables:
// its signature, the constants it uses, the struct fields it touches, the types it allocates, the library functions
// it calls, the signatures of the module functions it calls, and its instruction mix.  When an expected function is
// missing and exactly one function with an unexpected name carries exactly its fingerprint, that function *is* the
// expected one under a new name: it is given the expected key, and every rule goes on unchanged.  A function that was
// renamed and altered at once matches nothing and is reported as not found, as before.

import (
	"crypto/sha1"
	"fmt"
	"go/types"
	"sort"
	"strings"

	"golang.org/x/tools/go/ssa"
)

var canonKey = map[*ssa.Function]string{}

// fnName: the function's name as the rules know it (the expected name if it was renamed).
func fnName(fn *ssa.Function) string {
	if fn == nil {
		return ""
	}
	if k, ok := canonKey[fn]; ok {
		return k[strings.LastIndex(k, ".")+1:]
	}
	return fn.Name()
}

func fingerprint(p *Prog, fn *ssa.Function) string {
	if fn.Blocks == nil {
		return ""
	}
	q := func(pk *types.Package) string { return pk.Path() }
	var parts []string
	sig := typeString(fn.Signature, q)
	if r := fn.Signature.Recv(); r != nil {
		sig = typeString(r.Type(), q) + "." + sig
	}
	parts = append(parts, "sig:"+sig)
	var items []string
	kinds := map[string]int{}
	for _, b := range fn.Blocks {
		for _, in := range b.Instrs {
			kinds[fmt.Sprintf("%T", in)]++
			var ops []*ssa.Value
			for _, op := range in.Operands(ops) {
				if op == nil || *op == nil {
					continue
				}
				if c, ok := (*op).(*ssa.Const); ok && c.Value != nil {
					items = append(items, "k:"+typeString(c.Type(), q)+"="+c.Value.ExactString())
				}
			}
			switch x := in.(type) {
			case *ssa.FieldAddr:
				tn, f := structKey(x.X.Type(), x.Field)
				items = append(items, "f:"+tn+"."+f)
			case *ssa.Field:
				tn, f := structKey(x.X.Type(), x.Field)
				items = append(items, "f:"+tn+"."+f)
			case *ssa.Alloc:
				items = append(items, "a:"+typeString(x.Type(), q))
			case *ssa.MakeInterface:
				items = append(items, "mi:"+typeString(x.X.Type(), q))
			case *ssa.TypeAssert:
				items = append(items, "ta:"+typeString(x.AssertedType, q))
			case ssa.CallInstruction:
				c := x.Common()
				if c.IsInvoke() {
					items = append(items, "inv:"+c.Method.Name())
				} else if sc := c.StaticCallee(); sc != nil {
					if p.InModule(sc) {
						s := typeString(sc.Signature, q)
						if r := sc.Signature.Recv(); r != nil {
							s = typeString(r.Type(), q) + "." + s
						}
						items = append(items, "mc:"+s)
					} else {
						items = append(items, "xc:"+extName(sc))
					}
				} else if b, ok := c.Value.(*ssa.Builtin); ok {
					items = append(items, "b:"+b.Name())
				}
			}
		}
	}
	sort.Strings(items)
	parts = append(parts, items...)
	var ks []string
	for k, n := range kinds {
		ks = append(ks, fmt.Sprintf("%s#%d", k, n))
	}
	sort.Strings(ks)
	parts = append(parts, ks...)
	parts = append(parts, fmt.Sprintf("blocks:%d", len(fn.Blocks)))
	h := sha1.Sum([]byte(strings.Join(parts, "\n")))
	return fmt.Sprintf("%x", h[:8])
}

// resolveRenames fills canonKey for the program: expected-but-missing keys are matched to unexpected functions by
// fingerprint (unique match both ways only).
func (p *Prog) resolveRenames() []string {
	have := map[string]*ssa.Function{}
	for _, fn := range p.funcs {
		have[p.rawFuncKey(fn)] = fn
	}
	var missing []string
	for k := range expectedFuncs {
		if have[k] == nil && !strings.Contains(k, "$") {
			missing = append(missing, k)
		}
	}
	if len(missing) == 0 {
		return nil
	}
	sort.Strings(missing)
	defer p.resolveParserError(have)
	byFP := map[string][]*ssa.Function{}
	for k, fn := range have {
		if _, expected := expectedFuncs[k]; expected || fn.Parent() != nil || fn.Blocks == nil {
			continue
		}
		fp := fingerprint(p, fn)
		byFP[fp] = append(byFP[fp], fn)
	}
	wantFP := map[string]int{}
	for _, k := range missing {
		wantFP[expectedFuncs[k]]++
	}
	var notes []string
	for _, k := range missing {
		fp := expectedFuncs[k]
		if c := byFP[fp]; len(c) == 1 && wantFP[fp] == 1 {
			canonKey[c[0]] = k
			notes = append(notes, p.rawFuncKey(c[0])+" is "+k+" under a new name (same fingerprint)")
		}
	}
	return notes
}

// resolveParserError: the parser's error primitive is known by what it does when no function carries its name — the
// one function of package parser that reports through utils.GlobalErrorToken itself and returns an error (a method of
// the parser or, when it needs nothing from it, a plain function).
func (p *Prog) resolveParserError(have map[string]*ssa.Function) {
	const key = "parser.(*Parser).error"
	if have[key] != nil {
		return
	}
	for _, k := range canonKey {
		if k == key {
			return
		}
	}
	var found []*ssa.Function
	for _, fn := range p.funcs {
		if fn.Blocks == nil || fn.Parent() != nil || fn.Synthetic != "" || fn.Package() == nil || fn.Package().Pkg.Name() != "parser" {
			continue
		}
		res := fn.Signature.Results()
		if res.Len() != 1 || types.TypeString(res.At(0).Type(), nil) != "error" {
			continue
		}
		reports := false
		instrsOf(fn, func(in ssa.Instruction) {
			if c, ok := in.(*ssa.Call); ok {
				if sc := c.Call.StaticCallee(); sc != nil && sc.Package() != nil && sc.Package().Pkg.Name() == "utils" && sc.Name() == "GlobalErrorToken" {
					reports = true
				}
			}
		})
		if reports {
			found = append(found, fn)
		}
	}
	if len(found) == 1 {
		canonKey[found[0]] = key
	}
}
