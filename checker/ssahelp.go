package main

// Shared SSA helpers: dominating guards (E4), value descriptions, clause lookup (E2).

import (
	"fmt"
	"go/constant"
	"go/token"
	"go/types"
	"strings"

	"golang.org/x/tools/go/ssa"
)

// Guard is a branch condition known to hold (Truth) at the entry of a block.
type Guard struct {
	Cond  ssa.Value
	Truth bool
	If    *ssa.If
}

// GuardsAt returns the branch conditions that dominate block b with known polarity.
func GuardsAt(b *ssa.BasicBlock) []Guard {
	var out []Guard
	cur := b
	for d := b.Idom(); d != nil; d = d.Idom() {
		if len(d.Instrs) > 0 {
			if iff, ok := d.Instrs[len(d.Instrs)-1].(*ssa.If); ok && len(d.Succs) == 2 && d.Succs[0] != d.Succs[1] {
				t, f := d.Succs[0], d.Succs[1]
				if edgeDominates(d, t, b) && !edgeDominates(d, f, b) {
					out = append(out, Guard{Cond: iff.Cond, Truth: true, If: iff})
				} else if edgeDominates(d, f, b) && !edgeDominates(d, t, b) {
					out = append(out, Guard{Cond: iff.Cond, Truth: false, If: iff})
				}
			}
		}
		cur = d
	}
	_ = cur
	return out
}

// edgeDominates: every path from d to b goes through the edge d→s.
func edgeDominates(d, s, b *ssa.BasicBlock) bool {
	if !s.Dominates(b) {
		return false
	}
	// s must be entered only from d (other predecessors must be dominated by s: back edges)
	for _, p := range s.Preds {
		if p != d && !s.Dominates(p) {
			return false
		}
	}
	return true
}

// stripConv removes value-preserving wrappers (ChangeType, MakeInterface excluded).
func stripConv(v ssa.Value, sizes types.Sizes) (ssa.Value, bool) {
	truncating := false
	for {
		switch x := v.(type) {
		case *ssa.Convert:
			ft, ok1 := x.X.Type().Underlying().(*types.Basic)
			tt, ok2 := x.Type().Underlying().(*types.Basic)
			if !ok1 || !ok2 || ft.Info()&types.IsInteger == 0 || tt.Info()&types.IsInteger == 0 {
				return v, truncating
			}
			if sizes.Sizeof(tt) < sizes.Sizeof(ft) {
				truncating = true
			}
			v = x.X
		case *ssa.ChangeType:
			v = x.X
		default:
			return v, truncating
		}
	}
}

func constInt(v ssa.Value) (int64, bool) {
	c, ok := v.(*ssa.Const)
	if !ok || c.Value == nil || c.Value.Kind() != constant.Int {
		return 0, false
	}
	return constant.Int64Val(c.Value)
}

func isLenOf(v ssa.Value, s ssa.Value) bool {
	call, ok := v.(*ssa.Call)
	if !ok {
		return false
	}
	b, ok := call.Call.Value.(*ssa.Builtin)
	if !ok || b.Name() != "len" {
		return false
	}
	return sameValue(call.Call.Args[0], s)
}

func lenArg(v ssa.Value) ssa.Value {
	call, ok := v.(*ssa.Call)
	if !ok {
		return nil
	}
	b, ok := call.Call.Value.(*ssa.Builtin)
	if !ok || b.Name() != "len" {
		return nil
	}
	return call.Call.Args[0]
}

// sameValue: identical SSA value, or two loads of the same never-reassigned location.
func sameValue(a, b ssa.Value) bool {
	if a == b {
		return true
	}
	la, ok1 := a.(*ssa.UnOp)
	lb, ok2 := b.(*ssa.UnOp)
	if ok1 && ok2 && la.Op == token.MUL && lb.Op == token.MUL {
		if la.X == lb.X {
			if al, ok := la.X.(*ssa.Alloc); ok {
				return singleStore(al)
			}
		}
		fa, ok1 := la.X.(*ssa.FieldAddr)
		fb, ok2 := lb.X.(*ssa.FieldAddr)
		if ok1 && ok2 && fa.Field == fb.Field && sameValue(fa.X, fb.X) {
			return true // caller must separately establish that the field is not written in between
		}
	}
	return false
}

func singleStore(al *ssa.Alloc) bool {
	n := 0
	for _, r := range *al.Referrers() {
		if st, ok := r.(*ssa.Store); ok && st.Addr == al {
			n++
		}
	}
	return n <= 1
}

// forwardLoad: for a load of a single-store local, return the stored value.
func forwardLoad(v ssa.Value) ssa.Value {
	for {
		u, ok := v.(*ssa.UnOp)
		if !ok || u.Op != token.MUL {
			return v
		}
		al, ok := u.X.(*ssa.Alloc)
		if !ok {
			return v
		}
		var st *ssa.Store
		n := 0
		for _, r := range *al.Referrers() {
			if s, ok := r.(*ssa.Store); ok && s.Addr == al {
				st = s
				n++
			}
		}
		if n != 1 {
			return v
		}
		v = st.Val
	}
}

// describe renders an SSA value as a position-independent access path (for construct keys).
func describe(v ssa.Value) string {
	return describeN(v, 0)
}

func describeN(v ssa.Value, depth int) string {
	if depth > 8 {
		return "…"
	}
	switch x := v.(type) {
	case *ssa.Parameter:
		return x.Name()
	case *ssa.Const:
		if x.Value == nil {
			return "nil"
		}
		return x.Value.ExactString()
	case *ssa.Global:
		return x.Pkg.Pkg.Name() + "." + x.Name()
	case *ssa.Function:
		return x.Name()
	case *ssa.FieldAddr:
		if promotedThrough(x.X.Type(), x.Field) {
			return describeN(x.X, depth+1)
		}
		return describeN(x.X, depth+1) + "." + fieldName(x.X.Type(), x.Field)
	case *ssa.Field:
		if promotedThrough(x.X.Type(), x.Field) {
			return describeN(x.X, depth+1)
		}
		return describeN(x.X, depth+1) + "." + fieldName(x.X.Type(), x.Field)
	case *ssa.UnOp:
		if x.Op == token.MUL {
			return describeN(x.X, depth+1)
		}
		return x.Op.String() + describeN(x.X, depth+1)
	case *ssa.IndexAddr:
		return describeN(x.X, depth+1) + "[" + describeN(x.Index, depth+1) + "]"
	case *ssa.Index:
		return describeN(x.X, depth+1) + "[" + describeN(x.Index, depth+1) + "]"
	case *ssa.Extract:
		return describeN(x.Tuple, depth+1) + "#" + fmt.Sprint(x.Index)
	case *ssa.TypeAssert:
		return describeN(x.X, depth+1) + ".(" + typeString(x.AssertedType, func(p *types.Package) string { return p.Name() }) + ")"
	case *ssa.MakeInterface:
		return describeN(x.X, depth+1)
	case *ssa.ChangeType:
		return describeN(x.X, depth+1)
	case *ssa.ChangeInterface:
		return describeN(x.X, depth+1)
	case *ssa.Convert:
		return typeString(x.Type(), nil) + "(" + describeN(x.X, depth+1) + ")"
	case *ssa.Call:
		name := "call"
		if c := x.Call.StaticCallee(); c != nil {
			name = fnName(c)
		} else if x.Call.IsInvoke() {
			name = describeN(x.Call.Value, depth+1) + "." + x.Call.Method.Name()
		} else if b, ok := x.Call.Value.(*ssa.Builtin); ok {
			name = b.Name()
		}
		var args []string
		for _, a := range x.Call.Args {
			args = append(args, describeN(a, depth+1))
		}
		return name + "(" + strings.Join(args, ",") + ")"
	case *ssa.BinOp:
		return "(" + describeN(x.X, depth+1) + x.Op.String() + describeN(x.Y, depth+1) + ")"
	case *ssa.Phi:
		var parts []string
		for _, e := range x.Edges {
			if e == v {
				parts = append(parts, "self")
				continue
			}
			parts = append(parts, describeN(e, depth+3))
		}
		return "φ(" + strings.Join(parts, "|") + ")"
	case *ssa.Alloc:
		if x.Comment != "" {
			return "&" + x.Comment
		}
		return "&alloc"
	case *ssa.Slice:
		return describeN(x.X, depth+1) + "[:]"
	case *ssa.Lookup:
		return describeN(x.X, depth+1) + "[" + describeN(x.Index, depth+1) + "]"
	case *ssa.Next:
		return "next(" + describeN(x.Iter, depth+1) + ")"
	case *ssa.Range:
		return "range(" + describeN(x.X, depth+1) + ")"
	case *ssa.MakeMap:
		return "make(map)"
	case *ssa.MakeSlice:
		return "make(slice)"
	}
	return v.Name()
}

// typeName without package path qualification beyond the package name.
func typeStr(t types.Type) string {
	return typeString(t, func(p *types.Package) string { return p.Name() })
}

// typeString is types.TypeString with the predeclared alias `any` written out as interface{} wherever it occurs: the two
// spellings are one type, and every table of the analysis is keyed by the printed form.
func typeString(t types.Type, q types.Qualifier) string {
	s := types.TypeString(t, q)
	if !strings.Contains(s, "any") {
		return s
	}
	isWord := func(c byte) bool {
		return c == '_' || c >= '0' && c <= '9' || c >= 'a' && c <= 'z' || c >= 'A' && c <= 'Z' || c >= 0x80
	}
	var b strings.Builder
	for i := 0; i < len(s); {
		if strings.HasPrefix(s[i:], "any") && (i == 0 || (!isWord(s[i-1]) && s[i-1] != '.')) && (i+3 == len(s) || !isWord(s[i+3])) {
			b.WriteString("interface{}")
			i += 3
			continue
		}
		b.WriteByte(s[i])
		i++
	}
	return b.String()
}

// instrsOf iterates over all instructions of a function.
func instrsOf(fn *ssa.Function, f func(in ssa.Instruction)) {
	for _, b := range fn.Blocks {
		for _, in := range b.Instrs {
			f(in)
		}
	}
}

// findEval locates the evaluator: the method of interpreter.Interpreter that takes an ast.Expr and
// dispatches on it with a type switch (>= 10 comma-ok assertions on that parameter).
func (p *Prog) findEval() *ssa.Function {
	var best *ssa.Function
	bestN := 0
	for _, fn := range p.ModuleFuncs() {
		if fn.Package() == nil || fn.Package().Pkg.Name() != "interpreter" {
			continue
		}
		n := 0
		instrsOf(fn, func(in ssa.Instruction) {
			if ta, ok := in.(*ssa.TypeAssert); ok && ta.CommaOk {
				if _, isParam := ta.X.(*ssa.Parameter); isParam {
					if nt := namedOf(ta.AssertedType); nt != nil && nt.Obj().Pkg() != nil && nt.Obj().Pkg().Name() == "ast" {
						n++
					}
				}
			}
		})
		if n > bestN {
			best, bestN = fn, n
		}
	}
	if bestN < 10 {
		return nil
	}
	return best
}

// astNodeTypes lists the struct types declared in package ast that implement ast.Expr (by pointer).
func (p *Prog) astNodeTypes() []*types.Named {
	pk := p.TPkg("ast")
	if pk == nil {
		return nil
	}
	exprObj := pk.Types.Scope().Lookup("Expr")
	if exprObj == nil {
		return nil
	}
	iface, ok := exprObj.Type().Underlying().(*types.Interface)
	if !ok {
		return nil
	}
	var out []*types.Named
	for _, n := range pk.Types.Scope().Names() {
		tn, ok := pk.Types.Scope().Lookup(n).(*types.TypeName)
		if !ok {
			continue
		}
		named, ok := tn.Type().(*types.Named)
		if !ok {
			continue
		}
		if _, isStruct := named.Underlying().(*types.Struct); !isStruct {
			continue
		}
		if types.Implements(types.NewPointer(named), iface) {
			out = append(out, named)
		}
	}
	return out
}

// tokenConst returns the value of a token.TokenType constant by name.
func (p *Prog) tokenConst(name string) (int64, bool) {
	pk := p.TPkg("token")
	if pk == nil {
		return 0, false
	}
	c, ok := pk.Types.Scope().Lookup(name).(*types.Const)
	if !ok {
		return 0, false
	}
	return constant.Int64Val(c.Val())
}

// tokenNames maps TokenType values to their constant names.
func (p *Prog) tokenNames() map[int64]string {
	out := map[int64]string{}
	pk := p.TPkg("token")
	if pk == nil {
		return out
	}
	for _, n := range pk.Types.Scope().Names() {
		if c, ok := pk.Types.Scope().Lookup(n).(*types.Const); ok {
			if nt, ok := c.Type().(*types.Named); ok && nt.Obj().Name() == "TokenType" {
				if v, ok := constant.Int64Val(c.Val()); ok {
					out[v] = n
				}
			}
		}
	}
	return out
}

// boundedCountingLoop: is the loop headed by hdr a counting loop  for i := a; i < n; i++  (or i <= n, n > i …) whose bound n
// is loop-invariant — a value, or the len() of a value, defined before the loop?  Such a loop makes at most n-a iterations
// like a range loop (SSA slice values are immutable headers, so len(x) of an outside x cannot grow inside the loop).
func boundedCountingLoop(hdr *ssa.BasicBlock) bool { return countingLoopWith(hdr, true) }

// countingLoopWith: astInvariant also accepts, as a loop-invariant bound, the len() of a field of an AST node loaded
// inside the loop (the tree is never written after parsing — C04/S5 decides that).
func countingLoopWith(hdr *ssa.BasicBlock, astInvariant bool) bool {
	if len(hdr.Instrs) == 0 {
		return false
	}
	iff, ok := hdr.Instrs[len(hdr.Instrs)-1].(*ssa.If)
	if !ok {
		return false
	}
	bo, ok := iff.Cond.(*ssa.BinOp)
	if !ok {
		return false
	}
	var ctr, bound ssa.Value
	up := true
	isHdrPhi := func(v ssa.Value) bool { ph, ok := v.(*ssa.Phi); return ok && ph.Block() == hdr }
	switch bo.Op {
	case token.LSS, token.LEQ:
		if isHdrPhi(bo.X) {
			ctr, bound = bo.X, bo.Y // i < n
		} else {
			ctr, bound, up = bo.Y, bo.X, false // n < i: counting down to n
		}
	case token.GTR, token.GEQ:
		if isHdrPhi(bo.Y) {
			ctr, bound = bo.Y, bo.X // n > i
		} else {
			ctr, bound, up = bo.X, bo.Y, false // i >= n: counting down to n
		}
	default:
		return false
	}
	phi, ok := ctr.(*ssa.Phi)
	if !ok || phi.Block() != hdr {
		return false
	}
	// every edge from inside the loop carries ctr+k (counting up) or ctr-k (counting down), k >= 1
	stepped := false
	for i, e := range phi.Edges {
		pred := hdr.Preds[i]
		inLoop := hdr.Dominates(pred)
		if !inLoop {
			continue
		}
		add, ok := e.(*ssa.BinOp)
		if !ok || (add.Op != token.ADD && add.Op != token.SUB) {
			return false
		}
		k, isK := constInt(add.Y)
		if add.Op == token.SUB {
			k = -k
		}
		if add.X != phi || !isK || (up && k < 1) || (!up && k > -1) {
			return false
		}
		stepped = true
	}
	if !stepped {
		return false
	}
	outside := func(v ssa.Value) bool {
		switch x := v.(type) {
		case *ssa.Const, *ssa.Parameter, *ssa.FreeVar:
			return true
		case ssa.Instruction:
			b := x.Block()
			return b != nil && b != hdr && b.Dominates(hdr)
		}
		return false
	}
	astField := func(v ssa.Value) bool {
		u, ok := v.(*ssa.UnOp)
		if !ok || u.Op != token.MUL {
			return false
		}
		fa, ok := u.X.(*ssa.FieldAddr)
		if !ok {
			return false
		}
		tn, _ := structKey(fa.X.Type(), fa.Field)
		return strings.HasPrefix(tn, "ast.") && outside(fa.X)
	}
	if la := lenArg(bound); la != nil {
		return outside(la) || (astInvariant && astField(la))
	}
	return outside(bound)
}

var rangeLikeCache = map[*ssa.BasicBlock]*ssa.Phi{}
var rangeLikeDone = map[*ssa.BasicBlock]bool{}

// rangeLikeCounter: if hdr heads a loop `for k := 0; k < len(xs); k++` (xs defined before the loop, or a field of an AST
// node, which nothing writes after parsing), the counter φ — such a loop visits xs[0], xs[1], … exactly like `for k :=
// range xs`, and the abstract machine treats its counter as it treats the hidden counter of a lowered range loop.
func rangeLikeCounter(hdr *ssa.BasicBlock) *ssa.Phi {
	if rangeLikeDone[hdr] {
		return rangeLikeCache[hdr]
	}
	rangeLikeDone[hdr] = true
	if strings.HasPrefix(hdr.Comment, "rangeindex.loop") || len(hdr.Instrs) == 0 {
		return nil
	}
	iff, ok := hdr.Instrs[len(hdr.Instrs)-1].(*ssa.If)
	if !ok {
		return nil
	}
	bo, ok := iff.Cond.(*ssa.BinOp)
	if !ok || bo.Op != token.LSS || lenArg(bo.Y) == nil {
		return nil
	}
	phi, ok := bo.X.(*ssa.Phi)
	if !ok || phi.Block() != hdr || !countingLoopWith(hdr, true) {
		return nil
	}
	for i, e := range phi.Edges {
		if hdr.Dominates(hdr.Preds[i]) {
			add, ok := e.(*ssa.BinOp)
			if !ok || add.Op != token.ADD || add.X != ssa.Value(phi) {
				return nil
			}
			if k, ok := constInt(add.Y); !ok || k != 1 {
				return nil
			}
		} else if k, ok := constInt(e); !ok || k != 0 {
			return nil
		}
	}
	rangeLikeCache[hdr] = phi
	return phi
}

var revRangeCache = map[*ssa.BasicBlock]*ssa.Phi{}
var revRangeList = map[*ssa.BasicBlock]ssa.Value{}
var revRangeDone = map[*ssa.BasicBlock]bool{}

// revRangeCounter: if hdr heads a loop `for k := len(xs) - 1; k >= 0; k--` over a list xs defined before the loop, the
// counter φ and xs — the loop visits xs[len-1], …, xs[0], each once: a range loop run backwards.  The abstract machine
// treats the counter as a fresh symbolic index per iteration (as it does for range loops), so the loop is summarised
// instead of being unrolled with an ever longer index expression.
func revRangeCounter(hdr *ssa.BasicBlock) (*ssa.Phi, ssa.Value) {
	if revRangeDone[hdr] {
		return revRangeCache[hdr], revRangeList[hdr]
	}
	revRangeDone[hdr] = true
	if len(hdr.Instrs) == 0 {
		return nil, nil
	}
	iff, ok := hdr.Instrs[len(hdr.Instrs)-1].(*ssa.If)
	if !ok {
		return nil, nil
	}
	bo, ok := iff.Cond.(*ssa.BinOp)
	if !ok {
		return nil, nil
	}
	var ctr ssa.Value
	switch {
	case bo.Op == token.GEQ && isConstInt(bo.Y, 0), bo.Op == token.GTR && isConstInt(bo.Y, -1):
		ctr = bo.X
	case bo.Op == token.LEQ && isConstInt(bo.X, 0), bo.Op == token.LSS && isConstInt(bo.X, -1):
		ctr = bo.Y
	default:
		return nil, nil
	}
	phi, ok := ctr.(*ssa.Phi)
	if !ok || phi.Block() != hdr || len(hdr.Succs) != 2 || !hdr.Dominates(hdr.Succs[0]) {
		return nil, nil
	}
	var list ssa.Value
	for i, e := range phi.Edges {
		if hdr.Dominates(hdr.Preds[i]) {
			sub, ok := e.(*ssa.BinOp)
			if !ok || sub.Op != token.SUB || sub.X != ssa.Value(phi) || !isConstInt(sub.Y, 1) {
				return nil, nil
			}
			continue
		}
		init, ok := e.(*ssa.BinOp)
		if !ok || init.Op != token.SUB || !isConstInt(init.Y, 1) {
			return nil, nil
		}
		la := lenArg(init.X)
		if la == nil || (list != nil && list != la) {
			return nil, nil
		}
		if in, isInstr := la.(ssa.Instruction); isInstr && in.Block() != nil && hdr.Dominates(in.Block()) {
			return nil, nil
		}
		list = la
	}
	if list == nil {
		return nil, nil
	}
	revRangeCache[hdr], revRangeList[hdr] = phi, list
	return phi, list
}

func isConstInt(v ssa.Value, k int64) bool {
	c, ok := constInt(v)
	return ok && c == k
}

// correlatedReturns: v = extract #idx of a call to a module function with several results (value, ok) / (value, err) /
// (signal, stop), used in block `at`.  The guards that dominate `at` and test *other* results of the same call (err ==
// nil, ok, stop) select which return statements of the callee can have produced v: a return whose tested result is a
// constant (or a freshly made value) contradicting the guard is excluded.  Returns the values the remaining returns
// put at position idx (nil, false when the call is not of that form).
func correlatedReturns(p *Prog, ex *ssa.Extract, at *ssa.BasicBlock) ([]ssa.Value, bool) {
	call, ok := ex.Tuple.(*ssa.Call)
	if !ok {
		return nil, false
	}
	callee := call.Call.StaticCallee()
	if callee == nil || callee.Blocks == nil || !p.InModule(callee) {
		return nil, false
	}
	type want struct {
		idx    int
		isNil  *bool // result idx must (not) be nil
		isTrue *bool // boolean result idx must be true/false
	}
	var wants []want
	for _, g := range GuardsAt(at) {
		switch c := g.Cond.(type) {
		case *ssa.Extract:
			if c.Tuple == ex.Tuple && c.Index != ex.Index {
				t := g.Truth
				wants = append(wants, want{idx: c.Index, isTrue: &t})
			}
		case *ssa.UnOp:
			if e2, ok := c.X.(*ssa.Extract); ok && c.Op == token.NOT && e2.Tuple == ex.Tuple && e2.Index != ex.Index {
				t := !g.Truth
				wants = append(wants, want{idx: e2.Index, isTrue: &t})
			}
		case *ssa.BinOp:
			if c.Op != token.EQL && c.Op != token.NEQ {
				continue
			}
			var other ssa.Value
			if isNilConst(c.Y) {
				other = c.X
			} else if isNilConst(c.X) {
				other = c.Y
			}
			if e2, ok := other.(*ssa.Extract); ok && e2.Tuple == ex.Tuple && e2.Index != ex.Index {
				n := (c.Op == token.EQL) == g.Truth
				wants = append(wants, want{idx: e2.Index, isNil: &n})
			}
		}
	}
	var out []ssa.Value
	instrsOf(callee, func(in ssa.Instruction) {
		ret, ok := in.(*ssa.Return)
		if !ok || ex.Index >= len(ret.Results) {
			return
		}
		for _, w := range wants {
			if w.idx >= len(ret.Results) {
				continue
			}
			r := ret.Results[w.idx]
			if w.isNil != nil {
				knownNil := isNilConst(r)
				knownNonNil := false
				switch y := r.(type) {
				case *ssa.Alloc, *ssa.MakeInterface, *ssa.MakeMap, *ssa.MakeSlice, *ssa.MakeClosure:
					knownNonNil = true
				case *ssa.Call:
					if sc := y.Call.StaticCallee(); sc != nil && (extName(sc) == "fmt.Errorf" || extName(sc) == "errors.New") {
						knownNonNil = true
					}
				case *ssa.Extract:
					// the signal of an evaluation is never nil (C07/P6 return-signal, decided separately)
					if c, ok := y.Tuple.(*ssa.Call); ok && y.Index == 1 && c.Call.StaticCallee() != nil && c.Call.StaticCallee() == p.findEval() {
						knownNonNil = true
					}
				}
				if (*w.isNil && knownNonNil) || (!*w.isNil && knownNil) {
					return // this return cannot be the one the guard let through
				}
			}
			if w.isTrue != nil {
				if c, ok := r.(*ssa.Const); ok && c.Value != nil && c.Value.Kind() == constant.Bool && constant.BoolVal(c.Value) != *w.isTrue {
					return
				}
			}
		}
		out = append(out, ret.Results[ex.Index])
	})
	return out, true
}
