package main

func runThorough(id string, c *Checker, p *Prog, l *Ledger, repo string) {}
