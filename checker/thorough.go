package main

// Thorough tier.  Still static analysis only — nothing of the analysed program is executed.  Three extensions of
// the quick tier:
//
//  T1  the same rules are re-decided on the program as the compiler sees it under other build configurations
//      (GOOS/GOARCH pairs and the `verif` build tag), so a file that is only compiled elsewhere (a _windows.go
//      variant of the REPL reader, a 32-bit int overflow in an index computation) is analysed too; the
//      obligations of every configuration are merged into one ledger (worst status wins per rule+construct).
//  T2  the abstract machine runs with wider limits (inlining depth, state budget); rules whose quick scope is
//      "reachable from main" are widened to every module function where the rule file says so (C07, C13).
//  T3  sensitivity self-test: every change recorded under /verif/seeded/<id>-*/patch.diff that breaks this
//      property is applied to a scratch copy of the tree being analysed (outside /repo and /verif, removed
//      afterwards) and the quick check is run on the copy in a fresh process; it must report a violation.  The
//      result is written to the evidence file.  A silent rule fails the thorough check only when the analysed
//      tree is the commit the changes were recorded against (seeded/BASE) — on any other tree a recorded patch
//      may apply and yet no longer break the property, so there the result is advisory.

import (
	"encoding/json"
	"fmt"
	"os"
	"os/exec"
	"path/filepath"
	"runtime"
	"sort"
	"strings"
	"sync"
	"time"
)

var thoroughMode bool

var altConfigs = [][]string{
	{"GOOS=windows", "GOARCH=386"},
	{"GOOS=darwin", "GOARCH=arm64"},
	{"GOOS=linux", "GOARCH=amd64", "GOFLAGS=-mod=mod -tags=verif"},
}

func runThorough(id string, c *Checker, p *Prog, l *Ledger, repo string) {
	// T1
	var cfgNames []string
	for _, cfg := range altConfigs {
		name := strings.Join(cfg, " ")
		p2, err := Load(repo, cfg...)
		if err != nil {
			l.Undecide("thorough/config", name, "", "the tree does not load under this build configuration: "+err.Error())
			continue
		}
		l2 := NewLedger(id, l.Tier, l.Seed, l.VerifDir)
		func() {
			defer func() {
				if r := recover(); r != nil {
					l.Undecide("infrastructure", "checker-panic["+name+"]", "", fmt.Sprintf("checker panicked: %v", r))
				}
			}()
			c.Run(p2, l2)
		}()
		bad := 0
		for _, o := range l2.Obls {
			if o.Status != Discharged {
				bad++
				o.Why = "[" + name + "] " + o.Why
			}
			l.add(o)
		}
		for f := range l2.Funcs {
			l.Funcs[f] = true
		}
		l.Paths += l2.Paths
		l.States += l2.States
		cfgNames = append(cfgNames, fmt.Sprintf("%s: %d packages, %d module functions, %d obligations, %d not discharged", name, len(p2.Pkgs), len(p2.ModuleFuncs()), len(l2.Obls), bad))
		// the program of this configuration is not needed any more: drop it and everything cached for it
		delete(lexCache, p2)
		delete(clauseCache, p2)
		delete(interpInfoCache, p2)
		delete(parserCache, p2)
		delete(universeCache, p2)
		delete(wiringCache, p2)
		p2 = nil
		runtime.GC()
	}
	l.Extra["build_configurations"] = append([]string{fmt.Sprintf("default: %d packages, %d module functions", len(p.Pkgs), len(p.ModuleFuncs()))}, cfgNames...)
	// T3
	selfTest(id, l, repo)
}

type seedResult struct {
	Seed    string `json:"seed"`
	Outcome string `json:"outcome"` // fired | silent | skipped
	Detail  string `json:"detail,omitempty"`
}

func selfTest(id string, l *Ledger, repo string) {
	seedRoot := filepath.Join(l.VerifDir, "seeded")
	if _, err := os.Stat(seedRoot); err != nil {
		// scratch runs and copies of /verif without the seeds: nothing to test
		if alt := "/verif/seeded"; l.VerifDir != "/verif" {
			if _, err2 := os.Stat(alt); err2 == nil {
				seedRoot = alt
			} else {
				l.Extra["self_test"] = "no seeded changes available"
				return
			}
		} else {
			l.Extra["self_test"] = "no seeded changes available"
			return
		}
	}
	dirs, _ := filepath.Glob(filepath.Join(seedRoot, "*", "meta.json"))
	sort.Strings(dirs)
	var mine []string
	for _, m := range dirs {
		b, err := os.ReadFile(m)
		if err != nil {
			continue
		}
		var meta struct {
			Breaks string `json:"breaks_property"`
		}
		if json.Unmarshal(b, &meta) == nil && meta.Breaks == id {
			mine = append(mine, filepath.Dir(m))
		}
	}
	base, _ := os.ReadFile(filepath.Join(seedRoot, "BASE"))
	head, _ := exec.Command("git", "-C", repo, "rev-parse", "HEAD").Output()
	strict := strings.TrimSpace(string(base)) != "" && strings.TrimSpace(string(base)) == strings.TrimSpace(string(head)) && gitStatus(repo) == ""
	self, err := os.Executable()
	if err != nil {
		l.Extra["self_test"] = "cannot locate own binary: " + err.Error()
		return
	}
	results := make([]seedResult, len(mine))
	var wg sync.WaitGroup
	// each child process holds a whole program in memory (1–2 GB): two at a time, one when memory is short
	width := 2
	if memAvailableGB() < 24 {
		width = 1
	}
	sem := make(chan bool, width)
	for i, d := range mine {
		wg.Add(1)
		go func(i int, d string) {
			defer wg.Done()
			sem <- true
			defer func() { <-sem }()
			for w := 0; w < 60 && memAvailableGB() < 6; w++ {
				time.Sleep(time.Second) // other checks are running: wait for memory rather than be killed
			}
			results[i] = runSeed(self, id, d, repo, l.VerifDir)
		}(i, d)
	}
	wg.Wait()
	fired, silent, skipped := 0, 0, 0
	for _, r := range results {
		switch r.Outcome {
		case "fired":
			fired++
		case "silent":
			silent++
			if strict {
				l.Undecide("thorough/self-test", r.Seed, "", "the recorded property-breaking change "+r.Seed+" applies to this tree and the quick check stays silent on it: the checker has lost the rule that caught it")
			}
		default:
			skipped++
		}
	}
	l.Extra["self_test"] = map[string]interface{}{
		"what":    "each recorded property-breaking change (seeded/<id>/patch.diff) applied to a scratch copy; the quick check must report a violation there",
		"strict":  strict,
		"fired":   fired,
		"silent":  silent,
		"skipped": skipped,
		"results": results,
	}
}

func runSeed(self, id, seedDir, repo, verifDir string) seedResult {
	name := filepath.Base(seedDir)
	tmp, err := os.MkdirTemp("", "bornocheck-seed-")
	if err != nil {
		return seedResult{name, "skipped", err.Error()}
	}
	defer os.RemoveAll(tmp)
	dst := filepath.Join(tmp, "tree")
	// copy the working tree (without .git)
	cp := exec.Command("sh", "-c", fmt.Sprintf("mkdir -p %q && cd %q && tar --exclude=.git -cf - . | tar -xf - -C %q", dst, repo, dst))
	if out, err := cp.CombinedOutput(); err != nil {
		return seedResult{name, "skipped", "copy failed: " + string(out)}
	}
	ap := exec.Command("git", "apply", "--whitespace=nowarn", filepath.Join(seedDir, "patch.diff"))
	ap.Dir = dst
	if out, err := ap.CombinedOutput(); err != nil {
		return seedResult{name, "skipped", "patch does not apply to the analysed tree: " + firstLine(string(out))}
	}
	cmd := exec.Command(self, "-property", id, "-tier", "quick", "-repo", dst, "-verif", verifDir, "-scratch")
	cmd.Env = append(os.Environ(), "VERIF_TIER=quick")
	out, err := cmd.CombinedOutput()
	txt := string(out)
	if strings.Contains(txt, "infrastructure") && strings.Contains(txt, "type errors") {
		return seedResult{name, "skipped", "the changed tree does not compile: " + firstLine(txt)}
	}
	if err != nil && strings.Contains(txt, "VIOLATION property="+id) {
		for _, ln := range strings.Split(txt, "\n") {
			if strings.HasPrefix(ln, "VIOLATED") || strings.HasPrefix(ln, "UNDECIDED") {
				if len(ln) > 300 {
					ln = ln[:300]
				}
				return seedResult{name, "fired", ln}
			}
		}
		return seedResult{name, "fired", ""}
	}
	if err != nil {
		// neither a clean pass nor a report: the child process itself failed (killed for memory, crashed)
		if ee, ok := err.(*exec.ExitError); !ok || ee.ExitCode() != 1 {
			return seedResult{name, "skipped", "the checker process for the changed tree did not finish: " + err.Error()}
		}
	}
	return seedResult{name, "silent", firstLine(txt)}
}

func firstLine(s string) string {
	s = strings.TrimSpace(s)
	if i := strings.IndexByte(s, '\n'); i >= 0 {
		s = s[:i]
	}
	if len(s) > 300 {
		s = s[:300]
	}
	return s
}

// memAvailableGB reads MemAvailable from /proc/meminfo (a large value when it cannot be read).
func memAvailableGB() float64 {
	b, err := os.ReadFile("/proc/meminfo")
	if err != nil {
		return 1 << 20
	}
	for _, ln := range strings.Split(string(b), "\n") {
		if strings.HasPrefix(ln, "MemAvailable:") {
			var kb float64
			fmt.Sscanf(strings.TrimSpace(strings.TrimPrefix(ln, "MemAvailable:")), "%f", &kb)
			return kb / (1 << 20)
		}
	}
	return 1 << 20
}
