package main

import (
	"flag"
	"fmt"
	"os"
	"sort"
	"strconv"
	"strings"
)

type Checker struct {
	Run     func(p *Prog, l *Ledger)
	Explain string
	Rule    string
	Trusted []string
	Assume  []string
}

var registry = map[string]*Checker{}

func register(id string, c *Checker) { registry[id] = c }

func main() {
	prop := flag.String("property", "", "property id (C01..C20)")
	tier := flag.String("tier", "", "quick|thorough (default from VERIF_TIER or quick)")
	repo := flag.String("repo", "/repo", "repository to analyse")
	verif := flag.String("verif", "/verif", "verification directory (evidence, known findings, replay)")
	list := flag.Bool("list", false, "list registered properties")
	noEvidence := flag.Bool("scratch", false, "scratch mode: analyse -repo but write evidence/replay under a temp dir (used by the mutation harness)")
	dbg := flag.String("debug", "", "developer aid: dump an event graph")
	flag.Parse()
	if *dbg != "" {
		p, err := Load(*repo)
		if err != nil {
			fmt.Println(err)
			os.Exit(2)
		}
		debugDump(p, *dbg)
		return
	}
	if *list {
		var ids []string
		for id := range registry {
			ids = append(ids, id)
		}
		sort.Strings(ids)
		fmt.Println(strings.Join(ids, " "))
		return
	}
	if *tier == "" {
		*tier = os.Getenv("VERIF_TIER")
		if *tier == "" {
			*tier = "quick"
		}
	}
	seed := 0
	if s := os.Getenv("VERIF_SEED"); s != "" {
		seed, _ = strconv.Atoi(s)
	}
	c := registry[*prop]
	if c == nil {
		fmt.Printf("unknown property %q\n", *prop)
		os.Exit(2)
	}
	outDir := *verif
	if *noEvidence {
		d, err := os.MkdirTemp("", "bornocheck-scratch-")
		if err != nil {
			fmt.Println(err)
			os.Exit(2)
		}
		defer os.RemoveAll(d)
		// the known-findings file still applies in scratch mode
		if b, err := os.ReadFile(*verif + "/known_findings.json"); err == nil {
			os.WriteFile(d+"/known_findings.json", b, 0o644)
		}
		outDir = d
	}
	code := runProperty(*prop, c, *tier, seed, *repo, outDir)
	if *noEvidence {
		os.RemoveAll(outDir)
	}
	os.Exit(code)
}

func runProperty(id string, c *Checker, tier string, seed int, repo, verif string) int {
	l := NewLedger(id, tier, seed, verif)
	l.Explain, l.RuleText, l.Trusted, l.Assume = c.Explain, c.Rule, c.Trusted, c.Assume
	cmd := fmt.Sprintf("/verif/bin/bornocheck -property %s -tier %s -repo %s", id, tier, repo)
	p, err := Load(repo)
	if err != nil {
		l.Undecide("infrastructure", "load", "", err.Error())
		return l.Finish(cmd)
	}
	l.Extra["packages_loaded"] = len(p.Pkgs)
	l.Extra["module_functions"] = len(p.ModuleFuncs())
	func() {
		defer func() {
			if r := recover(); r != nil {
				l.Undecide("infrastructure", "checker-panic", "", fmt.Sprintf("checker panicked: %v", r))
			}
		}()
		thoroughMode = tier == "thorough"
		c.Run(p, l)
		if tier == "thorough" {
			runThorough(id, c, p, l, repo)
		}
	}()
	if after := gitStatus(repo); after != p.gitStat {
		l.Undecide("infrastructure", "repo-modified-during-check", "", "git status of the analysed tree changed while the check ran")
	}
	return l.Finish(cmd)
}
