package main

import (
	"fmt"
	"os"
	"path/filepath"
	"regexp"
	"sort"
	"strings"
)

func init() {
	register("C01", &Checker{
		Run: func(p *Prog, l *Ledger) {
			checkC01(p, l)
			// the corollary "parentheses that agree with the ladder never change what a program prints" needs the evaluator to
			// follow the tree it is given: nothing outside its dispatch looks at the kind of a sub-expression (rule of C16/C18)
			checkNodeKindTests(p, l, "C01/S6-evaluator-follows-tree")
		},
		Explain: "Decided by validating the parser against the published grammar, production by production (a recursive-descent parser is its grammar): " +
			"S1 ladder agreement — from the explored event graph of every expression-level parse function the operand callee, the operator token set of its repetition and the right-operand callee are extracted; the chain assignment → … → unary → call → primary must equal, level for level and in order, the chain of grammer.txt's বাংলা section (terminals mapped to token types through the scanner/keyword tables), and README's 'simplified' ladder must be an order-preserving sub-chain. " +
			"S2 associativity — on every explored path of a binary level the node built in iteration i has Left = the value carried from iteration i-1 (the first operand for i=1), Operator = the token just matched, Right = the operand parsed in this iteration, and the function returns the last node: left association; assignment parses its right side by calling itself (right association) and rewrites exactly Identifier/ArrayAccess/PropertyAccess targets into the three assignment nodes with the target's own parts; a prefix operator's operand is parsed by unary itself, and both operands of ** are unary (prefix binds tighter than **). " +
			"S3 postfix chain — call parses primary, then loops over the three suffix forms, each wrapping the value carried so far as Callee / Array / Object. S4 dangling else — in IfStatement the else test follows the then-branch immediately and the else branch is a statement. " +
			"S5 node wiring — for every node kind the parser builds, each field is fed from the sub-parse result, token or carried value that the reference table names, in source order. " +
			"Not decided: that the token list is right (C09); the corollary 'adding parentheses never changes what a program prints' (needs evaluation).",
		Rule:    "obligation = (rule, parse function / ladder level / node kind); non-trivial: all",
		Trusted: []string{"grammer.txt and README as oracles", "abstract machine + parser model"},
	})
}

// pathWiring interprets one event path of a parse function: it names every value by how it was obtained
// and records the field wiring of each node built on the path.
type nodeInst struct {
	kind   string
	id     string
	fields map[string]string
	pos    string
	opOrd  int // which successful match of the path produced the token stored as Operator (0: unknown)
}

type pathInfo struct {
	desc     map[string]string
	nodes    []*nodeInst
	calls    []string // callee names of successful calls, in order
	ret      string   // description of the returned node
	ok       bool
	matches  []string // token sets of successful match events, in order
	events   []*Event
	callArg  map[*Event][]string // arguments of successful calls, described as of the time of the call
	appended map[*Event]string   // append event → what was appended, described at that point of the path
}

func resolveDesc(desc map[string]string, v string) string {
	if d, ok := desc[v]; ok {
		return d
	}
	// longest known prefix followed by a field path
	best := ""
	for k := range desc {
		if strings.HasPrefix(v, k) && len(k) > len(best) && (len(v) == len(k) || v[len(k)] == '.' || v[len(k)] == '[') {
			best = k
		}
	}
	if best != "" {
		return desc[best] + v[len(best):]
	}
	return v
}

func interpretPath(w []*Event) *pathInfo {
	pi := &pathInfo{desc: map[string]string{}, events: w, callArg: map[*Event][]string{}, appended: map[*Event]string{}}
	callCount := map[string]int{}
	nodeCount := map[string]int{}
	byObj := map[string]*nodeInst{}
	prevInst := map[string]string{} // object name → id of the instance previously built at that site
	nMatch := 0                     // successful matches so far
	tokOrd := map[string]int{}      // token value name → ordinal of the match it is the token of
	for _, e := range w {
		switch e.Op {
		case "call":
			if e.Out == "ok" {
				for _, a := range e.Args[1:] {
					pi.callArg[e] = append(pi.callArg[e], resolveDesc(pi.desc, a))
				}
				callCount[e.Args[0]]++
				pi.desc[e.KV["res"]] = fmt.Sprintf("%s#%d", e.Args[0], callCount[e.Args[0]])
				pi.calls = append(pi.calls, e.Args[0])
			}
		case "consume":
			if e.Out == "ok" {
				pi.desc[e.KV["res"]] = "tok:" + e.Args[0]
			}
		case "match":
			if e.Out == "true" {
				pi.matches = append(pi.matches, e.KV["set"])
				nMatch++
			}
		case "previous":
			pi.desc[e.KV["res"]] = "prev:" + e.KV["how"]
			if e.KV["how"] == "match" {
				tokOrd[e.KV["res"]] = nMatch
			}
		case "peek":
			pi.desc[e.KV["res"]] = "peek"
		case "node":
			nodeCount[e.Args[0]]++
			ni := &nodeInst{kind: e.Args[0], id: fmt.Sprintf("node:%s#%d", e.Args[0], nodeCount[e.Args[0]]), fields: map[string]string{}, pos: e.Pos}
			pi.nodes = append(pi.nodes, ni)
			if old := byObj[e.Out]; old != nil {
				prevInst[e.Out] = old.id
			}
			byObj[e.Out] = ni
			pi.desc[e.Out] = ni.id
		case "append":
			if len(e.Args) == 2 {
				base := resolveDesc(pi.desc, e.Args[0])
				elems := ""
				if strings.HasPrefix(base, "list[") {
					elems = strings.TrimSuffix(strings.TrimPrefix(base, "list["), "]")
				}
				x := resolveDesc(pi.desc, e.Args[1])
				pi.appended[e] = x
				if elems != "" {
					elems += ","
				}
				pi.desc[e.KV["res"]] = "list[" + elems + x + "]"
			}
		case "field":
			if ni := byObj[e.KV["obj"]]; ni != nil {
				v := e.Args[2]
				v = strings.TrimSuffix(v, "[:]")
				d := resolveDesc(pi.desc, v)
				if v == e.KV["obj"] {
					// a node cannot contain itself at construction: the allocation-site name denotes the
					// instance built there before (the loop-carried value)
					if pv, ok := prevInst[v]; ok {
						d = pv
					}
				}
				if strings.HasPrefix(d, "obj:") && strings.Contains(e.Args[2], "[:]") {
					d = "list[]"
				}
				ni.fields[e.Args[1]] = d
				if e.Args[1] == "Operator" {
					ni.opOrd = tokOrd[v]
				}
			}
		case "return":
			pi.ok = e.Out == "ok" && e.KV["flagged"] != "T"
			pi.ret = resolveDesc(pi.desc, e.KV["r0"])
		}
	}
	return pi
}

func successPaths(m *ParseModel) []*pathInfo {
	var out []*pathInfo
	for _, w := range m.G.SimplePaths(4000) {
		pi := interpretPath(w)
		if pi.ok {
			out = append(out, pi)
		}
	}
	return out
}

type ladderLevel struct {
	fn      string
	operand string
	right   string
	ops     string // sorted token set
	node    string
}

// extractLevel reads a binary level  f → g1 ( ops g2 )*  off the paths, checking left association on the way.
func extractLevel(pinfo *parserInfo, name string) (*ladderLevel, []string) {
	m := pinfo.Models[name]
	if m == nil {
		return nil, []string{"function not found"}
	}
	paths := successPaths(m)
	if len(paths) == 0 {
		return nil, []string{"no successful path"}
	}
	lv := &ladderLevel{fn: name}
	var problems []string
	maxIter := 0
	for _, p := range paths {
		if len(p.calls) == 0 {
			problems = append(problems, "a path succeeds without parsing an operand")
			continue
		}
		if lv.operand == "" {
			lv.operand = p.calls[0]
		} else if lv.operand != p.calls[0] {
			problems = append(problems, "first operand parsed by "+p.calls[0]+" on one path and "+lv.operand+" on another")
		}
		if len(p.nodes) > maxIter {
			maxIter = len(p.nodes)
		}
		if len(p.matches) != len(p.nodes) || len(p.calls) != len(p.nodes)+1 {
			problems = append(problems, fmt.Sprintf("a path with %d operator matches builds %d nodes from %d operands", len(p.matches), len(p.nodes), len(p.calls)))
			continue
		}
		carried := p.calls[0] + "#1"
		count := map[string]int{p.calls[0]: 1}
		for i, n := range p.nodes {
			if lv.node == "" {
				lv.node = n.kind
			} else if lv.node != n.kind {
				problems = append(problems, "builds "+n.kind+" and "+lv.node)
			}
			ops := p.matches[i]
			if lv.ops == "" {
				lv.ops = ops
			} else if lv.ops != ops {
				problems = append(problems, "operator set "+ops+" on one iteration and "+lv.ops+" on another")
			}
			rc := p.calls[i+1]
			if lv.right == "" {
				lv.right = rc
			} else if lv.right != rc {
				problems = append(problems, "right operand parsed by "+rc+" and "+lv.right)
			}
			count[rc]++
			wantRight := fmt.Sprintf("%s#%d", rc, count[rc])
			if n.fields["Left"] != carried {
				problems = append(problems, fmt.Sprintf("iteration %d: Left is %s, expected the value carried so far (%s) — not left-associative", i+1, n.fields["Left"], carried))
			}
			if n.fields["Right"] != wantRight {
				problems = append(problems, fmt.Sprintf("iteration %d: Right is %s, expected this iteration's operand (%s)", i+1, n.fields["Right"], wantRight))
			}
			if n.fields["Operator"] != "prev:match" {
				problems = append(problems, fmt.Sprintf("iteration %d: Operator is %s, expected the operator token just matched", i+1, n.fields["Operator"]))
			} else if n.opOrd != 0 && n.opOrd != i+1 {
				problems = append(problems, fmt.Sprintf("iteration %d: Operator is the token of operator match #%d, not of the one just matched (a chain a == b != c would be built with the first operator twice)", i+1, n.opOrd))
			}
			if ln, ok := n.fields["Line"]; ok && ln != "prev:match.Line" {
				problems = append(problems, "node Line is "+ln+", expected the operator's line")
			}
			carried = n.id
		}
		if p.ret != carried {
			problems = append(problems, "returns "+p.ret+" instead of the expression built ("+carried+")")
		}
	}
	if maxIter < 2 {
		problems = append(problems, "the operator repetition is not a loop (at most one operator is consumed): a op b op c is not parsed as one expression")
	}
	return lv, uniqStrings(sortStrings(problems))
}

// grammarLadder walks  X → Y ( ops Y )*  productions from start down to `unary`.
type gLevel struct {
	nt, next, ops string
}

func grammarLadder(pinfo *parserInfo, g *Grammar, start string) ([]gLevel, error) {
	var out []gLevel
	cur := start
	for depth := 0; depth < 30; depth++ {
		if cur == "unary" {
			return out, nil
		}
		pr, ok := g.Prods[cur]
		if !ok {
			return nil, fmt.Errorf("no production for %s", cur)
		}
		// expect seq(sym Y, star(seq(ops, sym Y)))
		if pr.kind != "seq" || len(pr.kids) != 2 || pr.kids[0].kind != "sym" || pr.kids[1].kind != "star" {
			return nil, fmt.Errorf("production %s → %s is not of the form Y ( ops Y )*", cur, pr)
		}
		y := pr.kids[0].sym
		inner := pr.kids[1].kids[0]
		if inner.kind != "seq" || len(inner.kids) != 2 || inner.kids[1].kind != "sym" || inner.kids[1].sym != y {
			return nil, fmt.Errorf("production %s: repetition %s does not parse the right operand at level %s", cur, inner, y)
		}
		var ops []string
		var collect func(r *rx) error
		collect = func(r *rx) error {
			switch r.kind {
			case "sym":
				t, ok := pinfo.terminalToken(r.sym)
				if !ok {
					return fmt.Errorf("operator %s of %s has no token type", r.sym, cur)
				}
				ops = append(ops, t)
			case "alt":
				for _, k := range r.kids {
					if err := collect(k); err != nil {
						return err
					}
				}
			default:
				return fmt.Errorf("operator part of %s not understood: %s", cur, r)
			}
			return nil
		}
		if err := collect(inner.kids[0]); err != nil {
			return nil, err
		}
		sort.Strings(ops)
		ops = uniqStrings(ops)
		out = append(out, gLevel{nt: cur, next: y, ops: strings.Join(ops, ",")})
		cur = y
	}
	return nil, fmt.Errorf("ladder does not reach unary")
}

func checkC01(p *Prog, l *Ledger) {
	pinfo := getParser(p)
	l.States += pinfo.States
	for _, pr := range pinfo.Probs {
		l.Undecide("infrastructure/explorer", "parser:"+pr, "", pr)
	}
	g, err := LoadGrammar(p.RepoDir, "বাংলা")
	if err != nil {
		l.Undecide("C01/S1-ladder", "grammer.txt", "", err.Error())
		return
	}
	// ---- S1/S2: the binary ladder
	gl, err := grammarLadder(pinfo, g, "logic_or")
	if err != nil {
		l.Undecide("C01/S1-ladder", "grammer.txt#ladder", "", err.Error())
		return
	}
	// the English gloss must have the same structure
	if ge, err := LoadGrammar(p.RepoDir, "ENGLISH"); err == nil {
		if gle, err := grammarLadder(&parserInfo{p: p, tokOf: map[string]string{"or": "LOGICAL_OR", "and": "LOGICAL_AND"}}, ge, "logic_or"); err != nil {
			l.Note("English section of grammer.txt: %v", err)
		} else if len(gle) != len(gl) {
			l.Violate("C01/S1-ladder", "grammer.txt#english-vs-bangla", "", fmt.Sprintf("the two sections of grammer.txt have ladders of different depth (%d vs %d)", len(gle), len(gl)))
		} else {
			same := true
			for i := range gl {
				if gl[i].ops != gle[i].ops {
					same = false
				}
			}
			if same {
				l.Discharge("C01/S1-ladder", "grammer.txt#english-vs-bangla", "", "both sections give the same ladder", false)
			} else {
				l.Violate("C01/S1-ladder", "grammer.txt#english-vs-bangla", "", "the two sections of grammer.txt disagree on the operators of some level")
			}
		}
	}
	// code chain: assignment's first operand, then follow operand callees
	asg := pinfo.Models["assignment"]
	if asg == nil {
		l.Undecide("C01/S1-ladder", "parser.assignment", "", "not found")
		return
	}
	first := ""
	for _, pth := range successPaths(asg) {
		if len(pth.calls) > 0 {
			first = pth.calls[0]
		}
	}
	cur := first
	var levels []*ladderLevel
	for i := 0; i < len(gl)+3 && cur != "" && cur != "unary"; i++ {
		lv, probs := extractLevel(pinfo, cur)
		key := "parser." + cur
		if lv == nil {
			l.Undecide("C01/S2-associativity", key, "", strings.Join(probs, "; "))
			break
		}
		l.Funcs["parser.(*Parser)."+cur] = true
		if len(probs) > 0 {
			l.Violate("C01/S2-associativity", key, "", strings.Join(probs, " || "))
		} else {
			l.Discharge("C01/S2-associativity", key, "", fmt.Sprintf("%s → %s ( {%s} %s )* builds left-nested %s nodes: Left = carried value, Right = this iteration's operand, Operator = matched token", cur, lv.operand, lv.ops, lv.right, lv.node), true)
		}
		levels = append(levels, lv)
		if lv.operand != lv.right {
			l.Violate("C01/S1-ladder", key+"#operands", "", fmt.Sprintf("%s parses its left operand with %s but its right operand with %s: the two sides bind at different levels", cur, lv.operand, lv.right))
		}
		cur = lv.operand
	}
	l.Extra["code_ladder"] = levels
	l.Extra["grammar_ladder"] = gl
	if cur != "unary" {
		l.Violate("C01/S1-ladder", "ladder#bottom", "", "following the operand calls from assignment does not reach unary (stopped at "+cur+")")
	}
	if len(levels) != len(gl) {
		l.Violate("C01/S1-ladder", "ladder#depth", "", fmt.Sprintf("the parser has %d binary levels between assignment and unary, the grammar %d", len(levels), len(gl)))
	}
	for i := 0; i < len(levels) && i < len(gl); i++ {
		lv := levels[i]
		ops := strings.Split(lv.ops, ",")
		sort.Strings(ops)
		key := fmt.Sprintf("level%02d:%s", i+1, gl[i].nt)
		if strings.Join(ops, ",") == gl[i].ops {
			l.Discharge("C01/S1-ladder", key, "", fmt.Sprintf("%s ↔ parser.%s: operators {%s}", gl[i].nt, lv.fn, gl[i].ops), true)
		} else {
			l.Violate("C01/S1-ladder", key, "", fmt.Sprintf("precedence level %d: the grammar's %s has operators {%s} but the parser's %s handles {%s} — operators are grouped at the wrong level (or one is missing/extra)", i+1, gl[i].nt, gl[i].ops, lv.fn, strings.Join(ops, ",")))
		}
	}
	if len(gl) < 11 {
		l.Violate("C01/S1-ladder/vacuity", "grammar ladder", "", fmt.Sprintf("only %d binary levels found in grammer.txt (11 documented)", len(gl)))
	}
	checkReadmeLadder(p, l, pinfo, gl)
	checkLogicalNodes(l, levels)
	// ---- assignment / unary / call / if / wiring
	checkAssignmentShape(l, pinfo)
	checkUnaryShape(l, pinfo)
	checkCallChain(l, pinfo)
	checkDanglingElse(l, pinfo)
	checkNodeWiring(l, pinfo)
	checkDeclaratorInitializer(l, pinfo)
	// exhaustiveness: every node kind the parser builds has a clause in eval
	built := map[string]bool{}
	for _, name := range pinfo.Names {
		for _, e := range pinfo.Models[name].G.Events("node") {
			built[e.Args[0]] = true
		}
	}
	clauses := map[string]bool{}
	for _, t := range p.Interp().evalClauses() {
		clauses[strings.TrimPrefix(t, "*ast.")] = true
	}
	var missing []string
	for k := range built {
		if !clauses[k] {
			missing = append(missing, k)
		}
	}
	sort.Strings(missing)
	if len(missing) == 0 {
		l.Discharge("C01/S5-exhaustive", "ast-nodes", "", fmt.Sprintf("all %d node kinds the parser builds have a clause in eval", len(built)), true)
	} else {
		l.Violate("C01/S5-exhaustive", "ast-nodes", "", "the parser builds node kinds that eval has no clause for: "+strings.Join(missing, ", "))
	}
}

func checkLogicalNodes(l *Ledger, levels []*ladderLevel) {
	for _, lv := range levels {
		want := "Binary"
		if strings.Contains(lv.ops, "LOGICAL_") {
			want = "Logical"
		}
		if lv.node != want {
			l.Violate("C01/S5-wiring", "parser."+lv.fn+"#node-kind", "", fmt.Sprintf("operators {%s} build %s nodes, expected %s (short-circuit operators must not be evaluated as eager binary operators and vice versa)", lv.ops, lv.node, want))
		}
	}
}

// README's simplified ladder must be an order-preserving sub-chain of the grammar's.
func checkReadmeLadder(p *Prog, l *Ledger, pinfo *parserInfo, gl []gLevel) {
	b, err := os.ReadFile(filepath.Join(p.RepoDir, "README.md"))
	if err != nil {
		l.Undecide("C01/S1-ladder", "README#ladder", "", err.Error())
		return
	}
	text := string(b)
	i := strings.Index(text, "## Core Grammar")
	if i < 0 {
		l.Undecide("C01/S1-ladder", "README#ladder", "", "Core Grammar section not found")
		return
	}
	text = text[i:]
	a := strings.Index(text, "```")
	if a < 0 {
		return
	}
	rest := text[a+3:]
	bEnd := strings.Index(rest, "```")
	if bEnd < 0 {
		return
	}
	toks := lexGrammar(rest[:bEnd])
	g := &Grammar{Prods: map[string]*rx{}}
	for i := 0; i < len(toks); {
		if i+1 >= len(toks) || toks[i+1] != "→" {
			break
		}
		gp := &gparser{toks: toks, pos: i + 2}
		rhs := gp.alt()
		if gp.peek() != ";" {
			break
		}
		g.Prods[toks[i]] = rhs
		i = gp.pos + 1
	}
	// README wraps single operators in an extra group: normalise star(seq(alt|sym, Y))
	rl, err := grammarLadder(pinfo, g, "logic_or")
	if err != nil {
		l.Note("README ladder not in the expected form (%v); sub-chain check skipped", err)
		return
	}
	j := 0
	ok := true
	for _, r := range rl {
		found := false
		for ; j < len(gl); j++ {
			if gl[j].ops == r.ops {
				found = true
				j++
				break
			}
		}
		if !found {
			ok = false
			l.Violate("C01/S1-ladder", "README#"+r.nt, "", fmt.Sprintf("README's level %s with operators {%s} does not occur, in this order, in the full ladder of grammer.txt", r.nt, r.ops))
		}
	}
	if ok {
		l.Discharge("C01/S1-ladder", "README#ladder", "", fmt.Sprintf("README's %d levels form an order-preserving sub-chain of the %d-level ladder", len(rl), len(gl)), true)
	}
}

func checkAssignmentShape(l *Ledger, pinfo *parserInfo) {
	rule := "C01/S2-associativity"
	m := pinfo.Models["assignment"]
	paths := successPaths(m)
	var problems []string
	seen := map[string]bool{}
	for _, p := range paths {
		switch len(p.calls) {
		case 1:
			if p.ret != p.calls[0]+"#1" {
				problems = append(problems, "without `=` the function returns "+p.ret)
			}
			seen["plain"] = true
		case 2:
			if p.calls[1] != "assignment" {
				problems = append(problems, "the right side of `=` is parsed by "+p.calls[1]+" instead of assignment itself: a = b = c is not right-associative")
			}
			if len(p.nodes) != 1 {
				problems = append(problems, fmt.Sprintf("an assignment path builds %d nodes", len(p.nodes)))
				continue
			}
			n := p.nodes[0]
			lhs := p.calls[0] + "#1"
			rhs := "assignment#1"
			if p.calls[0] == "assignment" {
				rhs = "assignment#2"
			}
			var target string
			for _, e := range p.events {
				if e.Op == "typetest" && e.Out == "true" {
					target = strings.TrimPrefix(e.Args[1], "*ast.")
				}
			}
			want := map[string]map[string]string{
				"Identifier":     {"kind": "AssignmentStmt", "Name": lhs + ".Name", "Value": rhs},
				"ArrayAccess":    {"kind": "ArrayAssignment", "Array": lhs + ".Array", "Index": lhs + ".Index", "Value": rhs},
				"PropertyAccess": {"kind": "PropertyAssignment", "Object": lhs + ".Object", "Property": lhs + ".Property", "Value": rhs},
			}[target]
			if want == nil {
				problems = append(problems, "an assignment node is built for a target of kind "+target+" (only identifiers, element accesses and property accesses are assignable)")
				continue
			}
			seen[target] = true
			if n.kind != want["kind"] {
				problems = append(problems, target+" target builds "+n.kind+" instead of "+want["kind"])
			}
			for f, v := range want {
				if f != "kind" && n.fields[f] != v {
					problems = append(problems, fmt.Sprintf("%s.%s is %s, expected %s", n.kind, f, n.fields[f], v))
				}
			}
			if n.fields["Line"] != "prev:match.Line" {
				problems = append(problems, n.kind+".Line is "+n.fields["Line"]+", expected the line of `=`")
			}
			if p.ret != n.id {
				problems = append(problems, "returns "+p.ret+" instead of the assignment node")
			}
		default:
			problems = append(problems, fmt.Sprintf("a path of assignment makes %d sub-parses", len(p.calls)))
		}
	}
	for _, k := range []string{"plain", "Identifier", "ArrayAccess", "PropertyAccess"} {
		if !seen[k] {
			problems = append(problems, "no path for the case "+k)
		}
	}
	problems = uniqStrings(sortStrings(problems))
	if len(problems) == 0 {
		l.Discharge(rule, "parser.assignment", "", "target parsed one level down, right side by assignment itself (right-associative); Identifier/ArrayAccess/PropertyAccess targets rewritten with their own parts", true)
	} else {
		l.Violate(rule, "parser.assignment", "", strings.Join(problems, " || "))
	}
}

func checkUnaryShape(l *Ledger, pinfo *parserInfo) {
	rule := "C01/S2-associativity"
	var problems []string
	for _, p := range successPaths(pinfo.Models["unary"]) {
		if len(p.matches) == 1 {
			if len(p.calls) != 1 || p.calls[0] != "unary" {
				problems = append(problems, fmt.Sprintf("the operand of a prefix operator is parsed by %v instead of unary itself", p.calls))
				continue
			}
			if len(p.nodes) != 1 || p.nodes[0].kind != "Unary" || p.nodes[0].fields["Right"] != "unary#1" || p.nodes[0].fields["Operator"] != "prev:match" || p.ret != p.nodes[0].id {
				problems = append(problems, "prefix operator does not build Unary{Operator: the matched token, Right: the operand}")
			}
		} else if len(p.matches) == 0 {
			if len(p.calls) != 1 || p.calls[0] != "call" || p.ret != "call#1" {
				problems = append(problems, fmt.Sprintf("without a prefix operator unary must defer to call; found %v", p.calls))
			}
		} else {
			problems = append(problems, "several operator matches on one path of unary (prefix operators must nest by recursion, outermost first)")
		}
	}
	shape := "( ! | - | ~ ) unary | call"
	if len(problems) > 0 {
		// the same language and the same trees built without recursion: collect the prefix operators, parse one call,
		// wrap it from the last operator to the first
		if iterProblems := unaryIterativeShape(pinfo); len(iterProblems) == 0 {
			problems = nil
			shape = "prefix operators collected in order, one call, then wrapped from the last operator to the first (the first is outermost, as with the recursive form)"
		}
	}
	// power's operands are unary (checked through the ladder: the lowest level's operand), re-check explicitly
	if lv, probs := extractLevel(pinfo, "power"); lv != nil && len(probs) == 0 {
		if lv.operand != "unary" || lv.right != "unary" {
			problems = append(problems, "the operands of ** are parsed by "+lv.operand+"/"+lv.right+", not unary: a prefix operator no longer binds tighter than **")
		}
	}
	problems = uniqStrings(sortStrings(problems))
	if len(problems) == 0 {
		l.Discharge(rule, "parser.unary", "", shape+"; ** takes unary operands", true)
	} else {
		l.Violate(rule, "parser.unary", "", strings.Join(problems, " || "))
	}
}

func checkCallChain(l *Ledger, pinfo *parserInfo) {
	rule := "C01/S3-postfix-chain"
	m := pinfo.Models["call"]
	if m == nil {
		l.Undecide(rule, "parser.call", "", "not found")
		return
	}
	var problems []string
	arms := map[string]bool{}
	maxSuffix := 0
	for _, p := range successPaths(m) {
		if len(p.calls) == 0 || p.calls[0] != "primary" {
			problems = append(problems, "call does not start with primary")
			continue
		}
		nSuffix := 0
		for _, e := range p.events {
			if e.Op == "match" && e.Out == "true" {
				nSuffix++
				switch e.KV["set"] {
				case "LEFT_PAREN":
					arms["("] = true
				case "LEFT_BRACKET":
					arms["["] = true
				case "DOT":
					arms["."] = true
				default:
					problems = append(problems, "unexpected suffix opener "+e.KV["set"])
				}
			}
		}
		// nodes: each wraps the carried value at the time; recompute in order
		carried := "primary#1"
		fc := 0
		nidx := 0
		for _, e := range p.events {
			if e.Op == "call" && e.Out == "ok" && e.Args[0] == "finishCall" {
				if args := p.callArg[e]; len(args) != 1 || args[0] != carried {
					problems = append(problems, fmt.Sprintf("finishCall receives %v as callee instead of the expression parsed so far (%s)", args, carried))
				}
				fc++
				carried = fmt.Sprintf("finishCall#%d", fc)
			}
			if e.Op == "node" && nidx < len(p.nodes) {
				n := p.nodes[nidx]
				nidx++
				switch n.kind {
				case "ArrayAccess":
					if n.fields["Array"] != carried {
						problems = append(problems, "ArrayAccess.Array is "+n.fields["Array"]+", expected the expression parsed so far ("+carried+")")
					}
					if !strings.HasPrefix(n.fields["Index"], "expression#") {
						problems = append(problems, "ArrayAccess.Index is "+n.fields["Index"])
					}
				case "PropertyAccess":
					if n.fields["Object"] != carried {
						problems = append(problems, "PropertyAccess.Object is "+n.fields["Object"]+", expected the expression parsed so far ("+carried+")")
					}
					if n.fields["Property"] != "tok:IDENTIFIER" {
						problems = append(problems, "PropertyAccess.Property is "+n.fields["Property"])
					}
				default:
					problems = append(problems, "call builds a "+n.kind+" node")
				}
				carried = n.id
			}
		}
		if p.ret != carried {
			problems = append(problems, "call returns "+p.ret+" instead of the chain built ("+carried+")")
		}
		if nSuffix > maxSuffix {
			maxSuffix = nSuffix
		}
	}
	for _, a := range []string{"(", "[", "."} {
		if !arms[a] {
			problems = append(problems, "suffix form "+a+" is never parsed")
		}
	}
	if maxSuffix < 2 {
		problems = append(problems, "suffixes do not chain (at most one suffix is parsed)")
	}
	// finishCall wiring
	for _, p := range successPaths(pinfo.Models["finishCall"]) {
		if len(p.nodes) != 1 || p.nodes[0].kind != "Call" {
			problems = append(problems, "finishCall does not build exactly one Call node")
			continue
		}
		n := p.nodes[0]
		if n.fields["Callee"] != "callee" {
			problems = append(problems, "Call.Callee is "+n.fields["Callee"]+", not the expression being called")
		}
		if n.fields["Paren"] != "tok:RIGHT_PAREN" {
			problems = append(problems, "Call.Paren is "+n.fields["Paren"])
		}
		args := n.fields["Arguments"]
		want := "list["
		for i := range p.calls {
			if i > 0 {
				want += ","
			}
			want += fmt.Sprintf("expression#%d", i+1)
		}
		want += "]"
		if args != want {
			problems = append(problems, "Call.Arguments is "+args+", expected the parsed arguments in order "+want)
		}
	}
	problems = uniqStrings(sortStrings(problems))
	if len(problems) == 0 {
		l.Discharge(rule, "parser.call", "", "primary, then any chain of ( ) [ ] .name suffixes, each wrapping the expression parsed so far; arguments collected in order", true)
	} else {
		l.Violate(rule, "parser.call", "", strings.Join(problems, " || "))
	}
}

func checkDanglingElse(l *Ledger, pinfo *parserInfo) {
	rule := "C01/S4-dangling-else"
	// the function that parses the if statement is found by what it does — it tests for the else keyword — not by its name
	var m *ParseModel
	for _, name := range pinfo.Names {
		for _, e := range pinfo.Models[name].G.Events("match") {
			if strings.Contains(strings.Join(e.Args, ","), "ELSE") {
				m = pinfo.Models[name]
			}
		}
	}
	if m == nil {
		l.Undecide(rule, "parser.IfStatement", "", "no parse function tests for the else keyword")
		return
	}
	var problems []string
	sawElse, sawNoElse := false, false
	for _, p := range successPaths(m) {
		var ifNode *nodeInst
		for _, nd := range p.nodes {
			if nd.kind == "IfStmt" {
				ifNode = nd
			}
		}
		if ifNode == nil {
			continue // another statement form parsed by the same function
		}
		// event order: … call(statement)#1 ; match(ELSE) ; [call(statement)#2]
		idxThen, idxElseTest := -1, -1
		for i, e := range p.events {
			if e.Op == "call" && e.Out == "ok" && e.Args[0] == "statement" && idxThen < 0 {
				idxThen = i
			}
			if e.Op == "match" && strings.Contains(strings.Join(e.Args, ","), "ELSE") && idxElseTest < 0 {
				idxElseTest = i
			}
		}
		if idxThen < 0 || idxElseTest != idxThen+1 {
			problems = append(problems, "the else test does not follow the then-branch immediately (an enclosing if could claim the else)")
			continue
		}
		n := ifNode
		if p.events[idxElseTest].Out == "true" {
			sawElse = true
			if n.fields["ElseBranch"] != "statement#2" || n.fields["ThenBranch"] != "statement#1" {
				problems = append(problems, fmt.Sprintf("with else: Then=%s Else=%s", n.fields["ThenBranch"], n.fields["ElseBranch"]))
			}
		} else {
			sawNoElse = true
			if eb, set := n.fields["ElseBranch"]; (set && eb != "nil") || n.fields["ThenBranch"] != "statement#1" { // a field never stored is the zero value
				problems = append(problems, fmt.Sprintf("without else: Then=%s Else=%s", n.fields["ThenBranch"], n.fields["ElseBranch"]))
			}
		}
		if n.fields["Condition"] != "expression#1" {
			problems = append(problems, "IfStmt.Condition is "+n.fields["Condition"])
		}
	}
	if !sawElse || !sawNoElse {
		problems = append(problems, "both forms (with and without else) must be parsed")
	}
	problems = uniqStrings(sortStrings(problems))
	if len(problems) == 0 {
		l.Discharge(rule, "parser.IfStatement", "", "`নাহয়` is tested right after the then-statement and, when present, its statement becomes the else branch of this (the nearest) if", true)
	} else {
		l.Violate(rule, "parser.IfStatement", "", strings.Join(problems, " || "))
	}
}

// reference wiring of the remaining node kinds: field → regexp over value descriptions
var wiringSpec = map[string]map[string]string{
	"While":               {"Condition": `^expression#1$`, "Body": `^statement#1$`},
	"ForStmt":             {"Initializer": `^(nil|varDeclaration#1|expressionStatement#1)$`, "Condition": `^(expression#1|node:Literal#1)$`, "Increment": `^(nil|expression#[12])$`, "Body": `^statement#1$`},
	"PrintStatement":      {"Expression": `^expression#1$`},
	"ExpressionStatement": {"Expression": `^expression#1$`},
	"Return":              {"Keyword": `^prev:.*$`, "Value": `^(nil|expression#1)$`},
	"Grouping":            {"Expression": `^expression#1$`, "Line": `^prev:consume\.Line$`},
	"BlockStmt":           {"Block": `^block#1$`},
	"BreakStmt":           {"Line": `^prev:consume\.Line$`},
	"ContinueStmt":        {"Line": `^prev:consume\.Line$`},
	"VarStmt":             {"Name": `^tok:IDENTIFIER$`, "Initializer": `^(nil|expression#\d+)$`, "Line": `^tok:IDENTIFIER\.Line$`},
	"FunctionStmt":        {"Name": `^tok:IDENTIFIER$`, "Params": `^list\[(tok:IDENTIFIER(,tok:IDENTIFIER)*)?\]$`, "Body": `^block#1$`},
	"ArrayLiteral":        {"Elements": `^list\[(expression#\d+(,expression#\d+)*)?\]$`},
	"Identifier":          {"Name": `^prev:match$`, "Line": `^prev:match\.Line$`},
	"Literal":             {"Value": `^(true|false|nil|prev:match\.Literal)$`},
}

func checkNodeWiring(l *Ledger, pinfo *parserInfo) {
	rule := "C01/S5-wiring"
	seenKinds := map[string]map[string]bool{} // kind → problems
	count := map[string]int{}
	for _, name := range pinfo.Names {
		for _, p := range successPaths(pinfo.Models[name]) {
			for _, n := range p.nodes {
				spec, ok := wiringSpec[n.kind]
				if !ok {
					continue
				}
				count[n.kind]++
				if seenKinds[n.kind] == nil {
					seenKinds[n.kind] = map[string]bool{}
				}
				for f, pat := range spec {
					v, has := n.fields[f]
					if !has {
						// an omitted interface field is nil
						v = "nil"
					}
					if n.kind == "Literal" && name != "primary" {
						continue // the for-loop's default condition literal
					}
					if !regexp.MustCompile(pat).MatchString(v) {
						seenKinds[n.kind][fmt.Sprintf("%s.%s is fed from %s in parser.%s (expected %s)", n.kind, f, v, name, pat)] = true
					}
				}
				// order of increasing ordinals for list fields is enforced by the list[...] patterns themselves
			}
		}
	}
	var kinds []string
	for k := range wiringSpec {
		kinds = append(kinds, k)
	}
	sort.Strings(kinds)
	for _, k := range kinds {
		if count[k] == 0 {
			l.Violate(rule, "ast."+k, "", "no successful parse path builds a "+k+" node")
			continue
		}
		if len(seenKinds[k]) == 0 {
			l.Discharge(rule, "ast."+k, "", fmt.Sprintf("every field fed from the sub-parse / token the reference table names (%d constructions on explored paths)", count[k]), true)
		} else {
			l.Violate(rule, "ast."+k, "", strings.Join(sortedKeysOf(seenKinds[k]), " || "))
		}
	}
	// ForStmt increment ordinal: second expression when a condition was parsed — covered by the pattern expression#[12]

	// what a parse function hands back is made on the path that hands it back: a node built there, the result of a
	// sub-parse made there, a list of such, or nothing.  A node fetched from somewhere else (a table of nodes seen
	// before, a field of the parser) would stand at two places of the tree at once — with the tokens and the Line of
	// the place it was first built for.
	reFresh := regexp.MustCompile(`^(nil|node:\w+#\d+|\w+#\d+|list\[.*\]|obj:[^ ]*\[:\])$`)
	nRet := 0
	for _, name := range pinfo.Names {
		bad := map[string]bool{}
		n := 0
		for _, p := range successPaths(pinfo.Models[name]) {
			n++
			if !reFresh.MatchString(p.ret) {
				bad[p.ret] = true
			}
		}
		nRet += n
		if n == 0 {
			continue
		}
		if len(bad) == 0 {
			l.Discharge(rule+"/fresh-nodes", "parser."+name, "", fmt.Sprintf("every successful path returns a node built, or a sub-parse made, on that path (%d paths)", n), true)
		} else {
			l.Violate(rule+"/fresh-nodes", "parser."+name, "", "parser."+name+" hands back "+strings.Join(sortedKeysOf(bad), ", ")+": a node that was not built on this path — it would occur at several places of the tree with the tokens and the Line of the first one")
		}
	}
	if nRet < 100 {
		l.Violate(rule+"/fresh-nodes/vacuity", "parser returns", "", fmt.Sprintf("only %d successful parse paths seen", nRet))
	}
}

var reRevIndexed = regexp.MustCompile(`^list\[([^\]]*)\]\[revidx:[^\]]*\]$`)

// unaryIterativeShape: every successful path of unary matches k >= 0 prefix operators, each appended to one list right
// after it was matched, parses exactly one call, and — when k > 0 — builds Unary nodes in a loop that runs over that
// list from its last element to its first (the machine names the index of such a loop revidx), each node taking the
// operator under the index and, as operand, the call's node (first) or the node built before it; the last node is
// returned.  The loop form guarantees one node per collected operator and that the first operator ends up outermost.
func unaryIterativeShape(pinfo *parserInfo) []string {
	var problems []string
	sawPlain, sawPrefixed := false, false
	for _, p := range successPaths(pinfo.Models["unary"]) {
		if len(p.calls) != 1 || p.calls[0] != "call" {
			problems = append(problems, fmt.Sprintf("a path of unary makes the sub-parses %v", p.calls))
			continue
		}
		k := len(p.matches)
		if k == 0 {
			sawPlain = true
			if len(p.nodes) != 0 || p.ret != "call#1" {
				problems = append(problems, "without a prefix operator unary must return the call's node unchanged")
			}
			continue
		}
		sawPrefixed = true
		if len(p.nodes) == 0 {
			problems = append(problems, "prefix operators are consumed but no Unary node is built")
			continue
		}
		want := strings.TrimSuffix(strings.Repeat("prev:match,", k), ",")
		for j, n := range p.nodes {
			mm := reRevIndexed.FindStringSubmatch(n.fields["Operator"])
			switch {
			case n.kind != "Unary":
				problems = append(problems, "builds a "+n.kind)
			case mm == nil:
				problems = append(problems, "Unary.Operator is "+n.fields["Operator"]+", not the element of the collected operators under a last-to-first index")
			case mm[1] != want:
				problems = append(problems, "the list the operators are taken from holds ["+mm[1]+"] after "+fmt.Sprint(k)+" matched operators")
			case j == 0 && n.fields["Right"] != "call#1":
				problems = append(problems, "the innermost Unary's operand is "+n.fields["Right"]+", not the call's node")
			case j > 0 && n.fields["Right"] != p.nodes[j-1].id:
				problems = append(problems, "a Unary's operand is "+n.fields["Right"]+", not the node built before it")
			}
		}
		if p.ret != p.nodes[len(p.nodes)-1].id {
			problems = append(problems, "unary returns "+p.ret+", not the last node built")
		}
	}
	if !sawPlain || !sawPrefixed {
		problems = append(problems, "both forms (with and without prefix operators) must be parsed")
	}
	return uniqStrings(sortStrings(problems))
}

// checkDeclaratorInitializer: `variable → IDENTIFIER ( "=" expression )?` per declarator of a ধরি list: the initialiser
// stored in a VarStmt node is the expression parsed after *this* declarator's `=`, and nil when this declarator has no
// `=` — never what an earlier declarator of the list left behind.
func checkDeclaratorInitializer(l *Ledger, pinfo *parserInfo) {
	rule := "C01/S5-wiring/declarator-initializer"
	m := pinfo.Models["varDeclaration"]
	if m == nil {
		l.Undecide(rule, "parser.varDeclaration", "", "not found")
		return
	}
	nNodes := 0
	mon := Monitor{Init: "none|", Step: func(s string, ev *Event) string {
		ps := strings.SplitN(s, "|", 2)
		switch ev.Op {
		case "consume":
			if ev.Out == "ok" && len(ev.Args) > 0 && ev.Args[0] == "IDENTIFIER" {
				return "none|" // a new declarator begins
			}
		case "match":
			if strings.Contains(ev.KV["set"], "EQUAL") && ev.Out == "true" {
				return "eq|"
			}
		case "call":
			if ev.Out == "ok" && ev.Args[0] == "expression" && ps[0] == "eq" {
				return "init|" + ev.KV["res"]
			}
		case "field":
			if len(ev.Args) == 3 && ev.Args[0] == "VarStmt" && ev.Args[1] == "Initializer" {
				nNodes++
				switch {
				case ps[0] == "init" && ev.Args[2] != ps[1]:
					return "!the declarator's initialiser is " + ev.Args[2] + ", not the expression parsed after its `=`"
				case ps[0] != "init" && ev.Args[2] != "nil":
					return "!a declarator written without `=` gets the initialiser " + ev.Args[2] + " (left over from an earlier declarator of the list): `ধরি a = f(), b;` would evaluate f() twice and bind b to its value"
				}
			}
		}
		return s
	}}
	ws := m.G.Run(mon)
	for _, w := range ws {
		l.Violate(rule, "parser.varDeclaration", posOf(w), w.Msg, witnessDetail(w))
	}
	if len(ws) == 0 && nNodes == 0 {
		// a VarStmt built without an Initializer store has a nil initialiser: fine, but then nothing was checked
		l.Discharge(rule, "parser.varDeclaration", "", "no Initializer is ever stored (always nil)", false)
	} else if len(ws) == 0 {
		l.Discharge(rule, "parser.varDeclaration", "", "each declarator's Initializer is its own expression, or nil without `=`", true)
	}
}
