package main

// E5(a) — value universe: the set of Go dynamic types that can inhabit a Borno value.

import (
	"go/types"
	"sort"
	"strings"

	"golang.org/x/tools/go/ssa"
)

type Producer struct {
	Fn   *ssa.Function
	In   *ssa.MakeInterface
	Type types.Type
	Kind string
}

type Universe struct {
	Producers []Producer
	ByKind    map[string]map[string][]Producer // kind → type string → producers
	HasNil    bool
}

func isEmptyInterface(t types.Type) bool {
	it, ok := t.Underlying().(*types.Interface)
	return ok && it.NumMethods() == 0
}

func (p *Prog) callableIface() *types.Interface {
	pk := p.TPkg("interpreter")
	if pk == nil {
		return nil
	}
	o := pk.Types.Scope().Lookup("Callable")
	if o == nil {
		return nil
	}
	it, _ := o.Type().Underlying().(*types.Interface)
	return it
}

// kindOf classifies a Go type as a Borno kind.
func (p *Prog) kindOf(t types.Type) string {
	if ci := p.callableIface(); ci != nil && types.Implements(t, ci) {
		return "function"
	}
	switch u := t.Underlying().(type) {
	case *types.Basic:
		switch {
		case u.Info()&types.IsBoolean != 0:
			return "bool"
		case u.Info()&types.IsNumeric != 0:
			return "number"
		case u.Info()&types.IsString != 0:
			return "string"
		case u.Kind() == types.UntypedNil:
			return "nil"
		}
	case *types.Slice:
		if b, ok := u.Elem().Underlying().(*types.Basic); ok && (b.Kind() == types.Int32 || b.Kind() == types.Uint8) {
			return "string"
		}
		if isEmptyInterface(u.Elem()) {
			return "array"
		}
	case *types.Map:
		if b, ok := u.Key().Underlying().(*types.Basic); ok && b.Info()&types.IsString != 0 && isEmptyInterface(u.Elem()) {
			return "object"
		}
	}
	return "other"
}

// onlyFeedsExternalVariadic: the interface value is stored into a varargs array that is passed
// solely to functions outside the module (fmt.*, errors.*), or passed directly to such a function.
func (p *Prog) onlyFeedsExternal(mi *ssa.MakeInterface) bool {
	refs := mi.Referrers()
	if refs == nil || len(*refs) == 0 {
		return true
	}
	for _, r := range *refs {
		switch x := r.(type) {
		case *ssa.Store:
			ia, ok := x.Addr.(*ssa.IndexAddr)
			if !ok {
				return false
			}
			al, ok := ia.X.(*ssa.Alloc)
			if !ok {
				return false
			}
			if !p.allocFeedsExternal(al) {
				return false
			}
		case *ssa.Call:
			c := x.Call.StaticCallee()
			if c == nil || p.InModule(c) {
				return false
			}
		case *ssa.DebugRef:
		default:
			return false
		}
	}
	return true
}

func (p *Prog) allocFeedsExternal(al *ssa.Alloc) bool {
	ok := false
	for _, r := range *al.Referrers() {
		switch x := r.(type) {
		case *ssa.IndexAddr:
		case *ssa.Slice:
			for _, sr := range *x.Referrers() {
				call, isCall := sr.(*ssa.Call)
				if !isCall {
					if _, dbg := sr.(*ssa.DebugRef); dbg {
						continue
					}
					return false
				}
				if _, isBuiltin := call.Call.Value.(*ssa.Builtin); isBuiltin {
					return false // append(xs, v...) — value position
				}
				c := call.Call.StaticCallee()
				if c == nil || p.InModule(c) {
					return false
				}
				ok = true
			}
		case *ssa.DebugRef:
		default:
			return false
		}
	}
	return ok
}

var universeCache = map[*Prog]*Universe{}

func (p *Prog) BuildUniverse() *Universe {
	if u, ok := universeCache[p]; ok {
		return u
	}
	u := &Universe{ByKind: map[string]map[string][]Producer{}}
	universeCache[p] = u
	for _, fn := range p.ModuleFuncs() {
		// String() methods of ast nodes and tokens format for diagnostics only
		instrsOf(fn, func(in ssa.Instruction) {
			mi, ok := in.(*ssa.MakeInterface)
			if !ok {
				return
			}
			if !isEmptyInterface(mi.Type()) {
				// a value boxed as Callable is a Borno function value as well (it reaches value positions
				// through a change of interface)
				if ci := p.callableIface(); ci == nil || !types.Identical(mi.Type().Underlying(), ci) {
					return
				}
			}
			if p.onlyFeedsExternal(mi) {
				return
			}
			t := mi.X.Type()
			if c, isConst := mi.X.(*ssa.Const); isConst && c.Value == nil && p.kindOf(t) == "nil" {
				u.HasNil = true
				return
			}
			k := p.kindOf(t)
			pr := Producer{Fn: fn, In: mi, Type: t, Kind: k}
			u.Producers = append(u.Producers, pr)
			if u.ByKind[k] == nil {
				u.ByKind[k] = map[string][]Producer{}
			}
			ts := typeStr(t)
			u.ByKind[k][ts] = append(u.ByKind[k][ts], pr)
		})
	}
	u.HasNil = true // nil literal / absent initialiser: untyped nil constants are always possible
	return u
}

func (u *Universe) Types() []string {
	var out []string
	for k, m := range u.ByKind {
		for t := range m {
			out = append(out, k+":"+t)
		}
	}
	sort.Strings(out)
	return out
}

// TypeSet returns all dynamic types (as types.Type) of the universe.
func (u *Universe) TypeList() []types.Type {
	seen := map[string]bool{}
	var out []types.Type
	for _, pr := range u.Producers {
		ts := typeStr(pr.Type)
		if !seen[ts] {
			seen[ts] = true
			out = append(out, pr.Type)
		}
	}
	sort.Slice(out, func(i, j int) bool { return typeStr(out[i]) < typeStr(out[j]) })
	return out
}

func shortFn(p *Prog, fn *ssa.Function) string {
	return strings.TrimPrefix(p.FuncKey(fn), "")
}
