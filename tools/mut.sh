#!/bin/bash
# usage: mut.sh <file> <python-replace-old> <python-replace-new> props...   (scratch copy of /repo, one textual edit, run checks)
F=$1; OLD=$2; NEW=$3; shift 3
D=$(mktemp -d /tmp/mut.XXXXXX)
cp -r /repo/. $D/ && rm -rf $D/.git
python3 - "$D/$F" "$OLD" "$NEW" <<'PY'
import sys
p,old,new=sys.argv[1:4]
s=open(p).read()
if s.count(old)<1: print("PATTERN NOT FOUND"); sys.exit(1)
s=s.replace(old,new,1)
open(p,'w').write(s)
PY
export GOFLAGS=-mod=mod GOPROXY=off GOSUMDB=off GOTOOLCHAIN=local; unset GOWORK
(cd $D && go build ./... 2>&1 | head -5)
for p in "$@"; do
  out=$(/verif/bin/bornocheck -property $p -repo $D -scratch 2>&1)
  echo "== $p violations=$(echo "$out" | grep -c '^VIOLATION')"
  echo "$out" | grep -E '^(VIOLATED|UNDECIDED)' | cut -c1-240 | head -4
done
rm -rf $D
