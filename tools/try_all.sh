#!/bin/bash
# usage: try_all.sh <patch.diff>  — applies to /repo, runs every check in parallel (scratch mode), reverts; prints alarms only
PATCH=$1
cd /repo || exit 2
if ! git diff --quiet; then echo "/repo dirty"; exit 2; fi
if ! git apply --3way "$PATCH" 2>/tmp/apply.err; then echo "PATCH DOES NOT APPLY: $(head -2 /tmp/apply.err | tr '\n' ' ')"; git reset -q --hard HEAD; git clean -fdq; exit 3; fi
export GOFLAGS=-mod=mod GOPROXY=off GOSUMDB=off GOTOOLCHAIN=local; unset GOWORK
go build ./... 2>&1 | head -3
tmp=$(mktemp -d)
for p in $(/verif/bin/bornocheck -list); do ( /verif/bin/bornocheck -property $p -scratch > $tmp/$p.out 2>&1 ) & done; wait
n=0
for p in $(/verif/bin/bornocheck -list); do
  c=$(grep -c '^VIOLATION' $tmp/$p.out)
  if [ "$c" != "0" ]; then n=$((n+1)); echo "== $p alarms=$c"; grep -E '^(VIOLATED|UNDECIDED)' $tmp/$p.out | cut -c1-${WIDTH:-330} | head -${MAXLINES:-3}; fi
done
echo "checks alarming: $n"
rm -rf $tmp
git reset -q --hard HEAD; git clean -fdq
