#!/usr/bin/env python3
"""Rewrites the table of DESIGN.md §9 (between the SEED-MATRIX markers) from /verif/seeded/*/meta.json."""
import json, glob, os, re
rows = []
for m in sorted(glob.glob('/verif/seeded/C*/meta.json')):
    d = json.load(open(m)); name = os.path.basename(os.path.dirname(m)); own = d['breaks_property']
    fr = d.get('first_reports', {}).get(own, [''])
    mm = re.search(r'— (C\d\d/[^ ]+) @', fr[0]) if fr else None
    rule = mm.group(1) if mm else ('(own check silent)' if own not in d['detected_by'] else '')
    others = [x for x in d['detected_by'] if x != own]
    rows.append(f"| {name} | {d['needs_to_manifest'].replace('|', '/')} | `{rule}` | {' '.join(others) or '—'} |")
table = ("| seeded change | what it is and what it needs in order to manifest | first rule of the property's own check that fires | other checks that fire |\n"
         "|---|---|---|---|\n" + "\n".join(rows) + "\n")
p = '/verif/DESIGN.md'; s = open(p).read()
if '@@SEED_MATRIX@@' in s:
    s = s.replace('@@SEED_MATRIX@@', '<!-- SEED-MATRIX-BEGIN -->\n' + table + '<!-- SEED-MATRIX-END -->')
else:
    s = re.sub(r'<!-- SEED-MATRIX-BEGIN -->.*?<!-- SEED-MATRIX-END -->', lambda _: '<!-- SEED-MATRIX-BEGIN -->\n' + table + '<!-- SEED-MATRIX-END -->', s, flags=re.S)
open(p, 'w').write(s)
print(len(rows), 'rows')
