#!/usr/bin/env python3
"""Confirms each seed under /tmp/seed-Cxx/{A,B} in a scratch worktree and stores the confirmed ones under
/verif/seeded/<Cxx>-<A|B>/ (rebased patch.diff, demonstration, NOTES.md, meta.json with the detecting checks)."""
import json, os, shutil, subprocess, sys, glob, re

NEEDS = json.load(open('/verif/tools/seed_needs.json'))
props = subprocess.check_output(['/verif/bin/bornocheck', '-list']).decode().split()
only = [a for a in sys.argv[1:] if not a.startswith('--')]
ROUND2 = '--round2' in sys.argv
ROUND3 = '--round3' in sys.argv
ROUND4 = '--round4' in sys.argv
ROUND5 = '--round5' in sys.argv
ROUND6 = '--round6' in sys.argv
ROUND7 = '--round7' in sys.argv
ROUND8 = '--round8' in sys.argv
SRC = '/tmp/seed8-C*/[AB]' if ROUND8 else '/tmp/seed7-C*/[AB]' if ROUND7 else '/tmp/seed6-C*/[AB]' if ROUND6 else '/tmp/seed5-C*/[AB]' if ROUND5 else '/tmp/seed4-C*/[AB]' if ROUND4 else '/tmp/seed3-C*/[AB]' if ROUND3 else ('/tmp/seed2-C*/[AB]' if ROUND2 else '/tmp/seed-C*/[AB]')
VMAP = {'A': 'O', 'B': 'P'} if ROUND8 else {'A': 'M', 'B': 'N'} if ROUND7 else {'A': 'K', 'B': 'L'} if ROUND6 else {'A': 'I', 'B': 'J'} if ROUND5 else {'A': 'G', 'B': 'H'} if ROUND4 else {'A': 'E', 'B': 'F'} if ROUND3 else ({'A': 'C', 'B': 'D'} if ROUND2 else {'A': 'A', 'B': 'B'})

def run_checks():
    procs = {p: subprocess.Popen(['/verif/bin/bornocheck', '-property', p, '-scratch'], stdout=subprocess.PIPE, stderr=subprocess.STDOUT) for p in props}
    res = {}
    for p, pr in procs.items():
        out = pr.communicate()[0].decode(errors='replace')
        viol = [l for l in out.splitlines() if l.startswith(('VIOLATED', 'UNDECIDED'))]
        res[p] = viol
    return res

for sd in sorted(glob.glob(SRC)):
    pid, var = sd.split('/')[2].replace('seed8-', '').replace('seed7-', '').replace('seed6-', '').replace('seed5-', '').replace('seed4-', '').replace('seed3-', '').replace('seed2-', '').replace('seed-', ''), VMAP[sd.split('/')[3]]
    name = f'{pid}-{var}'
    if only and name not in only:
        continue
    r = subprocess.run(['/verif/tools/confirm_seed.sh', sd], capture_output=True, text=True)
    out = r.stdout
    verdict = [l for l in out.splitlines() if l.startswith('VERDICT')]
    print(name, verdict[0] if verdict else out[-200:])
    if not verdict or 'confirmed' != verdict[0].split()[1]:
        continue
    rebased = [l.split()[1] for l in out.splitlines() if l.startswith('REBASED')][0]
    dst = f'/verif/seeded/{name}'
    os.makedirs(dst, exist_ok=True)
    shutil.copy(rebased, dst + '/patch.diff'); os.remove(rebased)
    for f in os.listdir(sd):
        if f in ('demo_test.go', 'demo.sh', 'NOTES.md') or f.endswith('.bn'):
            shutil.copy(os.path.join(sd, f), dst)
    # which checks detect it
    subprocess.check_call(['git', '-C', '/repo', 'apply', dst + '/patch.diff'])
    try:
        res = run_checks()
    finally:
        subprocess.check_call(['git', '-C', '/repo', 'checkout', '--', '.'])
        subprocess.call(['git', '-C', '/repo', 'clean', '-fdq'])
    det = {p: [re.sub(r'\s+', ' ', v)[:300] for v in vs[:3]] for p, vs in res.items() if vs}
    meta = {
        'breaks_property': pid,
        'variant': var,
        'needs_to_manifest': NEEDS.get(name, 'see NOTES.md'),
        'confirmed': 'tools/confirm_seed.sh in a scratch worktree of /repo HEAD: demonstration passes without the change; with it the patch applies, `go build ./...` succeeds, all 157 baseline tests still pass, and the demonstration fails',
        'confirm_output': [l for l in out.splitlines() if l.startswith('demo-')][:1],
        'apply_with': f'git -C /repo apply /verif/seeded/{name}/patch.diff   (undo: git -C /repo checkout -- . && git -C /repo clean -fdq)',
        'detected_by': sorted(det.keys()),
        'first_reports': det,
        'detected_by_own_property_check': pid in det,
    }
    json.dump(meta, open(dst + '/meta.json', 'w'), indent=1, ensure_ascii=False)
    print('   detected by:', ' '.join(sorted(det.keys())) or 'NONE')
