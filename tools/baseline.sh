#!/bin/bash
# Runs the repository's test suite (no build tags) and checks that every test of
# BASELINE.json's stable_pass list passes.  usage: baseline.sh [repo-dir]
REPO=${1:-/repo}
export GOFLAGS=-mod=mod GOPROXY=off GOSUMDB=off GOTOOLCHAIN=local
unset GOWORK
cd "$REPO" || exit 2
go test -json -vet=off -count=1 -timeout 25m ./... > /tmp/baseline.$$.json 2>/dev/null
python3 - "$$" <<'PY'
import json,sys,os
pid=sys.argv[1]
passed=set()
for l in open(f'/tmp/baseline.{pid}.json'):
    try: e=json.loads(l)
    except Exception: continue
    if e.get('Action')=='pass' and e.get('Test'):
        passed.add(e['Package']+'::'+e['Test'])
os.remove(f'/tmp/baseline.{pid}.json')
base=json.load(open('/root/.vp/BASELINE.json'))['stable_pass'] if os.path.exists('/root/.vp/BASELINE.json') else []
missing=[t for t in base if t not in passed]
print(f"baseline: {len(base)} stable tests, {len(base)-len(missing)} pass, {len(missing)} missing; total passing now {len(passed)}")
for m in missing: print("MISSING", m)
sys.exit(1 if missing else 0)
PY
