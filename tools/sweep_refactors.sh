#!/bin/bash
# sweeps every behaviour-preserving patch through all checks, sequentially, printing only alarms
cd /verif
for f in /verif/tools/neutral/*.diff; do
  r=$(tools/try_scratch.sh $f 2>&1 | grep -E '^==|APPLY|BUILD|Killed' | tr '\n' ' ')
  [ -n "$r" ] && echo "$f: $r"
done
echo refactors-done
