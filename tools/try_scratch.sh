#!/bin/bash
# usage: try_scratch.sh <patch.diff> [property ...] — applies the patch to a scratch export of /repo HEAD (outside /repo and
# /verif, removed afterwards), runs the checks on it in parallel and prints every alarm.  /repo is not touched.
PATCH=$1; shift
PROPS=${@:-$(/verif/bin/bornocheck -list)}
T=$(mktemp -d /tmp/scr.XXXXXX)
trap 'rm -rf $T' EXIT
mkdir $T/tree && git -C /repo archive HEAD | tar -x -C $T/tree
if ! (cd $T/tree && git apply --whitespace=nowarn "$PATCH" 2>$T/apply.err); then echo "PATCH DOES NOT APPLY: $(head -2 $T/apply.err)"; exit 3; fi
export GOFLAGS=-mod=mod GOPROXY=off GOSUMDB=off GOTOOLCHAIN=local; unset GOWORK
if ! (cd $T/tree && go build ./... 2>$T/build.err); then echo "BUILD FAILS: $(head -3 $T/build.err)"; exit 4; fi
for p in $PROPS; do
  ( TMPDIR=$T ${BIN:-/verif/bin/bornocheck} -property $p -repo $T/tree -scratch > $T/$p.out 2>&1; echo $? > $T/$p.rc ) &
done
wait
n=0
for p in $PROPS; do
  if [ "$(cat $T/$p.rc)" != "0" ]; then n=$((n+1)); echo "== $p rc=$(cat $T/$p.rc)"; grep -E '^(VIOLATED|UNDECIDED)' $T/$p.out | cut -c1-${WIDTH:-300} | head -${MAXLINES:-4}; fi
done
echo "alarms: $n"
