#!/bin/bash
# usage: try_seed.sh <patch.diff> [property ...]   — applies the patch to /repo, runs the checks, reverts.
PATCH=$1; shift
PROPS=${@:-$(/verif/bin/bornocheck -list)}
cd /repo || exit 2
if ! git diff --quiet; then echo "/repo dirty"; exit 2; fi
if ! git apply --3way "$PATCH" 2>/tmp/apply.err; then echo "PATCH DOES NOT APPLY: $(head -3 /tmp/apply.err)"; git reset -q --hard HEAD; exit 3; fi
export GOFLAGS=-mod=mod GOPROXY=off GOSUMDB=off GOTOOLCHAIN=local; unset GOWORK
if ! go build ./... 2>/tmp/build.err; then echo "BUILD FAILS: $(head -5 /tmp/build.err)"; fi
for p in $PROPS; do
  out=$(/verif/bin/bornocheck -property $p -scratch 2>&1)
  rc=$?
  n=$(echo "$out" | grep -c '^VIOLATION')
  echo "== $p rc=$rc violations=$n"
  echo "$out" | grep -E '^(VIOLATED|UNDECIDED)' | cut -c1-260 | head -${MAXLINES:-6}
done
git reset -q --hard HEAD; git status --short | head -3
