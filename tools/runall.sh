#!/bin/bash
# runs every registered check on /repo (quick tier) in parallel; prints a one-line summary each; exit 1 if any fails
fail=0
tmp=$(mktemp -d)
for p in $(/verif/bin/bornocheck -list); do
  ( /verif/bin/bornocheck -property $p -tier ${TIER:-quick} > $tmp/$p.out 2>&1; echo $? > $tmp/$p.rc ) &
  if [ "${TIER:-quick}" = thorough ]; then while [ $(jobs -r | wc -l) -ge ${JOBS:-5} ]; do sleep 1; done; fi
done
wait
for p in $(/verif/bin/bornocheck -list); do
  rc=$(cat $tmp/$p.rc)
  echo "rc=$rc $(tail -1 $tmp/$p.out | cut -c1-200)"
  if [ "$rc" != "0" ]; then fail=1; grep -E '^(VIOLATED|UNDECIDED)' $tmp/$p.out | cut -c1-300 | head -5; fi
done
rm -rf $tmp
exit $fail
