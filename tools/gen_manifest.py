#!/usr/bin/env python3
"""Generates /verif/MANIFEST.json from the table below (one entry per claimed property)."""
import json, os

ENV = "GOFLAGS=-mod=mod GOPROXY=off GOSUMDB=off GOTOOLCHAIN=local GOWORK=off"
SETUP = ("cd /verif/checker && env " + ENV + " go build -o /verif/bin/bornocheck . ")

TRUST = ("Trusted base: Go type checker, go/ssa construction and VTA call graph (golang.org/x/tools v0.29.0), Go language semantics of the "
         "instructions the rules reason about, contracts of the standard-library primitives named as 'inherited' in DESIGN.md, and the spec tables of DESIGN.md §4.")

CLAIMS = {
 "C03": dict(
   text="Static analysis, level other. Decides, by enumerating every abstract path of the five Environment methods and of every clause of eval (finite-domain path-sensitive abstract interpretation over go/ssa), that scoping is lexical by construction: reference behaviour of Define/Get/GetInCurrentScope/Assign, constructors, who-constructs/who-writes, one fresh child scope per block / for / program / activation, same-scope redeclaration test, no route from a callee to its caller's scope. Does not execute an independent scope model over histories.",
   technique="path-sensitive abstract interpretation of go/ssa (event words of Environment methods, scope-wiring of eval clauses) + who-writes/who-constructs queries",
   ref="DESIGN.md §4 C03"),
 "C04": dict(
   text="Static analysis, level other. Decides on the event graph of every eval clause, Function.Call and Interpret: unhandled control signals are propagated unchanged before any further event (all statement-carrying sites), the Return clause and Function.Call carry exactly the returned value and stop, the call protocol (callee, callable test, arity test established on every path to the invocation, arguments in order, one invocation, error reported, positional binding), closure = declaring environment, fresh activation under the closure. Does not run programs against a closure-semantics model.",
   technique="path-sensitive abstract interpretation of go/ssa with deterministic monitor automata (product search over event graphs)",
   ref="DESIGN.md §4 C04"),
 "C05": dict(
   text="Static analysis, level other. Decides that the clauses for if, while, for, break, continue and the top-level loop of Interpret are language-included in the reference automaton of each construct over the events (child evaluation with abstract signal outcome, truthiness test, nil test, return): one arm, condition-body-increment order, Continue still increments, Break leaves only this loop, Return propagates, stray signals reported. Iteration counts of concrete programs are not computed.",
   technique="event-graph extraction by abstract interpretation + regular-language inclusion against reference automata",
   ref="DESIGN.md §4 C05"),
 "C06": dict(
   text="Static analysis, level other. Decides the error discipline as a typestate property (clean/dirty) over every clause of eval, Function.Call, Interpret and every built-in: no stdout write, stdin read, built-in invocation or unguarded evaluation is reachable after the flag may have been raised; no loop can cycle in the dirty state; RuntimeError is the single reporter and sets the flag; every diagnostic's line is data of the current node or of the signal, and parser Line fields come from token lines. Does not decide the wording of diagnostics nor the 'right' line of a multi-line expression.",
   technique="typestate analysis (clean/dirty) over abstract event graphs + who-writes queries + provenance of the line argument",
   ref="DESIGN.md §4 C06"),
 "C13": dict(
   text="Static analysis, level other — for determinism the static argument is the natural one. Decides that no nondeterminism source is reachable from main: every map range is order-insensitive or sorted before use, no time/rand/os-identity/runtime-introspection call (time.Now only in the clock built-in), no goroutines/channels/select/unsafe, no address can be printed (%p, pointer-bearing universe types without String()), no package-level state besides the two flags. Modulo the trusted base this is determinism.",
   technique="enumeration of nondeterminism sources over the VTA-reachable program (map-range order-sensitivity analysis, API who-may-call, type-based global-state aliasing)",
   ref="DESIGN.md §4 C13"),
 "C14": dict(
   text="Static analysis, level other. Decides per eval clause that child evaluations happen exactly once in source order on success paths (prefix on error paths), stores follow the evaluations and store the evaluated value, `||`/`&&` evaluate the right operand iff the left does not decide and return the deciding operand's own value, the truthiness table for every dynamic type of the value universe, and that `!` is !isTruthy.",
   technique="monitor automata over abstract event graphs; exhaustive exploration of isTruthy per universe type",
   ref="DESIGN.md §4 C14"),
 "C15": dict(
   text="Static analysis, level other. Decides the routing of printing: exactly one fmt.Println(NFC(text(value))) per successful print statement and none otherwise; every value-to-text site (print, number+string, string+operand) is fmt %v on the single representation; nil prints as \"nil\"; the only string representation is Go string. The digits themselves (shortest round trip, exponent switch) are fmt/strconv's contract and are not decided.",
   technique="monitor automaton on the print clause + formatting-site table check + value universe",
   ref="DESIGN.md §4 C15"),
 "C16": dict(
   text="Static analysis, level other. Decides the structural necessary condition 'one Go representation per Borno value kind': the value universe (all dynamic types a MakeInterface can put into a Borno value position) is computed from SSA and every producer of a second number/string representation or of a foreign Go type is reported with its site. Does not decide the behaviour of operators on equal representations (C02/C14/C15) and would reject a tree that keeps two representations but treats them identically everywhere.",
   technique="value-universe extraction over go/ssa MakeInterface sites (type-based dataflow classification)",
   ref="DESIGN.md §4 C16"),
 "C19": dict(
   text="Static analysis, level other. Decides the exit-status decision list by enumerating all abstract paths of main, runFile and run (64 for bad usage without running anything, non-zero on read failure, 65 iff HadError, else 70 iff HadRuntimeError, else normal return; Interpret only after a false HadError test that follows ScanTokens and Parse), flag ownership by package, the complete who-writes-which-stream table, and that the input built-in reads one line through a reader created once per process. OS behaviour for unreadable files and a last line without newline are not decided.",
   technique="path enumeration by abstract interpretation (package main) + who-writes / who-calls queries over the call graph",
   ref="DESIGN.md §4 C19"),
 "C20": dict(
   text="Static analysis, level other. Decides the REPL loop automaton (prompt, read, eof → return, otherwise run(line,true) then both flags reset before the next read; no exit reachable from run), that nothing survives a line (fresh scanner/parser/interpreter per line, no loop-carried values, no mutable package-level state by type-based may-alias), and the echo rule (echo iff isRepl and no error; isRepl flows unchanged, false inside function bodies). Byte-level interleaving of prompt and output is not decided.",
   technique="monitor automaton over the abstract event graph of the REPL loop + global-state may-alias + constant flow of isRepl",
   ref="DESIGN.md §4 C20"),
}


CLAIMS.update({
 "C01": dict(
   text="Static analysis, level other. Validates the parser against the published grammar, level by level: from the explored event graph of every expression-level parse function the operand callee, operator token set and right-operand callee are extracted and the chain assignment→…→unary must equal the ladder of grammer.txt (README's simplified ladder a sub-chain); on every explored path the node built in iteration i has Left = carried value, Right = this iteration's operand, Operator = matched token (left association), assignment recurses into itself and rewrites only the three assignable targets, prefix operands are parsed by unary, ** takes unary operands, call wraps the value parsed so far for each ( ) [ ] .name suffix, else binds right after the then-branch, and every node field is fed from the sub-parse named by the reference table. Does not decide that the token list is right (C09) nor the print-invariance corollary.",
   technique="path-sensitive abstract interpretation of the recursive-descent parser (event graphs) compared with a grammar oracle parsed from grammer.txt/README",
   ref="DESIGN.md §4 C01"),
 "C02": dict(
   text="Static analysis, level other. evaluateBinary/evaluateUnary are explored once per operator token the parser can produce (helpers inlined, coercions as events) and the complete set of abstract paths is compared with the reference: no silent nil and no 'unknown operator' for a supported operator; operands coerced left then right; the success value is exactly op(L,R) on the coerced operands in order; / and % only behind right==0→error, shifts only behind count<0→error; ==/!= route to isEqual, which is Go == on the canonical representations (containers by identity); toInt64 accepts only integral floats. IEEE results, math.Pow/Mod accuracy and int64 wrap-around are inherited from Go, not decided.",
   technique="per-operator path-set comparison by abstract interpretation of go/ssa with symbolic result expressions",
   ref="DESIGN.md §4 C02"),
 "C07": dict(
   text="Static analysis, level other. Every SSA instruction that can panic or kill the process is enumerated over all functions reachable from main and discharged by a rule: comma-ok assertions; interface comparisons on dynamic-type sets narrowed by dominating type tests; index/slice expressions by difference-bound reasoning over dominating guards, executed index expressions and who-writes field invariants, with four named lemmas (call arity ⇒ arguments[k]; scanner advance only with a rune left; string slice after two consumed runes; parser cursor ≤ EOF index) re-proved on every run from the explored scanner/parser/evaluator models; integer division; signed shifts; nil maps/signals; no panic/exit reachable from run; structural recursion; no goroutines/unsafe. Two known findings (unbounded Borno recursion, printing a self-containing array) are listed in known_findings.json. Library functions are trusted not to panic.",
   technique="panic-site enumeration over go/ssa + dominating-guard facts with a difference-bound-matrix reasoner + who-writes field invariants + model-based lemmas",
   ref="DESIGN.md §4 C07"),
 "C08": dict(
   text="Static analysis, level other. Progress (least-fixpoint of consuming parse functions, every parser and scanner cycle consumes, no left recursion); accept ⇔ grammar: for program, declaration, statement, expression, assignment and unary the automaton extracted from the code (success paths, lenient consumes mandatory, non-anchor functions inlined as minimised DFAs) is checked for regular-language equivalence with the automaton of grammer.txt's production under the documented reading rules, with a shortest distinguishing word as witness; lookahead tests may not cut a nonterminal's FIRST set except `{` at statement; rejection rules are exactly the documented filters, reported at the documented token; every parser error goes through the flag-raising reporter and Interpret runs only after a false HadError test. Unicode classification per code point and the first-diagnostic claim for texts with lexical errors are not decided.",
   technique="automata extraction from abstract interpretation of the parser + DFA equivalence against the grammar file; progress fixpoint; who-creates-errors queries",
   ref="DESIGN.md §4 C08"),
 "C09": dict(
   text="Static analysis, level other. The scanner is explored with its cursor API abstracted to a model tracking end-of-input knowledge, interval facts about the rune under the cursor and the next one, runes consumed since token start and newline bookkeeping (the primitives' bodies are matched against reference words): every path adds one token, or reports and adds none, or is a documented skip; the decision table (first rune → match tests → token) equals the reference table of one- and two-character operators; every possibly-newline rune is paired with exactly one line increment; keyword table = README's table ∪ {nil}; string value = source[start+1:current-1]; who-writes facts give the partition property and the single EOF. unicode.IsLetter/IsMark are inherited.",
   technique="abstract interpretation of the scanner with a cursor/rune-fact model (interval constraints) + table extraction + who-writes queries",
   ref="DESIGN.md §4 C09"),
 "C10": dict(
   text="Static analysis, level other; the per-character part is exhaustive. The transliteration table is constant-evaluated (ten Bengali digits → the ASCII digit of the same Unicode value) and the loop shape (one write per rune: image or the rune itself) is checked; isDigit's accepted set is computed by interval evaluation over all code points and must be ASCII digits ∪ the table's domain; number() consumes only digits or a point followed by a known digit; the NUMBER literal is ParseFloat(transliterated lexeme, 64) with a diagnostic and no token on error; every ParseFloat in the module is behind the transliteration with bit size 64. Correct rounding is ParseFloat's contract (trusted).",
   technique="constant evaluation of tables + interval evaluation of the classifier + abstract interpretation of number() with the scanner cursor model",
   ref="DESIGN.md §4 C10"),
 "C11": dict(
   text="Static analysis, level other. Indexed read, indexed write and রিমুভ are compared path by path with the reference (array test, integer coercion, both bound tests on the very index/array used, exactly array[index] touched); every slice-typed result of a built-in is rooted at storage it allocated itself (no aliasing with arguments); এড/রিমুভ/লেন match their reference words; array literals are fresh per evaluation; nothing on value paths copies an array. The list-model equivalence over histories is not executed.",
   technique="path-set comparison by abstract interpretation + SSA ownership (fresh-root) analysis of returned slices",
   ref="DESIGN.md §4 C11"),
 "C12": dict(
   text="Static analysis, level other. Property read/write, কি_রিমুভ and the object-literal clause are compared path by path with the reference (object test, existence test, store/delete of exactly the named key, fresh map per literal with one store per recorded name); key and value listings iterate one shared deterministic ordering of the object's keys, so they are mutually consistent and complete; the parser records each distinct literal name once. The map-model equivalence over histories is not executed; fmt printing all entries is inherited.",
   technique="path-set comparison by abstract interpretation + shape check of the shared ordering function",
   ref="DESIGN.md §4 C12"),
 "C17": dict(
   text="Static analysis, level other. Registration table (17 documented names, each a Callable, each reserved in the parser); each math built-in's success paths return exactly math.F(toNumber(arguments[0])) for its documented F, ঘাত is math.Pow(toNumber(a0),toNumber(a1)) — the expression ** computes; the clock derives from time.Now in seconds; min/max have the reference fold shape (init from element 0, guarded update under </>, single-array flattening, emptiness rejected before and after); Arity() agrees with the argument-count test and indexes used; failed coercions end in a non-nil error. Numerical accuracy of math.* is inherited.",
   technique="path-set comparison by abstract interpretation with symbolic result expressions + SSA loop-shape check + table agreement",
   ref="DESIGN.md §4 C17"),
 "C18": dict(
   text="Static analysis, level other. Each invariance family is decided as non-interference by forward taint over go/ssa: values read from line fields reach only line fields, diagnostic arguments and the documented `ধরি` same-line test; lexemes reach only equality-compared map keys, diagnostics and String() methods; `&&`/`||` scan to the token types of এবং/বা; the Grouping clause returns exactly its content's results and no node-kind test exists outside eval's dispatch except at three documented places; digit-script invariance is C10's rule set. Family (f), never-executed code, is not decided.",
   technique="interprocedural forward taint (non-interference) over go/ssa def-use chains + table agreement + clause automaton",
   ref="DESIGN.md §4 C18"),
})

PENDING = {}

# rules added after the first version of a claim (see the "As built" notes of DESIGN.md §4)
ADDENDA = {
 "C10": " A number literal ends only where the input ends or no digit of either script follows. The script reaches the scanner as the whole file, read once and converted in one piece (a text decoded block by block cuts a Bangla digit in two).",
 "C01": " Per declarator of a ধরি list the initialiser stored in the tree is the expression after that declarator's own `=`, nil without one. What a parse function hands back is a node built, or a sub-parse made, on that path (no node stands at two places of the tree).",
 "C11": " The argument list a built-in receives is built during this evaluation from the evaluated arguments in order (C04's call protocol); string indexes go through the text case of the integer coercion. Nothing outside eval's dispatch inspects the shape of an expression (a call such as লেন(a) is evaluated where and when it is written).",
 "C02": " Also decided (shared rules): `+` splices in a number's text as দেখাও prints it — every value-to-text site is fmt %v, no second number-to-text routine (C15's rule) — and == / != compare numbers by value because every number has one Go representation (C16's universe rule). The coercions of text (transliterate, ParseFloat of the whole text, whole-number test for integers) are part of the coercion table; the operator functions and everything they call neither write nor read mutable package-level state (S5). == and != cannot panic: no two values of an uncomparable Go type can reach isEqual's fallback comparison (C07's rule). Arrays and objects are equal by identity and nothing else (the only ways to answer false: other kind, different length, different storage), so every container equals itself. No value is produced on a path on which the operator's own coercion of an operand failed.",
 "C03": " Also decided: S3 tree links — a parse function returning a statement/expression list returns exactly its sub-parser results in order and every child link of a node is a sub-parser result or a node built on that path (scopes follow the tree, so a parser that flattens, drops or splices blocks is reported); the function activation binds the function's own name and its parameters by position (C04's rule under C03's name). Every name operation of every evaluator clause addresses the clause's own scope (a lookup starting at the globals skips the bindings in between). Every nested evaluation in a clause is of a part of the construct being evaluated (a callee's body is evaluated by Function.Call only, never in the caller's scope).",
 "C04": " Also decided: the activation binds the function's own name; S6 balanced activation state — a counter the interpreter raises in a function (call depth, nesting level) is restored on every return path of that function (defer-aware), so finished calls leave no residue. The activation binds the own name first and the parameters over it, all before the body runs. One fresh scope per execution of a block or loop body and names looked up under the node's own lexeme everywhere (C03's wiring rules), which is what capture by reference rests on.",
 "C05": " Also decided: S4 (shared with C03) the parser hands every statement of a body or block to the tree; S2 the truthiness table of isTruthy for every value kind (C14's rule), since arms and loops depend on conditions only through it. Conditions group as documented (C01's ladder) and an assignment updates the innermost binding of a name (C03's environment shape), so nested loops over one name keep their own counters.",
 "C06": " Also decided (S0): the faults are detected — the name rules of C03 (undefined name, redeclaration), the call-protocol rules of C04 (callee kind, arity, built-in error) and C02's operator table (type mismatch, zero divisor, negative shift reported before the operation) hold on every path to the operation; detection of index, property and built-in faults is decided under C11, C12, C17. A built-in that performs input hands every read error on (end of input is a fault, not an empty line); the operator functions are stateless (C02/S5). No operation of the evaluator or a built-in can end in a Go panic instead of a diagnostic (C07's panic-site rules for interpreter and environment). Each node's Line is fed from the token the grammar associates with it (C01's wiring table). Shared in round 8: C02's failed-coercion rule (a type mismatch hidden by an ignored conversion error) and C01's fresh-node rule (a node shared by several occurrences carries the first occurrence's line).",
 "C07": " Also decided: P6 typed nil — no pointer whose provenance includes the nil constant is converted to an interface without a dominating nil test; P8 env-chain — Environment.Parent is fixed at construction, so the parent walk of Get/Assign is finite (C03's constructor rule). Value facts that no single dominating test gives are proved path-wise in loop-free code (every entry-to-use path passes an establishing test; contradictory paths pruned); down-counting loop counters are bounded above by induction. Maps keyed by interface values are only ever looked up or stored into with hashable dynamic values.",
 "C08": " Also decided: S6 — a node that assignment() would accept as a target is never handed on unchanged by a function that consumed further tokens around it (parenthesised targets are rejected); S7 — comments and strings end exactly where the language says (shared with C09); every name token stored as a declared variable or function name has been looked up in the reserved table, and found absent, on that path. The panic-site rules of C07 hold for every function of lexer, parser, token and ast (no abnormal termination of the front end); direct right recursion and iteration are the same language (Arden normal form on both sides of the grammar comparison). The scanner is given the program text unchanged (no replacer, trim or normalisation between reading the file and scanning). After construction the parser writes nothing but its position (no names, nodes or counts remembered from one construct to the next). Which runes may stand in a name is decided for every code point (letter, mark or underscore, Go's unicode tables as reference).",
 "C09": " Also decided: S7 extents — a // comment stops only at a newline or the end of input, a /* */ comment only behind its first */ lying behind the opener, a string only behind its first quote; unterminated forms are reported only at the end of input; the number path adds its token unless ParseFloat of the unconditionally transliterated lexeme fails; the reporter the scanner calls writes its diagnostic and raises the flag on every path. A word token is produced only where the input ends or the next rune is known not to continue a word (longest piece); a comparison on a truncated rune is not the comparison on the rune. Word characters are decided for every code point: isAlpha holds exactly for letters, marks and the underscore.",
 "C12": " Also decided (S4, shared with C15): the print statement hands the whole value to the one text function (fmt %v), no hand-written traversal. The functions that parse object syntax reject nothing of their own (C08's filter rule), so a literal yields its listed properties whatever they are called. Nothing outside eval's dispatch looks at the syntactic kind of an expression and every clause evaluates its operands on every successful path, so a property read fails wherever it stands (C14's and C16's rules).",
 "C13": " Also decided: listing the keys of an object is one pass over the shared ordering function on every call, nothing remembered between calls (C12's rule). The initialisers of an object literal run once each in source order, in one pass (C12's literal rule).",
 "C14": " Also decided (S4, shared with C16/C18): nothing outside eval's dispatch tests the syntactic kind of an operand, so no operand expression is rewritten between parsing and evaluation. A call evaluates the callee, then each argument once in order into a list of its own, and that list reaches the callee (C04's call protocol). Which operand a short-circuit operator guards follows the documented grouping (C01's ladder and associativity).",
 "C15": " Also decided: the text functions read and write no package-level state (the text of a value depends on the value alone). What + splices in is text(left) + text(right) with the operands unchanged (the + row of C02's table). No strconv number formatter exists anywhere in the module: fmt %v is the only number-to-text routine. Printing normalises with NFC and with no other form; every number has one Go representation (C16's rule), which is what makes its text well defined.",
 "C16": " Also decided (S2): what an operator yields depends on the operand values only (C02's operator table), and a string literal denotes exactly the text between its quotes (C09/S6), like text from every other producer. A numeric built-in returns what Go's math function returns (C17's routing rule), so its results are not distinguishable from the same number produced otherwise (−0, NaN, ±Inf). min/max return the converted number found by the fold, not the raw argument (C17's fold rule).",
 "C17": " Also decided: the call clause compares the argument count with Arity() for every callee before invoking it (shared with C04), which is what the fixed-arity built-ins rely on. Elements of the first argument are compared only when it is the only argument.",
 "C18": " Also decided: comments are layout — they end where the language says (extents rule of C09); evaluating a parenthesised expression performs nothing but the evaluation of its operand (no store, counter, report or output on the way, including eval's prologue). The initialisers of an object literal run in source order, not in an order computed from the property names (C12's literal rule). A lexeme is the slice of source it covers (C09's partition rule): no normalisation can merge two spellings of a name. The parser groups as documented (C01's ladder, associativity, postfix chain), which is what makes parentheses repeating that grouping redundant. (f) never-executed code, as far as the parser goes: each parse function rejects by its documented rules only, and the parser keeps no state between constructs except its position.",
 "C19": " Also decided: unterminated comments and strings are reported exactly when the input ends inside one (shared extents rule); a run that hit a runtime error ends — eval is a no-op once the flag is set and no loop cycles in that state (C06's rules) — so status 70 is actually reached. An invalid operation is detected on every path to it (C06's detection rules), so a faulty run cannot end with status 0. The parser's reporter reports and flags on its only path; every fmt.Printf/Fprintf of the module has a constant format. The scanner's input ends at the end of the text and nowhere else (C09's primitive rule) and the scanner is given the text unchanged. Every rejection of the parser goes through its reporting primitive (an unreported rejection exits 0 having run nothing); the script is the whole file converted in one piece.",
 "C20": " Also decided: a line that fails at run time still ends (C06's rules: eval is a no-op once the flag is set, no loop cycles in that state), so the session answers the next line.",
}
for _k, _v in ADDENDA.items():
    CLAIMS[_k]["text"] += _v

def main():
    props = [json.loads(l) for l in open('/verif/properties.jsonl')]
    checks, na = [], []
    for p in props:
        pid = p['id']
        if pid in CLAIMS:
            c = CLAIMS[pid]
            checks.append({
                "property_id": pid,
                "quick_cmd": f"/verif/bin/bornocheck -property {pid} -tier quick -repo /repo -verif /verif",
                "thorough_cmd": f"/verif/bin/bornocheck -property {pid} -tier thorough -repo /repo -verif /verif",
                "evidence_file": f"/verif/evidence/{pid}.json",
                "replay_cmd_template": "cat {path}",
                "engine": "bornocheck",
                "level_claimed": {"category": "other", "text": c['text'], "design_ref": c['ref']},
                "level_note": TRUST,
                "technique": c['technique'],
            })
        else:
            na.append({"property_id": pid, "reason": PENDING.get(pid, "check not built yet in this round (static rules designed in DESIGN.md §4; will be claimed when the rule is implemented and validated)")})
    m = {
        "version": 1,
        "setup_cmd": SETUP,
        "hooks": {"guard": "verif", "enable": "none needed: the checker analyses the source; no hooks or instrumentation are compiled into /repo",
                  "baseline_off_cmd": "/verif/tools/baseline.sh /repo", "source_commits": [], "add_only": True},
        "engines": [{"name": "bornocheck", "path": "/verif/checker", "serves_properties": sorted(CLAIMS.keys()),
                     "kind_free_text": "repository-specific static analyser over go/packages + go/ssa + VTA call graph: value-universe extraction, dominating-guard facts, finite-domain path-sensitive abstract interpreter with rule monitors, table extractors"}],
        "checks": checks,
        "not_applicable": na,
        "notes": "All checks are static: they load /repo's current working tree with go/packages, never run Borno or its tests. Known findings: /verif/known_findings.json. fix: commits in /repo are listed there with status fixed.",
    }
    json.dump(m, open('/verif/MANIFEST.json', 'w'), indent=1, ensure_ascii=False)
    print("claimed", len(checks), "not_applicable", len(na))

if __name__ == '__main__':
    main()
