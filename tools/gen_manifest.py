#!/usr/bin/env python3
"""Generates /verif/MANIFEST.json from the table below (one entry per claimed property)."""
import json, os

ENV = "GOFLAGS=-mod=mod GOPROXY=off GOSUMDB=off GOTOOLCHAIN=local GOWORK=off"
SETUP = ("cd /verif/checker && env " + ENV + " go build -o /verif/bin/bornocheck . ")

TRUST = ("Trusted base: Go type checker, go/ssa construction and VTA call graph (golang.org/x/tools v0.29.0), Go language semantics of the "
         "instructions the rules reason about, contracts of the standard-library primitives named as 'inherited' in DESIGN.md, and the spec tables of DESIGN.md §4.")

CLAIMS = {
 "C16": dict(
   text="Static analysis, level other. Decides the structural necessary condition 'one Go representation per Borno value kind': the value universe (all dynamic types a MakeInterface can put into a Borno value position) is computed from SSA and every producer of a second number/string representation or of a foreign Go type is reported with its site. Does not decide the behaviour of operators on equal representations (C02/C14/C15) and would reject a tree that keeps two representations but treats them identically everywhere.",
   technique="value-universe extraction over go/ssa MakeInterface sites (type-based dataflow classification)",
   ref="DESIGN.md §4 C16"),
}

PENDING = {}

def main():
    props = [json.loads(l) for l in open('/verif/properties.jsonl')]
    checks, na = [], []
    for p in props:
        pid = p['id']
        if pid in CLAIMS:
            c = CLAIMS[pid]
            checks.append({
                "property_id": pid,
                "quick_cmd": f"/verif/bin/bornocheck -property {pid} -tier quick -repo /repo -verif /verif",
                "thorough_cmd": f"/verif/bin/bornocheck -property {pid} -tier thorough -repo /repo -verif /verif",
                "evidence_file": f"/verif/evidence/{pid}.json",
                "replay_cmd_template": "cat {path}",
                "engine": "bornocheck",
                "level_claimed": {"category": "other", "text": c['text'], "design_ref": c['ref']},
                "level_note": TRUST,
                "technique": c['technique'],
            })
        else:
            na.append({"property_id": pid, "reason": PENDING.get(pid, "check not built yet in this round (static rules designed in DESIGN.md §4; will be claimed when the rule is implemented and validated)")})
    m = {
        "version": 1,
        "setup_cmd": SETUP,
        "hooks": {"guard": "verif", "enable": "none needed: the checker analyses the source; no hooks or instrumentation are compiled into /repo",
                  "baseline_off_cmd": "/verif/tools/baseline.sh /repo", "source_commits": [], "add_only": True},
        "engines": [{"name": "bornocheck", "path": "/verif/checker", "serves_properties": sorted(CLAIMS.keys()),
                     "kind_free_text": "repository-specific static analyser over go/packages + go/ssa + VTA call graph: value-universe extraction, dominating-guard facts, finite-domain path-sensitive abstract interpreter with rule monitors, table extractors"}],
        "checks": checks,
        "not_applicable": na,
        "notes": "All checks are static: they load /repo's current working tree with go/packages, never run Borno or its tests. Known findings: /verif/known_findings.json. fix: commits in /repo are listed there with status fixed.",
    }
    json.dump(m, open('/verif/MANIFEST.json', 'w'), indent=1, ensure_ascii=False)
    print("claimed", len(checks), "not_applicable", len(na))

if __name__ == '__main__':
    main()
