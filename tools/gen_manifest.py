#!/usr/bin/env python3
"""Generates /verif/MANIFEST.json from the table below (one entry per claimed property)."""
import json, os

ENV = "GOFLAGS=-mod=mod GOPROXY=off GOSUMDB=off GOTOOLCHAIN=local GOWORK=off"
SETUP = ("cd /verif/checker && env " + ENV + " go build -o /verif/bin/bornocheck . ")

TRUST = ("Trusted base: Go type checker, go/ssa construction and VTA call graph (golang.org/x/tools v0.29.0), Go language semantics of the "
         "instructions the rules reason about, contracts of the standard-library primitives named as 'inherited' in DESIGN.md, and the spec tables of DESIGN.md §4.")

CLAIMS = {
 "C03": dict(
   text="Static analysis, level other. Decides, by enumerating every abstract path of the five Environment methods and of every clause of eval (finite-domain path-sensitive abstract interpretation over go/ssa), that scoping is lexical by construction: reference behaviour of Define/Get/GetInCurrentScope/Assign, constructors, who-constructs/who-writes, one fresh child scope per block / for / program / activation, same-scope redeclaration test, no route from a callee to its caller's scope. Does not execute an independent scope model over histories.",
   technique="path-sensitive abstract interpretation of go/ssa (event words of Environment methods, scope-wiring of eval clauses) + who-writes/who-constructs queries",
   ref="DESIGN.md §4 C03"),
 "C04": dict(
   text="Static analysis, level other. Decides on the event graph of every eval clause, Function.Call and Interpret: unhandled control signals are propagated unchanged before any further event (all statement-carrying sites), the Return clause and Function.Call carry exactly the returned value and stop, the call protocol (callee, callable test, arity test established on every path to the invocation, arguments in order, one invocation, error reported, positional binding), closure = declaring environment, fresh activation under the closure. Does not run programs against a closure-semantics model.",
   technique="path-sensitive abstract interpretation of go/ssa with deterministic monitor automata (product search over event graphs)",
   ref="DESIGN.md §4 C04"),
 "C05": dict(
   text="Static analysis, level other. Decides that the clauses for if, while, for, break, continue and the top-level loop of Interpret are language-included in the reference automaton of each construct over the events (child evaluation with abstract signal outcome, truthiness test, nil test, return): one arm, condition-body-increment order, Continue still increments, Break leaves only this loop, Return propagates, stray signals reported. Iteration counts of concrete programs are not computed.",
   technique="event-graph extraction by abstract interpretation + regular-language inclusion against reference automata",
   ref="DESIGN.md §4 C05"),
 "C06": dict(
   text="Static analysis, level other. Decides the error discipline as a typestate property (clean/dirty) over every clause of eval, Function.Call, Interpret and every built-in: no stdout write, stdin read, built-in invocation or unguarded evaluation is reachable after the flag may have been raised; no loop can cycle in the dirty state; RuntimeError is the single reporter and sets the flag; every diagnostic's line is data of the current node or of the signal, and parser Line fields come from token lines. Does not decide the wording of diagnostics nor the 'right' line of a multi-line expression.",
   technique="typestate analysis (clean/dirty) over abstract event graphs + who-writes queries + provenance of the line argument",
   ref="DESIGN.md §4 C06"),
 "C13": dict(
   text="Static analysis, level other — for determinism the static argument is the natural one. Decides that no nondeterminism source is reachable from main: every map range is order-insensitive or sorted before use, no time/rand/os-identity/runtime-introspection call (time.Now only in the clock built-in), no goroutines/channels/select/unsafe, no address can be printed (%p, pointer-bearing universe types without String()), no package-level state besides the two flags. Modulo the trusted base this is determinism.",
   technique="enumeration of nondeterminism sources over the VTA-reachable program (map-range order-sensitivity analysis, API who-may-call, type-based global-state aliasing)",
   ref="DESIGN.md §4 C13"),
 "C14": dict(
   text="Static analysis, level other. Decides per eval clause that child evaluations happen exactly once in source order on success paths (prefix on error paths), stores follow the evaluations and store the evaluated value, `||`/`&&` evaluate the right operand iff the left does not decide and return the deciding operand's own value, the truthiness table for every dynamic type of the value universe, and that `!` is !isTruthy.",
   technique="monitor automata over abstract event graphs; exhaustive exploration of isTruthy per universe type",
   ref="DESIGN.md §4 C14"),
 "C15": dict(
   text="Static analysis, level other. Decides the routing of printing: exactly one fmt.Println(NFC(text(value))) per successful print statement and none otherwise; every value-to-text site (print, number+string, string+operand) is fmt %v on the single representation; nil prints as \"nil\"; the only string representation is Go string. The digits themselves (shortest round trip, exponent switch) are fmt/strconv's contract and are not decided.",
   technique="monitor automaton on the print clause + formatting-site table check + value universe",
   ref="DESIGN.md §4 C15"),
 "C16": dict(
   text="Static analysis, level other. Decides the structural necessary condition 'one Go representation per Borno value kind': the value universe (all dynamic types a MakeInterface can put into a Borno value position) is computed from SSA and every producer of a second number/string representation or of a foreign Go type is reported with its site. Does not decide the behaviour of operators on equal representations (C02/C14/C15) and would reject a tree that keeps two representations but treats them identically everywhere.",
   technique="value-universe extraction over go/ssa MakeInterface sites (type-based dataflow classification)",
   ref="DESIGN.md §4 C16"),
 "C19": dict(
   text="Static analysis, level other. Decides the exit-status decision list by enumerating all abstract paths of main, runFile and run (64 for bad usage without running anything, non-zero on read failure, 65 iff HadError, else 70 iff HadRuntimeError, else normal return; Interpret only after a false HadError test that follows ScanTokens and Parse), flag ownership by package, the complete who-writes-which-stream table, and that the input built-in reads one line through a reader created once per process. OS behaviour for unreadable files and a last line without newline are not decided.",
   technique="path enumeration by abstract interpretation (package main) + who-writes / who-calls queries over the call graph",
   ref="DESIGN.md §4 C19"),
 "C20": dict(
   text="Static analysis, level other. Decides the REPL loop automaton (prompt, read, eof → return, otherwise run(line,true) then both flags reset before the next read; no exit reachable from run), that nothing survives a line (fresh scanner/parser/interpreter per line, no loop-carried values, no mutable package-level state by type-based may-alias), and the echo rule (echo iff isRepl and no error; isRepl flows unchanged, false inside function bodies). Byte-level interleaving of prompt and output is not decided.",
   technique="monitor automaton over the abstract event graph of the REPL loop + global-state may-alias + constant flow of isRepl",
   ref="DESIGN.md §4 C20"),
}

PENDING = {}

def main():
    props = [json.loads(l) for l in open('/verif/properties.jsonl')]
    checks, na = [], []
    for p in props:
        pid = p['id']
        if pid in CLAIMS:
            c = CLAIMS[pid]
            checks.append({
                "property_id": pid,
                "quick_cmd": f"/verif/bin/bornocheck -property {pid} -tier quick -repo /repo -verif /verif",
                "thorough_cmd": f"/verif/bin/bornocheck -property {pid} -tier thorough -repo /repo -verif /verif",
                "evidence_file": f"/verif/evidence/{pid}.json",
                "replay_cmd_template": "cat {path}",
                "engine": "bornocheck",
                "level_claimed": {"category": "other", "text": c['text'], "design_ref": c['ref']},
                "level_note": TRUST,
                "technique": c['technique'],
            })
        else:
            na.append({"property_id": pid, "reason": PENDING.get(pid, "check not built yet in this round (static rules designed in DESIGN.md §4; will be claimed when the rule is implemented and validated)")})
    m = {
        "version": 1,
        "setup_cmd": SETUP,
        "hooks": {"guard": "verif", "enable": "none needed: the checker analyses the source; no hooks or instrumentation are compiled into /repo",
                  "baseline_off_cmd": "/verif/tools/baseline.sh /repo", "source_commits": [], "add_only": True},
        "engines": [{"name": "bornocheck", "path": "/verif/checker", "serves_properties": sorted(CLAIMS.keys()),
                     "kind_free_text": "repository-specific static analyser over go/packages + go/ssa + VTA call graph: value-universe extraction, dominating-guard facts, finite-domain path-sensitive abstract interpreter with rule monitors, table extractors"}],
        "checks": checks,
        "not_applicable": na,
        "notes": "All checks are static: they load /repo's current working tree with go/packages, never run Borno or its tests. Known findings: /verif/known_findings.json. fix: commits in /repo are listed there with status fixed.",
    }
    json.dump(m, open('/verif/MANIFEST.json', 'w'), indent=1, ensure_ascii=False)
    print("claimed", len(checks), "not_applicable", len(na))

if __name__ == '__main__':
    main()
