#!/bin/bash
# usage: confirm_seed.sh <seed-dir>   (dir with patch.diff + demo_test.go [or demo.sh])
# Confirms in a scratch worktree of /repo HEAD: demo passes without the patch; with the patch: applies, builds,
# baseline suite still passes, demo fails.  Prints a one-line verdict and details; removes the worktree.
SD=$1
export GOFLAGS=-mod=mod GOPROXY=off GOSUMDB=off GOTOOLCHAIN=local; unset GOWORK
WT=$(mktemp -d /tmp/cs.XXXXXX); rmdir $WT
git -C /repo worktree add --detach $WT HEAD >/dev/null 2>&1 || { echo "VERDICT worktree-failed"; exit 2; }
cleanup() { git -C /repo worktree remove --force $WT >/dev/null 2>&1; rm -rf $WT; }
trap cleanup EXIT
run_demo() {
  if [ -f $SD/demo_test.go ]; then
    pkg=$(grep -m1 '^package ' $SD/demo_test.go | awk '{print $2}')
    case $pkg in main) dir=. ;; *_test) dir=${pkg%_test} ;; *) dir=$pkg ;; esac
    cp $SD/demo_test.go $WT/$dir/zz_seed_demo_test.go
    tests=$(grep -o '^func Test[A-Za-z0-9_]*' $SD/demo_test.go | awk '{print $2}' | paste -sd'|')
    (cd $WT && timeout 300 go test -vet=off -count=1 -run "^($tests)\$" ./$dir/ > $WT/.demo.out 2>&1); rc=$?
    rm -f $WT/$dir/zz_seed_demo_test.go
    return $rc
  elif [ -f $SD/demo.sh ]; then
    (cd $WT && go build -o $WT/.borno-bin . ) || return 99
    rm -rf $WT/.demo && mkdir $WT/.demo && cp $SD/* $WT/.demo/ 2>/dev/null
    sed -e "s#/tmp/wt-C[0-9]*#$WT#g" -e "s#/tmp/seed[2345678]\?-C[0-9]*/borno-bin#$WT/.borno-bin#g" $SD/demo.sh > $WT/.demo/demo.sh
    (cd $WT/.demo && timeout 120 bash $WT/.demo/demo.sh > $WT/.demo.out 2>&1); return $?
  fi
  return 98
}
run_demo; without=$?
if ! git -C $WT apply --3way $SD/patch.diff 2>$WT/.apply.err; then echo "VERDICT patch-does-not-apply: $(head -2 $WT/.apply.err | tr '\n' ' ')"; exit 1; fi
git -C $WT diff HEAD > $WT/.rebased.diff
if ! (cd $WT && go build ./... 2>$WT/.build.err); then echo "VERDICT build-fails: $(head -3 $WT/.build.err | tr '\n' ' ')"; exit 1; fi
base=$(/verif/tools/baseline.sh $WT 2>&1 | tail -3 | tr '\n' ' ')
run_demo; with=$?
echo "demo-without=$without demo-with=$with baseline: $base"
if [ "$without" = "0" ] && [ "$with" != "0" ] && echo "$base" | grep -q ", 0 missing"; then
  echo "VERDICT confirmed"; cp $WT/.rebased.diff /tmp/rebased.$$.diff; echo "REBASED /tmp/rebased.$$.diff"; exit 0
fi
echo "VERDICT not-confirmed"; tail -5 $WT/.demo.out | cut -c1-200; exit 1
