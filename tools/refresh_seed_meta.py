#!/usr/bin/env python3
"""Re-computes, for every stored seeded change, which checks fire (current checker) and rewrites the detected_by /
first_reports fields of its meta.json.  Works on scratch exports of /repo HEAD; /repo is not touched."""
import json, os, re, subprocess, sys, glob, tempfile, shutil
props = subprocess.check_output(['/verif/bin/bornocheck', '-list']).decode().split()
only = sys.argv[1:]
for m in sorted(glob.glob('/verif/seeded/C*/meta.json')):
    d = os.path.dirname(m); name = os.path.basename(d)
    if only and name not in only: continue
    t = tempfile.mkdtemp(prefix='rsm.', dir='/tmp')
    try:
        tree = t + '/tree'; os.mkdir(tree)
        subprocess.check_call(f'git -C /repo archive HEAD | tar -x -C {tree}', shell=True)
        if subprocess.call(['git', 'apply', '--whitespace=nowarn', d + '/patch.diff'], cwd=tree) != 0:
            print(name, 'PATCH DOES NOT APPLY'); continue
        procs = {p: subprocess.Popen(['/verif/bin/bornocheck', '-property', p, '-repo', tree, '-scratch'], stdout=subprocess.PIPE, stderr=subprocess.STDOUT) for p in props}
        det = {}
        for p, pr in procs.items():
            out = pr.communicate()[0].decode(errors='replace')
            v = [re.sub(r'\s+', ' ', l)[:300] for l in out.splitlines() if l.startswith(('VIOLATED', 'UNDECIDED'))]
            if v: det[p] = v[:3]
        meta = json.load(open(m))
        meta['detected_by'] = sorted(det); meta['first_reports'] = det
        meta['detected_by_own_property_check'] = meta['breaks_property'] in det
        json.dump(meta, open(m, 'w'), indent=1, ensure_ascii=False)
        print(name, ' '.join(sorted(det)), '' if meta['detected_by_own_property_check'] else '  <-- OWN CHECK SILENT', flush=True)
    finally:
        shutil.rmtree(t, ignore_errors=True)
